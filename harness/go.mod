module verifharness

go 1.25.0

require github.com/luthersystems/elps v0.0.0

replace github.com/luthersystems/elps => /repo
