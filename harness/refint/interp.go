package refint

import (
	"bytes"
	"fmt"
	"sort"
	"strings"

	"verifharness/sx"
	"verifharness/tree"
)

// Env is one lexical frame.
type Env struct {
	vars   map[string]*V
	parent *Env
}

func NewEnv(parent *Env) *Env { return &Env{vars: map[string]*V{}, parent: parent} }

func (e *Env) lookup(name string) (*V, bool) {
	for ; e != nil; e = e.parent {
		if v, ok := e.vars[name]; ok {
			return v, true
		}
	}
	return nil, false
}

// Pkg is a package: a table of global bindings plus an export list.
type Pkg struct {
	Name    string
	Syms    map[string]*V
	Exports []string
	// Undetermined marks the stand-in for "the current package is not known" (see
	// Interp.RefusedPackageOpsUnjudged): nothing may be resolved or bound through it.
	Undetermined bool
}

// Probe is one effect-trace event of the model.
type Probe struct {
	Tag  string
	Vals []*tree.T
}

// Quirks switches the model from the documented semantics to a specific,
// named deviation of the pinned implementation.  A disagreement that is
// reconciled by exactly one quirk is reported under that quirk's key.
type Quirks struct {
	LetInitSeesLetScope bool // closures made in a let initialiser observe the let's own bindings
	LetStarSharedScope  bool // let* uses one scope: a closure made in an earlier initialiser observes later rebindings
}

type Interp struct {
	Pkgs      map[string]*Pkg
	Cur       *Pkg
	Root      *Env
	Trace     []Probe
	Stderr    bytes.Buffer
	Fuel      int
	CondStack []*Err
	Stack     []Frame
	Quirks    Quirks
	gensym    int
	funID     int
	errID     int
	// Hooks for host builtins of the properties (probe/panic/…)
	Captured []*Err
	// Callback is the function installed by (verif:set-callback fn), called by verif:hh-call.
	Callback *V
	// NoTRO makes the chain bookkeeping treat no call as tail-merged.
	form *V // form currently being evaluated (for error sites)
	// CallSigs, when non-nil, collects builtin-name(arg types) signatures.
	CallSigs map[string]bool
	evalEnv  *Env // lexical environment of the innermost call site (what `eval` sees)
	// Routes is set by InstallCallRoutes (routes.go): the model then also follows the
	// builtins that call a callback in an order it does not predict when the callback
	// fails whatever it is called with.
	Routes bool
	// RefusedPackageOpsUnjudged (named switch, off by default): the property says what
	// in-package / use-package do when they succeed, not what a REFUSED call leaves
	// behind.  With the switch on, the model does not follow the pinned implementation
	// there (which creates the package, imports the language package and switches before
	// it looks at the trailing arguments) but records the two unknowns and declines
	// (Unsure) whenever an evaluation would depend on them:
	//  - after an in-package refused for its trailing arguments the CURRENT PACKAGE is
	//    undetermined until a successful in-package or the end of the enclosing load /
	//    function body restores a known one;
	//  - a package name that only refused in-package calls have mentioned so far is in LIMBO
	//    (whether it exists is not judged) until a successful in-package enters it,
	//    which then - by the property - yields a package with the language exports and
	//    nothing else.
	RefusedPackageOpsUnjudged bool
	Limbo                     map[string]bool
	RefusedCalls              int // refused package operations the model went through
}

const LangPkg = "lisp"

// MaxModelDepth bounds the model's own recursion; deeper programs are not judged.
const MaxModelDepth = 1500

// New returns an interpreter with the lisp and user packages.
func New() *Interp {
	in := &Interp{Pkgs: map[string]*Pkg{}, Fuel: 600_000}
	lang := &Pkg{Name: LangPkg, Syms: map[string]*V{}}
	in.Pkgs[LangPkg] = lang
	in.Cur = lang
	installBuiltins(in, lang)
	in.newPackage("user")
	in.newPackage("verif")
	installProbes(in, in.Pkgs["verif"])
	in.Cur = in.Pkgs["user"]
	in.Root = NewEnv(nil)
	return in
}

func (in *Interp) newPackage(name string) *Pkg {
	p := &Pkg{Name: name, Syms: map[string]*V{}}
	in.Pkgs[name] = p
	in.usePackage(p, in.Pkgs[LangPkg])
	return p
}

func (in *Interp) usePackage(dst, src *Pkg) {
	for _, s := range src.Exports {
		if v, ok := src.Syms[s]; ok {
			dst.Syms[s] = v
		}
	}
}

func (p *Pkg) export(names ...string) {
	for _, n := range names {
		found := false
		for _, e := range p.Exports {
			if e == n {
				found = true
			}
		}
		if !found {
			p.Exports = append(p.Exports, n)
		}
	}
}

// ---------------------------------------------------------------------------
// errors

func (in *Interp) mkerr(cond, class string, data ...*V) *Err {
	in.errID++
	e := &Err{Cond: cond, Data: data, ID: in.errID, Class: class}
	if in.form != nil {
		e.Site = in.form.Src
	}
	e.Stack = append([]Frame(nil), in.Stack...)
	return e
}

// errf is an error raised by the evaluator or a builtin: condition "error"
// with a message the model does not predict.
func (in *Interp) errf(class string) *Err {
	return in.mkerr("error", class, &V{K: KOpaque})
}

func (in *Interp) fuelErr() *Err { return &Err{Cond: "<model-fuel>", Fuel: true} }

func (in *Interp) unsure(why string) *Err {
	return &Err{Cond: "<model-unsure:" + why + ">", Unsure: true}
}

// ---------------------------------------------------------------------------
// symbol resolution

func (in *Interp) lookup(env *Env, name string, site *V) (*V, *Err) {
	if name == "true" {
		return vTrue, nil
	}
	if name == "false" {
		return vFalse, nil
	}
	ci := strings.IndexByte(name, ':')
	if ci < 0 {
		if v, ok := env.lookup(name); ok {
			return v, nil
		}
		if in.Cur.Undetermined {
			return nil, in.unsure("reference resolved in the package a refused in-package left current")
		}
		if v, ok := in.Cur.Syms[name]; ok {
			return v, nil
		}
		return nil, in.siteErr(site, "unbound")
	}
	if ci == 0 {
		return site, nil // keyword
	}
	ns, nm := name[:ci], name[ci+1:]
	if strings.IndexByte(nm, ':') >= 0 {
		return nil, in.siteErr(site, "illegal-symbol")
	}
	if in.Limbo[ns] {
		return nil, in.unsure("reference into a package only refused calls have named")
	}
	p := in.Pkgs[ns]
	if p == nil {
		return nil, in.siteErr(site, "unknown-package")
	}
	if nm == "true" {
		return vTrue, nil
	}
	if nm == "false" {
		return vFalse, nil
	}
	if v, ok := p.Syms[nm]; ok {
		return v, nil
	}
	return nil, in.siteErr(site, "unbound")
}

func (in *Interp) siteErr(site *V, class string) *Err {
	old := in.form
	if site != nil {
		in.form = site
	}
	e := in.errf(class)
	in.form = old
	return e
}

// putGlobal implements `set`'s binding rule.
func (in *Interp) putGlobal(name string, v *V) *Err {
	parts := strings.Split(name, ":")
	if v.K == KFun && v.Fn.Builtin == nil && v.Fn.Special == nil {
		if v.Fn.Bound == nil {
			v.Fn.Bound = map[string]bool{}
		}
		v.Fn.Bound[localName(name)] = true
	}
	switch len(parts) {
	case 1:
		if name == "true" || name == "false" {
			return in.errf("rebind-constant")
		}
		if in.Cur.Undetermined {
			return in.unsure("binding made in the package a refused in-package left current")
		}
		in.Cur.Syms[name] = v
		return nil
	case 2:
		if parts[0] == "" {
			return in.errf("assign-keyword")
		}
		if in.Limbo[parts[0]] {
			return in.unsure("binding made in a package only refused calls have named")
		}
		p := in.Pkgs[parts[0]]
		if p == nil {
			return in.errf("unknown-package")
		}
		if parts[1] == "true" || parts[1] == "false" {
			return in.errf("rebind-constant")
		}
		p.Syms[parts[1]] = v
		return nil
	}
	return in.errf("illegal-symbol")
}

// ---------------------------------------------------------------------------
// evaluation

// Eval evaluates a form in env.
func (in *Interp) Eval(env *Env, v *V) (*V, *Err) {
	in.Fuel--
	if in.Fuel < 0 {
		return nil, in.fuelErr()
	}
	saved := in.form
	in.form = v
	defer func() { in.form = saved }()
	if v.Q {
		return v, nil
	}
	switch v.K {
	case KSym:
		x, e := in.lookup(env, v.S, v)
		if e == nil && x.K == KFun && x.Fn.Builtin == nil && x.Fn.Special == nil {
			// a function value remembers the symbol it was fetched through
			c := *x
			c.Via = localName(v.S)
			return &c, nil
		}
		return x, e
	case KList:
		if len(v.L) == 0 {
			return Nil(), nil
		}
		return in.evalCall(env, v)
	case KQuote:
		// a quote wrapper whose own mark was taken off (by a macro call's shallow
		// unquote): evaluate what it wraps
		return in.Eval(env, v.L[0])
	default:
		return v, nil
	}
}

func (in *Interp) push(f Frame) { in.Stack = append(in.Stack, f) }
func (in *Interp) pop()         { in.Stack = in.Stack[:len(in.Stack)-1] }

func (in *Interp) evalCall(env *Env, form *V) (*V, *Err) {
	head, err := in.Eval(env, form.L[0])
	if err != nil {
		return nil, err
	}
	if head.K != KFun {
		in.form = form.L[0]
		return nil, in.errf("not-a-function")
	}
	fn := head.Fn
	name := fn.Name
	if form.L[0].K == KSym && fn.Kind == FnFunction && fn.Builtin == nil {
		// a function reached through a symbol is reported under that name
		name = localName(form.L[0].S)
	}
	switch fn.Kind {
	case FnSpecial:
		in.form = form
		in.push(Frame{Name: name, Site: form.Src, Kind: FnSpecial})
		r, e := fn.Special(in, env, form.L[1:], form)
		in.pop()
		return r, e
	case FnMacro:
		in.form = form
		in.push(Frame{Name: name, Site: form.Src, Kind: FnMacro})
		exp, e := in.expandMacro(env, fn, form.L[1:], form)
		in.pop()
		if e != nil {
			return nil, e
		}
		// forms the macro built without any position take the macro call site
		exp = stampSite(exp, form.Src, 0)
		return in.Eval(env, unquoteShallow(exp))
	}
	savedEnv := in.evalEnv
	in.evalEnv = env
	defer func() { in.evalEnv = savedEnv }()
	args := make([]*V, 0, len(form.L)-1)
	for _, a := range form.L[1:] {
		x, e := in.Eval(env, a)
		if e != nil {
			return nil, e
		}
		args = append(args, x)
	}
	in.form = form
	return in.Apply(head, args, form.Src, name)
}

func localName(s string) string {
	if i := strings.IndexByte(s, ':'); i > 0 {
		return s[i+1:]
	}
	return s
}

// Apply calls a regular function value with evaluated arguments.
func (in *Interp) Apply(f *V, args []*V, site *sx.N, name string) (*V, *Err) {
	in.Fuel--
	if in.Fuel < 0 {
		return nil, in.fuelErr()
	}
	if f.K != KFun || f.Fn.Kind != FnFunction {
		return nil, in.errf("not-a-regular-function")
	}
	fn := f.Fn
	if name == "" {
		name = fn.Name
	}
	if name == "" && len(fn.Bound) == 0 {
		name = f.Via // unnamed and never bound globally: known by the symbol it came through
	}
	in.push(Frame{Name: name, Site: site, Kind: FnFunction, Anon: fn.Name == "" && name == "", Fn: fn})
	defer in.pop()
	if len(in.Stack) > MaxModelDepth {
		return nil, in.unsure("recursion deeper than the model follows")
	}
	if fn.Builtin != nil {
		if len(args) < fn.MinArgs || (fn.MaxArgs >= 0 && len(args) > fn.MaxArgs) {
			return nil, in.errf("arity")
		}
		if in.CallSigs != nil && len(in.CallSigs) < 4000 {
			var sb strings.Builder
			sb.WriteString(fn.Name)
			sb.WriteByte('(')
			for i, a := range args {
				if i > 0 {
					sb.WriteByte(',')
				}
				if i >= 4 {
					sb.WriteString("…")
					break
				}
				sb.WriteString(a.ToTree().TypeClass())
			}
			sb.WriteByte(')')
			in.CallSigs[sb.String()] = true
		}
		return fn.Builtin(in, args)
	}
	fenv := NewEnv(fn.Env)
	if e := in.bindParams(fn, fenv, args); e != nil {
		return nil, e
	}
	return in.runBody(fn, fenv)
}

func (in *Interp) runBody(fn *Fun, fenv *Env) (*V, *Err) {
	outer := in.Cur
	if p := in.Pkgs[fn.Pkg]; p != nil && p != outer {
		in.Cur = p
		defer func() { in.Cur = outer }()
	}
	var r *V = Nil()
	for _, b := range fn.Body {
		x, e := in.Eval(fenv, b)
		if e != nil {
			return nil, e
		}
		r = x
	}
	return r, nil
}

// bindParams binds formals to arguments exactly as docs/lang.md describes:
// required in order, then &optional (nil when missing), then &rest (a list of
// what is left) or &key (unordered keyword/value pairs, nil when missing).
func (in *Interp) bindParams(fn *Fun, fenv *Env, args []*V) *Err {
	ps := fn.Params
	ai := 0
	put := func(name string, v *V) { fenv.vars[name] = v }
	for pi := 0; pi < len(ps); {
		p := ps[pi]
		pi++
		switch {
		case p.S == "&key":
			if pi >= len(ps) {
				return in.errf("bad-formals")
			}
			rest := args[ai:]
			if len(rest)%2 != 0 {
				return in.errf("arity-key-odd")
			}
			given := map[string]*V{}
			var order []string
			for i := 0; i < len(rest); i += 2 {
				k := rest[i]
				if k.K != KSym || !strings.HasPrefix(k.S, ":") {
					return in.errf("arity-key-notkeyword")
				}
				given[k.S[1:]] = rest[i+1]
				order = append(order, k.S[1:])
			}
			ai = len(args)
			for _, kp := range ps[pi:] {
				if strings.HasPrefix(kp.S, "&") {
					return in.errf("bad-formals")
				}
				if v, ok := given[kp.S]; ok {
					put(kp.S, v)
					delete(given, kp.S)
				} else {
					put(kp.S, Nil())
				}
			}
			if len(given) > 0 {
				return in.errf("arity-key-unknown")
			}
			pi = len(ps)
		case p.S == "&optional":
			if pi >= len(ps) {
				return in.errf("bad-formals")
			}
			for pi < len(ps) && !strings.HasPrefix(ps[pi].S, "&") {
				if ai < len(args) {
					put(ps[pi].S, args[ai])
					ai++
				} else {
					put(ps[pi].S, Nil())
				}
				pi++
			}
		case p.S == "&rest":
			if len(ps)-pi != 1 || strings.HasPrefix(ps[pi].S, "&") {
				return in.errf("bad-formals")
			}
			put(ps[pi].S, QList(append([]*V(nil), args[ai:]...)))
			ai = len(args)
			pi = len(ps)
		case strings.HasPrefix(p.S, "&"):
			return in.errf("bad-formals")
		default:
			if ai >= len(args) {
				return in.errf("arity")
			}
			put(p.S, args[ai])
			ai++
		}
	}
	if ai < len(args) {
		return in.errf("arity")
	}
	return nil
}

// mkLambda builds a closure over env.
func (in *Interp) mkLambda(env *Env, formals *V, body []*V, kind FunKind) (*V, *Err) {
	if formals.K != KList {
		return nil, in.errf("formals-not-list")
	}
	in.funID++
	if in.Cur.Undetermined {
		return nil, in.unsure("function made in the package a refused in-package left current")
	}
	return &V{K: KFun, Fn: &Fun{Kind: kind, Params: formals.L, Body: body, Env: env, Pkg: in.Cur.Name, ID: in.funID}}, nil
}

// expandMacro runs a macro function on unevaluated argument forms.
func (in *Interp) expandMacro(env *Env, fn *Fun, args []*V, form *V) (*V, *Err) {
	if fn.Special != nil { // builtin macro implemented directly
		return fn.Special(in, env, args, form)
	}
	fenv := NewEnv(fn.Env)
	if e := in.bindParams(fn, fenv, args); e != nil {
		return nil, e
	}
	return in.runBody(fn, fenv)
}

// LoadForms evaluates top-level forms like a Load* entry point: in order,
// stopping at the first error, restoring the current package afterwards.
func (in *Interp) LoadForms(forms []*sx.N) (*V, *Err) {
	saved := in.Cur
	defer func() { in.Cur = saved }()
	var r *V = Nil()
	for _, f := range forms {
		in.Stack = in.Stack[:0]
		x, e := in.Eval(in.Root, FromSX(f))
		if e != nil {
			return nil, e
		}
		r = x
	}
	return r, nil
}

// TraceString renders the effect trace.
func (in *Interp) TraceString() string {
	var sb strings.Builder
	for i, p := range in.Trace {
		if i > 0 {
			sb.WriteByte('|')
		}
		sb.WriteString(p.Tag)
		sb.WriteByte(':')
		for j, v := range p.Vals {
			if j > 0 {
				sb.WriteByte(' ')
			}
			sb.WriteString(v.String())
		}
	}
	return sb.String()
}

func (e *Err) String() string {
	if e == nil {
		return "<no error>"
	}
	s := "ERR(" + e.Cond + ")"
	if e.Panic {
		s += "[host-panic]"
	}
	if e.Class != "" {
		s += "{" + e.Class + "}"
	}
	return s
}

var _ = fmt.Sprint

// stampSite gives every node of an expansion that has no position the macro call
// site ("a form a macro built without any position takes the macro call site").
// It is the FORM of this expansion that takes the call site: a position-less value
// that also lives elsewhere (a generated symbol held in a global and spliced into
// several expansions) stays what it was, so the next expansion it is spliced into
// takes ITS call site.  Hence copy-on-stamp: the nodes on the way to a stamped node
// are copied, everything else is shared.
func stampSite(v *V, site *sx.N, depth int) *V {
	if v == nil || site == nil || depth > 200 || v == vNil || v == vTrue || v == vFalse {
		return v
	}
	var kids []*V
	if v.K == KList || v.K == KQuote {
		for i, c := range v.L {
			if n := stampSite(c, site, depth+1); n != c {
				if kids == nil {
					kids = append([]*V(nil), v.L...)
				}
				kids[i] = n
			}
		}
	}
	stamp := v.Src == nil && v.K != KFun && v.K != KVec && v.K != KMap && v.K != KBytes
	if !stamp && kids == nil {
		return v
	}
	c := *v
	if stamp {
		c.Src = site
	}
	if kids != nil {
		c.L = kids
	}
	return &c
}

// Signature describes one function of the modelled language package.
type Signature struct {
	Name     string
	Kind     FunKind
	Min, Max int
}

// Signatures lists the functions, operators and macros the model implements.
func Signatures() []Signature {
	in := New()
	var out []Signature
	for name, v := range in.Pkgs[LangPkg].Syms {
		if v.K == KFun {
			out = append(out, Signature{Name: name, Kind: v.Fn.Kind, Min: v.Fn.MinArgs, Max: v.Fn.MaxArgs})
		}
	}
	sort.Slice(out, func(i, j int) bool { return out[i].Name < out[j].Name })
	return out
}
