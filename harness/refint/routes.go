package refint

import "fmt"

// InstallCallRoutes adds what the "how is the raising callee reached" dimension of
// the condition-handling check needs and the other users of the model do not: the
// function-building builtins compose / flip / curry-function, the callback-calling
// builtins insert-sorted / search-sorted / macroexpand(-1) as far as a callback that
// fails whatever it is called with decides their outcome (everything else about them
// is declined), and the model side of the host probes rt.AddCallRouteProbes registers.
// It is opt-in so that Signatures() -- and with it what other checks generate -- is
// unchanged.
//
// The one rule all of them encode (property C06, docs/lang.md "Error handling"): an
// error travels outward unchanged through every call that does not handle it, and an
// error made by recovering a host panic is that kind of error however the failing host
// code was reached.
func (in *Interp) InstallCallRoutes() {
	in.Routes = true
	lang := in.Pkgs[LangPkg]
	regular := func(in *Interp, f *V) (*V, *Err) {
		g, e := in.callable(f)
		if e != nil {
			return nil, e
		}
		if g.Fn.Kind != FnFunction {
			return nil, in.errf("not-a-regular-function")
		}
		return g, nil
	}
	// docstring: "Returns a new function that applies g to its arguments, then applies
	// f to the result. (compose f g) is equivalent to (lambda (...) (f (g ...)))."
	defFn(lang, "compose", 2, 2, func(in *Interp, a []*V) (*V, *Err) {
		f, e := regular(in, a[0])
		if e != nil {
			return nil, e
		}
		g, e := regular(in, a[1])
		if e != nil {
			return nil, e
		}
		if g.Fn.Builtin == nil {
			for _, p := range g.Fn.Params {
				if p.S == "&optional" || p.S == "&key" {
					return nil, in.unsure("compose over optional/keyword formals")
				}
			}
		}
		in.funID++
		return &V{K: KFun, Fn: &Fun{Kind: FnFunction, MinArgs: 0, MaxArgs: -1, Pkg: in.Cur.Name, ID: in.funID,
			Builtin: func(in *Interp, args []*V) (*V, *Err) {
				r, e := in.call(g, args...)
				if e != nil {
					return nil, e
				}
				return in.call(f, r)
			}}}, nil
	})
	// docstring: "Returns a new function that calls binary-function with its two
	// arguments swapped."; docs/func.md: "the input function must have two parameters".
	defFn(lang, "flip", 1, 1, func(in *Interp, a []*V) (*V, *Err) {
		f, e := regular(in, a[0])
		if e != nil {
			return nil, e
		}
		if f.Fn.Builtin == nil {
			for _, p := range f.Fn.Params {
				if len(p.S) > 0 && p.S[0] == '&' {
					return nil, in.unsure("flip over a function with optional/rest/keyword formals")
				}
			}
			if len(f.Fn.Params) < 2 {
				return nil, in.errf("flip-not-binary")
			}
		} else if f.Fn.MaxArgs >= 0 && f.Fn.MaxArgs < 2 {
			if f.Fn.MaxArgs != f.Fn.MinArgs {
				return nil, in.unsure("flip over a builtin with optional formals")
			}
			return nil, in.errf("flip-not-binary")
		}
		in.funID++
		return &V{K: KFun, Fn: &Fun{Kind: FnFunction, MinArgs: 2, MaxArgs: 2, Pkg: in.Cur.Name, ID: in.funID,
			Builtin: func(in *Interp, args []*V) (*V, *Err) { return in.call(f, args[1], args[0]) }}}, nil
	})
	// docstring: "Returns a new function that calls fun with args prepended to any
	// additional arguments supplied at call time. Equivalent to
	// (lambda (&rest rest) (apply fun arg1 arg2 ... rest))."
	defMacro(lang, "curry-function", 1, -1, func(in *Interp, env *Env, a []*V, form *V) (*V, *Err) {
		in.gensym++
		rest := &V{K: KSym, S: fmt.Sprintf("<curry-rest %d>", in.gensym)}
		call := []*V{{K: KSym, S: "lisp:apply"}}
		call = append(call, a...)
		call = append(call, rest)
		return &V{K: KList, Src: form.Src, L: []*V{
			{K: KSym, S: "lisp:lambda"},
			{K: KList, L: []*V{{K: KSym, S: "&rest"}, rest}},
			{K: KList, Src: form.Src, L: call},
		}}, nil
	})
	// insert-sorted / search-sorted: the position is found by binary search, so which
	// elements the predicate sees is the algorithm's business; a non-empty search calls
	// it at least once, which decides the outcome when it fails whatever it is given.
	defFn(lang, "insert-sorted", 4, 5, func(in *Interp, a []*V) (*V, *Err) {
		if a[0].K != KSym || !a[1].IsSeq() || a[2].K != KFun || len(a) > 4 {
			return nil, in.unsure("insert-sorted is followed only for a failing predicate")
		}
		if _, ok := seqSpec(a[0]); !ok {
			return nil, in.unsure("insert-sorted type specifier")
		}
		p := a[2]
		if p.Fn.Kind == FnFunction && p.Fn.AlwaysRaises && len(a[1].Elems()) >= 1 {
			return in.call(p, a[3], a[1].Elems()[0])
		}
		return nil, in.unsure("insert-sorted is followed only for a failing predicate")
	})
	defFn(lang, "search-sorted", 2, 2, func(in *Interp, a []*V) (*V, *Err) {
		if a[0].K != KInt {
			return nil, in.unsure("search-sorted is followed only for a failing predicate")
		}
		p, e := in.callable(a[1])
		if e != nil {
			return nil, in.unsure("search-sorted function designator")
		}
		if p.Fn.Kind == FnFunction && p.Fn.AlwaysRaises && a[0].I >= 1 {
			return in.call(p, Int(0))
		}
		return nil, in.unsure("search-sorted is followed only for a failing predicate")
	})
	// docstrings: "Performs a single macro expansion step on quoted-form ...",
	// "Repeatedly expands the macro call in quoted-form ...".  Only the failing
	// expansion is followed: the failure of the macro is the outcome.
	expand := func(in *Interp, a []*V) (*V, *Err) {
		f := a[0]
		if f.K != KList || len(f.L) == 0 || f.L[0].K != KSym {
			return nil, in.unsure("macroexpand is followed only for a failing expansion")
		}
		env := in.callerEnv()
		m, e := in.lookup(env, f.L[0].S, f.L[0])
		if e != nil || m.K != KFun || m.Fn.Kind != FnMacro || !m.Fn.AlwaysRaises {
			return nil, in.unsure("macroexpand is followed only for a failing expansion")
		}
		_, e = in.expandMacro(env, m.Fn, f.L[1:], f)
		if e == nil {
			return nil, in.unsure("macroexpand is followed only for a failing expansion")
		}
		return nil, e
	}
	defFn(lang, "macroexpand", 1, 1, expand)
	defFn(lang, "macroexpand-1", 1, 1, expand)
	for _, p := range in.Pkgs {
		if p != lang {
			in.usePackage(p, lang)
		}
	}

	// --- host probes (rt.AddCallRouteProbes) ------------------------------------------
	vp := in.Pkgs["verif"]
	hostPanic := func(in *Interp) *Err {
		e := in.mkerr("internal-panic", "host-panic", &V{K: KOpaque})
		e.Panic = true
		return e
	}
	defFn(vp, "nilderef", 0, -1, func(in *Interp, a []*V) (*V, *Err) { return nil, hostPanic(in) })
	defFn(vp, "panic-error", 0, -1, func(in *Interp, a []*V) (*V, *Err) { return nil, hostPanic(in) })
	via := func(in *Interp, a []*V) (*V, *Err) {
		if a[0].K != KFun {
			return nil, in.mkerr("via-not-a-function", "host-fail", a[0])
		}
		return in.call(a[0], a[1:]...)
	}
	defFn(vp, "via-funcall", 1, -1, via)
	defFn(vp, "via-funcall-ctx", 1, -1, via)
	defFn(vp, "via-eval-sexpr", 1, 1, func(in *Interp, a []*V) (*V, *Err) {
		if a[0].K != KList || len(a[0].L) == 0 {
			return nil, in.mkerr("via-not-a-call-form", "host-fail", a[0])
		}
		return in.Eval(in.callerEnv(), unquoteShallow(a[0]))
	})
	defFn(vp, "via-special-op", 1, -1, func(in *Interp, a []*V) (*V, *Err) {
		if a[0].K != KFun || a[0].Fn.Kind != FnSpecial {
			return nil, in.mkerr("via-not-a-special-op", "host-fail", a[0])
		}
		if !a[0].Fn.AlwaysRaises {
			return nil, in.unsure("a special operator invoked by the host on data is followed only when it fails")
		}
		return a[0].Fn.Special(in, in.callerEnv(), a[1:], in.form)
	})
	defFn(vp, "via-macro-call", 1, -1, func(in *Interp, a []*V) (*V, *Err) {
		if a[0].K != KFun || a[0].Fn.Kind != FnMacro {
			return nil, in.mkerr("via-not-a-macro", "host-fail", a[0])
		}
		if !a[0].Fn.AlwaysRaises {
			return nil, in.unsure("a macro expanded by the host on data is followed only when it fails")
		}
		_, e := in.expandMacro(in.callerEnv(), a[0].Fn, a[1:], in.form)
		if e == nil {
			return nil, in.unsure("a macro expanded by the host on data is followed only when it fails")
		}
		return nil, e
	})
	defSpecial(vp, "op-panic", 0, -1, func(in *Interp, env *Env, a []*V, form *V) (*V, *Err) { return nil, hostPanic(in) })
	defSpecial(vp, "op-eval", 0, -1, func(in *Interp, env *Env, a []*V, form *V) (*V, *Err) { return in.progn(env, a) })
	defMacro(vp, "m-panic", 0, -1, func(in *Interp, env *Env, a []*V, form *V) (*V, *Err) { return nil, hostPanic(in) })
	defMacro(vp, "m-id", 1, 1, func(in *Interp, env *Env, a []*V, form *V) (*V, *Err) { return a[0], nil })
	for _, n := range []string{"nilderef", "panic-error", "via-funcall", "via-funcall-ctx", "via-eval-sexpr", "via-special-op", "via-macro-call", "op-panic", "op-eval", "m-panic", "m-id"} {
		vp.Syms[n].Fn.Pkg = "verif"
	}
	for _, n := range []string{"panic", "nilderef", "panic-error", "op-panic", "m-panic"} {
		vp.Syms[n].Fn.AlwaysRaises = true
	}
}
