package refint

import (
	"strings"

	"verifharness/tree"
)

type specialFn = func(in *Interp, env *Env, args []*V, form *V) (*V, *Err)

func defSpecial(p *Pkg, name string, min, max int, f specialFn) {
	wrapped := func(in *Interp, env *Env, args []*V, form *V) (*V, *Err) {
		if len(args) < min || (max >= 0 && len(args) > max) {
			return nil, in.errf("arity")
		}
		return f(in, env, args, form)
	}
	p.Syms[name] = &V{K: KFun, Fn: &Fun{Name: name, Kind: FnSpecial, Special: wrapped, Pkg: LangPkg, MinArgs: min, MaxArgs: max}}
	p.export(name)
}

func defMacro(p *Pkg, name string, min, max int, f specialFn) {
	wrapped := func(in *Interp, env *Env, args []*V, form *V) (*V, *Err) {
		if len(args) < min || (max >= 0 && len(args) > max) {
			return nil, in.errf("arity")
		}
		return f(in, env, args, form)
	}
	p.Syms[name] = &V{K: KFun, Fn: &Fun{Name: name, Kind: FnMacro, Special: wrapped, Pkg: LangPkg, MinArgs: min, MaxArgs: max}}
	p.export(name)
}

func (in *Interp) progn(env *Env, forms []*V) (*V, *Err) {
	var r *V = Nil()
	for _, f := range forms {
		x, e := in.Eval(env, f)
		if e != nil {
			return nil, e
		}
		r = x
	}
	return r, nil
}

func installSpecials(in *Interp, p *Pkg) {
	defSpecial(p, "quote", 1, 1, func(in *Interp, env *Env, a []*V, form *V) (*V, *Err) {
		return quote(a[0]), nil
	})
	defSpecial(p, "progn", 0, -1, func(in *Interp, env *Env, a []*V, form *V) (*V, *Err) {
		return in.progn(env, a)
	})
	defSpecial(p, "if", 3, 3, func(in *Interp, env *Env, a []*V, form *V) (*V, *Err) {
		c, e := in.Eval(env, a[0])
		if e != nil {
			return nil, e
		}
		if c.Truthy() {
			return in.Eval(env, a[1])
		}
		return in.Eval(env, a[2])
	})
	defSpecial(p, "cond", 0, -1, func(in *Interp, env *Env, a []*V, form *V) (*V, *Err) {
		for i, br := range a {
			if br.K != KList || len(br.L) == 0 {
				return nil, in.errf("cond-syntax")
			}
			var ok bool
			if br.L[0].K == KSym && br.L[0].S == "else" {
				if i != len(a)-1 {
					return nil, in.errf("cond-syntax")
				}
				ok = true
			} else {
				t, e := in.Eval(env, br.L[0])
				if e != nil {
					return nil, e
				}
				ok = t.Truthy()
			}
			if ok {
				return in.progn(env, br.L[1:])
			}
		}
		return Nil(), nil
	})
	defSpecial(p, "and", 0, -1, func(in *Interp, env *Env, a []*V, form *V) (*V, *Err) {
		var r *V = vTrue
		for _, f := range a {
			x, e := in.Eval(env, f)
			if e != nil {
				return nil, e
			}
			r = x
			if !x.Truthy() {
				return x, nil
			}
		}
		return r, nil
	})
	defSpecial(p, "or", 0, -1, func(in *Interp, env *Env, a []*V, form *V) (*V, *Err) {
		var r *V = vFalse
		for _, f := range a {
			x, e := in.Eval(env, f)
			if e != nil {
				return nil, e
			}
			r = x
			if x.Truthy() {
				return x, nil
			}
		}
		return r, nil
	})
	defSpecial(p, "lambda", 1, -1, func(in *Interp, env *Env, a []*V, form *V) (*V, *Err) {
		if a[0].K == KList {
			for _, s := range a[0].L {
				if s.K != KSym {
					return nil, in.errf("formals-non-symbol")
				}
			}
		}
		return in.mkLambda(env, a[0], a[1:], FnFunction)
	})
	defSpecial(p, "function", 1, 1, func(in *Interp, env *Env, a []*V, form *V) (*V, *Err) {
		if a[0].K == KFun {
			return a[0], nil
		}
		if a[0].K != KSym {
			return nil, in.errf("function-not-symbol")
		}
		v, e := in.lookup(env, a[0].S, a[0])
		if e != nil {
			return nil, e
		}
		if v.K != KFun {
			return nil, in.errf("function-not-bound-to-function")
		}
		if v.Fn.Builtin == nil && v.Fn.Special == nil {
			c := *v
			c.Via = localName(a[0].S)
			return &c, nil
		}
		return v, nil
	})
	letLike := func(seq bool) specialFn {
		return func(in *Interp, env *Env, a []*V, form *V) (*V, *Err) {
			bl := a[0]
			if bl.K != KList {
				return nil, in.errf("let-syntax")
			}
			if !seq {
				scope := NewEnv(env)
				initEnv := env
				if in.Quirks.LetInitSeesLetScope {
					initEnv = scope
				}
				vals := make([]*V, len(bl.L))
				for i, b := range bl.L {
					if b.K != KList || len(b.L) != 2 {
						return nil, in.errf("let-syntax")
					}
					x, e := in.Eval(initEnv, b.L[1])
					if e != nil {
						return nil, e
					}
					vals[i] = x
				}
				for i, b := range bl.L {
					if e := in.bindLocal(scope, b.L[0], vals[i]); e != nil {
						return nil, e
					}
				}
				return in.progn(scope, a[1:])
			}
			scope := NewEnv(env)
			for _, b := range bl.L {
				if b.K != KList || len(b.L) != 2 {
					return nil, in.errf("let-syntax")
				}
				x, e := in.Eval(scope, b.L[1])
				if e != nil {
					return nil, e
				}
				if !in.Quirks.LetStarSharedScope {
					// each binding opens a scope of its own, so closures
					// made by earlier initialisers keep what they saw
					scope = NewEnv(scope)
				}
				if e := in.bindLocal(scope, b.L[0], x); e != nil {
					return nil, e
				}
			}
			return in.progn(scope, a[1:])
		}
	}
	defSpecial(p, "let", 1, -1, letLike(false))
	defSpecial(p, "let*", 1, -1, letLike(true))
	fletLike := func(kind string) specialFn {
		return func(in *Interp, env *Env, a []*V, form *V) (*V, *Err) {
			bl := a[0]
			if bl.K != KList {
				return nil, in.errf("flet-syntax")
			}
			scope := NewEnv(env)
			for _, b := range bl.L {
				if b.K != KList || len(b.L) < 2 {
					return nil, in.errf("flet-syntax")
				}
				defEnv := env
				if kind == "labels" {
					defEnv = scope
				}
				fk := FnFunction
				if kind == "macrolet" {
					fk = FnMacro
				}
				f, e := in.mkLambda(defEnv, b.L[1], b.L[2:], fk)
				if e != nil {
					return nil, e
				}
				if fk == FnMacro && b.L[0].K == KSym {
					// a local macro is known by the name its binding gives it
					// (the frame of its expansion carries that name)
					f.Fn.Name = localName(b.L[0].S)
				}
				if e := in.bindLocal(scope, b.L[0], f); e != nil {
					return nil, e
				}
			}
			return in.progn(scope, a[1:])
		}
	}
	defSpecial(p, "flet", 1, -1, fletLike("flet"))
	defSpecial(p, "labels", 1, -1, fletLike("labels"))
	defSpecial(p, "macrolet", 1, -1, fletLike("macrolet"))
	defSpecial(p, "set!", 2, 2, func(in *Interp, env *Env, a []*V, form *V) (*V, *Err) {
		if a[0].K != KSym {
			return nil, in.errf("set!-not-symbol")
		}
		x, e := in.Eval(env, a[1])
		if e != nil {
			return nil, e
		}
		name := a[0].S
		in.form = a[0]
		if name == "true" || name == "false" {
			return nil, in.errf("rebind-constant")
		}
		for s := env; s != nil; s = s.parent {
			if _, ok := s.vars[name]; ok {
				s.vars[name] = x
				return Nil(), nil
			}
		}
		if in.Cur.Undetermined {
			return nil, in.unsure("set! resolved in the package a refused in-package left current")
		}
		if _, ok := in.Cur.Syms[name]; ok {
			in.Cur.Syms[name] = x
			return Nil(), nil
		}
		return nil, in.errf("set!-unbound")
	})
	defSpecial(p, "dotimes", 1, -1, func(in *Interp, env *Env, a []*V, form *V) (*V, *Err) {
		cs := a[0]
		if cs.K != KList || len(cs.L) < 2 || len(cs.L) > 3 || cs.L[0].K != KSym {
			return nil, in.errf("dotimes-syntax")
		}
		cnt, e := in.Eval(env, cs.L[1])
		if e != nil {
			return nil, e
		}
		if cnt.K != KInt {
			return nil, in.errf("dotimes-count-type")
		}
		// One binding for the whole loop, re-assigned each turn (the
		// reference does not promise a fresh binding per iteration).
		scope := NewEnv(env)
		n := int64(0)
		for i := int64(0); i < cnt.I; i++ {
			in.Fuel--
			if in.Fuel < 0 {
				return nil, in.fuelErr()
			}
			n++
			if e := in.bindLocal(scope, cs.L[0], Int(i)); e != nil {
				return nil, e
			}
			for _, b := range a[1:] {
				if _, e := in.Eval(scope, b); e != nil {
					return nil, e
				}
			}
		}
		if e := in.bindLocal(scope, cs.L[0], Int(n)); e != nil {
			return nil, e
		}
		if len(cs.L) == 3 {
			return in.Eval(scope, cs.L[2])
		}
		return Nil(), nil
	})
	thread := func(first bool) specialFn {
		return func(in *Interp, env *Env, a []*V, form *V) (*V, *Err) {
			for _, ex := range a[1:] {
				if ex.K != KList || ex.Q || len(ex.L) < 1 {
					return nil, in.errf("thread-syntax")
				}
			}
			cur := a[0] // a form, or (after the first step) an evaluated value
			if len(a) == 1 {
				return in.Eval(env, cur)
			}
			for i, ex := range a[1:] {
				// docs/lang.md: "The result of evaluating this expression is then
				// passed to the function defined in the third argument": the VALUE of
				// a step reaches the next step as it is.  The step is a form, so a
				// value that does not evaluate to itself (a symbol or an unquoted list
				// taken out of a quoted list) travels through a binding of its own.
				stepEnv, arg := env, cur
				if i > 0 && !selfEvaluating(cur) {
					stepEnv = NewEnv(env)
					stepEnv.vars["\x00threaded-value"] = cur
					arg = &V{K: KSym, S: "\x00threaded-value"}
				}
				var cells []*V
				if first {
					cells = append(cells, ex.L[0], arg)
					cells = append(cells, ex.L[1:]...)
				} else {
					cells = append(cells, ex.L...)
					cells = append(cells, arg)
				}
				x, e := in.Eval(stepEnv, &V{K: KList, L: cells, Src: ex.Src})
				if e != nil {
					return nil, e
				}
				cur = x
			}
			return cur, nil
		}
	}
	defSpecial(p, "thread-first", 1, -1, thread(true))
	defSpecial(p, "thread-last", 1, -1, thread(false))
	defSpecial(p, "assert", 1, -1, func(in *Interp, env *Env, a []*V, form *V) (*V, *Err) {
		if len(a) > 1 && a[1].K != KStr {
			return nil, in.errf("assert-format")
		}
		x, e := in.Eval(env, a[0])
		if e != nil {
			return nil, e
		}
		if x.Truthy() {
			return Nil(), nil
		}
		for _, f := range a[min(len(a), 2):] {
			if _, e := in.Eval(env, f); e != nil {
				return nil, e
			}
		}
		return nil, in.errf("assert-failed")
	})
	defSpecial(p, "ignore-errors", 0, -1, func(in *Interp, env *Env, a []*V, form *V) (*V, *Err) {
		var r *V = Nil()
		for _, f := range a {
			x, e := in.Eval(env, f)
			if e != nil {
				if e.Fuel || e.Unsure || e.Panic {
					return nil, e
				}
				e.Swallowed++
				return Nil(), nil
			}
			r = x
		}
		return r, nil
	})
	defSpecial(p, "handler-bind", 1, -1, func(in *Interp, env *Env, a []*V, form *V) (*V, *Err) {
		bl := a[0]
		if bl.K != KList {
			return nil, in.errf("handler-bind-syntax")
		}
		for _, b := range bl.L {
			if b.K != KList || len(b.L) != 2 || b.L[0].K != KSym {
				return nil, in.errf("handler-bind-syntax")
			}
		}
		var r *V = Nil()
		for _, f := range a[1:] {
			x, e := in.Eval(env, f)
			if e == nil {
				r = x
				continue
			}
			if e.Fuel || e.Unsure {
				return nil, e
			}
			for _, b := range bl.L {
				spec := b.L[0].S
				if spec != e.Cond && (spec != "condition" || e.Panic) {
					continue
				}
				h, he := in.Eval(env, b.L[1])
				if he != nil {
					return nil, he
				}
				if h.K != KFun {
					in.form = form
					return nil, in.errf("handler-not-function")
				}
				in.CondStack = append(in.CondStack, e)
				hargs := []*V{QSym(e.Cond)}
				hargs = append(hargs, e.Data...)
				in.form = form
				var hr *V
				var herr *Err
				switch h.Fn.Kind {
				case FnFunction:
					hr, herr = in.Apply(h, hargs, nil, "") // called by the operator on the program's behalf
				default:
					herr = in.unsure("special handler")
				}
				in.CondStack = in.CondStack[:len(in.CondStack)-1]
				return hr, herr
			}
			return nil, e
		}
		return r, nil
	})
	defSpecial(p, "quasiquote", 1, 1, func(in *Interp, env *Env, a []*V, form *V) (*V, *Err) {
		r, spliced, e := in.qq(env, a[0], 0)
		if e != nil {
			return nil, e
		}
		if spliced {
			return nil, in.errf("splice-at-top")
		}
		return quote(r), nil
	})
	defSpecial(p, "qualified-symbol", 1, 1, func(in *Interp, env *Env, a []*V, form *V) (*V, *Err) {
		if a[0].K != KSym {
			return nil, in.errf("qualified-symbol-type")
		}
		switch strings.Count(a[0].S, ":") {
		case 0:
			if in.Cur.Undetermined {
				return nil, in.unsure("qualified-symbol in the package a refused in-package left current")
			}
			return QSym(in.Cur.Name + ":" + a[0].S), nil
		case 1:
			if a[0].Q {
				return a[0], nil
			}
			return quote(a[0]), nil
		}
		return nil, in.errf("illegal-symbol")
	})

	// --- builtin macros -----------------------------------------------------
	def := func(kind FunKind) specialFn {
		return func(in *Interp, env *Env, a []*V, form *V) (*V, *Err) {
			if a[0].K != KSym {
				return nil, in.errf("defun-name")
			}
			f, e := in.mkLambda(env, a[1], a[2:], kind)
			if e != nil {
				return nil, e
			}
			f.Fn.Name = localName(a[0].S)
			// expansion: (lisp:progn (lisp:set 'name <fun>) ())
			return &V{K: KList, Src: form.Src, L: []*V{
				{K: KSym, S: "lisp:progn"},
				{K: KList, Src: form.Src, L: []*V{{K: KSym, S: "lisp:set"}, quote(a[0]), f}},
				Nil(),
			}}, nil
		}
	}
	defMacro(p, "defun", 2, -1, def(FnFunction))
	defMacro(p, "defmacro", 2, -1, def(FnMacro))

	// get-default (docstring in lisp/macro.go): "Looks up key in a sorted-map,
	// returning the associated value if found. If the key is not present,
	// evaluates and returns default. The default expression is only evaluated
	// when the key is missing (lazy evaluation)."  What decides is PRESENCE of
	// the key - not the nil-ness or truthiness of the stored value.  The
	// expansion is a call of a model-internal operator on the three argument
	// forms, evaluated at the call site; the reference is silent about a first
	// argument that is not a sorted-map and about unhashable keys (not judged).
	getDefault := &V{K: KFun, Fn: &Fun{Name: "get-default", Kind: FnSpecial, Pkg: LangPkg, MinArgs: 3, MaxArgs: 3,
		Special: func(in *Interp, env *Env, a []*V, form *V) (*V, *Err) {
			m, e := in.Eval(env, a[0])
			if e != nil {
				return nil, e
			}
			k, e := in.Eval(env, a[1])
			if e != nil {
				return nil, e
			}
			if m.K != KMap {
				return nil, in.unsure("get-default on a value that is not a sorted-map is not specified")
			}
			if k.K != KStr && k.K != KSym {
				return nil, in.unsure("get-default with a key that is neither string nor symbol is not specified")
			}
			if ent, ok := m.M.E[k.S]; ok {
				return ent.V, nil
			}
			return in.Eval(env, a[2])
		}}}
	defMacro(p, "get-default", 3, 3, func(in *Interp, env *Env, a []*V, form *V) (*V, *Err) {
		return &V{K: KList, Src: form.Src, L: []*V{getDefault, a[0], a[1], a[2]}}, nil
	})
}

// bindLocal implements LEnv.Put's rule for a local binding.
func (in *Interp) bindLocal(scope *Env, k *V, v *V) *Err {
	if k.K != KSym {
		return in.errf("bind-non-symbol")
	}
	if k.S == "true" || k.S == "false" {
		return in.errf("rebind-constant")
	}
	scope.vars[k.S] = v
	return nil
}

// qq builds a quasiquote template: everything literal, except (unquote x)
// inserts the value of x and (unquote-splicing x) splices a list's elements.
// Quote marks written around an unquote are re-applied to the inserted value.
func (in *Interp) qq(env *Env, t *V, depth int) (*V, bool, *Err) {
	// peel quote levels
	inner := t
	levels := 0
	if inner.Q {
		levels++
	}
	for inner.K == KQuote {
		levels++
		inner = inner.L[0]
	}
	if inner.K != KList {
		return t, false, nil
	}
	head := ""
	if len(inner.L) > 0 && inner.L[0].K == KSym {
		head = inner.L[0].S
	}
	requote := func(x *V) *V {
		for i := 0; i < levels; i++ {
			x = quote(x)
		}
		return x
	}
	switch head {
	case "unquote":
		if len(inner.L) != 2 {
			in.form = inner
			return nil, false, in.errf("unquote-arity")
		}
		x, e := in.Eval(env, inner.L[1])
		if e != nil {
			return nil, false, e
		}
		return requote(x), false, nil
	case "unquote-splicing":
		if len(inner.L) != 2 {
			in.form = inner
			return nil, false, in.errf("unquote-arity")
		}
		if depth == 0 || levels > 0 {
			in.form = inner
			return nil, false, in.errf("splice-context")
		}
		x, e := in.Eval(env, inner.L[1])
		if e != nil {
			return nil, false, e
		}
		return x, true, nil
	}
	var out []*V
	for _, c := range inner.L {
		x, sp, e := in.qq(env, c, depth+1)
		if e != nil {
			return nil, false, e
		}
		if sp {
			if x.K != KList {
				return nil, false, in.errf("splice-non-list")
			}
			out = append(out, x.L...)
		} else {
			out = append(out, x)
		}
	}
	return requote(&V{K: KList, L: out, Src: inner.Src}), false, nil
}

func installProbes(in *Interp, p *Pkg) {
	defFn(p, "probe", 1, -1, func(in *Interp, a []*V) (*V, *Err) {
		tag := a[0].S
		pr := Probe{Tag: tag}
		for _, v := range a[1:] {
			pr.Vals = append(pr.Vals, v.ToTree())
		}
		in.Trace = append(in.Trace, pr)
		if len(a) > 1 {
			return a[len(a)-1], nil
		}
		return Nil(), nil
	})
	defFn(p, "panic", 0, -1, func(in *Interp, a []*V) (*V, *Err) {
		e := in.mkerr("internal-panic", "host-panic", &V{K: KOpaque})
		e.Panic = true
		return nil, e
	})
	defFn(p, "nilmap", 0, 0, func(in *Interp, a []*V) (*V, *Err) {
		e := in.mkerr("internal-panic", "host-panic", &V{K: KOpaque})
		e.Panic = true
		return nil, e
	})
	defFn(p, "capture", 0, 0, func(in *Interp, a []*V) (*V, *Err) {
		if n := len(in.CondStack); n > 0 {
			in.Captured = append(in.Captured, in.CondStack[n-1])
		} else {
			in.Captured = append(in.Captured, nil)
		}
		return Nil(), nil
	})
	defFn(p, "fail", 1, -1, func(in *Interp, a []*V) (*V, *Err) {
		return nil, in.mkerr(a[0].S, "host-fail", a[1:]...)
	})
	// host functions bound directly as handlers (rt: verif:hh-*)
	hostHandler := func(in *Interp, tag string, a []*V) {
		if n := len(in.CondStack); n > 0 {
			in.Captured = append(in.Captured, in.CondStack[n-1])
		} else {
			in.Captured = append(in.Captured, nil)
		}
		pr := Probe{Tag: tag}
		for _, v := range a {
			pr.Vals = append(pr.Vals, v.ToTree())
		}
		in.Trace = append(in.Trace, pr)
	}
	defFn(p, "hh-value", 1, -1, func(in *Interp, a []*V) (*V, *Err) {
		hostHandler(in, "hh-value", a)
		return QList(append([]*V{{K: KSym, S: "host-handled"}}, a...)), nil
	})
	defFn(p, "hh-fail", 1, -1, func(in *Interp, a []*V) (*V, *Err) {
		hostHandler(in, "hh-fail", a)
		return nil, in.mkerr("hh-failed", "host-fail", a[0])
	})
	defFn(p, "hh-panic", 1, -1, func(in *Interp, a []*V) (*V, *Err) {
		hostHandler(in, "hh-panic", a)
		e := in.mkerr("internal-panic", "host-panic", &V{K: KOpaque})
		e.Panic = true
		return nil, e
	})
	defFn(p, "hh-call", 1, -1, func(in *Interp, a []*V) (*V, *Err) {
		hostHandler(in, "hh-call", a)
		if in.Callback == nil {
			return nil, in.mkerr("hh-no-callback", "host-fail", a[0])
		}
		return in.call(in.Callback, a...)
	})
	defFn(p, "set-callback", 1, 1, func(in *Interp, a []*V) (*V, *Err) {
		if a[0].K != KFun {
			return nil, in.mkerr("set-callback-not-a-function", "host-fail", a[0])
		}
		in.Callback = a[0]
		return Nil(), nil
	})
	for _, n := range []string{"probe", "panic", "nilmap", "capture", "fail", "hh-value", "hh-fail", "hh-panic", "hh-call", "set-callback"} {
		p.Syms[n].Fn.Pkg = "verif"
	}
}

var _ = tree.Opaque
