package refint

// InstallMacroexpand adds macroexpand / macroexpand-1 for macros defined in
// lisp (defmacro, macrolet) to the model.  Opt-in (C07, overlapping expansions)
// so that Signatures() and what the other users of the model are told about
// macroexpand stay what they were.
//
// What is encoded (docstrings in lisp/builtins.go, property C07):
//
//	macroexpand-1  "Performs a single macro expansion step on quoted-form and
//	               returns the result."
//	macroexpand    "Repeatedly expands the macro call in quoted-form until the
//	               head is no longer a macro.  Returns the fully expanded form."
//
// One step = what evaluating the call does before it evaluates the expansion:
// the head symbol is resolved where macroexpand is called (a macrolet macro
// is a macro there), the macro function runs IN A FRAME OF ITS OWN on the
// unevaluated argument forms, and the form it returns - as data, i.e. quoted
// - is the result.  A form whose head is not a symbol bound to a macro is
// returned as it is.  Macros of the language itself (defun, get-default ...)
// are implemented directly by the model and have no expansion to show:
// declined.
func (in *Interp) InstallMacroexpand() {
	lang := in.Pkgs[LangPkg]
	// step: (expansion, true) when f is a call of a lisp-defined macro
	step := func(in *Interp, f *V) (*V, bool, *Err) {
		if f.K != KList || len(f.L) == 0 || f.L[0].K != KSym {
			return f, false, nil
		}
		env := in.callerEnv()
		m, e := in.lookup(env, f.L[0].S, f.L[0])
		if e != nil || m.K != KFun || m.Fn.Kind != FnMacro {
			return f, false, nil
		}
		if m.Fn.Special != nil {
			return nil, false, in.unsure("macroexpand of a macro the model implements directly")
		}
		name := m.Fn.Name
		if name == "" {
			name = localName(f.L[0].S)
		}
		in.push(Frame{Name: name, Site: f.Src, Kind: FnMacro})
		exp, e := in.expandMacro(env, m.Fn, f.L[1:], f)
		in.pop()
		if e != nil {
			return nil, true, e
		}
		return quote(unquoteShallow(stampSite(exp, f.Src, 0))), true, nil
	}
	defFn(lang, "macroexpand-1", 1, 1, func(in *Interp, a []*V) (*V, *Err) {
		if a[0].K != KList {
			return nil, in.errf("macroexpand-not-a-list")
		}
		r, _, e := step(in, a[0])
		return r, e
	})
	defFn(lang, "macroexpand", 1, 1, func(in *Interp, a []*V) (*V, *Err) {
		f := a[0]
		if f.K != KList {
			return nil, in.errf("macroexpand-not-a-list")
		}
		for n := 0; ; n++ {
			if n > 60 {
				// the real bound is a configuration value the model does not know
				return nil, in.unsure("macroexpand chain longer than the model follows")
			}
			r, expanded, e := step(in, f)
			if e != nil {
				return nil, e
			}
			if !expanded || r.K != KList {
				return r, nil
			}
			f = r
		}
	})
	for _, p := range in.Pkgs {
		if p != lang {
			in.usePackage(p, lang)
		}
	}
}
