package refint

import (
	"fmt"
	"math"
	"sort"
	"strconv"
	"strings"
)

type builtinFn = func(in *Interp, a []*V) (*V, *Err)

func defFn(p *Pkg, name string, min, max int, f builtinFn) {
	p.Syms[name] = &V{K: KFun, Fn: &Fun{Name: name, Kind: FnFunction, Builtin: f, MinArgs: min, MaxArgs: max, Pkg: p.Name}}
	p.export(name)
}

var extraFunctions []func(p *Pkg)

func installBuiltins(in *Interp, p *Pkg) {
	installSpecials(in, p)
	installFunctions(in, p)
	for _, f := range extraFunctions {
		f(p)
	}
}

// typeSpec decodes a 'list / 'vector type specifier.
func seqSpec(v *V) (string, bool) {
	if v.K != KSym {
		return "", false
	}
	if v.S == "list" || v.S == "vector" {
		return v.S, true
	}
	return v.S, false
}

func mkSeq(kind string, xs []*V) *V {
	if kind == "vector" {
		return NewVec(xs)
	}
	return QList(xs)
}

// callable resolves a function designator the way the higher-order builtins
// do: a function value, or a symbol looked up in the current package only.
func (in *Interp) callable(f *V) (*V, *Err) {
	if f.K == KSym {
		v, e := in.lookupGlobal(f)
		if e != nil {
			return nil, e
		}
		if v.K != KFun {
			return nil, in.errf("symbol-not-function")
		}
		return v, nil
	}
	if f.K != KFun {
		return nil, in.errf("not-a-function-arg")
	}
	return f, nil
}

func (in *Interp) lookupGlobal(s *V) (*V, *Err) {
	name := s.S
	if name == "true" {
		return vTrue, nil
	}
	if name == "false" {
		return vFalse, nil
	}
	switch strings.Count(name, ":") {
	case 0:
		if in.Cur.Undetermined {
			return nil, in.unsure("reference resolved in the package a refused in-package left current")
		}
		if v, ok := in.Cur.Syms[name]; ok {
			return v, nil
		}
		return nil, in.errf("unbound")
	case 1:
		i := strings.IndexByte(name, ':')
		if i == 0 {
			return s, nil
		}
		if in.Limbo[name[:i]] {
			return nil, in.unsure("reference into a package only refused calls have named")
		}
		p := in.Pkgs[name[:i]]
		if p == nil {
			return nil, in.errf("unknown-package")
		}
		if v, ok := p.Syms[name[i+1:]]; ok {
			return v, nil
		}
		return nil, in.errf("unbound")
	}
	return nil, in.errf("illegal-symbol")
}

func (in *Interp) call(f *V, args ...*V) (*V, *Err) {
	if f.Fn.Kind != FnFunction {
		return nil, in.errf("not-a-regular-function")
	}
	var site = in.form
	_ = site
	return in.Apply(f, args, nil, "")
}

func cmpNum(a, b *V) int {
	if a.K == KInt && b.K == KInt {
		switch {
		case a.I < b.I:
			return -1
		case a.I > b.I:
			return 1
		}
		return 0
	}
	x, y := a.AsFloat(), b.AsFloat()
	switch {
	case x < y:
		return -1
	case x > y:
		return 1
	case x == y:
		return 0
	}
	return 2 // unordered (NaN)
}

func typeName(v *V) string {
	switch v.K {
	case KInt:
		return "int"
	case KFloat:
		return "float"
	case KStr:
		return "string"
	case KSym:
		return "symbol"
	case KList:
		return "list"
	case KVec:
		return "array"
	case KMap:
		return "sorted-map"
	case KBytes:
		return "bytes"
	case KFun:
		return "function"
	case KQuote:
		return "quote"
	case KTagged:
		return v.S
	case KErr:
		return "error"
	}
	return "?"
}

func installFunctions(in *Interp, p *Pkg) {
	pred := func(name string, f func(v *V) bool) {
		defFn(p, name, 1, 1, func(in *Interp, a []*V) (*V, *Err) { return Bool(f(a[0])), nil })
	}
	pred("not", func(v *V) bool { return !v.Truthy() })
	pred("true?", func(v *V) bool { return v.Truthy() })
	pred("nil?", func(v *V) bool { return v.IsNil() })
	pred("list?", func(v *V) bool { return v.K == KList })
	pred("sorted-map?", func(v *V) bool { return v.K == KMap })
	pred("array?", func(v *V) bool { return v.K == KVec })
	pred("vector?", func(v *V) bool { return v.K == KVec })
	pred("bool?", func(v *V) bool { return v.K == KSym && (v.S == "true" || v.S == "false") })
	pred("number?", func(v *V) bool { return v.IsNum() })
	pred("int?", func(v *V) bool { return v.K == KInt })
	pred("float?", func(v *V) bool { return v.K == KFloat })
	pred("symbol?", func(v *V) bool { return v.K == KSym })
	pred("string?", func(v *V) bool { return v.K == KStr })
	pred("bytes?", func(v *V) bool { return v.K == KBytes })
	pred("tagged-value?", func(v *V) bool { return v.K == KTagged })

	defFn(p, "identity", 1, 1, func(in *Interp, a []*V) (*V, *Err) { return a[0], nil })
	defFn(p, "type", 1, 1, func(in *Interp, a []*V) (*V, *Err) { return QSym(typeName(a[0])), nil })
	defFn(p, "equal?", 2, 2, func(in *Interp, a []*V) (*V, *Err) {
		if a[0].K == KBytes || a[1].K == KBytes || a[0].K == KFun || a[1].K == KFun {
			return nil, in.unsure("equal? on bytes/functions is not specified")
		}
		return Bool(equalV(a[0], a[1])), nil
	})

	// --- set / gensym / eval -------------------------------------------------
	defFn(p, "set", 2, -1, func(in *Interp, a []*V) (*V, *Err) {
		if a[0].K != KSym {
			return nil, in.errf("set-not-symbol")
		}
		if e := in.putGlobal(a[0].S, a[1]); e != nil {
			return nil, e
		}
		for _, d := range a[2:] {
			if d.K != KStr {
				return nil, in.errf("set-docstring")
			}
		}
		return in.lookupGlobal(a[0])
	})
	defFn(p, "gensym", 0, 0, func(in *Interp, a []*V) (*V, *Err) {
		in.gensym++
		return &V{K: KSym, S: fmt.Sprintf("<gensym %d>", in.gensym)}, nil
	})
	defFn(p, "eval", 1, 1, func(in *Interp, a []*V) (*V, *Err) {
		if a[0].K == KQuote {
			return a[0].L[0], nil
		}
		return in.Eval(in.callerEnv(), unquoteShallow(a[0]))
	})
	defFn(p, "funcall", 1, -1, func(in *Interp, a []*V) (*V, *Err) {
		f, e := in.callable(a[0])
		if e != nil {
			return nil, e
		}
		return in.call(f, a[1:]...)
	})
	apply := func(in *Interp, a []*V) (*V, *Err) {
		if len(a) < 2 {
			return nil, in.errf("apply-no-list")
		}
		tail := a[len(a)-1]
		f, e := in.callable(a[0])
		if e != nil {
			return nil, e
		}
		if tail.K != KList {
			return nil, in.errf("apply-tail-not-list")
		}
		args := append(append([]*V(nil), a[1:len(a)-1]...), tail.L...)
		return in.call(f, args...)
	}
	defFn(p, "apply", 1, -1, apply)
	defFn(p, "unpack", 2, 2, apply)

	// --- errors ----------------------------------------------------------------
	defFn(p, "error", 1, -1, func(in *Interp, a []*V) (*V, *Err) {
		if a[0].K != KSym {
			return nil, in.errf("error-condition-type")
		}
		return nil, in.mkerr(a[0].S, "user", a[1:]...)
	})
	defFn(p, "rethrow", 0, 0, func(in *Interp, a []*V) (*V, *Err) {
		// docs/lang.md, "Rethrowing Errors": re-raises the current error being
		// handled - the one the innermost RUNNING handler was called with (a
		// handler-bind that ended while that handler ran no longer counts) - with
		// its original stack trace and condition data
		if n := len(in.CondStack); n > 0 {
			in.CondStack[n-1].Rethrown++
			return nil, in.CondStack[n-1]
		}
		return nil, in.errf("rethrow-outside-handler")
	})

	// --- lists and vectors ------------------------------------------------------
	defFn(p, "list", 0, -1, func(in *Interp, a []*V) (*V, *Err) { return QList(append([]*V(nil), a...)), nil })
	defFn(p, "vector", 0, -1, func(in *Interp, a []*V) (*V, *Err) { return NewVec(append([]*V(nil), a...)), nil })
	defFn(p, "car", 1, 1, func(in *Interp, a []*V) (*V, *Err) {
		if a[0].K != KList {
			return nil, in.errf("type")
		}
		if len(a[0].L) == 0 {
			return Nil(), nil
		}
		return a[0].L[0], nil
	})
	defFn(p, "cdr", 1, 1, func(in *Interp, a []*V) (*V, *Err) {
		if a[0].K != KList {
			return nil, in.errf("type")
		}
		if len(a[0].L) < 2 {
			return Nil(), nil
		}
		return QList(a[0].L[1:]), nil
	})
	defFn(p, "rest", 1, 1, func(in *Interp, a []*V) (*V, *Err) {
		if !a[0].IsSeq() {
			return nil, in.errf("type")
		}
		if len(a[0].Elems()) < 2 {
			return Nil(), nil
		}
		return QList(a[0].Elems()[1:]), nil
	})
	defFn(p, "first", 1, 1, func(in *Interp, a []*V) (*V, *Err) {
		if !a[0].IsSeq() {
			return nil, in.errf("type")
		}
		if len(a[0].Elems()) == 0 {
			return Nil(), nil
		}
		return a[0].Elems()[0], nil
	})
	defFn(p, "second", 1, 1, func(in *Interp, a []*V) (*V, *Err) {
		if !a[0].IsSeq() {
			return nil, in.errf("type")
		}
		if len(a[0].Elems()) < 2 {
			return Nil(), nil
		}
		return a[0].Elems()[1], nil
	})
	defFn(p, "nth", 2, 2, func(in *Interp, a []*V) (*V, *Err) {
		if !a[0].IsSeq() || a[1].K != KInt || a[1].I < 0 {
			return nil, in.errf("type")
		}
		if int64(len(a[0].Elems())) <= a[1].I {
			return Nil(), nil
		}
		return a[0].Elems()[a[1].I], nil
	})
	// aref: "Returns the element at the given indices in an array."  Modelled for
	// a vector and one index inside it; everything else (other array shapes, an
	// index outside the vector, ill-typed arguments) is not specified: not judged.
	defFn(p, "aref", 1, -1, func(in *Interp, a []*V) (*V, *Err) {
		if len(a) != 2 || a[0].K != KVec || a[1].K != KInt || a[1].I < 0 || a[1].I >= int64(len(a[0].Vec.E)) {
			return nil, in.unsure("aref outside a vector's range or on another shape is not specified")
		}
		return a[0].Vec.E[a[1].I], nil
	})
	defFn(p, "cons", 2, 2, func(in *Interp, a []*V) (*V, *Err) {
		if a[1].K != KList {
			return nil, in.errf("type")
		}
		return QList(append([]*V{a[0]}, a[1].L...)), nil
	})
	seqLen := func(v *V) int {
		switch v.K {
		case KStr:
			return len(v.S)
		case KBytes:
			return len(v.B.B)
		case KList:
			return len(v.L)
		case KVec:
			return len(v.Vec.E)
		case KMap:
			return len(v.M.E)
		}
		return -1
	}
	defFn(p, "length", 1, 1, func(in *Interp, a []*V) (*V, *Err) {
		n := seqLen(a[0])
		if n < 0 {
			return nil, in.errf("type")
		}
		return Int(int64(n)), nil
	})
	defFn(p, "empty?", 1, 1, func(in *Interp, a []*V) (*V, *Err) {
		n := seqLen(a[0])
		if n < 0 {
			return nil, in.errf("type")
		}
		return Bool(n == 0), nil
	})
	defFn(p, "append", 2, -1, func(in *Interp, a []*V) (*V, *Err) {
		if a[0].K != KSym {
			return nil, in.errf("type")
		}
		if a[0].S == "bytes" {
			return nil, in.unsure("append 'bytes")
		}
		if !a[1].IsSeq() {
			return nil, in.errf("type")
		}
		kind, ok := seqSpec(a[0])
		if !ok {
			return nil, in.errf("typespec")
		}
		return mkSeq(kind, append(append([]*V(nil), a[1].Elems()...), a[2:]...)), nil
	})
	defFn(p, "append!", 1, -1, func(in *Interp, a []*V) (*V, *Err) {
		if a[0].K == KBytes {
			return nil, in.unsure("append! bytes")
		}
		if a[0].K != KVec {
			return nil, in.errf("type")
		}
		a[0].Vec.E = append(a[0].Vec.E, a[1:]...)
		return a[0], nil
	})
	defFn(p, "concat", 1, -1, func(in *Interp, a []*V) (*V, *Err) {
		if a[0].K != KSym {
			return nil, in.errf("type")
		}
		switch a[0].S {
		case "list", "vector":
			var out []*V
			for _, s := range a[1:] {
				if !s.IsSeq() {
					return nil, in.errf("type")
				}
			}
			for _, s := range a[1:] {
				out = append(out, s.Elems()...)
			}
			if len(out) == 0 && a[0].S == "list" {
				return Nil(), nil
			}
			return mkSeq(a[0].S, out), nil
		case "string":
			var sb strings.Builder
			for _, s := range a[1:] {
				if s.K != KStr {
					return nil, in.unsure("concat 'string of non-strings")
				}
				sb.WriteString(s.S)
			}
			return Str(sb.String()), nil
		case "bytes":
			return nil, in.unsure("concat 'bytes")
		}
		return nil, in.errf("typespec")
	})
	defFn(p, "reverse", 2, 2, func(in *Interp, a []*V) (*V, *Err) {
		if a[0].K != KSym || !a[1].IsSeq() {
			return nil, in.errf("type")
		}
		kind, ok := seqSpec(a[0])
		if !ok {
			return nil, in.errf("typespec")
		}
		src := a[1].Elems()
		out := make([]*V, len(src))
		for i, x := range src {
			out[len(src)-1-i] = x
		}
		return mkSeq(kind, out), nil
	})
	defFn(p, "slice", 4, 4, func(in *Interp, a []*V) (*V, *Err) {
		if a[0].K != KSym {
			return nil, in.errf("type")
		}
		src := a[1]
		if !src.IsSeq() && src.K != KStr && src.K != KBytes {
			return nil, in.errf("type")
		}
		if a[2].K != KInt || a[3].K != KInt {
			return nil, in.errf("type")
		}
		n := int64(seqLen(src))
		i, j := a[2].I, a[3].I
		if i < 0 || i > n || j < 0 || j > n || i > j {
			return nil, in.errf("range")
		}
		if src.K == KBytes {
			return nil, in.unsure("slice of bytes")
		}
		if src.K == KStr {
			if a[0].S == "string" {
				return Str(src.S[i:j]), nil
			}
			return nil, in.unsure("slice string to non-string")
		}
		switch a[0].S {
		case "list":
			return QList(src.Elems()[i:j]), nil
		case "vector":
			return NewVec(append([]*V(nil), src.Elems()[i:j]...)), nil
		case "string", "bytes":
			return nil, in.unsure("slice seq to string/bytes")
		}
		return nil, in.errf("typespec")
	})
	defFn(p, "insert-index", 4, 4, func(in *Interp, a []*V) (*V, *Err) {
		if a[0].K != KSym || !a[1].IsSeq() || a[2].K != KInt {
			return nil, in.errf("type")
		}
		src := a[1].Elems()
		if a[2].I < 0 || a[2].I > int64(len(src)) {
			return nil, in.errf("range")
		}
		kind, ok := seqSpec(a[0])
		if !ok {
			return nil, in.errf("typespec")
		}
		out := make([]*V, 0, len(src)+1)
		out = append(out, src[:a[2].I]...)
		out = append(out, a[3])
		out = append(out, src[a[2].I:]...)
		return mkSeq(kind, out), nil
	})
	defFn(p, "make-sequence", 2, 3, func(in *Interp, a []*V) (*V, *Err) {
		if !a[0].IsNum() || !a[1].IsNum() {
			return nil, in.errf("type")
		}
		var step *V
		if len(a) == 2 {
			if a[0].K == KInt {
				step = Int(1)
			} else {
				step = Float(1)
			}
		} else {
			step = a[2]
			if !step.IsNum() {
				return nil, in.errf("type")
			}
			if !(cmpNum(Float(0), step) == -1) {
				return nil, in.errf("step-not-positive")
			}
		}
		var out []*V
		x := a[0]
		for cmpNum(x, a[1]) == -1 {
			in.Fuel--
			if in.Fuel < 0 {
				return nil, in.fuelErr()
			}
			out = append(out, x)
			if x.K == KInt && step.K == KInt {
				x = Int(x.I + step.I)
			} else {
				x = Float(x.AsFloat() + step.AsFloat())
			}
		}
		return QList(out), nil
	})

	// --- higher-order -------------------------------------------------------------
	defFn(p, "map", 3, 3, func(in *Interp, a []*V) (*V, *Err) {
		nilRet := a[0].IsNil()
		if !nilRet && a[0].K != KSym {
			return nil, in.errf("type")
		}
		f, e := in.callable(a[1])
		if e != nil {
			return nil, e
		}
		if f.Fn.Kind != FnFunction {
			return nil, in.errf("not-a-regular-function")
		}
		if !a[2].IsSeq() {
			return nil, in.errf("type")
		}
		kind := ""
		if !nilRet {
			k, ok := seqSpec(a[0])
			if !ok {
				return nil, in.errf("typespec")
			}
			kind = k
		}
		src := append([]*V(nil), a[2].Elems()...)
		out := make([]*V, 0, len(src))
		for _, x := range src {
			r, e := in.call(f, x)
			if e != nil {
				return nil, e
			}
			out = append(out, r)
		}
		if nilRet {
			return Nil(), nil
		}
		return mkSeq(kind, out), nil
	})
	fold := func(left bool) builtinFn {
		return func(in *Interp, a []*V) (*V, *Err) {
			f, e := in.callable(a[0])
			if e != nil {
				return nil, e
			}
			if f.Fn.Kind != FnFunction {
				return nil, in.errf("not-a-regular-function")
			}
			if !a[2].IsSeq() {
				return nil, in.errf("type")
			}
			acc := a[1]
			src := append([]*V(nil), a[2].Elems()...)
			if left {
				for _, x := range src {
					acc, e = in.call(f, acc, x)
					if e != nil {
						return nil, e
					}
				}
			} else {
				for i := len(src) - 1; i >= 0; i-- {
					acc, e = in.call(f, src[i], acc)
					if e != nil {
						return nil, e
					}
				}
			}
			return acc, nil
		}
	}
	defFn(p, "foldl", 3, 3, fold(true))
	defFn(p, "foldr", 3, 3, fold(false))
	filter := func(keep bool) builtinFn {
		return func(in *Interp, a []*V) (*V, *Err) {
			if a[0].K != KSym {
				return nil, in.errf("type")
			}
			f, e := in.callable(a[1])
			if e != nil {
				return nil, e
			}
			if f.Fn.Kind != FnFunction {
				return nil, in.errf("not-a-regular-function")
			}
			if !a[2].IsSeq() {
				return nil, in.errf("type")
			}
			kind, ok := seqSpec(a[0])
			if !ok {
				return nil, in.errf("typespec")
			}
			var out []*V
			for _, x := range append([]*V(nil), a[2].Elems()...) {
				r, e := in.call(f, x)
				if e != nil {
					return nil, e
				}
				if r.Truthy() == keep {
					out = append(out, x)
				}
			}
			return mkSeq(kind, out), nil
		}
	}
	defFn(p, "select", 3, 3, filter(true))
	defFn(p, "reject", 3, 3, filter(false))
	defFn(p, "all?", 2, 2, func(in *Interp, a []*V) (*V, *Err) {
		f, e := in.callable(a[0])
		if e != nil {
			return nil, e
		}
		if !a[1].IsSeq() {
			return nil, in.errf("type")
		}
		if f.Fn.Kind != FnFunction {
			return nil, in.unsure("all? with a special function")
		}
		for _, x := range append([]*V(nil), a[1].Elems()...) {
			r, e := in.call(f, x)
			if e != nil {
				return nil, e
			}
			if !r.Truthy() {
				return vFalse, nil
			}
		}
		return vTrue, nil
	})
	defFn(p, "any?", 2, 2, func(in *Interp, a []*V) (*V, *Err) {
		f, e := in.callable(a[0])
		if e != nil {
			return nil, e
		}
		if !a[1].IsSeq() {
			return nil, in.errf("type")
		}
		if f.Fn.Kind != FnFunction {
			return nil, in.unsure("any? with a special function")
		}
		for _, x := range append([]*V(nil), a[1].Elems()...) {
			r, e := in.call(f, x)
			if e != nil {
				return nil, e
			}
			if r.Truthy() {
				return r, nil
			}
		}
		return vFalse, nil
	})
	defFn(p, "zip", 2, -1, func(in *Interp, a []*V) (*V, *Err) {
		if a[0].K != KSym {
			return nil, in.errf("type")
		}
		n := -1
		for _, s := range a[1:] {
			if !s.IsSeq() {
				return nil, in.errf("type")
			}
			if n < 0 || len(s.Elems()) < n {
				n = len(s.Elems())
			}
		}
		kind, ok := seqSpec(a[0])
		if !ok {
			return nil, in.errf("typespec")
		}
		out := make([]*V, n)
		for i := range out {
			row := make([]*V, len(a)-1)
			for j, s := range a[1:] {
				row[j] = s.Elems()[i]
			}
			out[i] = mkSeq(kind, row)
		}
		return mkSeq(kind, out), nil
	})
	defFn(p, "stable-sort", 2, 3, func(in *Interp, a []*V) (*V, *Err) {
		less, e := in.callable(a[0])
		if e != nil {
			return nil, e
		}
		if !a[1].IsSeq() {
			return nil, in.errf("type")
		}
		var key *V
		if len(a) == 3 {
			key, e = in.callable(a[2])
			if e != nil {
				return nil, e
			}
		}
		// The order and number of predicate calls is the sorting algorithm's
		// business, so the model only follows pure builtin predicates.
		pure := func(f *V) bool {
			return f == nil || (f.Fn.Builtin != nil && f.Fn.Kind == FnFunction && pureBuiltins[f.Fn.Name])
		}
		if in.Routes && key == nil && less.Fn.AlwaysRaises && less.Fn.Kind == FnFunction && len(a[1].Elems()) >= 2 {
			// sorting two or more elements compares at least one pair
			return in.call(less, a[1].Elems()[0], a[1].Elems()[1])
		}
		if !pure(less) || !pure(key) {
			return nil, in.unsureSort(less, key, a[1])
		}
		elems := a[1].Elems()
		keys := make([]*V, len(elems))
		for i, x := range elems {
			keys[i] = x
			if key != nil {
				k, e := in.call(key, x)
				if e != nil {
					return nil, in.unsure("stable-sort with a failing key function")
				}
				keys[i] = k
			}
		}
		lessFn := func(x, y *V) (bool, *Err) {
			r, e := in.call(less, x, y)
			if e != nil {
				return false, e
			}
			return r.Truthy(), nil
		}
		// probe every pair once: a predicate that rejects some pair makes the sort fail
		for i := range keys {
			for j := range keys {
				if i != j {
					if _, e := lessFn(keys[i], keys[j]); e != nil {
						return nil, in.unsure("stable-sort with a failing predicate")
					}
				}
			}
		}
		idx := make([]int, len(elems))
		for i := range idx {
			idx[i] = i
		}
		sort.SliceStable(idx, func(x, y int) bool { b, _ := lessFn(keys[idx[x]], keys[idx[y]]); return b })
		out := make([]*V, len(elems))
		for i, k := range idx {
			out[i] = elems[k]
		}
		if a[1].K == KVec {
			a[1].Vec.E = out
			return a[1], nil
		}
		if a[1].Src != nil { // a program literal is never modified: a fresh list comes back
			return QList(out), nil
		}
		copy(a[1].L, out) // in place: visible through every reference
		return a[1], nil
	})

	// --- maps ------------------------------------------------------------------
	keyOf := func(in *Interp, k *V) (string, bool, *Err) {
		if k.K == KStr {
			return k.S, false, nil
		}
		if k.K == KSym {
			return k.S, true, nil
		}
		return "", false, in.errf("unhashable")
	}
	mapSet := func(m *Map, k string, sym bool, v *V) {
		if e, ok := m.E[k]; ok {
			e.V = v
			if sym {
				e.Sym = true
			}
			return
		}
		m.E[k] = &MapEnt{V: v, Sym: sym}
	}
	copyMap := func(m *Map) *Map {
		c := &Map{E: map[string]*MapEnt{}}
		for k, e := range m.E {
			c.E[k] = &MapEnt{V: e.V, Sym: e.Sym}
		}
		return c
	}
	defFn(p, "sorted-map", 0, -1, func(in *Interp, a []*V) (*V, *Err) {
		if len(a)%2 != 0 {
			return nil, in.errf("odd-args")
		}
		m := NewMap()
		for i := 0; i < len(a); i += 2 {
			k, sym, e := keyOf(in, a[i])
			if e != nil {
				return nil, e
			}
			mapSet(m.M, k, sym, a[i+1])
		}
		return m, nil
	})
	defFn(p, "assoc", 3, 3, func(in *Interp, a []*V) (*V, *Err) {
		var m *Map
		if a[0].IsNil() {
			m = &Map{E: map[string]*MapEnt{}}
		} else if a[0].K != KMap {
			return nil, in.errf("type")
		} else {
			m = copyMap(a[0].M)
		}
		k, sym, e := keyOf(in, a[1])
		if e != nil {
			return nil, e
		}
		mapSet(m, k, sym, a[2])
		return &V{K: KMap, M: m}, nil
	})
	defFn(p, "assoc!", 3, 3, func(in *Interp, a []*V) (*V, *Err) {
		if a[0].K != KMap {
			return nil, in.errf("type")
		}
		k, sym, e := keyOf(in, a[1])
		if e != nil {
			return nil, e
		}
		mapSet(a[0].M, k, sym, a[2])
		return a[0], nil
	})
	defFn(p, "dissoc", 2, 2, func(in *Interp, a []*V) (*V, *Err) {
		var m *Map
		if a[0].IsNil() {
			m = &Map{E: map[string]*MapEnt{}}
		} else if a[0].K != KMap {
			return nil, in.errf("type")
		} else {
			m = copyMap(a[0].M)
		}
		k, _, e := keyOf(in, a[1])
		if e != nil {
			return nil, e
		}
		delete(m.E, k)
		return &V{K: KMap, M: m}, nil
	})
	defFn(p, "dissoc!", 2, 2, func(in *Interp, a []*V) (*V, *Err) {
		if a[0].K != KMap {
			return nil, in.errf("type")
		}
		k, _, e := keyOf(in, a[1])
		if e != nil {
			return nil, e
		}
		delete(a[0].M.E, k)
		return a[0], nil
	})
	defFn(p, "get", 2, 2, func(in *Interp, a []*V) (*V, *Err) {
		if a[0].IsNil() {
			return Nil(), nil
		}
		if a[0].K != KMap {
			return nil, in.errf("type")
		}
		k, _, e := keyOf(in, a[1])
		if e != nil {
			return nil, in.unsure("get with unhashable key returns an error value")
		}
		if ent, ok := a[0].M.E[k]; ok {
			return ent.V, nil
		}
		return Nil(), nil
	})
	defFn(p, "key?", 2, 2, func(in *Interp, a []*V) (*V, *Err) {
		if a[0].K != KMap {
			return nil, in.errf("type")
		}
		k, _, e := keyOf(in, a[1])
		if e != nil {
			return nil, e
		}
		_, ok := a[0].M.E[k]
		return Bool(ok), nil
	})
	defFn(p, "keys", 1, 1, func(in *Interp, a []*V) (*V, *Err) {
		if a[0].K != KMap {
			return nil, in.errf("type")
		}
		ks := make([]string, 0, len(a[0].M.E))
		for k := range a[0].M.E {
			ks = append(ks, k)
		}
		sort.Strings(ks)
		out := make([]*V, len(ks))
		for i, k := range ks {
			if a[0].M.E[k].Sym {
				out[i] = QSym(k)
			} else {
				out[i] = Str(k)
			}
		}
		return QList(out), nil
	})

	// --- numbers -----------------------------------------------------------------
	allNum := func(in *Interp, a []*V) *Err {
		for _, x := range a {
			if !x.IsNum() {
				return in.errf("type")
			}
		}
		return nil
	}
	allInt := func(a []*V) bool {
		for _, x := range a {
			if x.K != KInt {
				return false
			}
		}
		return true
	}
	defFn(p, "+", 0, -1, func(in *Interp, a []*V) (*V, *Err) {
		if e := allNum(in, a); e != nil {
			return nil, e
		}
		if allInt(a) {
			s := int64(0)
			for _, x := range a {
				s += x.I
			}
			return Int(s), nil
		}
		s := 0.0
		for _, x := range a {
			s += x.AsFloat()
		}
		return Float(s), nil
	})
	defFn(p, "-", 0, -1, func(in *Interp, a []*V) (*V, *Err) {
		if e := allNum(in, a); e != nil {
			return nil, e
		}
		if len(a) == 0 {
			return Int(0), nil
		}
		if len(a) == 1 {
			if a[0].K == KInt {
				return Int(-a[0].I), nil
			}
			return Float(-a[0].F), nil
		}
		if allInt(a) {
			s := a[0].I
			for _, x := range a[1:] {
				s -= x.I
			}
			return Int(s), nil
		}
		s := a[0].AsFloat()
		for _, x := range a[1:] {
			s -= x.AsFloat()
		}
		return Float(s), nil
	})
	defFn(p, "*", 0, -1, func(in *Interp, a []*V) (*V, *Err) {
		if e := allNum(in, a); e != nil {
			return nil, e
		}
		// integer product until the first float, then floating point
		acc := int64(1)
		for i, x := range a {
			if x.K != KInt {
				f := float64(acc)
				for _, y := range a[i:] {
					f *= y.AsFloat()
				}
				return Float(f), nil
			}
			acc *= x.I
		}
		return Int(acc), nil
	})
	defFn(p, "/", 0, -1, func(in *Interp, a []*V) (*V, *Err) {
		if len(a) == 0 {
			return Int(1), nil
		}
		if e := allNum(in, a); e != nil {
			return nil, e
		}
		x := a[0]
		ys := a[1:]
		if len(a) == 1 {
			x, ys = Int(1), a
		}
		// exact integer division while every step divides evenly
		for i, y := range ys {
			if x.K == KInt && y.K == KInt && y.I != 0 && x.I%y.I == 0 {
				if x.I == math.MinInt64 && y.I == -1 {
					x = Int(math.MinInt64)
				} else {
					x = Int(x.I / y.I)
				}
				continue
			}
			f := x.AsFloat()
			for _, z := range ys[i:] {
				f /= z.AsFloat()
			}
			return Float(f), nil
		}
		return x, nil
	})
	defFn(p, "mod", 2, 2, func(in *Interp, a []*V) (*V, *Err) {
		if a[0].K != KInt || a[1].K != KInt || a[1].I == 0 {
			return nil, in.errf("type")
		}
		if a[1].I == -1 {
			return Int(0), nil
		}
		return Int(a[0].I % a[1].I), nil
	})
	defFn(p, "pow", 2, 2, func(in *Interp, a []*V) (*V, *Err) {
		if e := allNum(in, a); e != nil {
			return nil, e
		}
		if a[0].K == KInt && a[1].K == KInt {
			b := a[1].I
			if b < 0 {
				return Float(math.Pow(float64(a[0].I), float64(b))), nil
			}
			r := int64(1)
			base := a[0].I
			for b > 0 {
				if b&1 == 1 {
					r *= base
				}
				b >>= 1
				base *= base
			}
			return Int(r), nil
		}
		return Float(math.Pow(a[0].AsFloat(), a[1].AsFloat())), nil
	})
	cmp := func(name string, ok func(c int) bool) {
		defFn(p, name, 2, 2, func(in *Interp, a []*V) (*V, *Err) {
			if e := allNum(in, a); e != nil {
				return nil, e
			}
			return Bool(ok(cmpNum(a[0], a[1]))), nil
		})
	}
	cmp("<", func(c int) bool { return c == -1 })
	cmp("<=", func(c int) bool { return c == -1 || c == 0 })
	cmp(">", func(c int) bool { return c == 1 })
	cmp(">=", func(c int) bool { return c == 1 || c == 0 })
	cmp("=", func(c int) bool { return c == 0 })
	defFn(p, "max", 1, -1, func(in *Interp, a []*V) (*V, *Err) {
		if e := allNum(in, a); e != nil {
			return nil, e
		}
		m := a[0]
		for _, x := range a[1:] {
			if cmpNum(m, x) == -1 {
				m = x
			}
		}
		return m, nil
	})
	defFn(p, "min", 1, -1, func(in *Interp, a []*V) (*V, *Err) {
		if e := allNum(in, a); e != nil {
			return nil, e
		}
		m := a[0]
		for _, x := range a[1:] {
			if cmpNum(x, m) == -1 {
				m = x
			}
		}
		return m, nil
	})

	// --- strings and conversions --------------------------------------------------
	scmp := func(name string, ok func(a, b string) bool) {
		defFn(p, name, 2, 2, func(in *Interp, a []*V) (*V, *Err) {
			if a[0].K != KStr || a[1].K != KStr {
				return nil, in.errf("type")
			}
			return Bool(ok(a[0].S, a[1].S)), nil
		})
	}
	scmp("string=", func(a, b string) bool { return a == b })
	scmp("string<", func(a, b string) bool { return a < b })
	scmp("string<=", func(a, b string) bool { return a <= b })
	scmp("string>", func(a, b string) bool { return a > b })
	scmp("string>=", func(a, b string) bool { return a >= b })
	defFn(p, "symbol=", 2, 2, func(in *Interp, a []*V) (*V, *Err) {
		if a[0].K != KSym || a[1].K != KSym {
			return nil, in.errf("type")
		}
		return Bool(a[0].S == a[1].S), nil
	})
	defFn(p, "to-string", 1, 1, func(in *Interp, a []*V) (*V, *Err) {
		switch a[0].K {
		case KStr, KSym:
			return Str(a[0].S), nil
		case KBytes:
			return Str(string(a[0].B.B)), nil
		case KInt:
			return Str(strconv.FormatInt(a[0].I, 10)), nil
		case KFloat:
			return Str(strconv.FormatFloat(a[0].F, 'g', -1, 64)), nil
		}
		return nil, in.errf("type")
	})
	defFn(p, "to-int", 1, 1, func(in *Interp, a []*V) (*V, *Err) {
		switch a[0].K {
		case KInt:
			return a[0], nil
		case KFloat:
			f := a[0].F
			if isNaNorInf(f) || f >= 9.2e18 || f <= -9.2e18 {
				return nil, in.unsure("to-int of an out-of-range float")
			}
			return Int(int64(f)), nil
		case KStr:
			if v, ok := parseDecimalInt(a[0].S); ok {
				return Int(v), nil
			}
			return nil, in.errf("parse")
		}
		return nil, in.errf("type")
	})
	defFn(p, "to-float", 1, 1, func(in *Interp, a []*V) (*V, *Err) {
		switch a[0].K {
		case KInt:
			return Float(float64(a[0].I)), nil
		case KFloat:
			return a[0], nil
		case KStr:
			return nil, in.unsure("to-float of a string")
		}
		return nil, in.errf("type")
	})
	defFn(p, "to-bytes", 1, 1, func(in *Interp, a []*V) (*V, *Err) {
		switch a[0].K {
		case KBytes:
			return a[0], nil
		case KStr:
			return &V{K: KBytes, B: &Bytes{B: []byte(a[0].S)}}, nil
		}
		return nil, in.errf("type")
	})
	defFn(p, "debug-print", 0, -1, func(in *Interp, a []*V) (*V, *Err) {
		for i, x := range a {
			if i > 0 {
				in.Stderr.WriteByte(' ')
			}
			s, ok := printAtom(x)
			if !ok {
				return nil, in.unsure("debug-print of a non-atom")
			}
			in.Stderr.WriteString(s)
		}
		in.Stderr.WriteByte('\n')
		return Nil(), nil
	})
}

var pureBuiltins = map[string]bool{"<": true, ">": true, "<=": true, ">=": true, "string<": true, "string>": true, "string<=": true, "string>=": true, "-": true, "identity": true, "length": true, "car": true, "first": true, "to-string": true}

// printAtom renders the values whose printed form the reference fixes
// unambiguously: integers, floats (shortest round-trip, exponent form as Go's
// %g), strings (quoted with escapes) and the booleans.
func printAtom(v *V) (string, bool) {
	switch v.K {
	case KInt:
		return strconv.FormatInt(v.I, 10), true
	case KFloat:
		return strconv.FormatFloat(v.F, 'g', -1, 64), true
	case KStr:
		return strconv.Quote(v.S), true
	case KSym:
		if v.S == "true" || v.S == "false" {
			return v.S, true
		}
	case KList:
		if len(v.L) == 0 && !v.Q {
			return "()", true
		}
	}
	return "", false
}

func parseDecimalInt(s string) (int64, bool) {
	v, err := strconv.ParseInt(s, 10, 64)
	if err != nil {
		return 0, false
	}
	// the real builtin accepts exactly what Go's Atoi accepts
	return v, true
}

func selfEvaluating(v *V) bool {
	switch v.K {
	case KInt, KFloat, KStr, KVec, KMap, KBytes, KFun:
		return true
	case KSym:
		return v.Q || v.S == "true" || v.S == "false" || strings.HasPrefix(v.S, ":")
	case KList:
		return v.Q || len(v.L) == 0
	}
	return v.Q
}

// unsureSort sorts in place when the predicate is one the model can apply
// without re-entering program code with side effects.
func (in *Interp) unsureSort(less, key *V, seq *V) *Err {
	return in.unsure("stable-sort is checked by the heap-model property")
}

// callerEnv: builtins have no lexical environment of their own; `eval` runs in
// the environment of the code that called it.  The interpreter records it.
func (in *Interp) callerEnv() *Env {
	if in.evalEnv != nil {
		return in.evalEnv
	}
	return in.Root
}

func init() {
	extraFunctions = append(extraFunctions, func(p *Pkg) {
		defFn(p, "format-string", 1, -1, func(in *Interp, a []*V) (*V, *Err) {
			if a[0].K != KStr {
				return nil, in.errf("type")
			}
			f := a[0].S
			vals := a[1:]
			var sb strings.Builder
			seq, mode := 0, 0
			for i := 0; i < len(f); {
				c := f[i]
				if c != '{' && c != '}' {
					sb.WriteByte(c)
					i++
					continue
				}
				if c == '}' {
					if i+1 < len(f) && f[i+1] == '}' {
						sb.WriteByte('}')
						i += 2
						continue
					}
					return nil, in.errf("format")
				}
				if i+1 >= len(f) {
					return nil, in.errf("format")
				}
				if f[i+1] == '{' {
					sb.WriteByte('{')
					i += 2
					continue
				}
				j := strings.IndexByte(f[i+1:], '}')
				if j < 0 {
					return nil, in.errf("format")
				}
				inner := strings.Trim(f[i+1:i+1+j], " \t")
				idx := 0
				if inner == "" {
					if mode == 2 {
						return nil, in.errf("format")
					}
					mode = 1
					idx = seq
					seq++
				} else {
					n, err := strconv.Atoi(inner)
					if err != nil || n < 0 || mode == 1 {
						return nil, in.errf("format")
					}
					mode = 2
					idx = n
				}
				if idx >= len(vals) {
					return nil, in.errf("format")
				}
				v := vals[idx]
				if v.K == KStr && !v.Q {
					sb.WriteString(v.S)
				} else if s, ok := printAtom(v); ok {
					sb.WriteString(s)
				} else {
					return nil, in.unsure("format-string of a non-atom")
				}
				i += j + 2
			}
			return Str(sb.String()), nil
		})
	})
}

func init() {
	extraFunctions = append(extraFunctions, func(p *Pkg) {
		nameOf := func(in *Interp, v *V) (string, *Err) {
			if v.K != KSym && v.K != KStr {
				return "", in.errf("type")
			}
			return v.S, nil
		}
		defFn(p, "in-package", 1, -1, func(in *Interp, a []*V) (*V, *Err) {
			n, e := nameOf(in, a[0])
			if e != nil {
				if in.RefusedPackageOpsUnjudged {
					in.RefusedCalls++
				}
				return nil, e
			}
			if in.RefusedPackageOpsUnjudged {
				for _, d := range a[1:] {
					if d.K != KStr {
						// refused: what it leaves behind is not the property's matter
						in.RefusedCalls++
						if in.Pkgs[n] == nil {
							if in.Limbo == nil {
								in.Limbo = map[string]bool{}
							}
							in.Limbo[n] = true
						}
						in.Cur = &Pkg{Name: "<undetermined>", Syms: map[string]*V{}, Undetermined: true}
						return nil, in.errf("type")
					}
				}
				// a successful in-package: a name in limbo becomes a package that exists
				// now, new or as good as new
				delete(in.Limbo, n)
			}
			pk := in.Pkgs[n]
			if pk == nil {
				pk = in.newPackage(n)
			}
			in.Cur = pk
			for _, d := range a[1:] {
				if d.K != KStr {
					return nil, in.errf("type")
				}
			}
			return Nil(), nil
		})
		defFn(p, "use-package", 0, -1, func(in *Interp, a []*V) (*V, *Err) {
			if in.Cur.Undetermined {
				return nil, in.unsure("use-package into the package a refused in-package left current")
			}
			for _, x := range a {
				n, e := nameOf(in, x)
				if e != nil {
					if in.RefusedPackageOpsUnjudged {
						in.RefusedCalls++
					}
					return nil, e
				}
				if in.Limbo[n] {
					return nil, in.unsure("use-package of a package only refused calls have named")
				}
				src := in.Pkgs[n]
				if src == nil {
					// refused before anything was copied; as in the main family's
					// histories, which have always contained this refusal, the name is
					// not registered by it
					if in.RefusedPackageOpsUnjudged {
						in.RefusedCalls++
					}
					return nil, in.errf("unknown-package")
				}
				// exactly the exported bindings, as they are at this moment
				names := append([]string(nil), src.Exports...)
				sort.Strings(names)
				for _, s := range names {
					v, ok := src.Syms[s]
					if !ok {
						if s == "true" || s == "false" {
							continue
						}
						return nil, in.errf("use-package-unbound-export")
					}
					if s == "true" || s == "false" {
						continue
					}
					in.Cur.Syms[s] = v
				}
			}
			return Nil(), nil
		})
		var export func(in *Interp, a []*V) *Err
		export = func(in *Interp, a []*V) *Err {
			for _, x := range a {
				switch x.K {
				case KSym, KStr:
					in.Cur.export(x.S)
				case KList:
					// nested lists are accepted; an error inside is ignored by the real builtin
					_ = export(in, x.L)
				default:
					return in.errf("type")
				}
			}
			return nil
		}
		defFn(p, "export", 0, -1, func(in *Interp, a []*V) (*V, *Err) {
			if in.Cur.Undetermined {
				return nil, in.unsure("export from the package a refused in-package left current")
			}
			if e := export(in, a); e != nil {
				if in.RefusedPackageOpsUnjudged {
					in.RefusedCalls++
				}
				return nil, e
			}
			return Nil(), nil
		})
		defFn(p, "load-string", 1, 3, func(in *Interp, a []*V) (*V, *Err) {
			if a[0].K != KStr {
				return nil, in.errf("type")
			}
			if len(a) == 2 {
				return nil, in.errf("arity-key-odd")
			}
			if a[0].Src == nil || a[0].Src.Prog == nil {
				return nil, in.unsure("load-string of a computed string")
			}
			saved := in.Cur
			defer func() { in.Cur = saved }()
			var r *V = Nil()
			for _, f := range a[0].Src.Prog {
				x, e := in.Eval(in.Root, FromSX(f))
				if e != nil {
					return nil, e
				}
				r = x
			}
			return r, nil
		})
	})
}
