// Package refint is the harness' independent definitional interpreter for the
// elps core language.  It evaluates the generator's own syntax trees (package
// sx), is written from docs/lang.md and the builtin docstrings, and shares no
// code with /repo/lisp.  Where the reference is silent it encodes what the
// repository's own test-suite pins; those spots are listed in Assumptions of
// the checks that use it.
package refint

import (
	"math"
	"sort"

	"verifharness/sx"
	"verifharness/tree"
)

type Kind int

const (
	KInt Kind = iota
	KFloat
	KStr
	KSym
	KList
	KVec
	KMap
	KBytes
	KFun
	KQuote
	KTagged
	KOpaque // value the model does not predict (e.g. a builtin's message text)
	KErr    // an error object held as a value (rethrow identity)
)

// V is a model value (and, for unquoted lists/symbols, a form).
type V struct {
	K   Kind
	I   int64
	F   float64
	S   string
	Q   bool // single level of quoting (lists, symbols, and harmlessly atoms)
	L   []*V // KList elements; KQuote/KTagged: L[0]
	Vec *Vec
	M   *Map
	B   *Bytes
	Fn  *Fun
	E   *Err
	Src *sx.N  // syntax origin, for forms read from source
	Via string // KFun: the symbol this function value was last fetched through (names the frame of an otherwise unnamed function)
}

type Vec struct{ E []*V }
type Bytes struct{ B []byte }
type MapEnt struct {
	V   *V
	Sym bool // key spelled as symbol
}
type Map struct{ E map[string]*MapEnt }

type FunKind int

const (
	FnFunction FunKind = iota
	FnMacro
	FnSpecial
)

type Fun struct {
	Name    string
	Kind    FunKind
	Builtin func(in *Interp, args []*V) (*V, *Err)
	Special func(in *Interp, env *Env, args []*V, form *V) (*V, *Err)
	MinArgs int
	MaxArgs int // -1 = variadic
	Params  []*V
	Body    []*V
	Env     *Env
	Pkg     string
	ID      int
	// Bound collects every global name the function value was bound under
	// (a stack trace may legitimately show any of them).
	Bound map[string]bool
	// AlwaysRaises marks a host builtin that fails the same way whatever it is called
	// with and has no effect (verif:panic ...): a builtin that must call its callback at
	// least once has that failure as its outcome, however often and in whatever order it
	// calls.
	AlwaysRaises bool
}

// Frame is one active call in the model's chain.
type Frame struct {
	Name string
	Site *sx.N
	Kind FunKind
	Tail bool // the call sits in tail position of its caller's body
	Anon bool
	Fn   *Fun
}

// Err is a model error.
type Err struct {
	Cond   string
	Data   []*V // data cells (KOpaque when the model does not predict them)
	Panic  bool // produced by recovering a host panic
	Site   *sx.N
	Stack  []Frame
	Fuel   bool // the model ran out of fuel: no prediction
	Unsure bool // the model declines to predict (construct outside its scope)
	ID     int
	Class  string // coarse class for coverage: unbound, arity, type, user, …

	Rethrown int // how often (rethrow) re-raised this error
	// Swallowed counts how often an ignore-errors form replaced this very error object
	// by nil (an error can go on after that: (rethrow) re-raised it inside the form)
	Swallowed int
}

var (
	vNil   = &V{K: KList}
	vTrue  = &V{K: KSym, S: "true"}
	vFalse = &V{K: KSym, S: "false"}
)

func Nil() *V { return vNil }
func Bool(b bool) *V {
	if b {
		return vTrue
	}
	return vFalse
}
func Int(i int64) *V     { return &V{K: KInt, I: i} }
func Float(f float64) *V { return &V{K: KFloat, F: f} }
func Str(s string) *V    { return &V{K: KStr, S: s} }
func Sym(s string) *V    { return &V{K: KSym, S: s} }
func QSym(s string) *V   { return &V{K: KSym, S: s, Q: true} }
func QList(xs []*V) *V   { return &V{K: KList, L: xs, Q: true} }
func NewVec(xs []*V) *V  { return &V{K: KVec, Vec: &Vec{E: xs}} }
func NewMap() *V         { return &V{K: KMap, M: &Map{E: map[string]*MapEnt{}}} }

func (v *V) IsNil() bool { return v.K == KList && len(v.L) == 0 }

func (v *V) Truthy() bool {
	if v.IsNil() {
		return false
	}
	if v.K == KSym && v.S == "false" {
		return false
	}
	return true
}

func (v *V) IsNum() bool { return v.K == KInt || v.K == KFloat }

func (v *V) AsFloat() float64 {
	if v.K == KInt {
		return float64(v.I)
	}
	return v.F
}

// IsSeq reports list or vector.
func (v *V) IsSeq() bool { return v.K == KList || v.K == KVec }

func (v *V) Elems() []*V {
	if v.K == KVec {
		return v.Vec.E
	}
	return v.L
}

// quote returns v with one more level of quoting (the reader's/`quote`'s rule).
func quote(v *V) *V {
	if !v.Q {
		c := *v
		c.Q = true
		return &c
	}
	return &V{K: KQuote, Q: true, L: []*V{v}}
}

func unquoteShallow(v *V) *V {
	c := *v
	c.Q = false
	return &c
}

// FromSX converts syntax into a form.
func FromSX(n *sx.N) *V {
	switch n.K {
	case sx.Int:
		return &V{K: KInt, I: n.I, Src: n}
	case sx.Float:
		return &V{K: KFloat, F: n.F, Src: n}
	case sx.Str:
		return &V{K: KStr, S: n.S, Src: n}
	case sx.Sym:
		return &V{K: KSym, S: n.S, Src: n}
	case sx.List, sx.Brack:
		v := &V{K: KList, Src: n, Q: n.K == sx.Brack}
		for _, c := range n.L {
			v.L = append(v.L, FromSX(c))
		}
		return v
	case sx.Quote:
		q := quote(FromSX(n.L[0]))
		q.Src = n
		return q
	case sx.FunRef:
		return &V{K: KList, Src: n, L: []*V{{K: KSym, S: "lisp:function", Src: n}, FromSX(n.L[0])}}
	}
	panic("refint: unsupported syntax kind")
}

// ToTree snapshots a model value.
func (v *V) ToTree() *tree.T { return v.toTree(0) }

func (v *V) toTree(d int) *tree.T {
	if v == nil {
		return &tree.T{K: "gonil"}
	}
	if d > 200 {
		return &tree.T{K: "deep"}
	}
	switch v.K {
	case KInt:
		return &tree.T{K: "int", I: v.I}
	case KFloat:
		return &tree.T{K: "float", F: v.F}
	case KStr:
		return &tree.T{K: "string", S: v.S}
	case KSym:
		return &tree.T{K: "symbol", S: v.S, Q: v.Q}
	case KList:
		t := &tree.T{K: "list", Q: v.Q}
		for _, c := range v.L {
			t.Kids = append(t.Kids, c.toTree(d+1))
		}
		return t
	case KVec:
		t := &tree.T{K: "vector"}
		for _, c := range v.Vec.E {
			t.Kids = append(t.Kids, c.toTree(d+1))
		}
		return t
	case KMap:
		t := &tree.T{K: "map"}
		keys := make([]string, 0, len(v.M.E))
		for k := range v.M.E {
			keys = append(keys, k)
		}
		sort.Strings(keys)
		for _, k := range keys {
			e := v.M.E[k]
			t.Kids = append(t.Kids, &tree.T{K: "key", S: k, Q: e.Sym}, e.V.toTree(d+1))
		}
		return t
	case KBytes:
		return &tree.T{K: "bytes", S: string(v.B.B)}
	case KFun:
		return &tree.T{K: "fun"}
	case KQuote:
		return &tree.T{K: "quote", Kids: []*tree.T{v.L[0].toTree(d + 1)}}
	case KTagged:
		return &tree.T{K: "tagged", S: v.S, Kids: []*tree.T{v.L[0].toTree(d + 1)}}
	case KErr:
		return &tree.T{K: "error", S: v.E.Cond}
	}
	return tree.Opaque
}

// equalV implements equal? as documented: deep structural comparison, numbers
// compared numerically across int/float, map keys by name.
func equalV(a, b *V) bool {
	if a.IsNum() && b.IsNum() {
		if a.K == KInt && b.K == KInt {
			return a.I == b.I
		}
		return a.AsFloat() == b.AsFloat()
	}
	if a.K != b.K {
		return false
	}
	switch a.K {
	case KStr, KSym:
		return a.S == b.S
	case KList, KVec:
		x, y := a.Elems(), b.Elems()
		if len(x) != len(y) {
			return false
		}
		for i := range x {
			if !equalV(x[i], y[i]) {
				return false
			}
		}
		return true
	case KMap:
		if len(a.M.E) != len(b.M.E) {
			return false
		}
		for k, e := range a.M.E {
			f, ok := b.M.E[k]
			if !ok || !equalV(e.V, f.V) {
				return false
			}
		}
		return true
	case KTagged:
		return a.S == b.S && equalV(a.L[0], b.L[0])
	}
	return false
}

func isNaNorInf(f float64) bool { return math.IsNaN(f) || math.IsInf(f, 0) }
