package gen

import (
	"fmt"

	"verifharness/fw"
	"verifharness/sx"
)

// Values that do not evaluate to themselves, as DATA.
//
// A value is whatever an expression evaluated to; once it is a value nothing
// evaluates it again, whatever route it takes - an argument of a function, an
// element handed to a predicate or a key function, the result of one
// thread-first step entering the next, the data of an error reaching a handler.
// For almost every value a second evaluation would go unnoticed: numbers,
// strings, vectors, maps, functions, quoted lists and quoted symbols evaluate
// to themselves.  The exceptions are the ELEMENTS of a quoted list: (car '((+ 1
// 2) y)) is the unquoted list (+ 1 2), (second '((+ 1 2) y)) the unquoted
// symbol y.  A builtin or operator that builds a call expression around such a
// value and evaluates it computes 3, or fails with "unbound symbol: y".
//
// RawDataProgram stores such elements (calls of bound and of unbound functions,
// bound and unbound symbols, nested lists, forms with side effects whose
// evaluation a counter would record) next to ordinary values, and sends them
// through ONE family of consumers per program; every function that receives
// them probes what it received.

// RawKinds lists the consumer families (the finding key names the family).
var RawKinds = []string{"thread-first", "thread-last", "all-any", "stable-sort", "hof", "call", "error-data", "get-default"}

// rawElems are the elements of the quoted source list.  (bump) counts: if an
// element is ever evaluated the counter shows it even where the value does not.
var rawElems = []func() *sx.N{
	func() *sx.N { return sx.L(sx.Y("+"), sx.I(1), sx.I(2)) },
	func() *sx.N { return sx.L(sx.Y("nosuch"), sx.I(1)) },
	func() *sx.N { return sx.Y("y") },
	func() *sx.N { return sx.Y("unbound-sym") },
	func() *sx.N { return sx.L(sx.Y("bump")) },
	func() *sx.N { return sx.L(sx.Y("list"), sx.I(1), sx.L(sx.Y("bump"))) },
	func() *sx.N { return sx.L(sx.L(sx.Y("a")), sx.Y("b")) },
	func() *sx.N { return sx.L(sx.Y("quote"), sx.Y("q")) },
	func() *sx.N { return sx.L(sx.Y("error"), sx.QY("raised-by-data")) },
	func() *sx.N { return sx.L(sx.Y("set"), sx.QY("y"), sx.I(99)) },
	func() *sx.N { return sx.I(7) },
	func() *sx.N { return sx.S("s") },
	func() *sx.N { return sx.L() },
	func() *sx.N { return sx.Y(":kw") },
}

type rctx struct {
	n         int  // elements of raw
	sortTotal bool // stable-sort uses whose comparisons all succeed
}

// rv is an expression whose value is one element of raw (or, for contrast, an
// ordinary value).
func (g *G) rv(c *rctx) *sx.N {
	i := sx.I(int64(g.R.Intn(c.n)))
	switch g.R.Intn(9) {
	case 0:
		return sx.Call("car", sx.Y("raw"))
	case 1:
		return sx.Call("second", sx.Y("raw"))
	case 2:
		return sx.Call("pick", i)
	case 3:
		return sx.Call("get", sx.Call("sorted-map", sx.S("k"), sx.Call("nth", sx.Y("raw"), i)), sx.S("k"))
	case 4:
		return sx.Call("aref", sx.Call("vector", sx.Call("nth", sx.Y("raw"), i)), sx.I(0))
	case 5:
		return sx.Call("car", sx.Call("car", sx.Q(sx.L(sx.L(fw.Pick(g.R, rawElems)())))))
	case 6:
		return sx.Call("funcall", sx.Call("lambda", sx.L(sx.Y("&rest"), sx.Y("r")), sx.Call("car", sx.Y("r"))), sx.Call("nth", sx.Y("raw"), i))
	default:
		return sx.Call("nth", sx.Y("raw"), i)
	}
}

// rl is an expression whose value is a FRESH sequence of such elements.
func (g *G) rl(c *rctx) *sx.N {
	switch g.R.Intn(7) {
	case 0:
		return sx.Call("map", sx.QY("list"), sx.Y("identity"), sx.Y("raw"))
	case 1:
		return sx.Call("list", g.rv(c), g.rv(c), g.rv(c))
	case 2:
		return sx.Call("vector", g.rv(c), g.rv(c))
	case 3:
		return sx.Call("append", sx.QY("list"), sx.Call("rest", sx.Y("raw")), g.rv(c))
	case 4:
		return sx.Call("reverse", sx.QY("list"), sx.Y("raw"))
	case 5:
		return sx.Call("slice", sx.QY("list"), sx.Y("raw"), sx.I(0), sx.I(int64(g.R.Range(1, c.n))))
	default:
		return sx.Call("concat", sx.QY("list"), sx.Call("list", g.rv(c)), sx.Y("raw"))
	}
}

func seenFn(tag string, params []string, body *sx.N) *sx.N {
	var ps, args []*sx.N
	for _, p := range params {
		ps = append(ps, sx.Y(p))
		args = append(args, sx.Y(p))
	}
	return sx.Call("lambda", sx.L(ps...), sx.Call("verif:probe", append([]*sx.N{sx.QY(tag)}, args...)...), body)
}

func (g *G) rawUse(c *rctx, kind string) *sx.N {
	r := g.R
	switch kind {
	case "thread-first":
		steps := []func() *sx.N{
			func() *sx.N { return sx.L(sx.Y("car")) },
			func() *sx.N { return sx.L(sx.Y("first")) },
			func() *sx.N { return sx.L(sx.Y("rest")) },
			func() *sx.N { return sx.L(sx.Y("list")) },
			func() *sx.N { return sx.L(sx.Y("list"), sx.I(1)) },
			func() *sx.N { return sx.L(sx.Y("identity")) },
			func() *sx.N { return sx.L(sx.Y("nth"), sx.I(int64(r.Intn(3)))) },
			func() *sx.N { return sx.L(sx.Y("see")) },
			func() *sx.N { return sx.L(sx.Y("vector"), sx.I(0)) },
			func() *sx.N { return sx.L(sx.Y("cons"), sx.Q(sx.L(sx.I(9)))) },
			func() *sx.N { return sx.L(sx.Y("see2"), g.rv(c)) },
		}
		form := []*sx.N{sx.Y("thread-first"), fw.Pick(r, []*sx.N{g.rl(c), g.rv(c), sx.Y("raw")})}
		for i, n := 0, r.Range(2, 5); i < n; i++ {
			form = append(form, fw.Pick(r, steps)())
		}
		return sx.L(form...)
	case "thread-last":
		steps := []func() *sx.N{
			func() *sx.N { return sx.L(sx.Y("car")) },
			func() *sx.N { return sx.L(sx.Y("rest")) },
			func() *sx.N { return sx.L(sx.Y("list")) },
			func() *sx.N { return sx.L(sx.Y("list"), sx.I(1)) },
			func() *sx.N { return sx.L(sx.Y("identity")) },
			func() *sx.N { return sx.L(sx.Y("cons"), sx.I(0)) },
			func() *sx.N { return sx.L(sx.Y("see")) },
			func() *sx.N { return sx.L(sx.Y("map"), sx.QY("list"), sx.Y("see")) },
			func() *sx.N { return sx.L(sx.Y("select"), sx.QY("list"), sx.Y("list?")) },
			func() *sx.N { return sx.L(sx.Y("see2"), g.rv(c)) },
			func() *sx.N { return sx.L(sx.Y("append"), sx.QY("list"), sx.Q(sx.L(sx.I(1)))) },
		}
		form := []*sx.N{sx.Y("thread-last"), fw.Pick(r, []*sx.N{g.rl(c), g.rv(c), sx.Y("raw")})}
		for i, n := 0, r.Range(2, 5); i < n; i++ {
			form = append(form, fw.Pick(r, steps)())
		}
		return sx.L(form...)
	case "all-any":
		op := fw.Pick(r, []string{"all?", "any?"})
		pred := fw.Pick(r, []*sx.N{
			sx.Y("list?"),
			seenFn("el", []string{"v"}, sx.Call("list?", sx.Y("v"))),
			seenFn("el", []string{"v"}, sx.Call("not", sx.Call("list?", sx.Y("v")))),
			seenFn("el", []string{"v"}, sx.Y("true")),
			seenFn("el", []string{"v"}, sx.Y("false")),
			sx.Y("see"),
		})
		return sx.Call(op, pred, g.rl(c))
	case "stable-sort":
		// the model follows pure builtin predicates and key functions only
		pred := sx.Y(fw.Pick(r, []string{"<", ">", "<=", ">="}))
		seq := g.rl(c)
		if c.sortTotal {
			// only the list-valued elements, ordered by length: every comparison succeeds
			// (a sort whose key function or predicate fails is not followed by the model,
			// and one such use would take the whole program out of the judged set)
			return sx.Call("stable-sort", pred, sx.Call("select", sx.QY("list"), sx.Y("list?"), seq), sx.Y("length"))
		}
		if r.Bool() {
			seq = sx.Call("select", sx.QY("list"), sx.Y("list?"), seq)
		}
		return sx.Call("stable-sort", pred, seq, sx.Y(fw.Pick(r, []string{"length", "first", "identity"})))
	case "hof":
		switch r.Intn(6) {
		case 0:
			return sx.Call("map", sx.QY(fw.Pick(r, []string{"list", "vector"})), sx.Y("see"), g.rl(c))
		case 1:
			return sx.Call("foldl", seenFn("fl", []string{"acc", "v"}, sx.Call("cons", sx.Y("v"), sx.Y("acc"))), sx.Nil(), g.rl(c))
		case 2:
			return sx.Call("foldr", seenFn("fr", []string{"v", "acc"}, sx.Call("cons", sx.Y("v"), sx.Y("acc"))), sx.Nil(), g.rl(c))
		case 3:
			return sx.Call("select", sx.QY("list"), seenFn("sel", []string{"v"}, sx.Call("list?", sx.Y("v"))), g.rl(c))
		case 4:
			return sx.Call("reject", sx.QY("list"), seenFn("rej", []string{"v"}, sx.Call("list?", sx.Y("v"))), g.rl(c))
		default:
			return sx.Call("zip", sx.QY("list"), g.rl(c), g.rl(c))
		}
	case "call":
		switch r.Intn(5) {
		case 0:
			return sx.Call("funcall", sx.Y("see2"), g.rv(c), g.rv(c))
		case 1:
			return sx.Call("apply", sx.Y("see2"), g.rv(c), sx.Call("list", g.rv(c)))
		case 2:
			return sx.Call("apply", sx.Y("list"), g.rl(c))
		case 3:
			return sx.Call("unpack", sx.Y("see2"), sx.Call("list", g.rv(c), g.rv(c)))
		default:
			return sx.L(sx.Call("lambda", sx.L(sx.Y("a"), sx.Y("&optional"), sx.Y("b"), sx.Y("&rest"), sx.Y("r")), sx.Call("verif:probe", sx.QY("lam"), sx.Y("a"), sx.Y("b"), sx.Y("r"))), g.rv(c), g.rv(c), g.rv(c))
		}
	case "error-data":
		h := sx.Call("lambda", sx.L(sx.Y("c"), sx.Y("&rest"), sx.Y("d")), sx.Call("verif:probe", sx.QY("handled"), sx.Y("c"), sx.Y("d")), sx.Y("d"))
		return sx.Call("handler-bind", sx.L(sx.L(sx.Y(fw.Pick(r, []string{"condition", "my-error"})), h)), sx.Call("error", sx.QY("my-error"), g.rv(c), g.rv(c)))
	case "get-default":
		switch r.Intn(3) {
		case 0:
			return sx.Call("get-default", sx.Call("sorted-map"), sx.S("k"), g.rv(c))
		case 1:
			return sx.Call("get-default", sx.Call("sorted-map", sx.S("k"), g.rv(c)), sx.S("k"), sx.Call("bump"))
		default:
			return sx.Call("get", sx.Call("assoc", sx.Call("sorted-map"), sx.S("k"), g.rv(c)), sx.S("k"))
		}
	}
	return sx.Nil()
}

// RawDataProgram returns the forms of one program and the consumer family.
func (g *G) RawDataProgram() ([]*sx.N, string) {
	kind := fw.Pick(g.R, RawKinds)
	g.feat("raw-data:" + kind)
	c := &rctx{sortTotal: g.R.Chance(5, 6)}
	var elems []*sx.N
	// the first two elements are always forms that do not evaluate to themselves
	elems = append(elems, rawElems[g.R.Intn(10)](), rawElems[g.R.Intn(10)]())
	for i, n := 0, g.R.Range(2, 6); i < n; i++ {
		elems = append(elems, fw.Pick(g.R, rawElems)())
	}
	c.n = len(elems)
	forms := []*sx.N{
		sx.Call("set", sx.QY("cnt"), sx.I(0)),
		sx.Call("set", sx.QY("y"), sx.I(5)),
		sx.Call("defun", sx.Y("bump"), sx.L(), sx.Call("set", sx.QY("cnt"), sx.Call("+", sx.Y("cnt"), sx.I(1)))),
		sx.Call("set", sx.QY("raw"), sx.Q(sx.L(elems...))),
		sx.Call("defun", sx.Y("pick"), sx.L(sx.Y("i")), sx.Call("nth", sx.Y("raw"), sx.Y("i"))),
		sx.Call("defun", sx.Y("len*"), sx.L(sx.Y("v")), sx.Call("if", sx.Call("list?", sx.Y("v")), sx.Call("length", sx.Y("v")), sx.I(0))),
		sx.Call("defun", sx.Y("lt"), sx.L(sx.Y("a"), sx.Y("b")), sx.Call("<", sx.Call("len*", sx.Y("a")), sx.Call("len*", sx.Y("b")))),
		sx.Call("defun", sx.Y("see"), sx.L(sx.Y("v")), sx.Call("verif:probe", sx.QY("see"), sx.Y("v"))),
		sx.Call("defun", sx.Y("see2"), sx.L(sx.Y("a"), sx.Y("b")), sx.Call("verif:probe", sx.QY("see2"), sx.Y("a"), sx.Y("b")), sx.Call("list", sx.Y("a"), sx.Y("b"))),
	}
	for i, n := 0, g.R.Range(3, 7); i < n; i++ {
		use := g.rawUse(c, kind)
		// a failing use must not end the program: the condition is the observation
		guarded := sx.Call("handler-bind", sx.L(sx.L(sx.Y("condition"), sx.Call("lambda", sx.L(sx.Y("c"), sx.Y("&rest"), sx.Y("d")), sx.Call("list", sx.QY("failed"), sx.Y("c"))))), use)
		forms = append(forms, sx.Call("verif:probe", sx.QY(fmt.Sprintf("u%d", i+1)), guarded, sx.Y("cnt"), sx.Y("y")))
	}
	forms = append(forms, sx.Call("list", sx.Y("cnt"), sx.Y("y"), sx.Y("raw")))
	return forms, kind
}
