package gen

import (
	"fmt"

	"verifharness/fw"
	"verifharness/sx"
)

// Re-entrant forms.
//
// A source form is RE-ENTERED when a second activation of it starts while an
// earlier one is suspended in the middle of evaluating it: a recursive function
// whose recursive call sits in an ARGUMENT POSITION of some operator form, so
// that the operator has already evaluated some of its operands (with this
// activation's values), then the same form runs again one level down with other
// values, and then the outer activation resumes and consumes the rest.  The
// reference prescribes that every activation sees its own values only; an
// implementation that keeps per-evaluation state in (or next to) the parsed
// form - a rewritten call, a cached argument vector, a memoised binding -
// confuses the activations, and only programs of this shape can tell.
//
// reStep builds, for every operator form the generator knows, a step
// expression of a bounded recursion  (defun f (n [m]) (if (<= n 0) BASE STEP))
// in which the recursive call(s) appear in argument positions together with
// operands that depend on the activation (n, m and functions of them) BEFORE
// and AFTER them.  Combining heads are position sensitive (-, a weighted sum)
// so a swapped or stale operand changes the value.

// ReentrantKinds lists the operator-form kinds of re-entrant steps.
var ReentrantKinds = []string{
	"thread-first", "thread-last", "call", "lambda-call", "let", "let*", "cond", "if", "and-or",
	"progn-set!", "dotimes", "quasiquote", "sequence", "hof", "handler", "flet-labels", "closure",
}

// weights: the thread operators have by far the largest shape space
// (operator x step count x step length 1..8 x position of the recursive call)
var reKindWeights = []int{5, 5, 2, 2, 2, 2, 2, 1, 2, 1, 1, 2, 2, 2, 2, 2, 1}

type reCtx struct {
	name  string // the recursive function
	p0    string // decreasing parameter
	p1    string // second parameter ("" if none)
	pure  bool   // operands are simple functions of the parameters (no g.expr)
	ops   []string
	sites int    // recursive call sites still allowed (bounds the call tree)
	d     int    // nesting of steps inside operands still allowed
	kind  string // top kind (pure programs nest the same kind only)
	nloc  int
	extra int // further required parameters of the function (after p0, p1)
}

func (g *G) shape(format string, a ...any) {
	if g.Shape == nil {
		g.Shape = map[string]bool{}
	}
	g.Shape[fmt.Sprintf(format, a...)] = true
}

func (g *G) pickReKind() string {
	tot := 0
	for _, w := range reKindWeights {
		tot += w
	}
	k := g.R.Intn(tot)
	for i, w := range reKindWeights {
		if k < w {
			return ReentrantKinds[i]
		}
		k -= w
	}
	return ReentrantKinds[0]
}

func (c *reCtx) local(base string) string {
	c.nloc++
	return fmt.Sprintf("r-%s%d", base, c.nloc)
}

// reRec is a recursive call (or, when the budget of call sites is used up, an operand).
func (g *G) reRec(c *reCtx) *sx.N {
	if c.sites <= 0 {
		return g.reOperand(c)
	}
	c.sites--
	dec := int64(1)
	if g.R.Chance(1, 6) {
		dec = 2
	}
	args := []*sx.N{sx.Call("-", sx.Y(c.p0), sx.I(dec))}
	if c.p1 != "" {
		args = append(args, g.reAct(c))
	}
	for i := 0; i < c.extra; i++ {
		args = append(args, g.reAct(c))
	}
	return sx.Call(c.name, args...)
}

// reAct is an operand whose value differs between the activations.
func (g *G) reAct(c *reCtx) *sx.N {
	p := c.p0
	if c.p1 != "" && g.R.Bool() {
		p = c.p1
	}
	switch g.R.Intn(6) {
	case 0, 1:
		return sx.Y(p)
	case 2:
		return sx.Call("*", sx.Y(p), g.smallInt(2, 9))
	case 3:
		return sx.Call("+", sx.Y(p), g.smallInt(1, 20))
	case 4:
		return sx.Call("-", g.smallInt(10, 99), sx.Y(p))
	}
	if c.p1 != "" {
		return sx.Call("+", sx.Call("*", sx.Y(c.p0), g.smallInt(2, 5)), sx.Y(c.p1))
	}
	return sx.Call("*", sx.Y(p), sx.Y(p))
}

func (g *G) reOperand(c *reCtx) *sx.N {
	if c.d > 0 && c.sites > 0 && g.R.Chance(1, 8) {
		c.d--
		k := c.kind
		if !c.pure {
			k = g.pickReKind()
		}
		return g.reStep(c, k)
	}
	switch {
	case g.R.Chance(1, 4):
		return g.smallInt(-3, 12)
	case !c.pure && g.R.Chance(1, 3):
		return g.expr(TInt, g.R.Range(1, 2))
	}
	return g.reAct(c)
}

// reArgs: n operands, the recursive call at one (sometimes two) of the positions.
func (g *G) reArgs(c *reCtx, n int) []*sx.N {
	if n < 1 {
		n = 1
	}
	xs := make([]*sx.N, n)
	pos := g.R.Intn(n)
	pos2 := -1
	if n > 1 && c.sites > 1 && g.R.Chance(1, 4) {
		pos2 = g.R.Intn(n)
	}
	for i := range xs {
		if i == pos || i == pos2 {
			xs[i] = g.reRec(c)
		} else {
			xs[i] = g.reOperand(c)
		}
	}
	return xs
}

func (g *G) reOp(c *reCtx) string { return fw.Pick(g.R, c.ops) }

func (g *G) reCombine(c *reCtx, xs ...*sx.N) *sx.N { return sx.Call(g.reOp(c), xs...) }

func (g *G) reOperands(c *reCtx, n int) []*sx.N {
	xs := make([]*sx.N, n)
	for i := range xs {
		xs[i] = g.reOperand(c)
	}
	return xs
}

// reStep builds one int-valued re-entrant step of the given kind.
func (g *G) reStep(c *reCtx, kind string) *sx.N {
	g.feat("reentrant:" + kind)
	uq := func(x *sx.N) *sx.N { return sx.Call("unquote", x) }
	switch kind {
	case "thread-first", "thread-last":
		nsteps := g.R.Range(1, 4)
		recStep := g.R.Intn(nsteps)
		var first *sx.N
		if g.R.Chance(1, 6) {
			first = g.reRec(c)
		} else {
			first = g.reOperand(c)
		}
		steps := []*sx.N{first}
		for s := 0; s < nsteps; s++ {
			ln := g.R.Range(1, 8) // elements of the step form, head included
			var args []*sx.N
			if s == recStep {
				if ln < 2 {
					ln = g.R.Range(2, 8)
				}
				pos0 := len(steps)
				args = g.reArgs(c, ln-1)
				for i, a := range args {
					if a.Head() == c.name {
						g.shape("%s|steps=%d|step=%d|len=%d|pos=%d", kind, nsteps, pos0, ln, i+1)
					}
				}
			} else {
				args = g.reOperands(c, ln-1)
			}
			steps = append(steps, sx.Call(g.reOp(c), args...))
		}
		if c.p1 != "" && kind == "thread-last" && c.sites > 0 && g.R.Chance(1, 4) {
			// the recursive call is itself the final step: the threaded value becomes its last argument
			c.sites--
			steps = append(steps, sx.Call(c.name, sx.Call("-", sx.Y(c.p0), sx.I(1))))
			g.shape("%s|recursive-call-is-final-step", kind)
		}
		return sx.Call(kind, steps...)
	case "call":
		n := g.R.Range(1, 7)
		args := g.reArgs(c, n)
		g.shape("call|n=%d", n)
		if g.R.Chance(1, 4) {
			k := g.R.Intn(n + 1)
			g.shape("call|apply")
			return sx.Call("apply", append(append([]*sx.N{sx.Y(g.reOp(c))}, args[:k]...), sx.Call("list", args[k:]...))...)
		}
		return sx.Call(g.reOp(c), args...)
	case "lambda-call":
		var formals, use, args []*sx.N
		variant := g.R.Intn(4)
		a, b, cc := c.local("a"), c.local("b"), c.local("c")
		switch variant {
		case 0: // required parameters, permuted in the body
			formals = []*sx.N{sx.Y(a), sx.Y(b), sx.Y(cc)}
			use = []*sx.N{sx.Y(cc), sx.Y(a), sx.Y(b)}
			args = g.reArgs(c, 3)
		case 1: // &rest
			formals = []*sx.N{sx.Y(a), sx.Y("&rest"), sx.Y(b)}
			use = []*sx.N{sx.Call("apply", sx.Y(g.reOp(c)), sx.Y(a), sx.Y(b)), sx.Call("length", sx.Y(b)), sx.Y(a)}
			args = g.reArgs(c, g.R.Range(1, 6))
		case 2: // &optional
			formals = []*sx.N{sx.Y(a), sx.Y("&optional"), sx.Y(b), sx.Y(cc)}
			use = []*sx.N{sx.Call("or", sx.Y(cc), sx.I(-1)), sx.Y(a), sx.Call("or", sx.Y(b), sx.I(-2))}
			args = g.reArgs(c, g.R.Range(1, 3))
		default: // &key, given in the other order
			formals = []*sx.N{sx.Y(a), sx.Y("&key"), sx.Y(b), sx.Y(cc)}
			use = []*sx.N{sx.Call("or", sx.Y(cc), sx.I(-1)), sx.Y(a), sx.Call("or", sx.Y(b), sx.I(-2))}
			xs := g.reArgs(c, 3)
			args = []*sx.N{xs[0], sx.Y(":" + cc), xs[1], sx.Y(":" + b), xs[2]}
		}
		g.shape("lambda-call|variant=%d|n=%d", variant, len(args))
		lam := sx.Call("lambda", sx.L(formals...), g.reCombine(c, use...))
		if g.R.Bool() {
			return sx.L(append([]*sx.N{lam}, args...)...)
		}
		return sx.Call("funcall", append([]*sx.N{lam}, args...)...)
	case "let", "let*":
		n := g.R.Range(1, 4)
		inits := g.reArgs(c, n)
		var binds, use []*sx.N
		for i := 0; i < n; i++ {
			v := c.local("v")
			init := inits[i]
			if kind == "let*" && i > 0 && g.R.Bool() {
				init = g.reCombine(c, init, use[g.R.Intn(len(use))])
			}
			binds = append(binds, sx.L(sx.Y(v), init))
			use = append(use, sx.Y(v))
		}
		g.shape("%s|n=%d", kind, n)
		fw.Shuffle(g.R, use)
		use = append(use, g.reOperand(c))
		return sx.Call(kind, sx.L(binds...), g.reCombine(c, use...))
	case "cond":
		var cl []*sx.N
		for i := g.R.Range(0, 3); i > 0; i-- {
			switch g.R.Intn(4) {
			case 0: // the recursion runs in a test that is never true
				cl = append(cl, sx.L(sx.Call("nil?", g.reRec(c)), g.reOperand(c)))
				g.shape("cond|recursion-in-false-test")
			case 1:
				cl = append(cl, sx.L(sx.Call("=", sx.Y(c.p0), g.smallInt(1, 4)), g.reCombine(c, g.reArgs(c, g.R.Range(1, 3))...)))
				g.shape("cond|recursion-in-clause-body")
			case 2:
				cl = append(cl, sx.L(sx.Call("<", g.reCombine(c, g.reArgs(c, 2)...), g.smallInt(0, 40)), g.reOperand(c), g.reCombine(c, g.reOperands(c, 2)...)))
				g.shape("cond|recursion-in-deciding-test")
			default:
				cl = append(cl, sx.L(sx.Call(">", sx.Y(c.p0), g.smallInt(2, 5)), g.reOperand(c)))
			}
		}
		cl = append(cl, sx.L(sx.Y(fw.Pick(g.R, []string{"else", ":else", "true"})), g.reCombine(c, g.reArgs(c, g.R.Range(1, 4))...)))
		return sx.Call("cond", cl...)
	case "if":
		var test *sx.N
		switch g.R.Intn(3) {
		case 0:
			test = sx.Call("int?", g.reRec(c))
		case 1:
			test = sx.Call("<", g.reRec(c), g.reOperand(c))
		default:
			test = sx.Call(">", sx.Y(c.p0), g.smallInt(1, 4))
		}
		return sx.Call("if", test, g.reCombine(c, g.reArgs(c, g.R.Range(1, 3))...), g.reCombine(c, g.reArgs(c, g.R.Range(1, 3))...))
	case "and-or":
		andF := sx.Call("and", g.reArgs(c, g.R.Range(1, 4))...)
		orArgs := []*sx.N{sx.Y("false")}
		if g.R.Bool() {
			orArgs = append(orArgs, sx.Call("and", g.reRec(c), sx.Nil()))
		}
		orArgs = append(orArgs, g.reCombine(c, g.reArgs(c, g.R.Range(1, 3))...), g.reOperand(c))
		xs := []*sx.N{andF, sx.Call("or", orArgs...), g.reOperand(c)}
		if g.R.Bool() {
			xs[0], xs[1] = xs[1], xs[0]
		}
		return g.reCombine(c, xs...)
	case "progn-set!":
		acc := c.local("acc")
		return sx.Call("let", sx.L(sx.L(sx.Y(acc), g.reOperand(c))),
			sx.Call("set!", sx.Y(acc), g.reCombine(c, append([]*sx.N{sx.Y(acc)}, g.reArgs(c, g.R.Range(1, 2))...)...)),
			sx.Call("progn", sx.Call("set!", sx.Y(acc), g.reCombine(c, append(g.reArgs(c, g.R.Range(1, 2)), sx.Y(acc))...)), g.reCombine(c, sx.Y(acc), g.reOperand(c))))
	case "dotimes":
		acc, i := c.local("acc"), c.local("i")
		cnt := g.R.Range(1, 2)
		if c.sites > 1 {
			c.sites = 1 // the loop multiplies the call tree
		}
		c.d = 0
		body := sx.Call("set!", sx.Y(acc), g.reCombine(c, append(append([]*sx.N{sx.Y(acc)}, g.reArgs(c, g.R.Range(1, 2))...), sx.Y(i))...))
		res := g.reCombine(c, sx.Y(acc), g.reOperand(c), sx.Y(i))
		g.shape("dotimes|count=%d", cnt)
		return sx.Call("let", sx.L(sx.L(sx.Y(acc), g.reOperand(c))), sx.Call("dotimes", sx.L(sx.Y(i), sx.I(int64(cnt)), res), body))
	case "quasiquote":
		n := g.R.Range(1, 5)
		xs := g.reArgs(c, n)
		var t []*sx.N
		for i := 0; i < len(xs); i++ {
			switch {
			case g.R.Chance(1, 5):
				t = append(t, g.smallInt(0, 9))
				i--
				if len(t) > 8 {
					i++
				}
			case i+1 < len(xs) && g.R.Chance(1, 3):
				t = append(t, sx.Call("unquote-splicing", sx.Call("list", xs[i], xs[i+1])))
				i++
				g.shape("quasiquote|splice")
			default:
				t = append(t, uq(xs[i]))
			}
		}
		g.shape("quasiquote|n=%d", n)
		return sx.Call("apply", sx.Y(g.reOp(c)), sx.Call("quasiquote", sx.L(t...)))
	case "sequence":
		n := g.R.Range(1, 6)
		xs := g.reArgs(c, n)
		switch g.R.Intn(4) {
		case 0:
			g.shape("sequence|apply-list|n=%d", n)
			return sx.Call("apply", sx.Y(g.reOp(c)), sx.Call("list", xs...))
		case 1:
			g.shape("sequence|foldl-vector|n=%d", n)
			return sx.Call("foldl", sx.Call("lambda", sx.L(sx.Y("r-u"), sx.Y("r-w")), sx.Call("-", sx.Call("*", sx.I(2), sx.Y("r-u")), sx.Y("r-w"))), g.reOperand(c), sx.Call("vector", xs...))
		case 2:
			g.shape("sequence|nth|n=%d", n)
			return sx.Call("+", sx.Call("nth", sx.Call("list", xs...), sx.I(int64(g.R.Intn(n)))), sx.Call("length", sx.Call("vector", g.reOperands(c, 2)...)))
		}
		g.shape("sequence|sorted-map")
		ys := g.reArgs(c, 3)
		m := sx.Call("sorted-map", sx.S("a"), ys[0], sx.S("b"), ys[1], sx.S("c"), ys[2])
		mv := c.local("m")
		return sx.Call("let", sx.L(sx.L(sx.Y(mv), m)), g.reCombine(c, sx.Call("get", sx.Y(mv), sx.S("c")), sx.Call("get", sx.Y(mv), sx.S("a")), sx.Call("get", sx.Y(mv), sx.S("b"))))
	case "hof":
		q, u, w := c.local("q"), c.local("u"), c.local("w")
		switch g.R.Intn(3) {
		case 0: // the recursion runs inside a callback of map
			n := g.R.Range(1, 2)
			if c.sites > 1 {
				c.sites = 1
			}
			c.d = 0
			g.shape("hof|map-callback|n=%d", n)
			return sx.Call("apply", sx.Y(g.reOp(c)), sx.Call("map", sx.QY("list"),
				sx.Call("lambda", sx.L(sx.Y(q)), g.reCombine(c, append([]*sx.N{sx.Y(q)}, g.reArgs(c, g.R.Range(1, 2))...)...)), sx.Call("list", g.reOperands(c, n)...)))
		case 1: // the function itself is the callback
			if c.p1 == "" && c.extra == 0 && c.sites > 0 {
				c.sites = 0
				g.shape("hof|self-as-callback")
				return g.reCombine(c, g.reAct(c), sx.Call("apply", sx.Y(g.reOp(c)), sx.Call("map", sx.QY("list"), sx.Y(c.name),
					sx.Call("list", sx.Call("-", sx.Y(c.p0), sx.I(1)), sx.Call("-", sx.Y(c.p0), sx.I(2))))), g.reAct(c))
			}
		}
		if c.sites > 1 {
			c.sites = 1
		}
		c.d = 0
		g.shape("hof|foldl-callback")
		return sx.Call("foldl", sx.Call("lambda", sx.L(sx.Y(u), sx.Y(w)), g.reCombine(c, append([]*sx.N{sx.Y(u), sx.Y(w)}, g.reArgs(c, g.R.Range(1, 2))...)...)),
			g.reOperand(c), sx.Call("list", g.reOperands(c, g.R.Range(1, 2))...))
	case "handler":
		switch g.R.Intn(3) {
		case 0: // no condition is raised
			g.shape("handler|not-raised")
			return sx.Call("handler-bind", sx.L(sx.L(sx.Y("condition"), sx.Call("lambda", sx.L(sx.Y("r-c"), sx.Y("&rest"), sx.Y("r-d")), g.reOperand(c)))),
				g.reCombine(c, g.reArgs(c, g.R.Range(1, 4))...))
		case 1: // raised after the recursion returned; the handler reads the activation's values
			g.shape("handler|raised-after-recursion")
			return sx.Call("handler-bind", sx.L(sx.L(sx.Y("r-err"), sx.Call("lambda", sx.L(sx.Y("r-c"), sx.Y("&rest"), sx.Y("r-d")), g.reCombine(c, g.reOperands(c, 2)...)))),
				sx.Call("progn", sx.Call("error", sx.QY("r-err"), g.reCombine(c, g.reArgs(c, g.R.Range(1, 3))...)), sx.I(0)))
		}
		g.shape("handler|ignore-errors")
		return sx.Call("or", sx.Call("ignore-errors", g.reCombine(c, g.reArgs(c, g.R.Range(1, 3))...)), g.reOperand(c))
	case "flet-labels":
		h, q := c.local("h"), c.local("q")
		op := fw.Pick(g.R, []string{"flet", "labels"})
		if g.R.Bool() { // the recursion is an argument inside the local function
			g.shape("%s|recursion-inside-local-function", op)
			return sx.Call(op, sx.L(sx.L(sx.Y(h), sx.L(sx.Y(q)), g.reCombine(c, append([]*sx.N{sx.Y(q)}, g.reArgs(c, g.R.Range(1, 3))...)...))),
				g.reCombine(c, sx.Call(h, g.reOperand(c)), g.reOperand(c)))
		}
		g.shape("%s|recursion-between-local-calls", op)
		return sx.Call(op, sx.L(sx.L(sx.Y(h), sx.L(sx.Y(q)), g.reCombine(c, sx.Y(q), g.reOperand(c)))),
			g.reCombine(c, append(append([]*sx.N{sx.Call(h, g.reOperand(c))}, g.reArgs(c, g.R.Range(1, 2))...), sx.Call(h, g.reOperand(c)))...))
	}
	// closure: a closure made before the recursion is called after it; a counter shared across the recursion
	k, cnt, s := c.local("k"), c.local("cnt"), c.local("s")
	if g.R.Bool() {
		g.shape("closure|called-after-recursion")
		return sx.Call("let", sx.L(sx.L(sx.Y(k), sx.Call("lambda", sx.L(), g.reCombine(c, g.reOperands(c, 2)...)))),
			g.reCombine(c, append(g.reArgs(c, g.R.Range(1, 3)), sx.Call("funcall", sx.Y(k)))...))
	}
	g.shape("closure|counter-across-recursion")
	return sx.Call("let", sx.L(sx.L(sx.Y(cnt), g.reOperand(c))),
		sx.Call("let", sx.L(sx.L(sx.Y(k), sx.Call("lambda", sx.L(sx.Y(s)), sx.Call("set!", sx.Y(cnt), sx.Call("+", sx.Y(cnt), sx.Y(s))), sx.Y(cnt)))),
			g.reCombine(c, append(append([]*sx.N{sx.Call("funcall", sx.Y(k), sx.I(1))}, g.reArgs(c, g.R.Range(1, 2))...), sx.Call("funcall", sx.Y(k), sx.Y(c.p0)))...)))
}

var reBuiltinOps = []string{"+", "-", "-", "max", "min", "*"}

// reentrantStep is the step of a recursion generated inside an ordinary program
// (defun / labels) of 1+extra required parameters: operands also draw on the
// general expression generator, kinds nest.
func (g *G) reentrantStep(name, p0 string, extra int) *sx.N {
	c := &reCtx{name: name, p0: p0, ops: reBuiltinOps, sites: 2, d: 1, extra: extra}
	c.kind = g.pickReKind()
	// the recursion stays bounded: no generated operand assigns to the counter
	top := g.scopes[len(g.scopes)-1]
	for i := range top {
		if top[i].name == p0 {
			top[i].frozen = true
			defer func(b *binding) { b.frozen = false }(&top[i])
		}
	}
	return g.reStep(c, c.kind)
}

// ReentrantProgram generates a program made of 1-3 bounded recursive functions
// whose step is a re-entrant form of ONE kind (returned), each called twice
// under a probe (depth 2..4 and a shallower one).  Operands are simple functions of the
// parameters, so the kind is the only construct class in the program.
func (g *G) ReentrantProgram() ([]*sx.N, string) {
	kind := g.pickReKind()
	forms := []*sx.N{
		// position-sensitive combiner: a swapped, missing or stale operand changes the sum
		sx.Call("defun", sx.Y("wsum"), sx.L(sx.Y("&rest"), sx.Y("xs")),
			sx.Call("foldl", sx.Call("lambda", sx.L(sx.Y("u"), sx.Y("w")), sx.Call("+", sx.Call("*", sx.I(3), sx.Y("u")), sx.Y("w"))), sx.I(0), sx.Y("xs"))),
	}
	ops := []string{"+", "-", "-", "wsum", "wsum", "max", "min", "*"}
	nf := g.R.Range(1, 3)
	var final []*sx.N
	for i := 1; i <= nf; i++ {
		name := fmt.Sprintf("r%d", i)
		c := &reCtx{name: name, p0: "n", pure: true, ops: ops, sites: 2, d: 1, kind: kind}
		formals := []*sx.N{sx.Y("n")}
		if g.R.Chance(1, 3) {
			c.p1 = "m"
			formals = append(formals, sx.Y("m"))
		}
		var base *sx.N = g.smallInt(-2, 9)
		if c.p1 != "" && g.R.Bool() {
			base = sx.Y("m")
		}
		step := g.reStep(c, kind)
		forms = append(forms, sx.Call("defun", sx.Y(name), sx.L(formals...), sx.Call("if", sx.Call("<=", sx.Y("n"), sx.I(0)), base, step)))
		call := func(n int) *sx.N {
			if c.p1 != "" {
				return sx.Call(name, sx.I(int64(n)), g.smallInt(-4, 9))
			}
			return sx.Call(name, sx.I(int64(n)))
		}
		// two calls: a deep one (the form is active in 3-5 activations) and a shallower one
		hi := g.R.Range(2, 4)
		lo := g.R.Range(0, hi-1)
		if c.p1 == "" && g.R.Bool() {
			forms = append(forms, g.probe("r", sx.Call("map", sx.QY("list"), sx.Y(name), sx.Q(sx.L(sx.I(int64(lo)), sx.I(int64(hi)))))))
		} else {
			forms = append(forms, g.probe("r", sx.Call("list", call(lo), call(hi))))
		}
		final = append(final, call(g.R.Range(1, 3)))
	}
	forms = append(forms, sx.Call("list", final...))
	return forms, kind
}
