// Package gen generates core-language programs as sx trees.  Generation is
// scope- and type-aware so that most programs run deep before failing, and it
// deliberately injects the hostile combinations the properties name: shadowing
// (of locals, parameters, globals and builtins), closures that outlive their
// scope and share a mutated binding, optional/rest/keyword parameters, wrong
// arity, ill-typed arguments, boundary numbers, empty and nested sequences.
package gen

import (
	"fmt"
	"math"

	"verifharness/fw"
	"verifharness/sx"
)

type Ty int

const (
	TInt Ty = iota
	TFloat
	TStr
	TBool
	TSym
	TListInt
	TVecInt
	TMap  // string/symbol keys -> int
	TFun1 // int -> int
	TAny
	nTy
)

type binding struct {
	name string
	ty   Ty
	// for functions
	isFn     bool
	req, opt int
	rest     bool
	keys     []string
	ret      Ty
	mutable  bool // a local that closures may set!
	recur    bool // recursive on its first parameter: call it with a small literal only
	frozen   bool // never the target of a generated set! (the counter of a bounded recursion)
}

// Profile tunes the generator.
type Profile struct {
	Hostile       int  // per-mille chance that an expression is replaced by an ill-typed / wrong-arity one
	Handlers      bool // generate handler-bind / ignore-errors / error
	Macros        bool // generate defmacro / macrolet with quasiquote templates
	MaxDepth      int
	TopForms      int
	NoFloats      bool
	LoopBudget    int // max iteration count used for dotimes / recursion
	Shadow        int // per-mille chance of choosing a shadowing name
	CaptureShadow int // per-mille chance that an int-valued let/let* is a captureLet (a closure initialiser captures a variable the form rebinds); 0 leaves generation as it was
	Reentrant     int // per-mille chance that a bounded recursion's step is a re-entrant form (reentrant.go); 0 leaves generation as it was
}

func DefaultProfile() Profile {
	return Profile{Hostile: 15, Handlers: true, MaxDepth: 5, TopForms: 8, LoopBudget: 6, Shadow: 150}
}

type G struct {
	R       *fw.RNG
	P       Profile
	scopes  [][]binding
	globals []binding
	nfun    int
	nglob   int
	nprobe  int
	nloc    int
	Feat    map[string]bool
	Shape   map[string]bool // shapes of the re-entrant forms generated (coverage)
	inFn    int
	forceRe bool // the next defun is a bounded recursion with a re-entrant step
}

func New(r *fw.RNG, p Profile) *G {
	return &G{R: r, P: p, Feat: map[string]bool{}}
}

var boundaryInts = []int64{0, 1, -1, 2, 3, 7, 10, 100, 255, 256, -128, 1 << 31, -(1 << 31), 1<<53 - 1, 1 << 53, 1<<53 + 1,
	math.MaxInt64, math.MinInt64, math.MaxInt64 - 1, math.MinInt64 + 1}

var boundaryFloats = []float64{0, 1, -1, 0.5, -0.5, 1.5, 2.25, 1e21, 1e-7, 1e20, 123456789.125, 9007199254740992, 9007199254740993,
	5e-324, 2.2250738585072014e-308, 1.7976931348623157e308, 0.1, 0.2, 0.30000000000000004, 100.0, -2.5e-5}

var strPool = []string{"", "a", "b", "abc", "hello", "x y", "ü", "0", "12", "-7", "zz", "A", "q\"uote", "tab\there", "nl\nx"}
var symPool = []string{"a", "b", "foo", "bar", "alpha", "k1", "k2", "zed"}
var keyPool = []string{"a", "b", "c", "k1", "k2", "zz", "alpha"}
var localNames = []string{"a", "b", "c", "x", "y", "z", "n", "m", "acc", "v", "w"}
var shadowNames = []string{"list", "car", "length", "map", "first", "x", "n", "g1", "f1", "g2", "rest", "vector"}

func (g *G) feat(s string) { g.Feat[s] = true }

func (g *G) chance(permille int) bool { return g.R.Intn(1000) < permille }

func (g *G) push()          { g.scopes = append(g.scopes, nil) }
func (g *G) pop()           { g.scopes = g.scopes[:len(g.scopes)-1] }
func (g *G) bind(b binding) { g.scopes[len(g.scopes)-1] = append(g.scopes[len(g.scopes)-1], b) }

// visible returns the bindings visible now (innermost first), shadowed ones removed.
func (g *G) visible() []binding {
	seen := map[string]bool{}
	var out []binding
	for i := len(g.scopes) - 1; i >= 0; i-- {
		sc := g.scopes[i]
		for j := len(sc) - 1; j >= 0; j-- {
			if !seen[sc[j].name] {
				seen[sc[j].name] = true
				out = append(out, sc[j])
			}
		}
	}
	for j := len(g.globals) - 1; j >= 0; j-- {
		if !seen[g.globals[j].name] {
			seen[g.globals[j].name] = true
			out = append(out, g.globals[j])
		}
	}
	return out
}

func (g *G) varsOf(t Ty) []binding {
	var out []binding
	for _, b := range g.visible() {
		if !b.isFn && (b.ty == t || t == TAny) {
			out = append(out, b)
		}
	}
	return out
}

func (g *G) funs() []binding {
	var out []binding
	for _, b := range g.visible() {
		if b.isFn {
			out = append(out, b)
		}
	}
	return out
}

func (g *G) freshLocal() string {
	if g.chance(g.P.Shadow) {
		g.feat("shadowing-name")
		return fw.Pick(g.R, shadowNames)
	}
	return fw.Pick(g.R, localNames)
}

func (g *G) probe(tag string, e *sx.N) *sx.N {
	g.nprobe++
	return sx.Call("verif:probe", sx.QY(fmt.Sprintf("%s%d", tag, g.nprobe)), e)
}

// ---------------------------------------------------------------------------
// literals

func (g *G) intLit() *sx.N {
	if g.chance(250) {
		return sx.I(fw.Pick(g.R, boundaryInts))
	}
	return sx.I(int64(g.R.Range(-9, 20)))
}

func (g *G) smallInt(lo, hi int) *sx.N { return sx.I(int64(g.R.Range(lo, hi))) }

func (g *G) floatLit() *sx.N {
	if g.chance(500) {
		return sx.F(fw.Pick(g.R, boundaryFloats))
	}
	return sx.F(float64(g.R.Range(-40, 40)) / 4)
}

func (g *G) strLit() *sx.N { return sx.S(fw.Pick(g.R, strPool)) }

func (g *G) listIntLit() *sx.N {
	n := g.R.Range(0, 5)
	switch g.R.Intn(3) {
	case 0: // quoted literal
		xs := make([]*sx.N, n)
		for i := range xs {
			xs[i] = g.smallInt(-5, 30)
		}
		g.feat("quoted-list-literal")
		return sx.Q(sx.L(xs...))
	case 1:
		xs := make([]*sx.N, n)
		for i := range xs {
			xs[i] = g.smallInt(-5, 30)
		}
		g.feat("bracket-literal")
		return sx.B(xs...)
	}
	xs := make([]*sx.N, n)
	for i := range xs {
		xs[i] = g.expr(TInt, 1)
	}
	return sx.Call("list", xs...)
}

// ---------------------------------------------------------------------------
// expressions by type

// Expr generates an expression of (usually) type t.
func (g *G) Expr(t Ty) *sx.N { return g.expr(t, g.P.MaxDepth) }

func (g *G) expr(t Ty, d int) *sx.N {
	if g.P.Hostile > 0 && g.chance(g.P.Hostile) {
		return g.hostile(t, d)
	}
	if d <= 0 {
		return g.leaf(t)
	}
	// generic wrappers usable at every type
	if g.chance(260) {
		return g.wrapper(t, d)
	}
	switch t {
	case TInt:
		return g.intExpr(d)
	case TFloat:
		return g.floatExpr(d)
	case TStr:
		return g.strExpr(d)
	case TBool:
		return g.boolExpr(d)
	case TSym:
		return sx.QY(fw.Pick(g.R, symPool))
	case TListInt:
		return g.listExpr(d)
	case TVecInt:
		return g.vecExpr(d)
	case TMap:
		return g.mapExpr(d)
	case TFun1:
		return g.fun1Expr(d)
	}
	return g.expr(Ty(g.R.Intn(int(TFun1))), d)
}

func (g *G) leaf(t Ty) *sx.N {
	if vs := g.varsOf(t); len(vs) > 0 && g.chance(600) {
		g.feat("var-ref")
		return sx.Y(fw.Pick(g.R, vs).name)
	}
	switch t {
	case TInt:
		return g.intLit()
	case TFloat:
		if g.P.NoFloats {
			return g.intLit()
		}
		return g.floatLit()
	case TStr:
		return g.strLit()
	case TBool:
		return sx.Y(fw.Pick(g.R, []string{"true", "false"}))
	case TSym:
		return sx.QY(fw.Pick(g.R, symPool))
	case TListInt:
		return g.listIntLit()
	case TVecInt:
		n := g.R.Range(0, 4)
		xs := make([]*sx.N, n)
		for i := range xs {
			xs[i] = g.smallInt(-5, 30)
		}
		return sx.Call("vector", xs...)
	case TMap:
		return g.mapLit()
	case TFun1:
		return g.lambda1(0)
	}
	return g.leaf(Ty(g.R.Intn(int(TFun1))))
}

func (g *G) mapLit() *sx.N {
	n := g.R.Range(0, 4)
	var xs []*sx.N
	for i := 0; i < n; i++ {
		k := fw.Pick(g.R, keyPool)
		switch g.R.Intn(3) {
		case 0:
			xs = append(xs, sx.S(k))
		case 1:
			xs = append(xs, sx.QY(k))
		default:
			xs = append(xs, sx.Y(":"+k))
		}
		xs = append(xs, g.smallInt(0, 50))
	}
	return sx.Call("sorted-map", xs...)
}

func (g *G) wrapper(t Ty, d int) *sx.N {
	switch g.R.Intn(13) {
	case 0:
		g.feat("if")
		return sx.Call("if", g.expr(TBool, d-1), g.expr(t, d-1), g.expr(t, d-1))
	case 1:
		g.feat("let")
		if t == TInt && g.P.CaptureShadow > 0 && g.chance(g.P.CaptureShadow) {
			return g.captureLet("let", d)
		}
		return g.letForm("let", t, d)
	case 2:
		g.feat("let*")
		if t == TInt && g.P.CaptureShadow > 0 && g.chance(g.P.CaptureShadow) {
			return g.captureLet("let*", d)
		}
		return g.letForm("let*", t, d)
	case 3:
		g.feat("progn")
		n := g.R.Range(0, 2)
		xs := make([]*sx.N, 0, n+1)
		for i := 0; i < n; i++ {
			xs = append(xs, g.effect(d-1))
		}
		xs = append(xs, g.expr(t, d-1))
		return sx.Call("progn", xs...)
	case 4:
		g.feat("probe")
		return g.probe("p", g.expr(t, d-1))
	case 5:
		g.feat("cond")
		n := g.R.Range(1, 3)
		var cl []*sx.N
		for i := 0; i < n; i++ {
			cl = append(cl, sx.L(g.expr(TBool, d-1), g.expr(t, d-1)))
		}
		if g.R.Bool() {
			cl = append(cl, sx.L(sx.Y("else"), g.expr(t, d-1)))
		} else {
			cl = append(cl, sx.L(sx.Y(":else"), g.expr(t, d-1)))
		}
		return sx.Call("cond", cl...)
	case 6:
		g.feat("funcall-lambda")
		// ((lambda (p) body) arg) or (funcall (lambda ...) arg)
		pt := Ty(g.R.Intn(int(TVecInt) + 1))
		name := g.freshLocal()
		g.push()
		g.bind(binding{name: name, ty: pt})
		body := g.expr(t, d-1)
		g.pop()
		lam := sx.Call("lambda", sx.L(sx.Y(name)), body)
		if g.R.Bool() {
			return sx.L(lam, g.expr(pt, d-1))
		}
		return sx.Call("funcall", lam, g.expr(pt, d-1))
	case 7:
		g.feat("flet/labels")
		return g.fletForm(t, d)
	case 8:
		g.feat("or/and")
		if t == TBool || t == TInt {
			op := fw.Pick(g.R, []string{"or", "and"})
			n := g.R.Range(0, 3)
			xs := make([]*sx.N, n)
			for i := range xs {
				xs[i] = g.expr(t, d-1)
			}
			if n == 0 && t != TBool {
				xs = append(xs, g.expr(t, d-1))
			}
			return sx.Call(op, xs...)
		}
		return sx.Call("or", sx.Y("false"), g.expr(t, d-1))
	case 9:
		g.feat("dotimes-result")
		v := g.freshLocal()
		g.push()
		g.bind(binding{name: v, ty: TInt})
		body := g.effect(d - 1)
		res := g.expr(t, d-1)
		g.pop()
		return sx.Call("dotimes", sx.L(sx.Y(v), g.smallInt(0, g.P.LoopBudget), res), body)
	case 10:
		g.feat("thread")
		if t == TInt {
			op := fw.Pick(g.R, []string{"thread-first", "thread-last"})
			return sx.Call(op, g.expr(TInt, d-1), sx.Call("+", g.smallInt(0, 5)), sx.Call("-", g.smallInt(0, 5)))
		}
		return sx.Call("thread-first", g.expr(t, d-1), sx.Call("identity"))
	case 11:
		if g.P.Handlers {
			g.feat("handler-bind")
			return g.handlerForm(t, d)
		}
		return sx.Call("identity", g.expr(t, d-1))
	default:
		if fs := g.funsReturning(t); len(fs) > 0 {
			g.feat("user-call")
			return g.callUser(fw.Pick(g.R, fs), d)
		}
		return sx.Call("identity", g.expr(t, d-1))
	}
}

func (g *G) funsReturning(t Ty) []binding {
	var out []binding
	for _, f := range g.funs() {
		if f.ret == t {
			out = append(out, f)
		}
	}
	return out
}

func (g *G) callUser(f binding, d int) *sx.N {
	var args []*sx.N
	for i := 0; i < f.req; i++ {
		if i == 0 && f.recur {
			args = append(args, g.smallInt(0, g.P.LoopBudget))
			continue
		}
		args = append(args, g.expr(TInt, d-1))
	}
	nopt := g.R.Intn(f.opt + 1)
	for i := 0; i < nopt; i++ {
		args = append(args, g.expr(TInt, d-1))
	}
	if f.rest && nopt == f.opt {
		for i := g.R.Intn(3); i > 0; i-- {
			args = append(args, g.expr(TInt, d-1))
		}
	}
	if len(f.keys) > 0 && nopt == f.opt {
		ks := append([]string(nil), f.keys...)
		fw.Shuffle(g.R, ks)
		for _, k := range ks[:g.R.Intn(len(ks)+1)] {
			args = append(args, sx.Y(":"+k), g.expr(TInt, d-1))
		}
	}
	return sx.Call(f.name, args...)
}

func (g *G) letForm(kind string, t Ty, d int) *sx.N {
	n := g.R.Range(1, 3)
	var binds []*sx.N
	g.push()
	var pend []binding
	for i := 0; i < n; i++ {
		bt := Ty(g.R.Intn(int(TFun1) + 1))
		name := g.freshLocal()
		init := g.expr(bt, d-1)
		b := binding{name: name, ty: bt}
		if bt == TFun1 {
			b = binding{name: name, isFn: true, req: 1, ret: TInt}
		}
		if kind == "let*" {
			g.bind(b)
		} else {
			pend = append(pend, b)
		}
		pair := []*sx.N{sx.Y(name), init}
		if g.R.Bool() {
			binds = append(binds, sx.B(pair...))
		} else {
			binds = append(binds, sx.L(pair...))
		}
	}
	for _, b := range pend {
		g.bind(b)
	}
	var body []*sx.N
	for i := g.R.Intn(2); i > 0; i-- {
		body = append(body, g.effect(d-1))
	}
	body = append(body, g.expr(t, d-1))
	g.pop()
	return sx.Call(kind, append([]*sx.N{sx.L(binds...)}, body...)...)
}

// captureLet: a closure created by one initialiser of a let / let* refers to a
// variable that the SAME form rebinds (before or after it), and is called in the
// body: it must see the binding of the environment it was created in.
func (g *G) captureLet(kind string, d int) *sx.N {
	g.feat(kind + "-rebinds-captured-var")
	x := g.freshLocal()
	f := fw.Pick(g.R, []string{"cf", "getx", "k"})
	outer := g.expr(TInt, d-2)
	g.push()
	g.bind(binding{name: x, ty: TInt})
	clo := sx.Call("lambda", sx.L(sx.Y("q")), sx.Call(fw.Pick(g.R, []string{"+", "-", "*"}), sx.Y("q"), sx.Y(x)))
	if g.R.Chance(1, 3) {
		clo = sx.Call("lambda", sx.L(), sx.Y(x))
	}
	pair := func(a, b *sx.N) *sx.N {
		if g.R.Bool() {
			return sx.B(a, b)
		}
		return sx.L(a, b)
	}
	binds := []*sx.N{pair(sx.Y(f), clo), pair(sx.Y(x), g.expr(TInt, d-2))}
	if g.R.Chance(1, 3) {
		binds[0], binds[1] = binds[1], binds[0]
	}
	if g.R.Chance(1, 3) {
		binds = append(binds, pair(sx.Y(g.freshLocal()), g.expr(TInt, d-2)))
	}
	call := sx.Call(f, g.smallInt(0, 9))
	if len(clo.L[1].L) == 0 {
		call = sx.Call(f)
	}
	body := sx.Call(fw.Pick(g.R, []string{"+", "-", "list"}), sx.Y(x), call, sx.Y(x))
	if body.Head() == "list" {
		body = sx.Call("apply", sx.Y("-"), body)
	}
	g.pop()
	return sx.Call("let", sx.L(sx.L(sx.Y(x), outer)), sx.Call(kind, sx.L(binds...), body))
}

func (g *G) fletForm(t Ty, d int) *sx.N {
	kind := fw.Pick(g.R, []string{"flet", "labels"})
	name := fw.Pick(g.R, []string{"h", "k", "helper", "aux"})
	p := g.freshLocal()
	g.push()
	g.push()
	g.bind(binding{name: p, ty: TInt})
	var body *sx.N
	if kind == "labels" && g.R.Bool() {
		// bounded recursion (the only way a labels body refers to itself)
		var step *sx.N
		if g.P.Reentrant > 0 && g.chance(g.P.Reentrant) {
			step = g.reentrantStep(name, p, 0)
			g.feat("reentrant-recursion")
		} else {
			step = sx.Call("+", sx.I(1), sx.Call(name, sx.Call("-", sx.Y(p), sx.I(1))))
		}
		body = sx.Call("if", sx.Call("<=", sx.Y(p), sx.I(0)), g.expr(TInt, d-2), step)
		g.feat("labels-recursion")
	} else {
		body = g.expr(TInt, d-1)
	}
	g.pop()
	g.bind(binding{name: name, isFn: true, req: 1, ret: TInt, recur: true})
	use := g.expr(t, d-1)
	g.pop()
	if t == TInt {
		use = sx.Call(name, g.smallInt(0, g.P.LoopBudget))
	}
	return sx.Call(kind, sx.L(sx.L(sx.Y(name), sx.L(sx.Y(p)), body)), use)
}

func (g *G) handlerForm(t Ty, d int) *sx.N {
	if g.R.Intn(3) == 0 {
		// ignore-errors returns () on error: keep typing loose
		return sx.Call("or", sx.Call("ignore-errors", g.expr(t, d-1)), g.leaf(t))
	}
	n := g.R.Range(1, 2)
	var binds []*sx.N
	for i := 0; i < n; i++ {
		c := fw.Pick(g.R, []string{"condition", "error", "my-err", "other-err"})
		g.push()
		g.bind(binding{name: "c", ty: TSym})
		h := sx.Call("lambda", sx.L(sx.Y("c"), sx.Y("&rest"), sx.Y("args")), g.expr(t, d-1))
		g.pop()
		binds = append(binds, sx.L(sx.Y(c), h))
	}
	body := g.expr(t, d-1)
	if g.chance(400) {
		body = sx.Call("progn", sx.Call("error", sx.QY(fw.Pick(g.R, []string{"my-err", "other-err", "third-err"})), g.expr(TInt, 1)), body)
		g.feat("error-raise")
	}
	return sx.Call("handler-bind", sx.L(binds...), body)
}

// effect generates a statement evaluated for its side effect.
func (g *G) effect(d int) *sx.N {
	switch g.R.Intn(6) {
	case 0:
		if vs := g.mutables(); len(vs) > 0 {
			v := fw.Pick(g.R, vs)
			g.feat("set!")
			return sx.Call("set!", sx.Y(v.name), g.expr(v.ty, d-1))
		}
	case 1:
		if vs := g.varsOf(TVecInt); len(vs) > 0 {
			g.feat("append!")
			return sx.Call("append!", sx.Y(fw.Pick(g.R, vs).name), g.expr(TInt, d-1))
		}
	case 2:
		if vs := g.varsOf(TMap); len(vs) > 0 {
			g.feat("assoc!")
			return sx.Call("assoc!", sx.Y(fw.Pick(g.R, vs).name), sx.S(fw.Pick(g.R, keyPool)), g.expr(TInt, d-1))
		}
	case 3:
		g.feat("debug-print")
		return sx.Call("debug-print", g.expr(Ty(g.R.Intn(3)), d-1))
	}
	return g.probe("e", g.expr(Ty(g.R.Intn(int(TMap)+1)), d-1))
}

func (g *G) mutables() []binding {
	var out []binding
	for _, b := range g.visible() {
		if !b.isFn && b.ty <= TBool && !b.frozen {
			out = append(out, b)
		}
	}
	return out
}

func (g *G) intExpr(d int) *sx.N {
	switch g.R.Intn(20) {
	case 0, 1:
		op := fw.Pick(g.R, []string{"+", "-", "*"})
		g.feat("arith")
		n := g.R.Range(0, 3)
		xs := make([]*sx.N, n)
		for i := range xs {
			xs[i] = g.expr(TInt, d-1)
		}
		return sx.Call(op, xs...)
	case 2:
		g.feat("mod")
		return sx.Call("mod", g.expr(TInt, d-1), sx.I(int64(g.R.Range(1, 9))))
	case 3:
		g.feat("length")
		return sx.Call("length", g.expr(fw.Pick(g.R, []Ty{TListInt, TVecInt, TStr, TMap}), d-1))
	case 4:
		g.feat("foldl")
		return sx.Call(fw.Pick(g.R, []string{"foldl", "foldr"}), g.fn2(d-1), g.expr(TInt, d-1), g.expr(fw.Pick(g.R, []Ty{TListInt, TVecInt}), d-1))
	case 5:
		g.feat("apply")
		return sx.Call("apply", sx.Y(fw.Pick(g.R, []string{"+", "*", "max", "-"})), g.smallInt(1, 4), g.expr(TListInt, d-1))
	case 6:
		g.feat("max/min")
		return sx.Call(fw.Pick(g.R, []string{"max", "min"}), g.expr(TInt, d-1), g.expr(TInt, d-1))
	case 7:
		g.feat("call-fun1")
		return sx.Call("funcall", g.expr(TFun1, d-1), g.expr(TInt, d-1))
	case 8:
		g.feat("or-get")
		return sx.Call("or", sx.Call("get", g.expr(TMap, d-1), g.keyExpr()), g.smallInt(0, 9))
	case 9:
		g.feat("or-nth")
		return sx.Call("or", sx.Call(fw.Pick(g.R, []string{"first", "second"}), g.expr(fw.Pick(g.R, []Ty{TListInt, TVecInt}), d-1)), g.smallInt(0, 9))
	case 10:
		g.feat("or-car")
		return sx.Call("or", sx.Call("car", g.expr(TListInt, d-1)), g.smallInt(0, 9))
	case 11:
		g.feat("or-nth")
		return sx.Call("or", sx.Call("nth", g.expr(fw.Pick(g.R, []Ty{TListInt, TVecInt}), d-1), g.smallInt(0, 4)), g.smallInt(0, 9))
	case 12:
		g.feat("to-int")
		return sx.Call("to-int", sx.S(fmt.Sprint(g.R.Range(-99, 999))))
	case 13:
		g.feat("pow")
		return sx.Call("pow", g.smallInt(-3, 5), g.smallInt(0, 6))
	case 14:
		g.feat("div-exact")
		k := int64(g.R.Range(1, 6))
		return sx.Call("/", sx.Call("*", sx.I(k), g.expr(TInt, d-1)), sx.I(k))
	case 15:
		if fs := g.funsReturning(TInt); len(fs) > 0 {
			g.feat("user-call")
			return g.callUser(fw.Pick(g.R, fs), d)
		}
	case 16:
		g.feat("to-int-float")
		return sx.Call("to-int", sx.F(float64(g.R.Range(-400, 400))/8))
	}
	return g.leaf(TInt)
}

func (g *G) keyExpr() *sx.N {
	k := fw.Pick(g.R, keyPool)
	switch g.R.Intn(3) {
	case 0:
		return sx.S(k)
	case 1:
		return sx.QY(k)
	}
	return sx.Y(":" + k)
}

// fn2 is a binary int function designator.
func (g *G) fn2(d int) *sx.N {
	switch g.R.Intn(4) {
	case 0:
		return sx.Y("+")
	case 1:
		return sx.FR("max")
	case 2:
		return sx.QY("+")
	}
	a, b := "u", "w"
	g.push()
	g.bind(binding{name: a, ty: TInt})
	g.bind(binding{name: b, ty: TInt})
	body := g.expr(TInt, d-1)
	g.pop()
	return sx.Call("lambda", sx.L(sx.Y(a), sx.Y(b)), body)
}

func (g *G) floatExpr(d int) *sx.N {
	if g.P.NoFloats {
		return g.intExpr(d)
	}
	switch g.R.Intn(8) {
	case 0, 1:
		op := fw.Pick(g.R, []string{"+", "-", "*", "/"})
		g.feat("float-arith")
		return sx.Call(op, g.expr(TFloat, d-1), g.expr(fw.Pick(g.R, []Ty{TInt, TFloat}), d-1))
	case 2:
		g.feat("to-float")
		return sx.Call("to-float", g.expr(TInt, d-1))
	case 3:
		g.feat("div-inexact")
		return sx.Call("/", g.expr(TInt, d-1), sx.I(int64(g.R.Range(2, 9))), sx.F(1))
	case 4:
		g.feat("pow-float")
		return sx.Call("pow", g.expr(TFloat, d-1), g.smallInt(-2, 3))
	case 5:
		g.feat("max-mixed")
		return sx.Call("+", sx.F(0), sx.Call("max", g.expr(TInt, d-1), g.expr(TFloat, d-1)))
	}
	return g.leaf(TFloat)
}

func (g *G) strExpr(d int) *sx.N {
	switch g.R.Intn(6) {
	case 0:
		g.feat("to-string")
		return sx.Call("to-string", g.expr(fw.Pick(g.R, []Ty{TInt, TFloat, TStr, TSym}), d-1))
	case 1:
		g.feat("concat-string")
		return sx.Call("concat", sx.QY("string"), g.expr(TStr, d-1), g.expr(TStr, d-1))
	case 2:
		g.feat("format-string")
		return sx.Call("format-string", sx.S(fw.Pick(g.R, []string{"{}-{}", "v={}", "{0}{1}{0}", "{{}} {}", "plain"})), g.expr(TInt, d-1), g.expr(TStr, d-1))
	case 3:
		g.feat("slice-string")
		return sx.Call("slice", sx.QY("string"), sx.S("abcdefgh"), g.smallInt(0, 4), g.smallInt(4, 8))
	}
	return g.leaf(TStr)
}

func (g *G) boolExpr(d int) *sx.N {
	switch g.R.Intn(12) {
	case 0, 1:
		g.feat("num-compare")
		op := fw.Pick(g.R, []string{"<", "<=", ">", ">=", "="})
		return sx.Call(op, g.expr(fw.Pick(g.R, []Ty{TInt, TFloat}), d-1), g.expr(fw.Pick(g.R, []Ty{TInt, TFloat}), d-1))
	case 2:
		g.feat("equal?")
		t := fw.Pick(g.R, []Ty{TInt, TStr, TListInt, TVecInt, TMap, TSym, TFloat})
		return sx.Call("equal?", g.expr(t, d-1), g.expr(t, d-1))
	case 3:
		g.feat("type-pred")
		pr := fw.Pick(g.R, []string{"nil?", "list?", "int?", "float?", "number?", "string?", "symbol?", "vector?", "array?", "sorted-map?", "bool?", "true?", "not", "bytes?", "empty?"})
		t := Ty(g.R.Intn(int(TMap) + 1))
		if pr == "empty?" {
			t = fw.Pick(g.R, []Ty{TListInt, TVecInt, TStr, TMap})
		}
		return sx.Call(pr, g.expr(t, d-1))
	case 4:
		g.feat("string-compare")
		return sx.Call(fw.Pick(g.R, []string{"string=", "string<", "string<=", "string>", "string>="}), g.expr(TStr, d-1), g.expr(TStr, d-1))
	case 5:
		g.feat("key?")
		return sx.Call("key?", g.expr(TMap, d-1), g.keyExpr())
	case 6:
		g.feat("all?/any?")
		return sx.Call("true?", sx.Call(fw.Pick(g.R, []string{"all?", "any?"}), g.pred1(d-1), g.expr(fw.Pick(g.R, []Ty{TListInt, TVecInt}), d-1)))
	case 7:
		g.feat("not")
		return sx.Call("not", g.expr(TBool, d-1))
	case 8:
		g.feat("symbol=")
		return sx.Call("symbol=", g.expr(TSym, d-1), g.expr(TSym, d-1))
	}
	return g.leaf(TBool)
}

func (g *G) pred1(d int) *sx.N {
	p := "q"
	g.push()
	g.bind(binding{name: p, ty: TInt})
	body := g.expr(TBool, d-1)
	g.pop()
	return sx.Call("lambda", sx.L(sx.Y(p)), body)
}

func (g *G) lambda1(d int) *sx.N {
	p := g.freshLocal()
	g.push()
	g.bind(binding{name: p, ty: TInt})
	body := g.expr(TInt, d)
	g.pop()
	return sx.Call("lambda", sx.L(sx.Y(p)), body)
}

func (g *G) fun1Expr(d int) *sx.N {
	switch g.R.Intn(5) {
	case 0:
		// counter closure: shares a mutated binding with itself across calls
		g.feat("closure-counter")
		c := g.freshLocal()
		return sx.Call("let", sx.L(sx.L(sx.Y(c), g.expr(TInt, d-1))),
			sx.Call("lambda", sx.L(sx.Y("step")), sx.Call("set!", sx.Y(c), sx.Call("+", sx.Y(c), sx.Y("step"))), sx.Y(c)))
	case 1:
		if fs := g.funs(); len(fs) > 0 {
			f := fw.Pick(g.R, fs)
			if f.req == 1 && f.ret == TInt && f.opt == 0 && len(f.keys) == 0 && !f.recur && !f.rest {
				g.feat("funref")
				if g.R.Bool() {
					return sx.FR(f.name)
				}
				return sx.Y(f.name)
			}
		}
	case 2:
		g.feat("builtin-as-value")
		return sx.Y(fw.Pick(g.R, []string{"-", "identity", "+"}))
	}
	return g.lambda1(d - 1)
}

func (g *G) listExpr(d int) *sx.N {
	seq := func() *sx.N { return g.expr(fw.Pick(g.R, []Ty{TListInt, TVecInt}), d-1) }
	switch g.R.Intn(16) {
	case 0:
		g.feat("map")
		return sx.Call("map", sx.QY("list"), g.expr(TFun1, d-1), seq())
	case 1:
		g.feat("select/reject")
		return sx.Call(fw.Pick(g.R, []string{"select", "reject"}), sx.QY("list"), g.pred1(d-1), seq())
	case 2:
		g.feat("cons")
		return sx.Call("cons", g.expr(TInt, d-1), g.expr(TListInt, d-1))
	case 3:
		g.feat("cdr/rest")
		if g.R.Bool() {
			return sx.Call("cdr", g.expr(TListInt, d-1))
		}
		return sx.Call("rest", seq())
	case 4:
		g.feat("append")
		return sx.Call("append", sx.QY("list"), seq(), g.expr(TInt, d-1))
	case 5:
		g.feat("concat")
		return sx.Call("concat", sx.QY("list"), seq(), seq())
	case 6:
		g.feat("reverse")
		return sx.Call("reverse", sx.QY("list"), seq())
	case 7:
		g.feat("slice")
		return sx.Call("slice", sx.QY("list"), sx.Call("list", sx.I(1), sx.I(2), sx.I(3), sx.I(4), g.expr(TInt, d-1)), g.smallInt(0, 2), g.smallInt(2, 5))
	case 8:
		g.feat("make-sequence")
		return sx.Call("make-sequence", g.smallInt(-2, 3), g.smallInt(0, 8), g.smallInt(1, 3))
	case 9:
		g.feat("insert-index")
		return sx.Call("insert-index", sx.QY("list"), sx.Call("list", sx.I(1), sx.I(2)), g.smallInt(0, 2), g.expr(TInt, d-1))
	case 10:
		g.feat("list")
		n := g.R.Range(0, 4)
		xs := make([]*sx.N, n)
		for i := range xs {
			xs[i] = g.expr(TInt, d-1)
		}
		return sx.Call("list", xs...)
	case 12:
		g.feat("stable-sort")
		return sx.Call("stable-sort", sx.Y(fw.Pick(g.R, []string{"<", ">", "<=", ">="})), sx.Call("list", g.expr(TInt, d-1), g.smallInt(-5, 9), g.smallInt(-5, 9), g.expr(TInt, d-1)))
	case 13:
		g.feat("stable-sort-key")
		return sx.Call("stable-sort", sx.Y("<"), sx.Call("list", g.smallInt(-5, 9), g.smallInt(-5, 9), g.smallInt(-5, 9)), sx.Y("-"))
	case 11:
		g.feat("rest-args")
		return sx.L(sx.Call("lambda", sx.L(sx.Y("&rest"), sx.Y("xs")), sx.Y("xs")), g.expr(TInt, d-1), g.expr(TInt, d-1))
	}
	return g.leaf(TListInt)
}

func (g *G) vecExpr(d int) *sx.N {
	seq := func() *sx.N { return g.expr(fw.Pick(g.R, []Ty{TListInt, TVecInt}), d-1) }
	switch g.R.Intn(9) {
	case 0:
		g.feat("map-vector")
		return sx.Call("map", sx.QY("vector"), g.expr(TFun1, d-1), seq())
	case 1:
		g.feat("append-vector")
		return sx.Call("append", sx.QY("vector"), seq(), g.expr(TInt, d-1))
	case 2:
		g.feat("concat-vector")
		return sx.Call("concat", sx.QY("vector"), seq(), seq())
	case 3:
		g.feat("reverse-vector")
		return sx.Call("reverse", sx.QY("vector"), seq())
	case 4:
		g.feat("append!-fresh")
		return sx.Call("append!", sx.Call("vector", g.expr(TInt, d-1)), g.expr(TInt, d-1))
	case 5:
		g.feat("select-vector")
		return sx.Call(fw.Pick(g.R, []string{"select", "reject"}), sx.QY("vector"), g.pred1(d-1), seq())
	}
	return g.leaf(TVecInt)
}

func (g *G) mapExpr(d int) *sx.N {
	switch g.R.Intn(7) {
	case 0:
		g.feat("assoc")
		return sx.Call("assoc", g.expr(TMap, d-1), g.keyExpr(), g.expr(TInt, d-1))
	case 1:
		g.feat("dissoc")
		return sx.Call("dissoc", g.expr(TMap, d-1), g.keyExpr())
	case 2:
		g.feat("assoc-nil")
		return sx.Call("assoc", sx.Nil(), g.keyExpr(), g.expr(TInt, d-1))
	case 3:
		g.feat("assoc!-fresh")
		return sx.Call("assoc!", sx.Call("sorted-map"), g.keyExpr(), g.expr(TInt, d-1))
	}
	return g.leaf(TMap)
}

// hostile returns an expression that is ill-typed, mis-aritied or unbound.
func (g *G) hostile(t Ty, d int) *sx.N {
	g.feat("hostile")
	switch g.R.Intn(12) {
	case 0:
		g.feat("hostile:unbound")
		if g.R.Chance(1, 3) {
			// qualified: the package exists, the name is not bound in it
			g.feat("hostile:unbound-qualified")
			return sx.Y(fmt.Sprintf("%s:unbound-%d", fw.Pick(g.R, []string{"lisp", "user"}), g.R.Intn(5)))
		}
		return sx.Y(fmt.Sprintf("unbound-%d", g.R.Intn(5)))
	case 1:
		g.feat("hostile:arity-builtin")
		return sx.Call(fw.Pick(g.R, []string{"car", "cons", "nth", "mod", "identity", "length", "not", "reverse"}))
	case 2:
		g.feat("hostile:arity-extra")
		return sx.Call(fw.Pick(g.R, []string{"car", "identity", "length", "not", "if"}), g.leaf(TInt), g.leaf(TInt), g.leaf(TInt), g.leaf(TInt))
	case 3:
		g.feat("hostile:type")
		return sx.Call(fw.Pick(g.R, []string{"+", "car", "length", "<", "string<", "mod", "nth", "cons", "get", "keys", "first", "rest", "append!", "assoc!", "to-int", "symbol="}),
			g.leaf(Ty(g.R.Intn(int(nTy)-1))), g.leaf(Ty(g.R.Intn(int(nTy)-1))))
	case 4:
		g.feat("hostile:not-a-function")
		return sx.L(g.leaf(fw.Pick(g.R, []Ty{TInt, TStr, TListInt})), g.leaf(TInt))
	case 5:
		if fs := g.funs(); len(fs) > 0 {
			g.feat("hostile:arity-user")
			f := fw.Pick(g.R, fs)
			n := f.req - 1
			if n < 0 || g.R.Bool() {
				n = f.req + f.opt + 1 + 2*len(f.keys)
			}
			if f.rest && n > f.req {
				n = 0
				if f.req == 0 {
					return sx.Call(f.name, sx.Y(":bogus"))
				}
			}
			args := make([]*sx.N, n)
			for i := range args {
				args[i] = g.leaf(TInt)
			}
			return sx.Call(f.name, args...)
		}
	case 6:
		g.feat("hostile:bad-key")
		if fs := g.funs(); len(fs) > 0 {
			f := fw.Pick(g.R, fs)
			if len(f.keys) > 0 {
				args := []*sx.N{}
				for i := 0; i < f.req+f.opt; i++ {
					args = append(args, g.leaf(TInt))
				}
				return sx.Call(f.name, append(args, sx.Y(":nope"), sx.I(1))...)
			}
		}
	case 7:
		g.feat("hostile:error-call")
		return sx.Call("error", sx.QY(fw.Pick(g.R, []string{"my-err", "other-err"})), g.leaf(TInt))
	case 8:
		g.feat("hostile:set!-unbound")
		return sx.Call("set!", sx.Y("never-bound"), g.leaf(TInt))
	case 9:
		g.feat("hostile:bad-typespec")
		return sx.Call(fw.Pick(g.R, []string{"map", "select", "reverse", "concat"}), sx.QY("bogus"), g.leaf(TFun1), g.leaf(TListInt))
	case 10:
		g.feat("hostile:rebind-const")
		return sx.Call("let", sx.L(sx.L(sx.Y("true"), sx.I(1))), sx.I(2))
	}
	return sx.Call("nth", g.leaf(TListInt), sx.I(-1))
}

// ---------------------------------------------------------------------------
// top level

// Program generates a whole program.
func (g *G) Program() []*sx.N {
	var forms []*sx.N
	n := g.R.Range(3, g.P.TopForms)
	for i := 0; i < n; i++ {
		if g.P.Reentrant > 0 && g.chance(g.P.Reentrant/4) {
			// a bounded recursion with a re-entrant step, called at once
			g.forceRe = true
			forms = append(forms, g.defun())
			g.forceRe = false
			forms = append(forms, g.probe("t", g.callUser(g.globals[len(g.globals)-1], 2)))
			continue
		}
		switch g.R.Intn(6) {
		case 0, 1:
			forms = append(forms, g.defun())
		case 2:
			forms = append(forms, g.setGlobal())
		default:
			if g.chance(120) {
				forms = append(forms, g.probe("t", g.hofRest()))
				continue
			}
			forms = append(forms, g.probe("t", g.expr(Ty(g.R.Intn(int(TMap)+1)), g.P.MaxDepth)))
		}
	}
	// final observable: every global and a few calls
	var obs []*sx.N
	for _, b := range g.globals {
		if !b.isFn {
			obs = append(obs, sx.Y(b.name))
		}
	}
	for i := 0; i < 2; i++ {
		obs = append(obs, g.expr(Ty(g.R.Intn(int(TMap)+1)), 3))
	}
	forms = append(forms, sx.Call("list", obs...))
	return forms
}

func (g *G) setGlobal() *sx.N {
	t := Ty(g.R.Intn(int(TFun1) + 1))
	g.nglob++
	name := fmt.Sprintf("g%d", g.nglob)
	init := g.expr(t, g.P.MaxDepth-1)
	b := binding{name: name, ty: t}
	if t == TFun1 {
		b = binding{name: name, isFn: true, req: 1, ret: TInt}
	}
	g.globals = append(g.globals, b)
	g.feat("set-global")
	return sx.Call("set", sx.QY(name), init)
}

func (g *G) defun() *sx.N {
	g.nfun++
	name := fmt.Sprintf("f%d", g.nfun)
	b := binding{name: name, isFn: true, ret: fw.Pick(g.R, []Ty{TInt, TInt, TListInt, TBool, TStr})}
	b.req = g.R.Intn(3)
	if g.forceRe {
		b.ret = TInt
		b.req = g.R.Range(1, 3)
	}
	var formals []*sx.N
	g.push()
	used := map[string]bool{}
	pname := func() string {
		for {
			n := g.freshLocal()
			if !used[n] {
				used[n] = true
				return n
			}
		}
	}
	for i := 0; i < b.req; i++ {
		p := pname()
		formals = append(formals, sx.Y(p))
		g.bind(binding{name: p, ty: TInt})
	}
	switch g.R.Intn(5) {
	case 0:
		b.opt = g.R.Range(1, 2)
		formals = append(formals, sx.Y("&optional"))
		for i := 0; i < b.opt; i++ {
			p := pname()
			formals = append(formals, sx.Y(p))
			g.bind(binding{name: p, ty: TAny}) // int or nil
		}
		g.feat("formals-optional")
	case 1:
		b.rest = true
		p := pname()
		formals = append(formals, sx.Y("&rest"), sx.Y(p))
		g.bind(binding{name: p, ty: TListInt})
		g.feat("formals-rest")
	case 2:
		formals = append(formals, sx.Y("&key"))
		for i := g.R.Range(1, 2); i > 0; i-- {
			p := pname()
			b.keys = append(b.keys, p)
			formals = append(formals, sx.Y(p))
			g.bind(binding{name: p, ty: TAny})
		}
		g.feat("formals-key")
	}
	var body []*sx.N
	if g.R.Intn(4) == 0 {
		body = append(body, sx.S("docstring for "+name))
	}
	g.inFn++
	// recursion allowed on own name through a decreasing first parameter
	if b.req >= 1 && b.ret == TInt && (g.forceRe || g.R.Bool()) {
		b.recur = true
		g.globals = append(g.globals, b)
		p0 := formals[0].S
		rec := sx.Call(name, append([]*sx.N{sx.Call("-", sx.Y(p0), sx.I(1))}, g.argsN(b.req-1)...)...)
		var step, reBase *sx.N
		headCall := false
		switch {
		case g.P.Reentrant > 0 && (g.forceRe || g.chance(g.P.Reentrant)):
			// the recursive call sits in an argument position of an operator form that is
			// re-entered while suspended (reentrant.go); operands must not see the function
			// (nor may the base case: a call from there would never terminate, and with two
			// call sites per level a runaway recursion is exponential, not just deep)
			g.globals = g.globals[:len(g.globals)-1]
			step = g.reentrantStep(name, p0, b.req-1)
			reBase = g.expr(TInt, 2)
			g.globals = append(g.globals, b)
			g.feat("reentrant-recursion")
		case b.req == 1 && g.R.Chance(1, 4):
			// the recursive step is a call whose HEAD is itself a call into the function
			// (which, for a negative argument, answers with a function that continues it):
			// a head is evaluated like any operand, never as a tail call
			headCall = true
			step = sx.L(sx.Call(name, sx.I(-1)), sx.Call("-", sx.Y(p0), sx.I(1)))
			g.feat("head-call-recursion")
		case g.R.Bool():
			step = rec // tail position
			g.feat("tail-recursion")
		default:
			step = sx.Call("+", sx.I(1), rec)
			g.feat("recursion")
		}
		var inner *sx.N
		if reBase != nil {
			inner = sx.Call("if", sx.Call("<=", sx.Y(p0), sx.I(0)), reBase, step)
		} else {
			inner = sx.Call("if", sx.Call("<=", sx.Y(p0), sx.I(0)), g.expr(TInt, 2), step)
		}
		if headCall {
			inner = sx.Call("if", sx.Call("<", sx.Y(p0), sx.I(0)), sx.Call("lambda", sx.L(sx.Y("hc-a")), sx.Call(name, sx.Y("hc-a"))),
				sx.Call("if", sx.Call("=", sx.Y(p0), sx.I(0)), g.expr(TInt, 2), step))
		}
		body = append(body, inner)
		g.globals = g.globals[:len(g.globals)-1]
	} else {
		for i := g.R.Intn(2); i > 0; i-- {
			body = append(body, g.effect(g.P.MaxDepth-2))
		}
		body = append(body, g.expr(b.ret, g.P.MaxDepth-1))
	}
	g.inFn--
	g.pop()
	g.globals = append(g.globals, b)
	g.feat("defun")
	return sx.Call("defun", append([]*sx.N{sx.Y(name), sx.L(formals...)}, body...)...)
}

func countReq(formals []*sx.N) int {
	n := 0
	for _, f := range formals {
		if len(f.S) > 0 && f.S[0] == '&' {
			break
		}
		n++
	}
	return n
}

func (g *G) argsN(n int) []*sx.N {
	xs := make([]*sx.N, n)
	for i := range xs {
		xs[i] = g.leaf(TInt)
	}
	return xs
}

// ArgPool is the literal pool for builtin sweeps: every value class the core
// builtins distinguish, with boundary members.
func (g *G) ArgLiteral() (*sx.N, string) {
	switch g.R.Intn(16) {
	case 0:
		return sx.I(fw.Pick(g.R, boundaryInts)), "int"
	case 1:
		return sx.I(int64(g.R.Range(-3, 6))), "int"
	case 2:
		return sx.F(fw.Pick(g.R, boundaryFloats)), "float"
	case 3:
		return sx.S(fw.Pick(g.R, strPool)), "string"
	case 4:
		return sx.QY(fw.Pick(g.R, []string{"list", "vector", "string", "a", "foo", "bytes"})), "symbol"
	case 5:
		return sx.Y(":" + fw.Pick(g.R, keyPool)), "keyword"
	case 6:
		return sx.Nil(), "nil"
	case 7:
		return sx.Y(fw.Pick(g.R, []string{"true", "false"})), "bool"
	case 8:
		return g.listIntLit(), "list"
	case 9:
		return sx.Q(sx.L(sx.L(sx.I(1), sx.I(2)), sx.Y("a"), sx.S("s"), sx.L())), "nested-list"
	case 10:
		return sx.Call("vector", sx.I(int64(g.R.Intn(5))), sx.I(2), sx.I(int64(g.R.Range(-4, 4)))), "vector"
	case 11:
		return sx.Call("vector"), "empty-vector"
	case 12:
		return g.mapLit(), "map"
	case 13:
		return sx.Call("lambda", sx.L(sx.Y("x")), sx.Call("verif:probe", sx.QY("cb"), sx.Y("x"))), "lambda1"
	case 14:
		return sx.Call("lambda", sx.L(sx.Y("x"), sx.Y("y")), sx.Call("verif:probe", sx.QY("cb2"), sx.Call("list", sx.Y("x"), sx.Y("y")))), "lambda2"
	default:
		return sx.Y(fw.Pick(g.R, []string{"+", "car", "list", "not", "<"})), "builtin"
	}
}

// hofRest: a higher-order builtin calls a user function that receives its
// arguments through &rest / &optional and lets the parameter list ESCAPE the
// call (returned, captured by a closure, accumulated): every call must get an
// argument list of its own.
func (g *G) hofRest() *sx.N {
	g.feat("hof-rest-escape")
	seq := func() *sx.N { return g.expr(fw.Pick(g.R, []Ty{TListInt, TVecInt}), 2) }
	var cb *sx.N
	switch g.R.Intn(4) {
	case 0:
		cb = sx.Call("lambda", sx.L(sx.Y("&rest"), sx.Y("xs")), sx.Y("xs"))
	case 1:
		cb = sx.Call("lambda", sx.L(sx.Y("&rest"), sx.Y("xs")), sx.Call("lambda", sx.L(), sx.Y("xs")))
	case 2:
		cb = sx.Call("lambda", sx.L(sx.Y("a"), sx.Y("&rest"), sx.Y("xs")), sx.Call("cons", sx.Y("a"), sx.Y("xs")))
	default:
		cb = sx.Call("lambda", sx.L(sx.Y("&optional"), sx.Y("a"), sx.Y("b")), sx.Call("list", sx.Y("a"), sx.Y("b")))
	}
	var call *sx.N
	switch g.R.Intn(6) {
	case 0:
		call = sx.Call("map", sx.QY(fw.Pick(g.R, []string{"list", "vector"})), cb, seq())
	case 1:
		call = sx.Call("foldl", cb, sx.I(0), seq())
	case 2:
		call = sx.Call("foldr", cb, sx.I(0), seq())
	case 3:
		call = sx.Call("apply", cb, sx.I(1), seq2list(seq()))
	case 4:
		call = sx.Call("list", sx.Call("funcall", cb, sx.I(1), sx.I(2)), sx.Call("funcall", cb, sx.I(3), sx.I(4)))
	default:
		call = sx.Call("select", sx.QY("list"), cb, seq())
	}
	// force the escaped lists/closures after ALL calls were made
	return sx.Call("let", sx.L(sx.L(sx.Y("res"), call)),
		sx.Call("list", sx.Y("res"), sx.Call("if", sx.Call("list?", sx.Y("res")),
			sx.Call("map", sx.QY("list"), sx.Call("lambda", sx.L(sx.Y("r")), sx.Call("if", sx.Call("equal?", sx.Call("type", sx.Y("r")), sx.QY("function")), sx.Call("funcall", sx.Y("r")), sx.Y("r"))), sx.Y("res")),
			sx.Nil())))
}

func seq2list(s *sx.N) *sx.N { return sx.Call("concat", sx.QY("list"), s) }
