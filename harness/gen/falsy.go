package gen

import (
	"fmt"

	"verifharness/fw"
	"verifharness/sx"
)

// Empty / falsy values as DATA.
//
// Three notions coincide on ordinary data and differ on a handful of values:
//
//	presence    the key is in the map / the index is inside the sequence
//	nil-ness    the value is () (also spelled '(), (list), (cdr '(1)) ...)
//	truthiness  the value is neither () nor false
//
// A stored () is present, nil and falsy; a stored false is present, non-nil and
// falsy; a stored 0, "", (vector) or (sorted-map) is present, non-nil and truthy
// (though "empty" in a C-like reading); a missing key reads as () through get
// yet is not present.  Every builtin or builtin macro that branches on one of
// the three notions has a documented choice of WHICH one; an implementation
// that tests another one (nil? instead of key?, truthiness instead of nil?,
// emptiness instead of presence) behaves identically on every other value.
//
// FalsyProgram builds containers (sorted-maps, lists, vectors) that HOLD such
// values - written as literals, computed, stored by sorted-map / assoc / assoc!
// / cons / append / append! - and reads them back through every accessor the
// reference model knows, then lets every truthiness-branching operator decide
// on the value read, with effect probes (trace event, counter bump, memoising
// assoc!) in every lazily evaluated position, so that an expression evaluated
// although its guard did not hold - or skipped although it held - is observed
// even where its value is not.

// FalsyKinds lists the accessor families; a program reads through one family
// (the finding key names it), the deciding operators are mixed over all.
var FalsyKinds = []string{"get-default", "get", "key?", "assoc-dissoc", "seq-access", "hof-predicate", "formals"}

var falsyKindWeights = []int{4, 3, 2, 3, 3, 2, 1}

type fctx struct {
	kind  string
	keys  []string // the key universe of this program: small, so hits and misses are both frequent
	maps  []string
	lists []string
	vecs  []string
	ndef  int
}

// falsyValue is an expression whose value is one of the values on which
// presence, nil-ness and truthiness differ (3 in 4), or an ordinary value for
// contrast.  The class names the value for coverage.
func (g *G) falsyValue() (*sx.N, string) {
	switch g.R.Intn(16) {
	case 0, 1:
		return sx.Nil(), "nil"
	case 2:
		return sx.Q(sx.L()), "quoted-nil"
	case 3:
		return sx.Y("false"), "false"
	case 4:
		return sx.I(0), "zero"
	case 5:
		return sx.S(""), "empty-string"
	case 6:
		return sx.Call("vector"), "empty-vector"
	case 7:
		return sx.Call("sorted-map"), "empty-map"
	case 8:
		// nil as the RESULT of something, not as a literal
		return fw.Pick(g.R, []func() *sx.N{
			func() *sx.N { return sx.Call("list") },
			func() *sx.N { return sx.Call("cdr", sx.Q(sx.L(sx.I(1)))) },
			func() *sx.N { return sx.Call("get", sx.Call("sorted-map"), sx.S("zz")) },
			func() *sx.N { return sx.Call("rest", sx.Call("vector", sx.I(7))) },
			func() *sx.N { return sx.Call("nth", sx.Q(sx.L(sx.I(1))), sx.I(5)) },
			func() *sx.N { return sx.Call("first", sx.Nil()) },
			func() *sx.N { return sx.Call("ignore-errors", sx.Call("error", sx.QY("boom"), sx.I(1))) },
			func() *sx.N { return sx.Call("cond") },
			func() *sx.N { return sx.Call("reject", sx.QY("list"), sx.Y("identity"), sx.Call("list", sx.I(1))) },
		})(), "computed-nil"
	case 9:
		return fw.Pick(g.R, []func() *sx.N{
			func() *sx.N { return sx.Call("not", sx.I(1)) },
			func() *sx.N { return sx.Call("nil?", sx.I(3)) },
			func() *sx.N { return sx.Call("=", sx.I(1), sx.I(2)) },
			func() *sx.N { return sx.Call("or") },
			func() *sx.N { return sx.Call("key?", sx.Call("sorted-map"), sx.S("a")) },
			func() *sx.N { return sx.Call("empty?", sx.Q(sx.L(sx.I(1)))) },
		})(), "computed-false"
	case 10:
		return sx.F(0), "float-zero"
	case 11:
		// truthy containers that hold a falsy value
		return fw.Pick(g.R, []func() *sx.N{
			func() *sx.N { return sx.Call("list", sx.Nil()) },
			func() *sx.N { return sx.Call("vector", sx.Nil()) },
			func() *sx.N { return sx.Q(sx.L(sx.L())) },
			func() *sx.N { return sx.Call("sorted-map", sx.S("a"), sx.Nil()) },
			func() *sx.N { return sx.Call("list", sx.Y("false")) },
		})(), "holds-falsy"
	}
	return fw.Pick(g.R, []func() *sx.N{
		func() *sx.N { return sx.I(int64(g.R.Range(1, 9))) },
		func() *sx.N { return sx.I(-1) },
		func() *sx.N { return sx.S("a") },
		func() *sx.N { return sx.QY("k1") },
		func() *sx.N { return sx.Y("true") },
		func() *sx.N { return sx.Y(":kw") },
		func() *sx.N { return sx.Call("list", sx.I(0)) },
	})(), "truthy"
}

// falsyQuotedElem is an element written INSIDE a quoted list literal.
func (g *G) falsyQuotedElem() *sx.N {
	switch g.R.Intn(8) {
	case 0, 1:
		return sx.Nil()
	case 2:
		return sx.Y("false")
	case 3:
		return sx.I(0)
	case 4:
		return sx.S("")
	case 5:
		return sx.L(sx.L())
	case 6:
		return sx.Y("true")
	}
	return sx.I(int64(g.R.Range(1, 9)))
}

func (g *G) fval(c *fctx) *sx.N {
	v, cls := g.falsyValue()
	g.feat("falsy-value:" + cls)
	return v
}

// fkey spells a key of the program's universe as a string or a quoted symbol
// (the spelling is not part of a key's identity).
func (g *G) fkey(c *fctx) *sx.N {
	k := fw.Pick(g.R, c.keys)
	if g.R.Chance(1, 3) {
		return sx.QY(k)
	}
	return sx.S(k)
}

// fmap builds a sorted-map holding falsy values.
func (g *G) fmap(c *fctx) *sx.N {
	n := g.R.Range(1, 4)
	switch g.R.Intn(4) {
	case 0:
		// nested non-mutating construction, starting from () or an empty map
		var m *sx.N = sx.Nil()
		if g.R.Bool() {
			m = sx.Call("sorted-map")
		}
		for i := 0; i < n; i++ {
			m = sx.Call("assoc", m, g.fkey(c), g.fval(c))
		}
		g.feat("falsy-map:assoc-chain")
		return m
	case 1:
		// mutating construction
		var body []*sx.N
		for i := 0; i < n; i++ {
			body = append(body, sx.Call("assoc!", sx.Y("fm"), g.fkey(c), g.fval(c)))
		}
		body = append(body, sx.Y("fm"))
		g.feat("falsy-map:assoc!-sequence")
		return sx.Call("let", append([]*sx.N{sx.L(sx.L(sx.Y("fm"), sx.Call("sorted-map")))}, body...)...)
	}
	var xs []*sx.N
	for i := 0; i < n; i++ {
		xs = append(xs, g.fkey(c), g.fval(c))
	}
	g.feat("falsy-map:literal")
	return sx.Call("sorted-map", xs...)
}

// fseq builds a list (vec=false) or vector holding falsy values.
func (g *G) fseq(c *fctx, vec bool) *sx.N {
	n := g.R.Range(0, 4)
	xs := make([]*sx.N, n)
	for i := range xs {
		xs[i] = g.fval(c)
	}
	if vec {
		switch g.R.Intn(3) {
		case 0:
			g.feat("falsy-seq:append!")
			return sx.Call("append!", sx.Call("vector", xs...), g.fval(c))
		case 1:
			g.feat("falsy-seq:append-vector")
			return sx.Call("append", sx.QY("vector"), sx.Call("vector", xs...), g.fval(c))
		}
		g.feat("falsy-seq:vector")
		return sx.Call("vector", xs...)
	}
	switch g.R.Intn(5) {
	case 0:
		qs := make([]*sx.N, g.R.Range(1, 4))
		for i := range qs {
			qs[i] = g.falsyQuotedElem()
		}
		g.feat("falsy-seq:quoted-literal")
		return sx.Q(sx.L(qs...))
	case 1:
		g.feat("falsy-seq:cons")
		return sx.Call("cons", g.fval(c), sx.Call("list", xs...))
	case 2:
		g.feat("falsy-seq:append-list")
		return sx.Call("append", sx.QY("list"), sx.Call("list", xs...), g.fval(c))
	case 3:
		g.feat("falsy-seq:concat")
		return sx.Call("concat", sx.QY("list"), sx.Call("list", xs...), sx.Call("vector", g.fval(c)))
	}
	g.feat("falsy-seq:list")
	return sx.Call("list", xs...)
}

// fdefault is a lazily evaluated expression carrying an effect probe: a trace
// event, a bump of the program's counter, or (given a map and a key) a
// memoising assoc! that stores the value it answers with.
func (g *G) fdefault(c *fctx, m, k *sx.N) *sx.N {
	c.ndef++
	v := g.fval(c)
	tag := fmt.Sprintf("d%d", c.ndef)
	switch g.R.Intn(6) {
	case 0, 1:
		g.feat("falsy-effect:probe")
		return sx.Call("verif:probe", sx.QY(tag), v)
	case 2:
		g.feat("falsy-effect:counter")
		return sx.Call("progn", sx.Call("set!", sx.Y("cnt"), sx.Call("+", sx.Y("cnt"), sx.I(int64(c.ndef)))), v)
	case 3, 4:
		if m != nil && m.K == sx.Sym {
			g.feat("falsy-effect:memoise")
			if g.R.Bool() {
				return sx.Call("let", sx.L(sx.L(sx.Y("dv"), v)), sx.Call("assoc!", m.Clone(), k.Clone(), sx.Y("dv")), sx.Call("verif:probe", sx.QY(tag), sx.Y("dv")))
			}
			// the shape the repository's own test uses
			return sx.Call("and", sx.Call("assoc!", m.Clone(), k.Clone(), sx.I(int64(c.ndef))), sx.S("default"))
		}
		g.feat("falsy-effect:probe")
		return sx.Call("verif:probe", sx.QY(tag), v)
	}
	g.feat("falsy-effect:none")
	return v
}

func (g *G) fmapVar(c *fctx) *sx.N { return sx.Y(fw.Pick(g.R, c.maps)) }

// fmapExpr is a map-valued expression: a variable, or a non-mutating round trip over one.
func (g *G) fmapExpr(c *fctx) *sx.N {
	m := g.fmapVar(c)
	switch g.R.Intn(8) {
	case 0:
		g.feat("falsy-map:assoc-over")
		return sx.Call("assoc", m, g.fkey(c), g.fval(c))
	case 1:
		g.feat("falsy-map:dissoc-over")
		return sx.Call("dissoc", m, g.fkey(c))
	case 2:
		g.feat("falsy-map:dissoc-assoc")
		k := g.fkey(c)
		return sx.Call("assoc", sx.Call("dissoc", m, k), k.Clone(), g.fval(c))
	}
	return m
}

func (g *G) fseqVar(c *fctx) (*sx.N, bool) {
	if g.R.Bool() {
		return sx.Y(fw.Pick(g.R, c.lists)), false
	}
	return sx.Y(fw.Pick(g.R, c.vecs)), true
}

// fread reads a value back through an accessor of the program's family.
func (g *G) fread(c *fctx) *sx.N {
	switch c.kind {
	case "get-default":
		g.feat("falsy-read:get-default")
		m := g.fmapExpr(c)
		k := g.fkey(c)
		return sx.Call("get-default", m, k, g.fdefault(c, m, k))
	case "get":
		g.feat("falsy-read:get")
		if g.R.Chance(1, 8) {
			return sx.Call("get", sx.Nil(), g.fkey(c))
		}
		return sx.Call("get", g.fmapExpr(c), g.fkey(c))
	case "key?":
		g.feat("falsy-read:key?")
		return sx.Call("key?", g.fmapExpr(c), g.fkey(c))
	case "assoc-dissoc":
		m := g.fmapVar(c)
		k := g.fkey(c)
		switch g.R.Intn(8) {
		case 0:
			g.feat("falsy-read:keys")
			return sx.Call("keys", g.fmapExpr(c))
		case 1:
			g.feat("falsy-read:length-map")
			return sx.Call("length", g.fmapExpr(c))
		case 2:
			g.feat("falsy-read:equal?-after-assoc-of-read")
			// storing what get answers makes a missing key present
			return sx.Call("equal?", m, sx.Call("assoc", m.Clone(), k, sx.Call("get", m.Clone(), k.Clone())))
		case 3:
			g.feat("falsy-read:assoc!-then-get")
			return sx.Call("get", sx.Call("assoc!", m, k, g.fval(c)), g.fkey(c))
		case 4:
			g.feat("falsy-read:dissoc!-then-key?")
			return sx.Call("list", sx.Call("key?", m, k), sx.Call("key?", sx.Call("dissoc!", m.Clone(), k.Clone()), k.Clone()), sx.Call("get", m.Clone(), k.Clone()))
		case 5:
			g.feat("falsy-read:empty?-map")
			return sx.Call("empty?", g.fmapExpr(c))
		case 6:
			g.feat("falsy-read:map-itself")
			return g.fmapExpr(c)
		}
		g.feat("falsy-read:get-key?-pair")
		me := g.fmapExpr(c)
		return sx.Call("list", sx.Call("key?", me, k), sx.Call("get", me.Clone(), k.Clone()))
	case "seq-access":
		s, vec := g.fseqVar(c)
		i := g.smallInt(0, 5)
		switch g.R.Intn(10) {
		case 0:
			g.feat("falsy-read:first")
			return sx.Call("first", s)
		case 1:
			g.feat("falsy-read:second")
			return sx.Call("second", s)
		case 2, 3:
			g.feat("falsy-read:nth")
			return sx.Call("nth", s, i)
		case 4:
			if !vec {
				g.feat("falsy-read:car")
				return sx.Call("car", s)
			}
			g.feat("falsy-read:aref")
			return sx.Call("aref", s, sx.I(0))
		case 5:
			if !vec {
				g.feat("falsy-read:cdr")
				return sx.Call("cdr", s)
			}
			g.feat("falsy-read:rest")
			return sx.Call("rest", s)
		case 6:
			g.feat("falsy-read:rest")
			return sx.Call("rest", s)
		case 7:
			g.feat("falsy-read:length-empty?")
			return sx.Call("list", sx.Call("length", s), sx.Call("empty?", s.Clone()))
		case 8:
			g.feat("falsy-read:first-of-rest")
			return sx.Call("first", sx.Call("rest", s))
		}
		g.feat("falsy-read:nth-nil?")
		return sx.Call("list", sx.Call("nil?", sx.Call("nth", s, i)), sx.Call("<", i.Clone(), sx.Call("length", s.Clone())))
	case "hof-predicate":
		s, _ := g.fseqVar(c)
		pred := fw.Pick(g.R, []func() *sx.N{
			func() *sx.N { return sx.Y("identity") },
			func() *sx.N { return sx.Y("nil?") },
			func() *sx.N { return sx.Y("not") },
			func() *sx.N { return sx.Y("true?") },
			func() *sx.N {
				return sx.Call("lambda", sx.L(sx.Y("x")), sx.Call("verif:probe", sx.QY("pr"), sx.Y("x")))
			},
			func() *sx.N { return sx.Call("lambda", sx.L(sx.Y("x")), sx.Call("if", sx.Y("x"), sx.Nil(), sx.I(0))) },
			func() *sx.N { return sx.Call("lambda", sx.L(sx.Y("x")), sx.Call("or", sx.Y("x"), sx.Y("false"))) },
		})()
		ts := sx.QY(fw.Pick(g.R, []string{"list", "vector"}))
		switch g.R.Intn(7) {
		case 0:
			g.feat("falsy-read:select")
			return sx.Call("select", ts, pred, s)
		case 1:
			g.feat("falsy-read:reject")
			return sx.Call("reject", ts, pred, s)
		case 2:
			g.feat("falsy-read:all?")
			return sx.Call("all?", pred, s)
		case 3:
			g.feat("falsy-read:any?")
			return sx.Call("any?", pred, s)
		case 4:
			g.feat("falsy-read:map")
			return sx.Call("map", ts, pred, s)
		case 5:
			g.feat("falsy-read:foldl-count-truthy")
			return sx.Call("foldl", sx.Call("lambda", sx.L(sx.Y("acc"), sx.Y("x")), sx.Call("if", sx.Y("x"), sx.Call("+", sx.Y("acc"), sx.I(1)), sx.Y("acc"))), sx.I(0), s)
		}
		g.feat("falsy-read:foldr-collect-nil?")
		return sx.Call("foldr", sx.Call("lambda", sx.L(sx.Y("x"), sx.Y("acc")), sx.Call("cons", sx.Call("nil?", sx.Y("x")), sx.Y("acc"))), sx.Nil(), s)
	}
	// formals: a stored falsy value handed to optional / keyword / rest parameters
	src := func() *sx.N {
		if g.R.Bool() {
			return sx.Call("get", g.fmapVar(c), g.fkey(c))
		}
		s, _ := g.fseqVar(c)
		return sx.Call("nth", s, g.smallInt(0, 4))
	}
	switch g.R.Intn(4) {
	case 0:
		g.feat("falsy-read:optional-arg")
		return sx.Call("funcall", sx.Call("lambda", sx.L(sx.Y("&optional"), sx.Y("x"), sx.Y("y")), sx.Call("list", sx.Y("x"), sx.Y("y"), sx.Call("nil?", sx.Y("x")))), src())
	case 1:
		g.feat("falsy-read:key-arg")
		return sx.Call("funcall", sx.Call("lambda", sx.L(sx.Y("&key"), sx.Y("x"), sx.Y("y")), sx.Call("list", sx.Y("x"), sx.Y("y"), sx.Call("not", sx.Y("y")))), sx.Y(":y"), src())
	case 2:
		g.feat("falsy-read:rest-arg")
		return sx.Call("funcall", sx.Call("lambda", sx.L(sx.Y("&rest"), sx.Y("xs")), sx.Call("list", sx.Call("length", sx.Y("xs")), sx.Y("xs"))), src(), src())
	}
	g.feat("falsy-read:apply-list")
	s, _ := g.fseqVar(c)
	return sx.Call("apply", sx.Y("list"), sx.I(1), sx.Call("concat", sx.QY("list"), s))
}

// fdecide lets a truthiness-, nil-ness- or emptiness-branching operator decide
// on a value read back; the branches carry effect probes.
func (g *G) fdecide(c *fctx, r *sx.N) *sx.N {
	a := func() *sx.N { return g.fdefault(c, nil, nil) }
	switch g.R.Intn(16) {
	case 0:
		g.feat("falsy-decide:if")
		return sx.Call("if", r, a(), a())
	case 1:
		g.feat("falsy-decide:cond")
		return sx.Call("cond", sx.L(r, a()), sx.L(sx.Y(fw.Pick(g.R, []string{"else", ":else"})), a()))
	case 2:
		g.feat("falsy-decide:cond-no-match")
		return sx.Call("cond", sx.L(r, a()))
	case 3:
		g.feat("falsy-decide:or")
		return sx.Call("or", r, a())
	case 4:
		g.feat("falsy-decide:and")
		return sx.Call("and", r, a())
	case 5:
		g.feat("falsy-decide:or-and-chain")
		return sx.Call("or", sx.Call("and", r, a()), a())
	case 6:
		g.feat("falsy-decide:not/true?/nil?")
		return sx.Call("let", sx.L(sx.L(sx.Y("rv"), r)), sx.Call("list", sx.Y("rv"), sx.Call("not", sx.Y("rv")), sx.Call("true?", sx.Y("rv")), sx.Call("nil?", sx.Y("rv"))))
	case 7:
		g.feat("falsy-decide:if-nil?")
		return sx.Call("let", sx.L(sx.L(sx.Y("rv"), r)), sx.Call("if", sx.Call("nil?", sx.Y("rv")), a(), sx.Y("rv")))
	case 8:
		g.feat("falsy-decide:equal?")
		return sx.Call("equal?", r, g.fval(c))
	case 9:
		g.feat("falsy-decide:assert")
		return sx.Call("handler-bind", sx.L(sx.L(sx.Y("condition"), sx.Call("lambda", sx.L(sx.Y("c"), sx.Y("&rest"), sx.Y("e")), sx.Call("list", sx.QY("failed"), sx.Y("c"))))), sx.Call("assert", r))
	case 10:
		g.feat("falsy-decide:type")
		return sx.Call("let", sx.L(sx.L(sx.Y("rv"), r)), sx.Call("list", sx.Call("type", sx.Y("rv")), sx.Call("list?", sx.Y("rv")), sx.Call("bool?", sx.Y("rv")), sx.Y("rv")))
	case 11:
		g.feat("falsy-decide:or-3")
		return sx.Call("or", g.fval(c), r, a())
	case 12:
		g.feat("falsy-decide:and-3")
		return sx.Call("and", a(), r, a())
	}
	g.feat("falsy-decide:none")
	return r
}

// FalsyProgram generates a program of the "empty / falsy values as data"
// family and names the accessor family it reads through.
func (g *G) FalsyProgram() ([]*sx.N, string) {
	tot := 0
	for _, w := range falsyKindWeights {
		tot += w
	}
	kind := FalsyKinds[0]
	k := g.R.Intn(tot)
	for i, w := range falsyKindWeights {
		if k < w {
			kind = FalsyKinds[i]
			break
		}
		k -= w
	}
	g.feat("falsy-data:" + kind)
	c := &fctx{kind: kind}
	pool := append([]string(nil), keyPool...)
	fw.Shuffle(g.R, pool)
	c.keys = pool[:g.R.Range(2, 4)]
	c.maps = []string{"m1", "m2"}
	c.lists = []string{"l1"}
	c.vecs = []string{"v1"}

	inits := [][2]*sx.N{
		{sx.Y("cnt"), sx.I(0)},
		{sx.Y("m1"), g.fmap(c)},
		{sx.Y("m2"), g.fmap(c)},
		{sx.Y("l1"), g.fseq(c, false)},
		{sx.Y("v1"), g.fseq(c, true)},
	}
	var probes []*sx.N
	for i, n := 0, g.R.Range(4, 9); i < n; i++ {
		e := g.fdecide(c, g.fread(c))
		probes = append(probes, sx.Call("verif:probe", sx.QY(fmt.Sprintf("f%d", i+1)), e))
	}
	final := sx.Call("list", sx.Y("cnt"), sx.Y("m1"), sx.Y("m2"), sx.Y("l1"), sx.Y("v1"))
	if g.R.Chance(1, 3) {
		// lexical variables
		g.feat("falsy-data:lexical")
		var bl []*sx.N
		for _, in := range inits {
			if g.R.Bool() {
				bl = append(bl, sx.B(in[0], in[1]))
			} else {
				bl = append(bl, sx.L(in[0], in[1]))
			}
		}
		body := append(append([]*sx.N{sx.L(bl...)}, probes...), final)
		return []*sx.N{sx.Call(fw.Pick(g.R, []string{"let", "let*"}), body...)}, kind
	}
	var forms []*sx.N
	for _, in := range inits {
		forms = append(forms, sx.Call("set", sx.Q(in[0]), in[1]))
	}
	forms = append(forms, probes...)
	forms = append(forms, final)
	return forms, kind
}
