package props

// C17 — generator of statically scoped elps programs (sessions of 1..4 files).
//
// The generator keeps its own model of what every name denotes at every
// program point (local frames, per-package globals, imports) so that the
// programs it writes mostly run to completion, but the oracle never relies on
// that model: the judgement is purely differential (original vs minified in
// the real evaluator).  What the generator DOES guarantee are the property's
// preconditions:
//   * no symbol is computed at run time (no intern/eval/to-symbol/funcall of
//     a quoted symbol/macroexpand of built data);
//   * no global definition (defun/defmacro/set) inside a function body;
//   * macros are hygienic by construction: template binders come from a pool
//     no call site ever uses, and a macro is only called where none of the
//     template's free names (nor the macro's own name) is shadowed by a local,
//     and only from a package in which those free names mean the same thing;
//   * keyword arguments are passed only when the case never switches parameter
//     renaming on.

import (
	"fmt"
	"sort"
	"strconv"
)

// ---- classes (toggleable construct families; also used for coverage) -------

var c17AllClasses = []string{
	// generic binding / reference constructs
	"let", "let*", "flet", "labels", "labels-mutual", "lambda", "fnvar", "dotimes",
	"set!", "cond", "progn-print", "handler", "thread", "prefix-lambda", "fnref",
	"optional", "rest", "keyparams", "kwcall", "recursion", "closure-ret", "docstring",
	"shadow", "shadow-builtin", "global-shadows-builtin", "quoted-data",
	// top-level structure
	"gvar", "gvar-fn", "defmacro", "macro-body-let", "macro-splice", "template-let",
	"template-qualified", "macrolet", "multifile", "packages", "export", "use-package",
	"qualified", "same-name-pkgs", "forward-ref", "final-error", "setbang-global",
	// hazards (rare)
	"minilike-names", "macrolet-free", "qq-data", "toplevel-let-defun", "redefine-global",
	"template-name-eq-param",
}

var c17HazardClasses = map[string]bool{
	"minilike-names": true, "macrolet-free": true, "qq-data": true,
	"toplevel-let-defun": true, "redefine-global": true, "template-name-eq-param": true,
}

// ---- name pools ------------------------------------------------------------

var c17PlainNames = []string{
	"alpha", "beta", "gamma", "delta", "item", "total", "count", "acc", "value", "node",
	"left", "right", "tmp", "idx", "key", "res", "aux", "lhs", "rhs", "a", "b", "n", "v", "w",
	"helper", "step", "base", "scale", "offset", "limit", "fold-it", "run", "calc", "mk",
}

// names that look like the minifier's own output
var c17MiniNames = []string{"x1", "x2", "x3", "x4", "x5", "x6", "x7", "x8", "x9", "x10", "x11", "x12"}

// builtins that may be shadowed; the generator emits calls to these only where
// its model says the name still denotes the builtin.
var c17ShadowableBuiltins = []string{"max", "min", "length", "car", "first", "second", "nth"}

// hygienic template binder names (never used anywhere else)
var c17TemplateBinders = []string{"tb-one", "tb-two", "tb-three"}

var c17PkgNames = []string{"liba", "libb", "app", "util"}

var c17CondNames = []string{"my-cond", "bad-input", "helper", "value", "run", "alpha"}

// ---- model -----------------------------------------------------------------

const (
	c17KFn = iota
	c17KVar
	c17KVarFn
	c17KMacro
)

type c17Glob struct {
	name       string
	pkg        string
	kind       int
	req, opt   int
	rest       bool
	keys       []string
	retClosure bool
	exported   bool
	free       []string // macros: names the expansion resolves at the call site
	crossOK    bool     // macros: no package-relative free names
	splice     bool     // macros: last parameter is &rest, spliced
	lvl        int      // call-graph height (bounds evaluation cost)
	file       int      // file of the (latest) definition
	// macros of the "site names" family (c17_gen_site.go): site is the package
	// whose globals the template's free names denote (the macro is called only
	// from there); noCall: the call shape is not (m int...) - only the family
	// itself writes calls
	site   string
	noCall bool
}

type c17Pkg struct {
	name    string
	defs    map[string]*c17Glob
	order   []*c17Glob
	imports map[string]*c17Glob
	exports []string
	used    map[string]bool
	// usedBuiltin records shadowable builtins this package's code already
	// calls: defining a global of that name afterwards would make the meaning
	// of those earlier references depend on WHEN they run (not static).
	usedBuiltin map[string]bool
	// hidden: names imported at run time that the generator no longer
	// references (see defect D10); exportFiles: files that define an exported name
	hidden      map[string]bool
	exportFiles map[int]bool
	// frozen: some package has already called use-package on this one.  A name
	// exported afterwards would NOT be imported there (use-package copies the
	// export list as it is when it runs), so which binding a bare name means
	// in the importer would depend on the order of execution, not on the text.
	frozen bool
}

const (
	c17LInt = iota
	c17LOpt
	c17LRest
	c17LFn
	c17LOpaque
)

type c17Loc struct {
	name string
	kind int
	req  int
	opt  int
}

type c17Env struct {
	pkg  *c17Pkg
	locs []c17Loc
	inFn bool
}

func (e *c17Env) with(ls ...c17Loc) *c17Env {
	n := &c17Env{pkg: e.pkg, inFn: e.inFn}
	n.locs = make([]c17Loc, 0, len(e.locs)+len(ls))
	n.locs = append(n.locs, e.locs...)
	n.locs = append(n.locs, ls...)
	return n
}

func (e *c17Env) fn() *c17Env {
	n := e.with()
	n.inFn = true
	return n
}

func (e *c17Env) local(name string) (c17Loc, bool) {
	for i := len(e.locs) - 1; i >= 0; i-- {
		if e.locs[i].name == name {
			return e.locs[i], true
		}
	}
	return c17Loc{}, false
}

// global returns what a bare name denotes at package level in e.pkg.
func (e *c17Env) global(name string) *c17Glob {
	if g := e.pkg.defs[name]; g != nil {
		return g
	}
	return e.pkg.imports[name]
}

// builtinFree reports whether a shadowable builtin still means the builtin.
func (e *c17Env) builtinFree(name string) bool {
	if _, ok := e.local(name); ok {
		return false
	}
	return e.global(name) == nil
}

// ---- generator -------------------------------------------------------------

type c17Gen struct {
	on        map[string]bool
	used      map[string]int // construct tags actually emitted
	kwOK      bool           // keyword arguments may be passed
	pkgs      map[string]*c17Pkg
	pkgOrder  []string
	files     [][]*c17N
	curPkg    []string // current package per file
	printN    int
	names     map[string]bool // every name bound anywhere (candidates for exclusion)
	miniCall  []string        // minilike names usable outside templates
	miniTmpl  []string        // minilike names reserved for template binders
	allGlobs  []*c17Glob
	nodeCount int
	// avoid lists the known defects (D1..D12) that the probes found present in
	// the tree under test: the shapes that trigger them are kept out of the
	// random workload (each avoided use is counted in excluded).
	avoid    map[string]bool
	excluded map[string]int
	curFile  int
	// tmplFree: bare names that some macro template mentions unqualified -> package of that macro
	tmplFree map[string]string
	limitLvl int // while a definition's body is generated: highest callee level allowed (0 = no limit)
	lvlSeen  int
	// siteGroups: number of "site names" macro groups emitted (c17_gen_site.go)
	siteGroups int
	// siteNames: helper names of those groups -> the package that provides them
	siteNames map[string]string
	// "defined more than once" groups emitted (c17_gen_redef.go)
	redefGroups int
	redefInfo   []c17RedefInfo
	// noMention[file]: names that file defines more than once, ending in a set
	// after a defun: the file must not spell them anywhere else (the shape of
	// defect D8), not even as a local
	noMention map[int]map[string]bool
}

func (g *c17Gen) lvlOK(gl *c17Glob) bool { return g.limitLvl == 0 || gl.lvl <= g.limitLvl }

// defining brackets the generation of one global definition's body and
// returns the call-graph height of the new definition.
func (g *c17Gen) defining(f func()) int {
	oldL, oldS := g.limitLvl, g.lvlSeen
	g.limitLvl, g.lvlSeen = 2, 0
	f()
	lvl := g.lvlSeen + 1
	g.limitLvl, g.lvlSeen = oldL, oldS
	return lvl
}

func (g *c17Gen) tag(t string) { g.used[t]++ }

// avoiding reports whether defect d is present in the tree; if so the caller
// must not produce the triggering shape, and the avoided use is counted.
func (g *c17Gen) avoiding(d, what string) bool {
	if g.avoid[d] {
		g.excluded[d+":"+what]++
		return true
	}
	return false
}

func (g *c17Gen) definedInOtherPackage(name, pkg string) bool {
	for _, q := range g.pkgOrder {
		if q != pkg && g.pkgs[q].defs[name] != nil {
			return true
		}
	}
	return false
}

func (g *c17Gen) has(c string) bool { return g.on[c] }

func (g *c17Gen) pkg(name string) *c17Pkg {
	p := g.pkgs[name]
	if p == nil {
		p = &c17Pkg{name: name, defs: map[string]*c17Glob{}, imports: map[string]*c17Glob{}, used: map[string]bool{}, usedBuiltin: map[string]bool{}, hidden: map[string]bool{}, exportFiles: map[int]bool{}}
		g.pkgs[name] = p
		g.pkgOrder = append(g.pkgOrder, name)
	}
	return p
}

func (g *c17Gen) label() *c17N {
	g.printN++
	return c17Str("p" + strconv.Itoa(g.printN))
}

// pickLocalName chooses a name for a local binder.
func (g *c17Gen) pickLocalName(env *c17Env, r *c17Rng) string {
	r = r.fork()
	var name string
	switch {
	case g.has("shadow") && r.chance(1, 4):
		// reuse a name that already means something here
		var cands []string
		for _, l := range env.locs {
			if l.kind != c17LOpaque {
				cands = append(cands, l.name)
			}
		}
		for _, gl := range env.pkg.order {
			cands = append(cands, gl.name)
		}
		for n := range env.pkg.imports {
			cands = append(cands, n)
		}
		sort.Strings(cands)
		if len(cands) > 0 {
			name = c17Pick(r, cands)
			g.tag("shadowed-binding")
		}
	case g.has("minilike-names") && r.chance(1, 4):
		name = c17Pick(r, g.miniCall)
		g.tag("minilike-local")
	case g.has("shadow-builtin") && r.chance(1, 8):
		name = c17Pick(r, c17ShadowableBuiltins)
		g.tag("local-shadows-builtin")
	}
	if name == "" {
		name = c17Pick(r, c17PlainNames)
	}
	for try := 0; g.noMention[g.curFile][name]; try++ {
		name = c17Pick(r, c17PlainNames)
		if try > 8 {
			name = "loc" + strconv.Itoa(try)
		}
	}
	g.names[name] = true
	return name
}

// pickGlobalName chooses a name for a package-level definition in p.
func (g *c17Gen) pickGlobalName(p *c17Pkg, r *c17Rng, allowRedef bool) string {
	r = r.fork()
	for try := 0; try < 40; try++ {
		var name string
		switch {
		case g.has("minilike-names") && r.chance(1, 4):
			name = c17Pick(r, g.miniCall)
		case g.has("same-name-pkgs") && len(g.allGlobs) > 0 && r.chance(1, 3):
			name = c17Pick(r, g.allGlobs).name
		default:
			name = c17Pick(r, c17PlainNames)
		}
		if p.imports[name] != nil || p.hidden[name] || p.usedBuiltin[name] {
			continue
		}
		if q, ok := g.siteNames[name]; ok && q != p.name && g.avoiding("D13", "global-spelled-like-a-template-name-that-another-package-provides") {
			continue
		}
		if old := p.defs[name]; old != nil {
			if !(allowRedef && g.has("redefine-global") && r.chance(1, 2)) {
				continue
			}
			if old.file != g.curFile && g.avoiding("D9", "global-redefined-in-another-file-of-its-package") {
				continue
			}
			if old.file != g.curFile && old.exported && g.avoiding("D11", "exported-global-redefined-in-another-file") {
				continue
			}
			g.tag("redefined-global")
		}
		if q, ok := g.tmplFree[name]; ok && q != p.name && g.avoiding("D9", "global-spelled-like-a-name-in-another-package's-macro-template") {
			continue
		}
		for _, q := range g.pkgOrder {
			if q != p.name && g.pkgs[q].defs[name] != nil {
				g.tag("same-name-other-pkg")
				break
			}
		}
		g.names[name] = true
		return name
	}
	// fall back to a unique name
	name := fmt.Sprintf("uniq%d", len(g.allGlobs))
	g.names[name] = true
	return name
}

func (g *c17Gen) define(p *c17Pkg, gl *c17Glob) {
	gl.pkg = p.name
	gl.file = g.curFile
	if old := p.defs[gl.name]; old != nil {
		gl.exported = gl.exported || old.exported
		for i, o := range p.order {
			if o == old {
				p.order = append(p.order[:i], p.order[i+1:]...)
				break
			}
		}
	}
	p.defs[gl.name] = gl
	p.order = append(p.order, gl)
	g.allGlobs = append(g.allGlobs, gl)
}

// ---- expressions -----------------------------------------------------------

func (g *c17Gen) lit(r *c17Rng) *c17N { return c17Int(r.rng(-3, 9)) }

// readers of visible integer-valued things
func (g *c17Gen) intReads(env *c17Env) []*c17N {
	var out []*c17N
	seen := map[string]bool{}
	for i := len(env.locs) - 1; i >= 0; i-- {
		l := env.locs[i]
		if seen[l.name] {
			continue
		}
		seen[l.name] = true
		switch l.kind {
		case c17LInt:
			out = append(out, c17Sym(l.name))
		case c17LOpt:
			out = append(out, c17Call("or", c17Sym(l.name), c17Int(0)))
		case c17LRest:
			out = append(out, c17Call("apply", c17Sym("+"), c17Int(0), c17Sym(l.name)))
		}
	}
	for _, gl := range env.pkg.order {
		if gl.kind == c17KVar && !seen[gl.name] {
			out = append(out, c17Sym(gl.name))
		}
	}
	var imps []string
	for n, gl := range env.pkg.imports {
		if gl.kind == c17KVar && !seen[n] && env.pkg.defs[n] == nil {
			imps = append(imps, n)
		}
	}
	sort.Strings(imps)
	for _, n := range imps {
		out = append(out, c17Sym(n))
	}
	if g.has("qualified") {
		for _, pn := range g.pkgOrder {
			if pn == env.pkg.name {
				continue
			}
			for _, gl := range g.pkgs[pn].order {
				if gl.kind == c17KVar {
					out = append(out, c17Sym(pn+":"+gl.name))
				}
			}
		}
	}
	return out
}

// callee describes something callable with integer arguments.
type c17Callee struct {
	head *c17N
	gl   *c17Glob
	req  int
	opt  int
	loc  bool
	qual bool
}

func (g *c17Gen) callees(env *c17Env, macros bool) []c17Callee {
	var out []c17Callee
	seen := map[string]bool{}
	for i := len(env.locs) - 1; i >= 0; i-- {
		l := env.locs[i]
		if seen[l.name] {
			continue
		}
		seen[l.name] = true
		if l.kind == c17LFn && !macros {
			out = append(out, c17Callee{head: c17Sym(l.name), req: l.req, opt: l.opt, loc: true})
		}
	}
	want := func(gl *c17Glob) bool {
		if macros {
			return gl.kind == c17KMacro
		}
		return gl.kind == c17KFn || gl.kind == c17KVarFn
	}
	want0 := want
	want = func(gl *c17Glob) bool { return want0(gl) && g.lvlOK(gl) && !gl.noCall }
	for _, gl := range env.pkg.order {
		if want(gl) && !seen[gl.name] {
			out = append(out, c17Callee{head: c17Sym(gl.name), gl: gl, req: gl.req, opt: gl.opt})
		}
	}
	var imps []string
	for n, gl := range env.pkg.imports {
		if want(gl) && !seen[n] && env.pkg.defs[n] == nil {
			imps = append(imps, n)
		}
	}
	sort.Strings(imps)
	for _, n := range imps {
		gl := env.pkg.imports[n]
		out = append(out, c17Callee{head: c17Sym(n), gl: gl, req: gl.req, opt: gl.opt})
	}
	if g.has("qualified") {
		for _, pn := range g.pkgOrder {
			if pn == env.pkg.name {
				continue
			}
			for _, gl := range g.pkgs[pn].order {
				if want(gl) {
					out = append(out, c17Callee{head: c17Sym(pn + ":" + gl.name), gl: gl, req: gl.req, opt: gl.opt, qual: true})
				}
			}
		}
	}
	return out
}

// macroCallable applies the hygiene conditions for calling macro m from env.
func (g *c17Gen) macroCallable(env *c17Env, c c17Callee) bool {
	m := c.gl
	if m == nil || m.kind != c17KMacro {
		return false
	}
	if m.site != "" {
		// free names of the template are globals of package m.site
		if env.pkg.name != m.site {
			return false
		}
	} else if m.pkg != env.pkg.name && !m.crossOK {
		return false
	}
	if _, ok := env.local(m.name); ok {
		return false
	}
	for _, f := range m.free {
		if _, ok := env.local(f); ok {
			return false
		}
	}
	return true
}

func (g *c17Gen) args(env *c17Env, n int, d int, r *c17Rng) []*c17N {
	out := make([]*c17N, n)
	for i := range out {
		out[i] = g.intExpr(env, d, r.fork())
	}
	return out
}

func (g *c17Gen) callOf(env *c17Env, c c17Callee, d int, r *c17Rng) *c17N {
	if c.gl != nil && c.gl.lvl > g.lvlSeen {
		g.lvlSeen = c.gl.lvl
	}
	n := c.req
	if c.opt > 0 && r.chance(1, 2) {
		n += r.rng(1, c.opt)
	}
	as := g.args(env, n, d, r)
	if c.gl != nil && c.gl.rest && (c.opt == 0 || n == c.req+c.opt) && r.chance(1, 2) {
		as = append(as, g.args(env, r.rng(1, 2), d, r)...)
	}
	if c.gl != nil && len(c.gl.keys) > 0 && g.kwOK && g.has("kwcall") && n == c.req+c.opt {
		for _, k := range c.gl.keys {
			if r.chance(1, 2) {
				as = append(as, c17Sym(":"+k), g.intExpr(env, d, r.fork()))
				g.tag("keyword-arg")
			}
		}
	}
	call := &c17N{IsL: true, L: append([]*c17N{c.head.clone()}, as...)}
	if c.qual {
		g.tag("qualified-call")
	}
	if c.gl != nil && c.gl.retClosure {
		g.tag("closure-returned")
		inner := g.intExpr(env, d, r.fork())
		if r.chance(1, 2) {
			return c17Call("funcall", call, inner)
		}
		return c17List(call, inner)
	}
	return call
}

// params builds a parameter list and the corresponding locals.
func (g *c17Gen) params(env *c17Env, r *c17Rng, global bool) (*c17N, []c17Loc, *c17Glob) {
	sig := &c17Glob{}
	sig.req = r.rng(0, 2)
	if r.chance(1, 5) {
		sig.req = 3
	}
	var cells []*c17N
	var locs []c17Loc
	usedHere := map[string]bool{}
	pick := func() string {
		for try := 0; try < 20; try++ {
			n := g.pickLocalName(env, r)
			if !usedHere[n] {
				usedHere[n] = true
				return n
			}
		}
		n := fmt.Sprintf("p%d", len(usedHere))
		usedHere[n] = true
		return n
	}
	for i := 0; i < sig.req; i++ {
		n := pick()
		cells = append(cells, c17Sym(n))
		locs = append(locs, c17Loc{name: n, kind: c17LInt})
	}
	if g.has("optional") && r.chance(1, 4) {
		sig.opt = r.rng(1, 2)
		cells = append(cells, c17Sym("&optional"))
		for i := 0; i < sig.opt; i++ {
			n := pick()
			cells = append(cells, c17Sym(n))
			locs = append(locs, c17Loc{name: n, kind: c17LOpt})
		}
		g.tag("&optional")
	}
	if g.has("rest") && r.chance(1, 5) {
		sig.rest = true
		n := pick()
		cells = append(cells, c17Sym("&rest"), c17Sym(n))
		locs = append(locs, c17Loc{name: n, kind: c17LRest})
		g.tag("&rest")
	} else if global && g.has("keyparams") && r.chance(1, 4) {
		nk := r.rng(1, 2)
		cells = append(cells, c17Sym("&key"))
		for i := 0; i < nk; i++ {
			n := pick()
			cells = append(cells, c17Sym(n))
			locs = append(locs, c17Loc{name: n, kind: c17LOpt})
			sig.keys = append(sig.keys, n)
		}
		g.tag("&key")
	}
	return c17List(cells...), locs, sig
}

// body returns 1..3 forms whose last is an integer expression.
func (g *c17Gen) body(env *c17Env, d int, r *c17Rng) []*c17N {
	var out []*c17N
	if g.has("progn-print") && r.chance(1, 4) {
		out = append(out, c17Call("debug-print", g.label(), g.intExpr(env, d-1, r.fork())))
		g.tag("print-in-body")
	}
	if g.has("set!") && r.chance(1, 4) {
		var vars []string
		seen := map[string]bool{}
		for i := len(env.locs) - 1; i >= 0; i-- {
			l := env.locs[i]
			if !seen[l.name] && l.kind == c17LInt {
				vars = append(vars, l.name)
			}
			seen[l.name] = true
		}
		if len(vars) > 0 {
			v := c17Pick(r, vars)
			out = append(out, c17Call("set!", c17Sym(v), g.intExpr(env, d-1, r.fork())))
			g.tag("set!-local")
		}
	}
	if g.has("setbang-global") && env.inFn && r.chance(1, 10) {
		var vars []string
		for _, gl := range env.pkg.order {
			if gl.kind == c17KVar {
				if _, sh := env.local(gl.name); !sh {
					vars = append(vars, gl.name)
				}
			}
		}
		if len(vars) > 0 {
			v := c17Pick(r, vars)
			out = append(out, c17Call("set!", c17Sym(v), c17Call("+", c17Sym(v), c17Int(1))))
			g.tag("set!-global-in-fn")
		}
	}
	out = append(out, g.intExpr(env, d, r.fork()))
	return out
}

func c17Progn(forms []*c17N) *c17N {
	if len(forms) == 1 {
		return forms[0]
	}
	return c17Call("progn", forms...)
}

func (g *c17Gen) leaf(env *c17Env, r *c17Rng) *c17N {
	reads := g.intReads(env)
	if len(reads) > 0 && r.chance(3, 4) {
		x := c17Pick(r, reads).clone()
		if x.isAtom() && len(x.A) > 0 {
			if p, _ := c17SplitQual(x.A); p != "" {
				g.tag("qualified-var")
			}
		}
		return x
	}
	return g.lit(r)
}

type c17Choice struct {
	w    int
	cls  string
	make func() *c17N
}

// intExpr generates an expression that evaluates to an integer.  r is this
// node's private stream.
func (g *c17Gen) intExpr(env *c17Env, d int, r *c17Rng) *c17N {
	g.nodeCount++
	if d <= 0 || g.nodeCount > 400 {
		return g.leaf(env, r)
	}
	sub := func(e *c17Env) *c17N { return g.intExpr(e, d-1, r.fork()) }
	choices := []c17Choice{
		{10, "", func() *c17N { return g.leaf(env, r) }},
		{10, "", func() *c17N {
			op := c17Pick(r, []string{"+", "+", "-", "*"})
			if op == "*" {
				return c17Call("*", sub(env), c17Int(r.rng(1, 3)))
			}
			return c17Call(op, sub(env), sub(env))
		}},
		{4, "", func() *c17N {
			return c17Call("if", c17Call(c17Pick(r, []string{"<", "<=", "="}), sub(env), sub(env)), sub(env), sub(env))
		}},
		{3, "cond", func() *c17N {
			g.tag("cond")
			els := c17Pick(r, []string{":else", "else", "true"})
			return c17Call("cond",
				c17List(c17Call("<", sub(env), sub(env)), sub(env)),
				c17List(c17Sym(els), sub(env)))
		}},
		{8, "let", func() *c17N { return g.letExpr(env, d, r, false) }},
		{5, "let*", func() *c17N { return g.letExpr(env, d, r, true) }},
		{5, "flet", func() *c17N { return g.fletExpr(env, d, r, false) }},
		{5, "labels", func() *c17N { return g.fletExpr(env, d, r, true) }},
		{2, "labels-mutual", func() *c17N { return g.mutualExpr(env, d, r) }},
		{5, "lambda", func() *c17N { return g.lambdaExpr(env, d, r) }},
		{4, "fnvar", func() *c17N { return g.fnvarExpr(env, d, r) }},
		{4, "dotimes", func() *c17N { return g.dotimesExpr(env, d, r) }},
		{10, "", func() *c17N {
			cs := g.callees(env, false)
			if len(cs) == 0 {
				return g.leaf(env, r)
			}
			c := c17Pick(r, cs)
			if c.loc {
				g.tag("call-local-fn")
			} else {
				g.tag("call-global-fn")
			}
			return g.callOf(env, c, d-1, r)
		}},
		{4, "fnref", func() *c17N { return g.fnrefExpr(env, d, r) }},
		{6, "defmacro", func() *c17N {
			var ok []c17Callee
			for _, c := range g.callees(env, true) {
				if g.macroCallable(env, c) {
					ok = append(ok, c)
				}
			}
			if len(ok) == 0 {
				return g.leaf(env, r)
			}
			c := c17Pick(r, ok)
			if c.gl.lvl > g.lvlSeen {
				g.lvlSeen = c.gl.lvl
			}
			g.tag("macro-call")
			if c.qual {
				g.tag("macro-call-qualified")
			}
			n := c.req
			as := g.args(env, n, d-1, r)
			if c.gl.splice {
				as = append(as, g.args(env, r.rng(0, 2), d-1, r)...)
			}
			return &c17N{IsL: true, L: append([]*c17N{c.head.clone()}, as...)}
		}},
		{3, "macrolet", func() *c17N { return g.macroletExpr(env, d, r) }},
		{2, "quoted-data", func() *c17N {
			g.tag("quoted-data-in-expr")
			if env.builtinFree("length") && r.chance(1, 2) {
				env.pkg.usedBuiltin["length"] = true
				return c17Call("length", g.quotedList(env, r))
			}
			a := g.dataSym(env, r)
			b := a
			if r.chance(1, 2) {
				b = g.dataSym(env, r)
			}
			return c17Call("if", c17Call("equal?", c17QSym(a), c17QSym(b)), sub(env), sub(env))
		}},
		{2, "handler", func() *c17N { return g.handlerExpr(env, d, r) }},
		{2, "thread", func() *c17N {
			var one []c17Callee
			for _, c := range g.callees(env, false) {
				if c.req == 1 && (c.gl == nil || !c.gl.retClosure) {
					one = append(one, c)
				}
			}
			if len(one) == 0 {
				return g.leaf(env, r)
			}
			c := c17Pick(r, one)
			g.tag("thread-first")
			return c17Call("thread-first", sub(env), c17List(c.head.clone()), c17Call("+", sub(env)))
		}},
		{2, "prefix-lambda", func() *c17N {
			g.tag("prefix-lambda")
			// the reader rejects nested expressions inside #^(...): atoms only
			var inner *c17N
			for try := 0; try < 8 && (inner == nil || !inner.isAtom()); try++ {
				inner = g.leaf(env, r.fork())
			}
			if !inner.isAtom() {
				inner = g.lit(r)
			}
			pl := c17Call("+", c17Sym("%"), inner)
			pl.Px = true
			if r.chance(1, 2) {
				return c17Call("funcall", pl, sub(env))
			}
			return c17List(pl, sub(env))
		}},
		{3, "progn-print", func() *c17N {
			g.tag("progn")
			return c17Progn(g.body(env, d-1, r))
		}},
		{2, "shadow-builtin", func() *c17N {
			// use of a shadowable builtin where it still is the builtin
			var free []string
			for _, b := range []string{"max", "min"} {
				if env.builtinFree(b) {
					free = append(free, b)
				}
			}
			if len(free) == 0 {
				return g.leaf(env, r)
			}
			g.tag("builtin-call")
			b := c17Pick(r, free)
			env.pkg.usedBuiltin[b] = true
			return c17Call(b, sub(env), sub(env))
		}},
		{3, "qq-data", func() *c17N { return g.qqDataExpr(env, d, r) }},
	}
	total := 0
	for _, c := range choices {
		total += c.w
	}
	k := r.intn(total)
	for _, c := range choices {
		if k < c.w {
			if c.cls != "" && !g.has(c.cls) {
				// disabled class: transparent fallback on a private stream
				return g.intExpr(env, d-1, r.fork())
			}
			return c.make()
		}
		k -= c.w
	}
	return g.leaf(env, r)
}

func (g *c17Gen) letExpr(env *c17Env, d int, r *c17Rng, seq bool) *c17N {
	n := r.rng(1, 3)
	cur := env
	var binds []*c17N
	var locs []c17Loc
	for i := 0; i < n; i++ {
		name := g.pickLocalName(cur, r)
		var init *c17N
		if seq {
			init = g.intExpr(cur, d-1, r.fork())
		} else {
			init = g.intExpr(env, d-1, r.fork())
		}
		l := c17Loc{name: name, kind: c17LInt}
		locs = append(locs, l)
		if seq {
			cur = cur.with(l)
		}
		b := c17List(c17Sym(name), init)
		binds = append(binds, b)
	}
	if !seq {
		cur = env.with(locs...)
	}
	bl := c17List(binds...)
	if r.chance(1, 3) && !(c17HasQualified(bl) && g.avoiding("D3", "qualified-name-inside-bracket-list")) {
		bl.Br = true
		for _, b := range binds {
			b.Br = true
		}
	}
	head := "let"
	if seq {
		head = "let*"
	}
	g.tag(head)
	forms := []*c17N{c17Sym(head), bl}
	forms = append(forms, g.body(cur, d-1, r)...)
	return &c17N{IsL: true, L: forms}
}

func (g *c17Gen) fletExpr(env *c17Env, d int, r *c17Rng, labels bool) *c17N {
	n := r.rng(1, 2)
	var names []string
	var fl []c17Loc
	var plist []*c17N
	var plocs [][]c17Loc
	for i := 0; i < n; i++ {
		name := g.pickLocalName(env, r)
		dup := false
		for _, x := range names {
			if x == name {
				dup = true
			}
		}
		if dup {
			name = fmt.Sprintf("lf%d", i)
		}
		names = append(names, name)
		ps, locs, sig := g.params(env, r, false)
		if sig.req == 0 && sig.opt == 0 {
			// keep at least one required parameter so calls exercise binding
			pn := "n"
			for _, l := range locs {
				if l.name == pn {
					pn = "n0"
				}
			}
			ps = c17List(append([]*c17N{c17Sym(pn)}, ps.L...)...)
			locs = append([]c17Loc{{name: pn, kind: c17LInt}}, locs...)
			sig.req = 1
		}
		plist = append(plist, ps)
		plocs = append(plocs, locs)
		fl = append(fl, c17Loc{name: name, kind: c17LFn, req: sig.req, opt: sig.opt})
	}
	var binds []*c17N
	for i := 0; i < n; i++ {
		var benv *c17Env
		if labels {
			// a labels function sees itself and its siblings; to stay
			// terminating it may only call EARLIER siblings
			var later []c17Loc
			for _, x := range fl[i:] {
				later = append(later, c17Loc{name: x.name, kind: c17LOpaque})
			}
			benv = env.with(fl[:i]...).with(later...).with(plocs[i]...).fn()
		} else {
			benv = env.with(plocs[i]...).fn()
		}
		forms := []*c17N{c17Sym(names[i]), plist[i]}
		forms = append(forms, g.body(benv, d-1, r)...)
		b := &c17N{IsL: true, L: forms}
		binds = append(binds, b)
	}
	bl := c17List(binds...)
	if r.chance(1, 3) && !(c17HasQualified(bl) && g.avoiding("D3", "qualified-name-inside-bracket-list")) {
		bl.Br = true
		for _, b := range binds {
			b.Br = true
		}
	}
	benv := env.with(fl...)
	head := "flet"
	if labels {
		head = "labels"
	}
	g.tag(head)
	// make sure the bound functions are used
	c := c17Callee{head: c17Sym(names[n-1]), req: fl[n-1].req, opt: fl[n-1].opt, loc: true}
	use := g.callOf(benv, c, d-1, r)
	rest := g.body(benv, d-1, r)
	last := rest[len(rest)-1]
	rest[len(rest)-1] = c17Call("+", use, last)
	forms := []*c17N{c17Sym(head), bl}
	forms = append(forms, rest...)
	return &c17N{IsL: true, L: forms}
}

// mutualExpr: labels with mutual recursion on a decreasing counter.
func (g *c17Gen) mutualExpr(env *c17Env, d int, r *c17Rng) *c17N {
	fa := g.pickLocalName(env, r)
	fb := g.pickLocalName(env, r)
	if fa == fb {
		fb = fb + "-b"
		g.names[fb] = true
	}
	pa := g.pickLocalName(env, r)
	pb := g.pickLocalName(env, r)
	fl := []c17Loc{{name: fa, kind: c17LOpaque}, {name: fb, kind: c17LOpaque}}
	// bodies may read the enclosing scope but, to stay terminating, call no
	// function besides the partner
	mk := func(self, other, p string) *c17N {
		benv := env.with(fl...).with(c17Loc{name: p, kind: c17LInt}).fn()
		base := g.intExprNoCalls(benv, r.fork())
		if p == other || p == self {
			// the parameter shadows a function name: no recursion possible
			return c17List(c17Sym(self), c17List(c17Sym(p)), base)
		}
		return c17List(c17Sym(self), c17List(c17Sym(p)),
			c17Call("if", c17Call("<=", c17Sym(p), c17Int(0)), base,
				c17Call("+", c17Int(1), c17List(c17Sym(other), c17Call("-", c17Sym(p), c17Int(1))))))
	}
	g.tag("labels-mutual")
	return c17Call("labels", c17List(mk(fa, fb, pa), mk(fb, fa, pb)),
		c17List(c17Sym(fa), c17Int(r.rng(0, 4))))
}

// intExprNoCalls: a small integer expression that calls nothing user-defined.
func (g *c17Gen) intExprNoCalls(env *c17Env, r *c17Rng) *c17N {
	reads := g.intReads(env)
	if len(reads) == 0 {
		return g.lit(r)
	}
	a := c17Pick(r, reads).clone()
	if r.chance(1, 2) {
		return a
	}
	return c17Call("+", a, g.lit(r))
}

func (g *c17Gen) lambdaNode(env *c17Env, d int, r *c17Rng) (*c17N, *c17Glob) {
	ps, locs, sig := g.params(env, r, false)
	benv := env.with(locs...).fn()
	forms := []*c17N{c17Sym("lambda"), ps}
	forms = append(forms, g.body(benv, d-1, r)...)
	g.tag("lambda")
	return &c17N{IsL: true, L: forms}, sig
}

func (g *c17Gen) lambdaExpr(env *c17Env, d int, r *c17Rng) *c17N {
	lam, sig := g.lambdaNode(env, d, r)
	c := c17Callee{head: lam, req: sig.req, opt: sig.opt, loc: true}
	call := g.callOf(env, c, d-1, r)
	if r.chance(1, 2) {
		call.L = append([]*c17N{c17Sym("funcall")}, call.L...)
	}
	return call
}

func (g *c17Gen) fnvarExpr(env *c17Env, d int, r *c17Rng) *c17N {
	name := g.pickLocalName(env, r)
	lam, sig := g.lambdaNode(env, d, r)
	l := c17Loc{name: name, kind: c17LFn, req: sig.req, opt: sig.opt}
	benv := env.with(l)
	c := c17Callee{head: c17Sym(name), req: sig.req, opt: sig.opt, loc: true}
	use := g.callOf(benv, c, d-1, r)
	if r.chance(1, 2) {
		use.L = append([]*c17N{c17Sym("funcall")}, use.L...)
	}
	rest := g.body(benv, d-1, r)
	rest[len(rest)-1] = c17Call("+", use, rest[len(rest)-1])
	g.tag("fn-valued-local")
	forms := []*c17N{c17Sym("let"), c17List(c17List(c17Sym(name), lam))}
	forms = append(forms, rest...)
	return &c17N{IsL: true, L: forms}
}

func (g *c17Gen) dotimesExpr(env *c17Env, d int, r *c17Rng) *c17N {
	acc := g.pickLocalName(env, r)
	aenv := env.with(c17Loc{name: acc, kind: c17LInt})
	iv := g.pickLocalName(aenv, r)
	var count *c17N
	if r.chance(1, 3) {
		// count expression is evaluated OUTSIDE the loop variable's scope
		count = c17Call("if", c17Call("<", g.leaf(aenv, r.fork()), c17Int(2)), c17Int(1), c17Int(r.rng(2, 3)))
	} else {
		count = c17Int(r.rng(0, 3))
	}
	benv := aenv.with(c17Loc{name: iv, kind: c17LInt})
	g.tag("dotimes")
	var stmt *c17N
	if iv == acc {
		// the loop variable shadows the accumulator: nothing to accumulate into
		stmt = c17Call("debug-print", g.label(), g.intExpr(benv, d-1, r.fork()))
	} else {
		stmt = c17Call("set!", c17Sym(acc), c17Call("+", c17Sym(acc), g.intExpr(benv, d-1, r.fork())))
	}
	return c17Call("let", c17List(c17List(c17Sym(acc), g.intExpr(env, d-1, r.fork()))),
		c17Call("dotimes", c17List(c17Sym(iv), count), stmt),
		c17Sym(acc))
}

func (g *c17Gen) fnrefExpr(env *c17Env, d int, r *c17Rng) *c17N {
	var one []c17Callee
	for _, c := range g.callees(env, false) {
		if c.req == 1 && c.head.isAtom() && (c.gl == nil || (!c.gl.retClosure && c.gl.kind == c17KFn)) {
			one = append(one, c)
		}
	}
	if len(one) == 0 {
		return g.leaf(env, r)
	}
	c := c17Pick(r, one)
	var ref *c17N
	switch r.intn(3) {
	case 0:
		ref = c.head.clone()
		ref.Fn = true
	case 1:
		ref = c17Call("function", c.head.clone())
	default:
		ref = c.head.clone()
	}
	g.tag("function-ref")
	a := g.intExpr(env, d-1, r.fork())
	switch r.intn(3) {
	case 0:
		return c17Call("funcall", ref, a)
	case 1:
		return c17Call("apply", ref, c17Call("list", a))
	default:
		return c17Call("apply", c17Sym("+"), c17Call("map", c17QSym("list"), ref, c17Call("list", a, g.intExpr(env, d-1, r.fork()))))
	}
}

// dataSym picks a symbol to appear in quoted data: preferably one that
// coincides with a name the minifier may rename.
func (g *c17Gen) dataSym(env *c17Env, r *c17Rng) string {
	var cands []string
	for _, l := range env.locs {
		cands = append(cands, l.name)
	}
	for _, gl := range env.pkg.order {
		cands = append(cands, gl.name)
	}
	if g.has("minilike-names") {
		cands = append(cands, g.miniCall...)
	}
	cands = append(cands, "plain-datum", "lambda", "let")
	return c17Pick(r, cands)
}

func (g *c17Gen) quotedList(env *c17Env, r *c17Rng) *c17N {
	n := r.rng(1, 4)
	var xs []*c17N
	for i := 0; i < n; i++ {
		switch r.intn(6) {
		case 0:
			xs = append(xs, c17Int(r.rng(0, 9)))
		case 1:
			xs = append(xs, c17Sym(":"+g.dataSym(env, r)))
		case 2:
			xs = append(xs, c17List(c17Sym(g.dataSym(env, r)), c17Sym(g.dataSym(env, r))))
		default:
			xs = append(xs, c17Sym(g.dataSym(env, r)))
		}
	}
	l := c17List(xs...)
	l.Q = true
	return l
}

func (g *c17Gen) handlerExpr(env *c17Env, d int, r *c17Rng) *c17N {
	cond := c17Pick(r, c17CondNames)
	cn := g.pickLocalName(env, r)
	an := g.pickLocalName(env, r)
	if an == cn {
		an = an + "-rest"
		g.names[an] = true
	}
	henv := env.with(c17Loc{name: cn, kind: c17LOpaque}, c17Loc{name: an, kind: c17LOpaque}).fn()
	handler := c17Call("lambda", c17List(c17Sym(cn), c17Sym("&rest"), c17Sym(an)), g.intExpr(henv, d-1, r.fork()))
	body := c17Call("if", c17Call("<", g.intExpr(env, d-1, r.fork()), g.intExpr(env, d-1, r.fork())),
		c17Call("error", c17QSym(cond), c17Str("raised")),
		g.intExpr(env, d-1, r.fork()))
	g.tag("handler-bind")
	return c17Call("handler-bind", c17List(c17List(c17Sym(cond), handler)), body)
}

// macroletExpr: a local macro.  The safe variant's template mentions only its
// own parameters, literals and core operators; the hazard variant
// ("macrolet-free") also mentions names of the enclosing scope.
func (g *c17Gen) macroletExpr(env *c17Env, d int, r *c17Rng) *c17N {
	mname := g.pickLocalName(env, r)
	p := c17Pick(r, []string{"form", "arg", "e1"})
	var tmpl *c17N
	free := false
	if g.has("macrolet-free") && r.chance(2, 3) {
		// reference something of the enclosing scope from the template
		var opts []*c17N
		reads := g.intReads(env)
		if len(reads) > 0 {
			opts = append(opts, c17Pick(r, reads).clone())
		}
		for _, c := range g.callees(env, false) {
			if c.req == 1 && c.head.isAtom() && (c.gl == nil || !c.gl.retClosure) {
				opts = append(opts, c17List(c.head.clone(), c17Int(r.rng(0, 3))))
				break
			}
		}
		if len(opts) > 0 {
			o := c17Pick(r, opts)
			// the template's free name must not be captured by the macro's own name
			if !c17Mentions(o, mname) {
				tmpl = c17Call("+", o, c17Call("unquote", c17Sym(p)))
				free = true
				g.tag("macrolet-template-free-name")
			}
		}
	}
	if tmpl == nil {
		tmpl = c17Call("+", c17Int(r.rng(1, 5)), c17Call("*", c17Call("unquote", c17Sym(p)), c17Int(2)))
	}
	_ = free
	g.tag("macrolet")
	// the body must not use mname for anything else: bind it as opaque
	benv := env.with(c17Loc{name: mname, kind: c17LOpaque})
	arg := g.intExpr(benv, d-1, r.fork())
	rest := g.intExpr(benv, d-1, r.fork())
	return c17Call("macrolet",
		c17List(c17List(c17Sym(mname), c17List(c17Sym(p)), c17Call("quasiquote", tmpl))),
		c17Call("+", c17List(c17Sym(mname), arg), rest))
}

// c17HasQualified reports whether a pkg:name symbol occurs below n.
func c17HasQualified(n *c17N) bool {
	if n.isAtom() {
		if len(n.A) > 0 && n.A[0] != '"' {
			p, _ := c17SplitQual(n.A)
			return p != ""
		}
		return false
	}
	for _, x := range n.L {
		if c17HasQualified(x) {
			return true
		}
	}
	return false
}

func c17Mentions(n *c17N, name string) bool {
	if n.isAtom() {
		return n.A == name
	}
	for _, x := range n.L {
		if c17Mentions(x, name) {
			return true
		}
	}
	return false
}

// qqDataExpr (hazard "qq-data"): quasiquote used to build DATA whose symbols
// coincide with names in scope.
func (g *c17Gen) qqDataExpr(env *c17Env, d int, r *c17Rng) *c17N {
	var names []string
	for _, l := range env.locs {
		if l.kind == c17LInt {
			names = append(names, l.name)
		}
	}
	for _, gl := range env.pkg.order {
		if gl.kind == c17KFn {
			names = append(names, gl.name)
		}
	}
	if len(names) == 0 {
		return g.leaf(env, r)
	}
	s := c17Pick(r, names)
	g.tag("quasiquote-as-data")
	data := c17Call("quasiquote", c17List(c17Sym(s), c17Call("unquote", g.intExpr(env, d-1, r.fork()))))
	return c17Progn([]*c17N{c17Call("debug-print", g.label(), data), g.intExpr(env, d-1, r.fork())})
}

// ---- macro templates ---------------------------------------------------------

type c17Tmpl struct {
	g       *c17Gen
	pkg     *c17Pkg
	params  []string
	free    map[string]bool
	cross   bool
	binders []c17Loc
}

func (t *c17Tmpl) expr(d int, r *c17Rng) *c17N {
	g := t.g
	if d <= 0 {
		return t.leaf(r)
	}
	switch k := r.intn(10); {
	case k < 3:
		return t.leaf(r)
	case k < 5:
		return c17Call(c17Pick(r, []string{"+", "-"}), t.expr(d-1, r.fork()), t.expr(d-1, r.fork()))
	case k < 6:
		return c17Call("if", c17Call("<", t.expr(d-1, r.fork()), t.expr(d-1, r.fork())), t.expr(d-1, r.fork()), t.expr(d-1, r.fork()))
	case k < 8:
		// call a package-level function from the template
		var fns []*c17Glob
		for _, gl := range t.pkg.order {
			if gl.kind == c17KFn && !gl.retClosure && g.lvlOK(gl) && (!t.isParam(gl.name) || g.has("template-name-eq-param")) {
				if g.definedInOtherPackage(gl.name, t.pkg.name) && g.avoiding("D9", "macro-template-names-a-global-that-another-package-also-defines") {
					continue
				}
				if t.isParam(gl.name) {
					g.tag("template-name-equals-param")
				}
				fns = append(fns, gl)
			}
		}
		if len(fns) == 0 {
			return t.leaf(r)
		}
		f := c17Pick(r, fns)
		if f.lvl > g.lvlSeen {
			g.lvlSeen = f.lvl
		}
		head := f.name
		if g.has("template-qualified") && r.chance(1, 2) {
			head = t.pkg.name + ":" + f.name
			g.tag("template-qualified-name")
		} else {
			t.free[f.name] = true
			g.tmplFree[f.name] = t.pkg.name
			t.cross = false
			g.tag("template-global-fn")
		}
		var as []*c17N
		for i := 0; i < f.req; i++ {
			as = append(as, t.expr(d-1, r.fork()))
		}
		return &c17N{IsL: true, L: append([]*c17N{c17Sym(head)}, as...)}
	case k < 9 && g.has("template-let"):
		pool := c17TemplateBinders
		if g.has("minilike-names") && len(g.miniTmpl) > 0 && r.chance(1, 2) {
			pool = g.miniTmpl
			g.tag("minilike-template-binder")
		}
		b := c17Pick(r, pool)
		init := t.expr(d-1, r.fork())
		t.binders = append(t.binders, c17Loc{name: b, kind: c17LInt})
		body := t.expr(d-1, r.fork())
		t.binders = t.binders[:len(t.binders)-1]
		g.tag("template-let")
		return c17Call("let", c17List(c17List(c17Sym(b), init)), c17Call("+", c17Sym(b), body))
	default:
		return t.leaf(r)
	}
}

func (t *c17Tmpl) isParam(n string) bool {
	for _, p := range t.params {
		if p == n {
			return true
		}
	}
	return false
}

func (t *c17Tmpl) leaf(r *c17Rng) *c17N {
	g := t.g
	k := r.intn(10)
	switch {
	case k < 5 && len(t.params) > 0:
		return c17Call("unquote", c17Sym(c17Pick(r, t.params)))
	case k < 6 && len(t.binders) > 0:
		return c17Sym(c17Pick(r, t.binders).name)
	case k < 8:
		var vars []*c17Glob
		for _, gl := range t.pkg.order {
			if gl.kind == c17KVar && (!t.isParam(gl.name) || g.has("template-name-eq-param")) {
				if g.definedInOtherPackage(gl.name, t.pkg.name) && g.avoiding("D9", "macro-template-names-a-global-that-another-package-also-defines") {
					continue
				}
				if t.isParam(gl.name) {
					g.tag("template-name-equals-param")
				}
				vars = append(vars, gl)
			}
		}
		if len(vars) == 0 {
			return g.lit(r)
		}
		v := c17Pick(r, vars)
		if g.has("template-qualified") && r.chance(1, 2) {
			g.tag("template-qualified-name")
			return c17Sym(t.pkg.name + ":" + v.name)
		}
		t.free[v.name] = true
		g.tmplFree[v.name] = t.pkg.name
		t.cross = false
		g.tag("template-global-var")
		return c17Sym(v.name)
	default:
		return g.lit(r)
	}
}

// ---- top-level units -----------------------------------------------------------

func (g *c17Gen) emit(file int, n *c17N) { g.files[file] = append(g.files[file], n) }

func (g *c17Gen) inPackage(file int, p string, r *c17Rng) {
	if g.curPkg[file] == p {
		return
	}
	g.curPkg[file] = p
	var arg *c17N
	if r.chance(1, 4) {
		arg = c17Str(p)
	} else {
		arg = c17QSym(p)
	}
	g.emit(file, c17Call("in-package", arg))
	g.tag("in-package")
}

func (g *c17Gen) exportForm(names ...string) *c17N {
	var as []*c17N
	for _, n := range names {
		as = append(as, c17QSym(n))
	}
	g.tag("export")
	return c17Call("export", as...)
}

func (g *c17Gen) topEnv(p *c17Pkg) *c17Env { return &c17Env{pkg: p} }

func (g *c17Gen) observe(file int, p *c17Pkg, e *c17N) {
	g.emit(file, c17Call("debug-print", g.label(), e))
}

// unitDefun defines a function and observes a call to it.
func (g *c17Gen) unitDefun(file int, p *c17Pkg, d int, r *c17Rng) {
	env := g.topEnv(p)
	var name string
	if g.has("global-shadows-builtin") && r.chance(1, 10) {
		name = c17Pick(r, []string{"max", "min"})
		if p.imports[name] != nil || p.defs[name] != nil || p.usedBuiltin[name] {
			name = ""
		} else {
			g.tag("global-shadows-builtin")
			g.names[name] = true
		}
	}
	if name == "" {
		name = g.pickGlobalName(p, r, true)
	}
	ps, locs, sig := g.params(env, r, true)
	if name == "max" || name == "min" {
		ps, locs = c17List(c17Sym("a"), c17Sym("b")), []c17Loc{{name: "a", kind: c17LInt}, {name: "b", kind: c17LInt}}
		sig = &c17Glob{req: 2}
	}
	sig.name, sig.kind = name, c17KFn
	benv := env.with(locs...).fn()
	forms := []*c17N{c17Sym("defun"), c17Sym(name), ps}
	if g.has("docstring") && r.chance(1, 5) {
		forms = append(forms, c17Str("doc for "+name+" mentions x1 and helper"))
		g.tag("docstring")
	}
	done := false
	sig.lvl = g.defining(func() {
		kind := r.intn(10)
		switch {
		case kind == 0 && g.has("recursion") && sig.req >= 1 && !sig.rest && len(sig.keys) == 0 && locs[0].name != name:
			// bounded self recursion on the first parameter
			p0 := locs[0].name
			rec := []*c17N{c17Sym(name), c17Call("-", c17Sym(p0), c17Int(1))}
			for i := 1; i < sig.req; i++ {
				rec = append(rec, c17Sym(locs[i].name))
			}
			forms = append(forms, c17Call("if", c17Call("<=", c17Sym(p0), c17Int(0)),
				g.intExprNoCalls(benv, r.fork()),
				c17Call("+", c17Int(1), &c17N{IsL: true, L: rec})))
			g.tag("self-recursion")
			sig.opt = 0
			// rebuild the parameter list without optionals
			var cells []*c17N
			for i := 0; i < sig.req; i++ {
				cells = append(cells, c17Sym(locs[i].name))
			}
			forms[2] = c17List(cells...)
			sig.lvl = 1
			g.define(p, sig)
			g.emit(file, &c17N{IsL: true, L: forms})
			as := []*c17N{c17Int(r.rng(0, 3))}
			for i := 1; i < sig.req; i++ {
				as = append(as, g.lit(r))
			}
			g.observe(file, p, &c17N{IsL: true, L: append([]*c17N{c17Sym(name)}, as...)})
			done = true
			return
		case kind == 1 && g.has("closure-ret"):
			// returns a closure over its parameters and a mutable local
			cn := g.pickLocalName(benv, r)
			kn := g.pickLocalName(benv.with(c17Loc{name: cn, kind: c17LInt}), r)
			cenv := benv.with(c17Loc{name: cn, kind: c17LInt}, c17Loc{name: kn, kind: c17LInt}).fn()
			var lamBody []*c17N
			if kn != cn {
				lamBody = append(lamBody, c17Call("set!", c17Sym(cn), c17Call("+", c17Sym(cn), c17Sym(kn))))
			}
			lamBody = append(lamBody, g.intExpr(cenv, d-1, r.fork()))
			lam := &c17N{IsL: true, L: append([]*c17N{c17Sym("lambda"), c17List(c17Sym(kn))}, lamBody...)}
			forms = append(forms, c17Call("let", c17List(c17List(c17Sym(cn), g.intExpr(benv, d-1, r.fork()))), lam))
			sig.retClosure = true
			g.tag("closure-returning-defun")
		default:
			forms = append(forms, g.body(benv, d, r)...)
		}
	})
	if done {
		return
	}
	def := &c17N{IsL: true, L: forms}
	exported := g.has("export") && !p.frozen && r.chance(1, 3)
	if exported && c17Contains(c17ShadowableBuiltins, name) && g.avoiding("D12", "export-of-a-global-spelled-like-a-builtin") {
		exported = false
	}
	before := exported && r.chance(1, 2)
	if before {
		g.emit(file, g.exportForm(name))
		g.tag("export-before-def")
	}
	g.define(p, sig)
	g.emit(file, def)
	if exported {
		sig.exported = true
		if !c17Contains(p.exports, name) {
			p.exports = append(p.exports, name)
		}
		p.exportFiles[file] = true
		if !before {
			g.emit(file, g.exportForm(name))
		}
	}
	g.tag("defun")
	if r.chance(3, 4) {
		c := c17Callee{head: c17Sym(name), gl: sig, req: sig.req, opt: sig.opt}
		g.observe(file, p, g.callOf(env, c, 1, r))
	}
}

func c17Contains(xs []string, s string) bool {
	for _, x := range xs {
		if x == s {
			return true
		}
	}
	return false
}

func (g *c17Gen) unitGvar(file int, p *c17Pkg, d int, r *c17Rng) {
	env := g.topEnv(p)
	name := g.pickGlobalName(p, r, false)
	if g.has("gvar-fn") && r.chance(1, 4) {
		var lam *c17N
		var sig *c17Glob
		lvl := g.defining(func() { lam, sig = g.lambdaNode(env, d, r) })
		sig.lvl = lvl
		sig.name, sig.kind = name, c17KVarFn
		g.emit(file, c17Call("set", c17QSym(name), lam))
		g.define(p, sig)
		g.tag("global-set-lambda")
		c := c17Callee{head: c17Sym(name), gl: sig, req: sig.req, opt: sig.opt}
		g.observe(file, p, g.callOf(env, c, 1, r))
		return
	}
	init := g.intExpr(env, d, r.fork())
	g.emit(file, c17Call("set", c17QSym(name), init))
	gl := &c17Glob{name: name, kind: c17KVar}
	g.define(p, gl)
	g.tag("global-set")
	if g.has("export") && !p.frozen && r.chance(1, 4) {
		gl.exported = true
		p.exports = append(p.exports, name)
		p.exportFiles[file] = true
		g.emit(file, g.exportForm(name))
		g.tag("export-var")
	}
}

func (g *c17Gen) unitDefmacro(file int, p *c17Pkg, d int, r *c17Rng) {
	name := g.pickGlobalName(p, r, false)
	np := r.rng(1, 2)
	var params []string
	pool := []string{"form", "arg", "e1", "e2", "body", "value", "item"}
	if g.has("minilike-names") {
		pool = append(pool, g.miniCall[0], g.miniCall[1])
	}
	if g.has("template-name-eq-param") {
		// hazard: a macro parameter spelled like a package-level name the template mentions
		for _, gl := range p.order {
			if gl.kind == c17KFn && !gl.retClosure || gl.kind == c17KVar {
				pool = []string{gl.name, gl.name, "form"}
				break
			}
		}
	}
	for len(params) < np {
		c := c17Pick(r, pool)
		if !c17Contains(params, c) && c != name {
			params = append(params, c)
		}
	}
	t := &c17Tmpl{g: g, pkg: p, params: params, free: map[string]bool{}, cross: true}
	sig := &c17Glob{name: name, kind: c17KMacro, req: np}
	var cells []*c17N
	for _, q := range params {
		cells = append(cells, c17Sym(q))
		g.names[q] = true
	}
	var tmpl *c17N
	sig.lvl = g.defining(func() { tmpl = t.expr(d, r.fork()) })
	if g.has("macro-splice") && r.chance(1, 4) {
		restName := "more"
		cells = append(cells, c17Sym("&rest"), c17Sym(restName))
		tmpl = c17Call("+", tmpl, c17Call("unquote-splicing", c17Sym(restName)))
		sig.splice = true
		g.tag("macro-&rest-splice")
	}
	var bodyForm *c17N
	if g.has("macro-body-let") && r.chance(1, 4) {
		// a value computed at expansion time by ordinary code in the macro body
		kn := c17Pick(r, []string{"computed", "k0", "helper", "value"})
		if c17Contains(params, kn) {
			kn = "computed"
		}
		if t.free[kn] && g.avoiding("D5", "macro-body-local-spelled-like-a-global-the-template-names") {
			kn = "computed"
		}
		if t.free[kn] {
			g.tag("macro-body-local-spelled-like-template-global")
		}
		var fns []*c17Glob
		for _, gl := range p.order {
			if gl.kind == c17KFn && !gl.retClosure && gl.req <= 2 && !c17Contains(params, gl.name) {
				fns = append(fns, gl)
			}
		}
		var init *c17N
		if len(fns) > 0 && r.chance(2, 3) {
			f := c17Pick(r, fns)
			as := []*c17N{c17Sym(f.name)}
			for i := 0; i < f.req; i++ {
				as = append(as, g.lit(r))
			}
			init = &c17N{IsL: true, L: as}
			g.tag("macro-body-calls-global")
		} else {
			init = c17Call("+", g.lit(r), g.lit(r))
		}
		tmpl = c17Call("+", c17Call("unquote", c17Sym(kn)), tmpl)
		bodyForm = c17Call("let", c17List(c17List(c17Sym(kn), init)), c17Call("quasiquote", tmpl))
		g.tag("macro-body-let")
	} else {
		bodyForm = c17Call("quasiquote", tmpl)
	}
	for f := range t.free {
		sig.free = append(sig.free, f)
	}
	sort.Strings(sig.free)
	// shadowable builtins are never used by templates, core operators are never rebound
	sig.crossOK = t.cross
	g.emit(file, c17Call("defmacro", c17Sym(name), c17List(cells...), bodyForm))
	g.define(p, sig)
	g.tag("defmacro")
	if g.has("export") && !p.frozen && r.chance(1, 4) {
		sig.exported = true
		p.exports = append(p.exports, name)
		p.exportFiles[file] = true
		g.emit(file, g.exportForm(name))
		g.tag("export-macro")
	}
}

func (g *c17Gen) unitUsePackage(file int, p *c17Pkg, r *c17Rng) bool {
	var cands []*c17Pkg
	for _, qn := range g.pkgOrder {
		q := g.pkgs[qn]
		if q == p || p.used[qn] || len(q.exports) == 0 {
			continue
		}
		ok := true
		for _, e := range q.exports {
			if q.defs[e] == nil || p.defs[e] != nil || p.imports[e] != nil || p.hidden[e] || p.usedBuiltin[e] {
				ok = false
			}
		}
		if ok && q.exportFiles[g.curFile] && g.avoiding("D2", "use-package-in-the-file-that-defines-the-exported-names") {
			ok = false
		}
		if ok {
			cands = append(cands, q)
		}
	}
	if len(cands) == 0 {
		return false
	}
	q := c17Pick(r, cands)
	q.frozen = true
	p.used[q.name] = true
	for _, e := range q.exports {
		p.imports[e] = q.defs[e]
	}
	var arg *c17N
	if r.chance(1, 4) {
		arg = c17Str(q.name)
	} else {
		arg = c17QSym(q.name)
	}
	g.emit(file, c17Call("use-package", arg))
	g.tag("use-package")
	return true
}

func (g *c17Gen) unitData(file int, p *c17Pkg, r *c17Rng) {
	env := g.topEnv(p)
	g.emit(file, c17Call("debug-print", g.label(), c17QSym(g.dataSym(env, r)), g.quotedList(env, r), c17Sym(":"+g.dataSym(env, r))))
	g.tag("quoted-data-observable")
}

func (g *c17Gen) unitTopLetDefun(file int, p *c17Pkg, d int, r *c17Rng) {
	env := g.topEnv(p)
	k := g.pickLocalName(env, r)
	name := g.pickGlobalName(p, r, false)
	pn := c17Pick(r, []string{"n", "v", "arg"})
	if pn == k {
		pn = pn + "2"
	}
	sig := &c17Glob{name: name, kind: c17KFn, req: 1, lvl: 1}
	g.emit(file, c17Call("let", c17List(c17List(c17Sym(k), g.intExpr(env, 1, r.fork()))),
		c17Call("defun", c17Sym(name), c17List(c17Sym(pn)), c17Call("+", c17Sym(pn), c17Sym(k)))))
	g.define(p, sig)
	g.tag("defun-inside-toplevel-let")
	g.observe(file, p, c17List(c17Sym(name), g.lit(r)))
}

// ---- session -----------------------------------------------------------------

type c17Session struct {
	Files  [][]*c17N
	Paths  []string
	Used   map[string]int
	Names  []string
	KwOK   bool
	NPkgs  int
	Hazard []string
	// Excluded counts the uses of a defect-triggering shape the generator
	// declined because the probes found that defect in the tree under test.
	Excluded map[string]int
	// TwinOf[f] = t: file f starts with a copy (under another package name) of
	// the leading package segment of file t — two files written after one
	// template, so their definitions sit at the same line and column.
	TwinOf map[int]int
	// Redef: the groups "a name defined more than once, referenced from elsewhere"
	// (c17_gen_redef.go); evidence only
	Redef []c17RedefInfo
}

// c17TwinSrc is a leading package segment that can serve as a template: the
// forms files[file][:nforms] introduced package pkg, whose model state at the
// end of the segment is snap.
type c17TwinSrc struct {
	file   int
	pkg    string
	nforms int
	snap   *c17Pkg
	copies int
}

func (p *c17Pkg) cloneAs(name string, file int) *c17Pkg {
	q := &c17Pkg{name: name, defs: map[string]*c17Glob{}, imports: map[string]*c17Glob{}, used: map[string]bool{},
		usedBuiltin: map[string]bool{}, hidden: map[string]bool{}, exportFiles: map[int]bool{}}
	for _, gl := range p.order {
		c := *gl
		c.pkg, c.file = name, file
		c.keys = append([]string(nil), gl.keys...)
		c.free = append([]string(nil), gl.free...)
		q.order = append(q.order, &c)
		if p.defs[gl.name] == gl {
			q.defs[gl.name] = &c
		}
	}
	for n, gl := range p.imports {
		q.imports[n] = gl
	}
	q.exports = append([]string(nil), p.exports...)
	for n := range p.used {
		q.used[n] = true
	}
	for n := range p.usedBuiltin {
		q.usedBuiltin[n] = true
	}
	for n := range p.hidden {
		q.hidden[n] = true
	}
	if len(p.exportFiles) > 0 {
		q.exportFiles[file] = true
	}
	return q
}

// c17RenamePkg respells package from as to in a copied form: the argument of
// in-package and every from:name qualifier.
func c17RenamePkg(n *c17N, from, to string) {
	if n.isAtom() {
		if len(n.A) > 0 && n.A[0] != '"' && n.A[0] != ':' {
			if p, b := c17SplitQual(n.A); p == from {
				n.A = to + ":" + b
			}
		}
		return
	}
	if n.head() == "in-package" && len(n.L) == 2 && n.L[1].isAtom() {
		switch n.L[1].A {
		case from:
			n.L[1].A = to
		case strconv.Quote(from):
			n.L[1].A = strconv.Quote(to)
		}
		return
	}
	for _, x := range n.L {
		c17RenamePkg(x, from, to)
	}
}

// emitTwin starts file f with a copy of a template segment under a new package
// name and gives the generator's model the copied package, so that later code
// (also in further files) refers to its definitions like to any other.
func (g *c17Gen) emitTwin(f int, src *c17TwinSrc) string {
	src.copies++
	name := src.pkg + "-" + string(rune('a'+src.copies))
	p := src.snap.cloneAs(name, f)
	g.pkgs[name] = p
	g.pkgOrder = append(g.pkgOrder, name)
	for _, gl := range p.order {
		g.allGlobs = append(g.allGlobs, gl)
	}
	for qn := range p.used {
		if q := g.pkgs[qn]; q != nil {
			q.frozen = true
		}
	}
	for _, form := range g.files[src.file][:src.nforms] {
		c := form.clone()
		c17RenamePkg(c, src.pkg, name)
		g.emit(f, c)
	}
	g.curPkg[f] = name
	g.tag("twin-file")
	return name
}

func c17Generate(seed uint64, on map[string]bool, kwOK bool, avoid map[string]bool) *c17Session {
	root := c17NewRng(seed)
	g := &c17Gen{on: on, used: map[string]int{}, kwOK: kwOK, pkgs: map[string]*c17Pkg{}, names: map[string]bool{},
		avoid: avoid, excluded: map[string]int{}, tmplFree: map[string]string{}, siteNames: map[string]string{}}
	rs := root.fork() // structure stream
	// partition the minifier-like names between call sites and template binders
	mini := append([]string(nil), c17MiniNames...)
	pr := root.fork()
	for i := len(mini) - 1; i > 0; i-- {
		j := pr.intn(i + 1)
		mini[i], mini[j] = mini[j], mini[i]
	}
	g.miniTmpl, g.miniCall = mini[:3], mini[3:]
	sort.Strings(g.miniCall)

	nfiles := 1
	if g.has("multifile") {
		nfiles = rs.rng(2, 4)
	}
	g.files = make([][]*c17N, nfiles)
	g.curPkg = make([]string, nfiles)
	for i := range g.curPkg {
		g.curPkg[i] = "user"
	}
	g.pkg("user")
	var pkgChoices = []string{"user"}
	if g.has("packages") {
		np := rs.rng(1, 3)
		perm := append([]string(nil), c17PkgNames...)
		for i := len(perm) - 1; i > 0; i-- {
			j := rs.intn(i + 1)
			perm[i], perm[j] = perm[j], perm[i]
		}
		pkgChoices = append(pkgChoices, perm[:np]...)
	}
	depth := 2 + rs.intn(2)
	// "twin files": drawn from a stream of its own, so that sessions without a
	// twin are exactly the ones generated without this family
	tw := c17NewRng(seed ^ 0x7477696e66696c65)
	twinsOn := nfiles > 1 && g.has("packages") && tw.chance(1, 2)
	var twinSrcs []*c17TwinSrc
	twinOf := map[int]int{}
	// "site names" macro groups: drawn from a stream of their own as well
	sm := c17NewRng(seed ^ 0x736974656e616d65)
	siteOn := g.has("defmacro") && sm.chance(2, 5)
	// "a name defined more than once, referenced from elsewhere": likewise
	rd := c17NewRng(seed ^ 0x7265646566696e65)
	redefOn := nfiles > 1 && rd.chance(1, 3)
	for f := 0; f < nfiles; f++ {
		g.curFile = f
		if f > 0 && g.avoid["D10"] {
			// D10: names imported by a use-package written in an earlier file
			// are no longer referenced (they stay imported at run time)
			for _, pn := range g.pkgOrder {
				pk := g.pkgs[pn]
				for n := range pk.imports {
					pk.hidden[n] = true
					g.excluded["D10:imported-name-used-in-another-file-than-its-use-package"]++
				}
				pk.imports = map[string]*c17Glob{}
			}
		}
		if twinsOn && len(twinSrcs) > 0 && tw.chance(2, 3) {
			src := c17Pick(tw, twinSrcs)
			pkgChoices = append(pkgChoices, g.emitTwin(f, src))
			twinOf[f] = src.file
		}
		nseg := rs.rng(1, 3)
		if !g.has("packages") {
			nseg = 1
		}
		for s := 0; s < nseg; s++ {
			pn := c17Pick(rs, pkgChoices)
			ur := root.fork()
			fresh := g.pkgs[pn] == nil && len(g.files[f]) == 0
			g.inPackage(f, pn, ur)
			p := g.pkg(pn)
			nunits := ur.rng(1, 4)
			for u := 0; u < nunits; u++ {
				g.unit(f, p, depth, ur.fork())
			}
			if fresh && twinsOn {
				// the segment that introduced package pn opens this file: a template
				twinSrcs = append(twinSrcs, &c17TwinSrc{file: f, pkg: pn, nforms: len(g.files[f]), snap: p.cloneAs(pn, f)})
			}
			if siteOn && g.siteGroups < 2 && sm.chance(1, 2) {
				g.siteGroup(f, p, pkgChoices, sm.fork())
			}
			if redefOn && f > 0 && g.redefGroups < 2 && rd.chance(1, 2) {
				g.redefGroup(f, p, pkgChoices, rd.fork())
			}
		}
	}
	// final observable in the last file
	last := nfiles - 1
	fr := root.fork()
	if g.has("packages") && fr.chance(1, 2) {
		g.inPackage(last, "user", fr)
	}
	p := g.pkg(g.curPkg[last])
	env := g.topEnv(p)
	var finals []*c17N
	for i := 0; i < fr.rng(1, 3); i++ {
		finals = append(finals, g.intExpr(env, depth, fr.fork()))
	}
	finals = append(finals, c17QSym(g.dataSym(env, fr)))
	if g.has("final-error") && fr.chance(1, 3) {
		g.emit(last, c17Call("debug-print", g.label(), c17Call("list", finals...)))
		g.emit(last, c17Call("error", c17QSym(c17Pick(fr, c17CondNames)), c17Str("final failure")))
		g.tag("final-error")
	} else {
		g.emit(last, c17Call("list", finals...))
	}
	if g.has("forward-ref") {
		g.swapDefuns(root.fork())
	}
	s := &c17Session{Files: g.files, Used: g.used, KwOK: kwOK, NPkgs: len(g.pkgOrder), Excluded: g.excluded, TwinOf: twinOf, Redef: g.redefInfo}
	s.Paths = c17FlatPaths(len(g.files))
	for n := range g.names {
		s.Names = append(s.Names, n)
	}
	sort.Strings(s.Names)
	for c := range c17HazardClasses {
		if on[c] {
			s.Hazard = append(s.Hazard, c)
		}
	}
	sort.Strings(s.Hazard)
	return s
}

func (g *c17Gen) unit(file int, p *c17Pkg, d int, r *c17Rng) {
	type uc struct {
		w   int
		cls string
		f   func()
	}
	us := []uc{
		{10, "", func() { g.unitDefun(file, p, d, r) }},
		{5, "gvar", func() { g.unitGvar(file, p, d, r) }},
		{5, "defmacro", func() { g.unitDefmacro(file, p, d, r) }},
		{4, "use-package", func() {
			if !g.unitUsePackage(file, p, r) {
				g.unitDefun(file, p, d, r)
			}
		}},
		{4, "", func() {
			g.observe(file, p, g.intExpr(g.topEnv(p), d, r.fork()))
			g.tag("toplevel-expression")
		}},
		{2, "quoted-data", func() { g.unitData(file, p, r) }},
		{2, "toplevel-let-defun", func() { g.unitTopLetDefun(file, p, d, r) }},
	}
	total := 0
	for _, u := range us {
		total += u.w
	}
	k := r.intn(total)
	for _, u := range us {
		if k < u.w {
			if u.cls != "" && !g.has(u.cls) {
				g.unitDefun(file, p, d, r)
				return
			}
			u.f()
			return
		}
		k -= u.w
	}
}

// swapDefuns exchanges adjacent top-level defuns so that some references
// precede the definition they name (legal: they are only called later).
func (g *c17Gen) swapDefuns(r *c17Rng) {
	for _, f := range g.files {
		for i := 0; i+1 < len(f); i++ {
			if f[i].head() == "defun" && f[i+1].head() == "defun" && r.chance(1, 3) {
				// only when the two define different names (keeps redefinition order)
				if a, b := f[i].L[1].A, f[i+1].L[1].A; a != b && a != "max" && a != "min" && b != "max" && b != "min" {
					f[i], f[i+1] = f[i+1], f[i]
					g.tag("forward-reference")
					i++
				}
			}
		}
	}
}
