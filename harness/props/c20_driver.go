package props

// Driver-side phases of C20:
//
//  A. the real command line.  `elps run [--root-dir R]` is built from the tree
//     under test and run inside a sandbox whose files evaluate to their marker
//     string; its configuration (cmd/run.go) is judged by the same model
//     oracle as the in-process configurations.  Finding keys: cli-run:<shape>.
//
//  B. a syscall monitor.  One worker is re-run under strace over the
//     RelativeFileSystemLibrary configurations with an absolute RootDir; every
//     load is bracketed by two sentinel opens, and no file the model places
//     outside the root may be opened successfully inside a bracket ("no part
//     of the outside file is read").  Finding key: relfs:opened-outside-file.

import (
	"context"
	"encoding/json"
	"fmt"
	"os"
	"os/exec"
	"path/filepath"
	"regexp"
	"sort"
	"strconv"
	"strings"
	"sync"
	"time"

	"github.com/luthersystems/elps/lisp"

	"verifharness/c20x/fsmodel"
	"verifharness/c20x/sandbox"
	"verifharness/fw"
)

func c20Driver(d *fw.D) {
	c20NearFloor(d)
	t0 := time.Now()
	c20DriverCLI(d)
	d.Max("info_cli_phase_ms", time.Since(t0).Milliseconds()) // informational only
	t1 := time.Now()
	c20DriverStrace(d)
	d.Max("info_strace_phase_ms", time.Since(t1).Milliseconds())
}

// c20DriverViolation appends directly: fw's Rec.violate drops driver-phase
// violations once the merged worker records already hold 200 entries.
func c20DriverViolation(d *fw.D) func(key, summary, detail string) {
	return func(key, summary, detail string) {
		d.Violations = append(d.Violations, fw.Violation{Key: key, Summary: summary, Detail: detail, Idx: -1, Phase: "driver"})
	}
}

// ---------------------------------------------------------------------------
// A. the real CLI

func c20BuildCLI(d *fw.D) (string, error) {
	// a name of its own per run: concurrent runs sharing a build directory must not rewrite a binary that is executing
	out := filepath.Join(d.Build, fmt.Sprintf("elps-c20-%d", os.Getpid()))
	mod := filepath.Join(d.Build, "elps-c20.mod")
	for _, f := range [][2]string{{"go.mod", mod}, {"go.sum", filepath.Join(d.Build, "elps-c20.sum")}} {
		b, err := os.ReadFile(filepath.Join(d.Repo, f[0]))
		if err != nil {
			return "", err
		}
		if err := os.WriteFile(f[1], b, 0o644); err != nil {
			return "", err
		}
	}
	ctx, cancel := context.WithTimeout(context.Background(), 10*time.Minute)
	defer cancel()
	cmd := exec.CommandContext(ctx, "go", "build", "-modfile="+mod, "-o", out, ".")
	cmd.Dir = d.Repo
	cmd.Env = append(os.Environ(), "GOFLAGS=-mod=mod", "GOPROXY=off")
	if b, err := cmd.CombinedOutput(); err != nil {
		return "", fmt.Errorf("go build of the elps command failed: %v\n%s", err, b)
	}
	return out, nil
}

var c20TokRe = regexp.MustCompile(`"[^"]*"|\(\)`)

func c20DriverCLI(d *fw.D) {
	bin, err := c20BuildCLI(d)
	if err != nil {
		d.Inconclusive("C20 CLI phase: " + err.Error())
		return
	}
	defer os.Remove(bin)
	base, err := c20Base()
	if err != nil {
		d.Inconclusive("C20 CLI phase: " + err.Error())
		return
	}
	defer os.RemoveAll(base)
	variant := int(d.Seed % 2) // root=root with cwd=base or cwd=root
	l := sandbox.BuildPlain(base, variant)
	if err := l.Tree.Materialize(); err != nil {
		d.Inconclusive("C20 CLI phase: " + err.Error())
		return
	}
	rootAbs := l.Root.Path()
	st := &c20State{reported: map[string]int{}}
	ck := &c20Checker{rec: d.Rec, st: st, l: l, violate: c20DriverViolation(d)}

	// locations: every plain/decorated skeleton of <= 2 components, thinned by hash to the budget
	all := sandbox.Locations(l, 2, d.RNG(0, "cli-locs"), 200)
	budget := 600
	if d.Tier == "thorough" {
		budget = 4000
	}
	var locs []string
	for _, loc := range all {
		if strings.ContainsAny(loc, "\"\\") {
			continue
		}
		locs = append(locs, loc)
	}
	if len(locs) > budget {
		sort.Slice(locs, func(i, j int) bool { return fw.HashString(locs[i]) < fw.HashString(locs[j]) })
		// keep short relative spellings (the canonical escapes) and fill up by hash order
		var keep, rest []string
		for _, loc := range locs {
			if !strings.HasPrefix(loc, "/") && strings.Count(loc, "/") <= 1 && !strings.Contains(loc, "//") {
				keep = append(keep, loc)
			} else {
				rest = append(rest, loc)
			}
		}
		if len(keep) > budget {
			keep = keep[:budget]
		}
		locs = append(keep, rest[:budget-len(keep)]...)
		sort.Strings(locs)
	}

	type cfg struct {
		label   string
		args    []string // before the expressions/files
		dir     string   // working directory of the process
		fsRoot  string
		nestDir string // sandbox-relative directory of the nested loader ("" = expressions at top level)
		// pre: the nested loader loads every location as the LAST element of a
		// sequence handed to map with load-file as the callback, after this
		// location (relative to nestDir, a file of another directory)
		pre string
		// str: the nested loader loads every location from string-sourced code,
		// (load-string "(load-file \"LOCATION\")" :name "LABEL") with a stream
		// name drawn from the layout's label pool, and once more under the
		// control name
		str bool
	}
	// stream names of the string-sourced loads, drawn per location
	type strName struct{ class, text string }
	strNames := map[string]strName{}
	{
		r := d.RNG(0, "cli-strlabels")
		for _, loc := range locs {
			for {
				class, text := l.StrLabel(r)
				if !strings.ContainsAny(text, "\"\\") {
					strNames[loc] = strName{class, text}
					break
				}
			}
		}
	}
	sub := l.RootRel + "/sub"
	cfgs := []cfg{
		{"--root-dir=abs,-e", []string{"run", "--root-dir", rootAbs, "-p", "-e"}, base, rootAbs, "", "", false},
		{"--root-dir=abs,file-in-sub", []string{"run", "--root-dir", rootAbs, "-p"}, base, rootAbs, sub, "", false},
		{"default-root=cwd,-e", []string{"run", "-p", "-e"}, rootAbs, rootAbs, "", "", false},
		{"--root-dir=symlink,-e", []string{"run", "--root-dir", l.FSRoots[len(l.FSRoots)-1].Path, "-p", "-e"}, base, l.FSRoots[len(l.FSRoots)-1].Path, "", "", false},
		{"--root-dir=relative,file-in-root", []string{"run", "--root-dir", l.RootRel, "-p"}, base, rootAbs, l.RootRel, "", false},
		{"--root-dir=abs,seq-file-in-sub", []string{"run", "--root-dir", rootAbs, "-p"}, base, rootAbs, sub, "deep/c.lisp", false},
		{"default-root=cwd,seq-file-in-root", []string{"run", "-p"}, rootAbs, rootAbs, l.RootRel, "sub/b.lisp", false},
		{"--root-dir=abs,string-in-file-in-sub", []string{"run", "--root-dir", rootAbs, "-p"}, base, rootAbs, sub, "", true},
	}
	run := func(c cfg, args []string) (string, string, error) {
		ctx, cancel := context.WithTimeout(context.Background(), 2*time.Minute)
		defer cancel()
		cmd := exec.CommandContext(ctx, bin, append(append([]string{}, c.args...), args...)...)
		cmd.Dir = c.dir
		var so, se strings.Builder
		cmd.Stdout, cmd.Stderr = &so, &se
		err := cmd.Run()
		return so.String(), se.String(), err
	}
	var mu sync.Mutex
	judge := func(c cfg, ld *sandbox.Loader, loc, tok, entry string) {
		mu.Lock()
		defer mu.Unlock()
		ck.keySuffix = ""
		if c.pre != "" {
			ck.keySuffix = "@seq:map-list"
		}
		if c.str {
			sn := strNames[loc]
			ck.keySuffix = "@str:" + sn.class
			ck.strBy, ck.strLabel, ck.strClass = "load-string", sn.text, sn.class
		}
		lb := &c20Lib{kind: "cli-run", family: "cli-run", spec: c.label, label: "elps " + strings.Join(c.args, " "), isFS: true, fsRoot: c.fsRoot,
			lib: &lisp.FSLibrary{}}
		ex := c20Oracle(l, lb, ld, loc)
		ex.mustServe = nil
		d.Eval(1)
		d.Count("cli_loads", 1)
		if tok == "()" {
			ck.cover(lb, ld, entry, loc, ex, "refused")
			return
		}
		m := strings.Trim(tok, `"`)
		served := l.Tree.ByMarker[m]
		ok := ck.judgeServed(lb, ld, entry, loc, ex, served, "printed the value of")
		out := "served-in"
		if !ok {
			out = "served-OUT"
		}
		ck.cover(lb, ld, entry, loc, ex, out)
	}
	var wg sync.WaitGroup
	sem := make(chan struct{}, 8)
	const batch = 150
	for ci, c := range cfgs {
		for off := 0; off < len(locs); off += batch {
			part := locs[off:min(off+batch, len(locs))]
			wg.Add(1)
			sem <- struct{}{}
			go func(ci int, c cfg, part []string, off int) {
				defer wg.Done()
				defer func() { <-sem }()
				var toks []string
				var ld *sandbox.Loader
				entry := "elps-run -e (load-file)"
				if c.nestDir == "" {
					var exprs []string
					for _, loc := range part {
						exprs = append(exprs, `(ignore-errors (load-file "`+loc+`"))`)
					}
					so, se, err := run(c, exprs)
					if err != nil {
						d.Inconclusive(fmt.Sprintf("C20 CLI phase: %s failed: %v\n%s", c.label, err, se))
						return
					}
					for _, line := range strings.Split(strings.TrimSpace(so), "\n") {
						toks = append(toks, strings.TrimSpace(line))
					}
				} else {
					// a file inside the root doing the nested loads
					name := fmt.Sprintf("cli_nested_%d_%d.lisp", ci, off)
					var sb strings.Builder
					sb.WriteString("(list")
					for _, loc := range part {
						if c.pre != "" {
							sb.WriteString(` (ignore-errors (nth (map 'list load-file '("` + c.pre + `" "` + loc + `")) 1))`)
							continue
						}
						if c.str {
							for _, name := range []string{strNames[loc].text, sandbox.StrControlLabel} {
								if name == "" {
									sb.WriteString(` (ignore-errors (load-string "(load-file \"` + loc + `\")"))`)
									continue
								}
								sb.WriteString(` (ignore-errors (load-string "(load-file \"` + loc + `\")" :name "` + name + `"))`)
							}
							continue
						}
						sb.WriteString(` (ignore-errors (load-file "` + loc + `"))`)
					}
					sb.WriteString(")\n")
					p := filepath.Join(base, c.nestDir, name)
					if err := os.WriteFile(p, []byte(sb.String()), 0o644); err != nil {
						d.Inconclusive("C20 CLI phase: " + err.Error())
						return
					}
					so, se, err := run(c, []string{p})
					if err != nil {
						d.Inconclusive(fmt.Sprintf("C20 CLI phase: %s failed: %v\n%s", c.label, err, se))
						return
					}
					toks = c20TokRe.FindAllString(so, -1)
					ld = &sandbox.Loader{Label: "cli-file-in-" + filepath.Base(c.nestDir), Spelled: c.nestDir + "/" + name, CtxDirs: []string{c.nestDir}}
					entry = "elps-run file + nested (load-file)"
					if c.str {
						// string-sourced code has no loading file: the oracle reads the
						// location like a top-level one (c20StrDirect)
						ld.Label = "cli-str-file-in-" + filepath.Base(c.nestDir)
						ld.StrShape = "load-string"
						entry = "elps-run file + (load-string \"(load-file LOCATION)\" :name LABEL)"
						d.Count("cli_loads_from_string", int64(len(part)))
						// every location was loaded twice: under the drawn name and under the control name
						if len(toks) == 2*len(part) {
							var first []string
							for i, loc := range part {
								first = append(first, toks[2*i])
								if toks[2*i] != toks[2*i+1] {
									sn := strNames[loc]
									mu.Lock()
									ck.keySuffix = "@str:" + sn.class
									ck.report("cli-run:result-depends-on-stream-name", fmt.Sprintf("elps %s: a file in %s evaluates (load-string \"(load-file \\\"%s\\\")\" :name NAME): with the stream name %q (%s) the value is %s, with the stream name %q it is %s", strings.Join(c.args, " "), c.nestDir, loc, sn.text, sn.class, toks[2*i], sandbox.StrControlLabel, toks[2*i+1]),
										func() string { return "file: " + p + "\n" })
									ck.keySuffix = ""
									mu.Unlock()
								}
							}
							toks = first
						}
					}
					if c.pre != "" {
						ld.Label = "cli-seq-file-in-" + filepath.Base(c.nestDir)
						entry = "elps-run file + nested (map 'list load-file '(" + c.pre + " LOCATION))"
						d.Count("cli_loads_in_sequence", int64(len(part)))
					}
				}
				if len(toks) != len(part) {
					d.Inconclusive(fmt.Sprintf("C20 CLI phase: %s printed %d values for %d loads", c.label, len(toks), len(part)))
					return
				}
				for i, loc := range part {
					judge(c, ld, loc, toks[i], entry)
				}
			}(ci, c, part, off)
		}
	}
	wg.Wait()

	// the file argument itself: every entry directly in the root that is a link
	for _, name := range l.Root.SortedKids() {
		n := l.Root.Kids[name]
		if n.Kind != fsmodel.Link {
			continue
		}
		c := cfgs[1]
		c.label = "--root-dir=abs,file-argument"
		so, _, _ := run(c, []string{filepath.Join(rootAbs, name)})
		tok := strings.TrimSpace(so)
		if !strings.HasPrefix(tok, `"`) || strings.Contains(tok, "\n") {
			tok = "()"
		}
		judge(c, nil, name, tok, "elps-run file argument")
	}
}

// ---------------------------------------------------------------------------
// B. strace monitor

type c20StraceLoad struct {
	Seq     int    `json:"seq"`
	Lib     string `json:"lib"`
	Ctx     string `json:"ctx"`
	Loc     string `json:"loc"`
	Refused bool   `json:"refused"`
	// TopRoot: the configuration's root is the top of the file system
	// (RootDir "/"): no file is outside it
	TopRoot bool `json:"top_root,omitempty"`
}

type c20StraceCase struct {
	Base      string          `json:"base"`
	LayoutIdx int             `json:"layout_idx"`
	Loads     []c20StraceLoad `json:"loads"`
}

var c20StraceLayouts = []int{0, 2, 3, 5}

// c20StraceNear are the near layouts of the traced worker (its last cases).
var c20StraceNear = []int{c20NearLayoutBase + 1, c20NearLayoutBase + 2, c20NearLayoutBase}

func c20StraceCases(tier string) int {
	if tier == "thorough" {
		return 4 + 3
	}
	return 2 + 1
}

// c20StraceLayout is the layout of case idx of the traced worker.
func c20StraceLayout(tier string, idx int) int {
	n := 2
	if tier == "thorough" {
		n = 4
	}
	if idx >= n {
		return c20StraceNear[(idx-n)%len(c20StraceNear)]
	}
	return c20StraceLayouts[idx%len(c20StraceLayouts)]
}

// c20StraceUnquote undoes strace's C-style quoting of a path (non-ASCII bytes
// are printed as octal escapes).
func c20StraceUnquote(s string) string {
	if !strings.Contains(s, `\`) {
		return s
	}
	var b []byte
	for i := 0; i < len(s); i++ {
		c := s[i]
		if c != '\\' || i+1 == len(s) {
			b = append(b, c)
			continue
		}
		i++
		switch e := s[i]; {
		case e >= '0' && e <= '7':
			v := 0
			n := 0
			for n < 3 && i < len(s) && s[i] >= '0' && s[i] <= '7' {
				v = v*8 + int(s[i]-'0')
				i++
				n++
			}
			i--
			b = append(b, byte(v))
		case e == 'x' && i+2 < len(s):
			v, err := strconv.ParseUint(s[i+1:i+3], 16, 8)
			if err != nil {
				b = append(b, '\\', e)
				continue
			}
			b = append(b, byte(v))
			i += 2
		case e == 'n':
			b = append(b, '\n')
		case e == 't':
			b = append(b, '\t')
		case e == 'r':
			b = append(b, '\r')
		case e == 'v':
			b = append(b, '\v')
		case e == 'f':
			b = append(b, '\f')
		default: // \\ and \"
			b = append(b, e)
		}
	}
	return string(b)
}

// c20StraceRun is the worker side: it is what Run does when C20_STRACE_SIDE is set.
func c20StraceRun(w *fw.W, idx int, side string) {
	tp := c20TierOf(w.Tier)
	layoutIdx := c20StraceLayout(w.Tier, idx)
	sb, done, err := c20Open(w.RNG(layoutIdx, "layout"), w.RNG(layoutIdx, "locs"), layoutIdx, tp)
	if err == errC20NearNotApplicable {
		return
	}
	if err != nil {
		w.Inconclusive("sandbox setup failed: " + err.Error())
		return
	}
	defer done()
	l := sb.l
	cs := c20StraceCase{Base: l.Tree.BasePath, LayoutIdx: layoutIdx}
	seq := 0
	stride := tp.chunks
	if l.Near {
		stride = tp.nearChunks
	}
	for i := 0; i < len(sb.locs); i += stride {
		loc := sb.locs[i]
		for _, lb := range sb.libs {
			if lb.kind != "relfs" || lb.relRoot {
				continue
			}
			for ci := -1; ci < len(l.Loaders); ci++ {
				var ld *sandbox.Loader
				if ci >= 0 {
					ld = &l.Loaders[ci]
				}
				ck := &c20Checker{rec: w.Rec, l: l}
				ctxLoc := ck.ctxLocation(lb, ld)
				seq++
				os.Open(fmt.Sprintf("%s/.c20-begin-%d", l.Tree.BasePath, seq))
				_, _, _, err := lb.lib.LoadSource(lisp.NewSourceContext("c20ctx", ctxLoc), loc)
				os.Open(fmt.Sprintf("%s/.c20-end-%d", l.Tree.BasePath, seq))
				cs.Loads = append(cs.Loads, c20StraceLoad{Seq: seq, Lib: lb.label, Ctx: c20CtxLabel(ld), Loc: loc, Refused: err != nil, TopRoot: lb.topRoot})
			}
		}
	}
	b, _ := json.Marshal(cs)
	f, err := os.OpenFile(side, os.O_APPEND|os.O_CREATE|os.O_WRONLY, 0o644)
	if err == nil {
		f.Write(append(b, '\n'))
		f.Close()
	}
}

var (
	c20OpenRe    = regexp.MustCompile(`^(\d+)\s+(?:openat\(AT_FDCWD, |open\()"((?:[^"\\]|\\.)*)"[^)]*\)\s+=\s+(-?\d+)`)
	c20UnfinRe   = regexp.MustCompile(`^(\d+)\s+(?:openat\(AT_FDCWD, |open\()"((?:[^"\\]|\\.)*)".*<unfinished \.\.\.>`)
	c20ResumedRe = regexp.MustCompile(`^(\d+)\s+<\.\.\. (?:openat|open) resumed>.*\)\s+=\s+(-?\d+)`)
	c20SentRe    = regexp.MustCompile(`/\.c20-(begin|end)-(\d+)$`)
)

func c20DriverStrace(d *fw.D) {
	if _, err := exec.LookPath("strace"); err != nil {
		d.Count("strace_phase_skipped_no_strace", 1)
		return
	}
	tmp, err := os.MkdirTemp("", "c20strace-")
	if err != nil {
		d.Inconclusive("C20 strace phase: " + err.Error())
		return
	}
	defer os.RemoveAll(tmp)
	side := filepath.Join(tmp, "side.jsonl")
	log := filepath.Join(tmp, "strace.log")
	ctx, cancel := context.WithTimeout(context.Background(), 20*time.Minute)
	defer cancel()
	cmd := exec.CommandContext(ctx, "strace", "-f", "--seccomp-bpf", "-e", "trace=openat,open", "-o", log,
		filepath.Join(d.Build, "vcheck"), "C20", "--tier", d.Tier, "--worker", "0/1", "--out", filepath.Join(tmp, "w.json"))
	cmd.Env = append(os.Environ(), fmt.Sprintf("VERIF_SEED=%d", d.Seed), "C20_STRACE_SIDE="+side)
	if out, err := cmd.CombinedOutput(); err != nil {
		// ptrace may be forbidden in some sandboxes: the in-process phases stand on their own
		d.Count("strace_phase_failed", 1)
		d.SetAdd("strace_phase_error", strings.TrimSpace(fmt.Sprint(err, " ", string(out))))
		d.Inconclusive("C20 strace phase could not run: " + err.Error())
		return
	}
	cases := map[string]*c20StraceCase{}
	for _, line := range fw.ReadLines(side) {
		var cs c20StraceCase
		if json.Unmarshal([]byte(line), &cs) == nil && cs.Base != "" {
			c := cs
			cases[cs.Base] = &c
		}
	}
	if len(cases) == 0 {
		d.Inconclusive("C20 strace phase: the traced worker recorded no case")
		return
	}
	type model struct {
		l     *sandbox.Layout
		loads map[int]c20StraceLoad
	}
	models := map[string]*model{}
	for base, cs := range cases {
		m := &model{l: sandbox.Build(base, c20Variant(cs.LayoutIdx), d.RNG(cs.LayoutIdx, "layout")), loads: map[int]c20StraceLoad{}}
		for _, ld := range cs.Loads {
			m.loads[ld.Seq] = ld
		}
		models[base] = m
	}
	pending := map[string]string{}
	var cur *model
	curSeq := 0
	reported, reportedNear := 0, 0
	handle := func(path string, ret int) {
		path = c20StraceUnquote(path)
		if sm := c20SentRe.FindStringSubmatch(path); sm != nil {
			base := path[:len(path)-len(sm[0])]
			n, _ := strconv.Atoi(sm[2])
			if sm[1] == "begin" {
				cur, curSeq = models[base], n
				d.Count("strace_brackets", 1)
			} else {
				cur, curSeq = nil, 0
			}
			return
		}
		if cur == nil || ret < 0 {
			return
		}
		d.Count("strace_opens_in_brackets", 1)
		nearOpened := ""
		l := cur.l
		res := l.Tree.Resolve(l.Cwd, path, false)
		ld := cur.loads[curSeq]
		outside := false
		switch {
		case res.Err == fsmodel.OK && res.Node.Kind == fsmodel.File:
			outside = !res.Node.Under(l.Root)
			if outside && l.Near {
				if cls, pos := c20NearOutside(l.Root, res.Node); cls != "" {
					nearOpened = ":near-equal-name-outside:" + cls + ":" + pos
				}
			}
			if !outside {
				d.Count("strace_inside_opens", 1)
				d.CoverKey("strace|" + ld.Lib + "|" + ld.Ctx + "|opened-inside")
			}
		case path == "/etc/hostname" || path == "/etc/passwd":
			outside = true
		default:
			d.Count("strace_other_opens", 1)
		}
		if l.Near {
			d.Count("strace_opens_in_brackets_near_layouts", 1)
		}
		if outside && ld.TopRoot {
			// judged against the CONFIGURATION's root: with RootDir "/" the sandbox's
			// root directory is just another directory inside the root (false alarm of
			// the first run after /repo's RootDir "/" repair: the strace phase compared
			// with the sandbox root, which no RootDir "/" load could reach while every
			// such load was refused)
			d.Count("strace_opens_inside_a_top_of_file_system_root", 1)
			outside = false
		}
		if outside {
			d.Count("violation:relfs:opened-outside-file"+nearOpened, 1)
			if reported < 5 || (nearOpened != "" && reportedNear < 5) {
				reported++
				if nearOpened != "" {
					reportedNear++
				}
				c20DriverViolation(d)("relfs:opened-outside-file"+nearOpened, fmt.Sprintf("%s opened %s (outside root %s) while loading location %q in context %s (refused=%v)", ld.Lib, path, l.Root.Path(), ld.Loc, ld.Ctx, ld.Refused),
					fmt.Sprintf("layout %s\nstrace: successful open of %q between the sentinels of load #%d\n", l.Name, path, curSeq))
			}
		}
	}
	for _, line := range fw.ReadLines(log) {
		if m := c20OpenRe.FindStringSubmatch(line); m != nil {
			ret, _ := strconv.Atoi(m[3])
			handle(m[2], ret)
			continue
		}
		if m := c20UnfinRe.FindStringSubmatch(line); m != nil {
			pending[m[1]] = m[2]
			continue
		}
		if m := c20ResumedRe.FindStringSubmatch(line); m != nil {
			if p, ok := pending[m[1]]; ok {
				delete(pending, m[1])
				ret, _ := strconv.Atoi(m[2])
				handle(p, ret)
			}
		}
	}
	nload := 0
	for _, cs := range cases {
		nload += len(cs.Loads)
	}
	d.Eval(nload)
	d.Count("strace_loads", int64(nload))
	if got := d.Counters["strace_brackets"]; got != int64(nload) {
		d.Inconclusive(fmt.Sprintf("C20 strace phase: %d loads recorded but %d sentinel brackets seen in the log", nload, got))
	}
}
