package props

// C15 (continued): driver phase.  A sample of stamps, near misses, pairs and
// durations is run through the real builtins in the driver process, logged as
// JSON lines together with the Go oracle's conclusions, and re-judged offline
// by py/c15_time_oracle.py (datetime / fractions / re — nothing shared with
// c15x).  The python oracle reports (a) the real code disagreeing with it and
// (b) the Go oracle disagreeing with it; (b) is a harness defect and is
// reported as such rather than hidden.

import (
	"bufio"
	"encoding/hex"
	"encoding/json"
	"fmt"
	"math"
	"math/big"
	"os"
	"os/exec"
	"path/filepath"
	"strings"

	"github.com/luthersystems/elps/lisp"

	"verifharness/c15x"
	"verifharness/fw"
	"verifharness/rt"
)

func c15FloatHex(f float64) string {
	var b [8]byte
	u := math.Float64bits(f)
	for i := 0; i < 8; i++ {
		b[i] = byte(u >> (56 - 8*uint(i)))
	}
	return hex.EncodeToString(b[:])
}

func c15Driver(d *fw.D) {
	script := filepath.Join(d.Home, "py", "c15_time_oracle.py")
	py, err := exec.LookPath("python3")
	if err != nil {
		d.SetAdd("py_oracle", "skipped: python3 not found")
		return
	}
	if _, err := os.Stat(script); err != nil {
		d.SetAdd("py_oracle", "skipped: "+script+" not found")
		return
	}
	n := 1500
	if d.Tier == "thorough" {
		n = 40_000
	}
	tmp, err := os.CreateTemp("", "c15-pylog-*.jsonl")
	if err != nil {
		d.SetAdd("py_oracle", "skipped: "+err.Error())
		return
	}
	defer os.Remove(tmp.Name())
	bw := bufio.NewWriter(tmp)
	enc := json.NewEncoder(bw)
	r := rt.New(rt.Opts{NoProbes: true})
	ev := func(src string) *lisp.LVal {
		d.Eval(1)
		v := r.Load("c15-py", src)
		if v == nil {
			return lisp.Nil()
		}
		return v
	}
	id := 0
	inputs := map[int]string{}
	logStamp := func(text, mut string) {
		id++
		p := c15x.ParseStrict(text)
		rec := map[string]any{"k": "stamp", "id": id, "in": text, "mut": mut, "go_class": p.Class.String()}
		inputs[id] = text
		if p.Class != c15x.Malformed {
			rec["go_inst"] = p.Stamp.Instant().String()
		}
		acc := map[string]bool{}
		for _, parser := range c15Parsers {
			v := ev(fmt.Sprintf("(set 'c15-t (time:%s %s))", parser, c15Q(text)))
			acc[parser] = !c15IsErr(v)
		}
		rec["acc"] = acc
		if acc["parse-rfc3339-nano"] {
			if v := ev("(time:format-rfc3339-nano c15-t)"); v.Type == lisp.LString {
				rec["fmt_nano"] = v.Str
			}
			if v := ev("(time:format-rfc3339 c15-t)"); v.Type == lisp.LString {
				rec["fmt_sec"] = v.Str
			}
		}
		enc.Encode(rec)
	}
	for i := 0; i < n; i++ {
		g := d.RNG(i, "py")
		// stamp
		s, _ := c15GenStamp(g, true)
		logStamp(s.Render(), "")
		// near miss
		m := c15Muts[g.Intn(len(c15Muts))]
		base, _ := c15GenStamp(g, false)
		logStamp(m.apply(g, base), m.name)
		// pair
		if i%3 == 0 {
			bs, _ := c15GenStamp(g, false)
			a := c15Inst{text: bs.Render(), st: bs, inst: bs.Instant()}
			b := c15Derive(g, a)
			va := ev(fmt.Sprintf("(set 'c15-a (time:parse-rfc3339-nano %s))", c15Q(a.text)))
			vb := ev(fmt.Sprintf("(set 'c15-b (time:parse-rfc3339-nano %s))", c15Q(b.text)))
			if !c15IsErr(va) && !c15IsErr(vb) {
				v := ev("(list (time:time= c15-a c15-b) (time:time< c15-a c15-b) (time:time> c15-a c15-b) (time:duration-ns (time:time-from c15-a c15-b)))")
				if !c15IsErr(v) && v.Len() == 4 && v.Cells[3].Type == lisp.LInt {
					id++
					inputs[id] = a.text + " | " + b.text
					eq, _ := c15True(v.Cells[0])
					lt, _ := c15True(v.Cells[1])
					gt, _ := c15True(v.Cells[2])
					enc.Encode(map[string]any{"k": "pair", "id": id, "a": a.text, "b": b.text, "eq": eq, "lt": lt, "gt": gt,
						"from": int64(v.Cells[3].Int), "go_diff": new(big.Int).Sub(b.inst, a.inst).String()})
				}
			}
		}
		// duration
		if i%3 == 1 {
			text, _ := c15GenDurString(g)
			p := c15x.ParseDurationExact(text)
			id++
			inputs[id] = text
			rec := map[string]any{"k": "dur", "id": id, "in": text, "go_form": int(p.Form)}
			if p.Form != c15x.DurInvalid {
				rec["go_lo"], rec["go_hi"] = p.Lo.String(), p.Hi.String()
			}
			v := ev(fmt.Sprintf("(set 'c15-d (time:parse-duration %s))", c15Q(text)))
			rec["acc"] = !c15IsErr(v)
			if !c15IsErr(v) {
				g := ev("(list (time:duration-ns c15-d) (time:duration-ms c15-d) (time:duration-s c15-d))")
				if !c15IsErr(g) && g.Len() == 3 && g.Cells[0].Type == lisp.LInt && g.Cells[1].Type == lisp.LFloat && g.Cells[2].Type == lisp.LFloat {
					rec["ns"], rec["ms"], rec["s"] = int64(g.Cells[0].Int), c15FloatHex(g.Cells[1].Float), c15FloatHex(g.Cells[2].Float)
					// each component on its own, so that the python oracle can name the cause like the Go one does
					var comps []map[string]any
					for _, comp := range c15x.DurComponents(text) {
						if cv := ev(fmt.Sprintf("(time:duration-ns (time:parse-duration %s))", c15Q(comp))); cv.Type == lisp.LInt {
							comps = append(comps, map[string]any{"in": comp, "ns": int64(cv.Int)})
						}
					}
					rec["comps"] = comps
				} else {
					rec["acc"] = false
				}
			}
			enc.Encode(rec)
		}
	}
	bw.Flush()
	tmp.Close()
	out, err := exec.Command(py, script, tmp.Name()).Output()
	if err != nil {
		msg := err.Error()
		if ee, ok := err.(*exec.ExitError); ok {
			msg += ": " + string(ee.Stderr)
		}
		d.Violation("harness-py-oracle-failed", "py/c15_time_oracle.py failed: "+strings.SplitN(msg, "\n", 2)[0], msg)
		return
	}
	done := false
	perKey := map[string]int{}
	for _, line := range strings.Split(strings.TrimSpace(string(out)), "\n") {
		var rec struct {
			ID      int            `json:"id"`
			Key     string         `json:"key"`
			Summary string         `json:"summary"`
			Done    bool           `json:"done"`
			Checked int            `json:"checked"`
			Stats   map[string]int `json:"stats"`
		}
		if json.Unmarshal([]byte(line), &rec) != nil {
			continue
		}
		if rec.Done {
			done = true
			d.Count("py_oracle_records_checked", int64(rec.Checked))
			for k, v := range rec.Stats {
				d.Count("py_oracle_"+k, int64(v))
			}
			continue
		}
		perKey[rec.Key]++
		d.Count("py-finding:"+rec.Key, 1)
		if perKey[rec.Key] <= 3 {
			d.Violation(rec.Key, "[python oracle] "+rec.Summary, fmt.Sprintf("input: %q\n%s", inputs[rec.ID], rec.Summary))
		}
	}
	if !done {
		d.Violation("harness-py-oracle-failed", "py/c15_time_oracle.py did not finish", string(out))
		return
	}
	d.SetAdd("py_oracle", "ran: "+script)
}
