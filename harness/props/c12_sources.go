package props

// C12 parts (b) and (c): source-text generators and the re-layout transform.

import (
	"os"
	"path/filepath"
	"sort"
	"strconv"
	"strings"

	"verifharness/fw"

	"github.com/luthersystems/elps/parser/token"
)

// ---------------------------------------------------------------------------
// corpus: the repository's own .lisp files

type c12Corpus struct {
	names []string
	texts []string
}

func c12LoadCorpus() *c12Corpus {
	repo := os.Getenv("VERIF_REPO")
	if repo == "" {
		repo = "/repo"
	}
	c := &c12Corpus{}
	var paths []string
	filepath.WalkDir(repo, func(p string, d os.DirEntry, err error) error {
		if err != nil {
			return nil
		}
		if d.IsDir() {
			if n := d.Name(); n == ".git" || n == "node_modules" {
				return filepath.SkipDir
			}
			return nil
		}
		if strings.HasSuffix(p, ".lisp") {
			paths = append(paths, p)
		}
		return nil
	})
	sort.Strings(paths)
	for _, p := range paths {
		b, err := os.ReadFile(p)
		if err != nil || len(b) == 0 || len(b) > 64<<10 {
			continue
		}
		rel, _ := filepath.Rel(repo, p)
		c.names = append(c.names, rel)
		c.texts = append(c.texts, string(b))
	}
	return c
}

// ---------------------------------------------------------------------------
// generators of source texts

var c12SoupFrags = []string{
	"(", ")", "[", "]", "(", ")", "'", "''", "#'", "#^", "#o", "#x", "#!", "#", "#z", "#O17", "#XfF", "#o777", "#xFF", "#o8", "#xg", "#o-1",
	"-", "--", "+", "-5", "- 5", "-a", "-'a", "-(", "-)", "-]", "-\"s\"", "-;c\n", "-#o7",
	"0", "1", "42", "007", "9223372036854775807", "9223372036854775808", "-9223372036854775808", "-9223372036854775809",
	".", "e", "E", "e+5", "1e5", "1E5", "1e+5", "1e-5", "1.5", "1.", "1e", "1e+", "1.e5", "1.5e", "-0.0", "0.0", "1e400", "1e-400", "1.5.5", "1e5e5", "1abc", "1+", "0x10",
	"foo", "bar", "a:b", ":k", "a:", ":", "::", "a:1", "a:+1", "a:b:c", ":1", "lisp:function", "quote", "true", "false", "é", "λx", "中", "a.b", "a-b", "%1", "&rest",
	"\"a\"", "\"\"", "\"\\n\"", "\"\\q\"", "\"unterminated", "\"a\\\\\"", "\"a\\\"\"", "\"\\\"", "\"\\x41\"", "\"\\u00e9\"", "\"\\xzz\"", "\"a\nb\"", "\"é😀\"", "\"\\\\\\\\\"",
	"\"\"\"raw\"\"\"", "\"\"\"\"\"\"", "\"\"\"un", "\"\"\"a\nb\"\"\"", "\"\"\"a\"b\"\"\"", "\"\"\"\"", "\"\" \"\"", "\"\"\"\"\"\"\"",
	";c\n", ";c", ";; (x\n", ";\n", ";\"\n", "; é\n",
	" ", "  ", "\n", "\t", "\r\n", "\r", "\f", "\v", "\n\n",
	"\xff", "\x00", "\xc3", "\xe4\xb8", ",", "`", "@", "{", "}", "|", "\\", "^", "\u00a0", "\u2028", "\u3000", "\ufeff",
}

const c12SyntaxBytes = "()[]'#-+.e0123456789ab:;\" \n\\x!^o"
const c12MutBytes = "()[]'\";#-\\ \n"

func c12GenRandomBytes(r *fw.RNG) string {
	n := r.Range(0, 40)
	b := make([]byte, n)
	mode := r.Intn(3)
	for i := range b {
		switch mode {
		case 0:
			b[i] = byte(r.Intn(256))
		case 1:
			b[i] = byte(r.Range(0x20, 0x7e))
		default:
			b[i] = c12SyntaxBytes[r.Intn(len(c12SyntaxBytes))]
		}
	}
	return string(b)
}

func c12GenSoup(r *fw.RNG) string {
	n := r.Range(1, 14)
	var sb strings.Builder
	sepMode := r.Intn(3) // 0: glued, 1: spaces, 2: mixed
	for i := 0; i < n; i++ {
		sb.WriteString(fw.Pick(r, c12SoupFrags))
		if sepMode == 1 || (sepMode == 2 && r.Bool()) {
			sb.WriteString(fw.Pick(r, []string{" ", " ", "\n", "\t", " ;c\n"}))
		}
	}
	return sb.String()
}

// c12GenBalancedSoup builds bracket-balanced text out of mostly well-formed
// lexemes, so that a good fraction is accepted.
var c12GoodLexemes = []string{
	"a", "foo", "bar-baz", "a:b", ":k", ":1", "-", "--", "-a", "+", "+1", ".5", "-.5", "e5", "true", "false", "é", "λx", "%1", "&rest", "a.b", "<=", "lisp:function",
	"0", "1", "-1", "42", "007", "-007", "9223372036854775807", "-9223372036854775808", "#o17", "#xFF", "#xff", "#O7", "#X0a",
	"1.5", "-1.5", "0.0", "-0.0", "1e5", "1E5", "1e+5", "1e-5", "-1e5", "1.5e3", "1.5E-3", "100000.0", "1e21", "5e-324", "1e400",
	"\"a\"", "\"\"", "\"\\n\"", "\"a\\\\\"", "\"a\\\"b\"", "\"\\x41\\u00e9\"", "\"é😀\"", "\"(;\"", "\"\"\"raw\"\"\"", "\"\"\"\"\"\"", "\"\"\"a\nb;(\"\"\"", "\"\"\"a\"b\"\"\"",
	"'a", "''a", "'()", "'(a)", "#'car", "#'a:b", "#'-", "#^x", "#^(a b)", "#^'(a)", "'#'f", "'#^x", "'5", "'\"s\"", "'-5", "'-a", "'-", "'#o7",
	"1abc", "1.5.5", "5-5", "a'b", "a\"s\"", "\"s\"a", "1\"s\"", "a;c\n", "-;c\n", "-\"s\"", "-'a", "--5", "-#o7", "'\n a", "' ;c\n a",
}

func c12GenBalanced(r *fw.RNG, depth int, sb *strings.Builder) {
	n := r.Range(0, 6)
	for i := 0; i < n; i++ {
		if depth > 0 && r.Chance(1, 3) {
			open, clos := "(", ")"
			switch r.Intn(5) {
			case 0:
				open, clos = "[", "]"
			case 1:
				open = "'("
			case 2:
				open = "'["
				clos = "]"
			}
			if r.Chance(1, 40) {
				clos = fw.Pick(r, []string{"]", ")", ""})
			}
			sb.WriteString(open)
			if r.Chance(1, 4) {
				sb.WriteString(" ")
			}
			c12GenBalanced(r, depth-1, sb)
			sb.WriteString(clos)
		} else {
			sb.WriteString(fw.Pick(r, c12GoodLexemes))
		}
		switch r.Intn(8) {
		case 0:
			// glued to the next item
		case 1:
			sb.WriteString("\n")
		case 2:
			sb.WriteString(" ; c " + strconv.Itoa(i) + "\n")
		case 3:
			sb.WriteString("\t")
		default:
			sb.WriteString(" ")
		}
	}
}

func c12GenBalancedSoup(r *fw.RNG) string {
	var sb strings.Builder
	if r.Chance(1, 12) {
		sb.WriteString(fw.Pick(r, []string{"#!/usr/bin/env elps\n", "#!", "#!\n", "#! x", " #!x\n", ";c\n#!x\n"}))
	}
	c12GenBalanced(r, r.Range(1, 5), &sb)
	return sb.String()
}

// c12Mutate applies a few byte/chunk mutations to a corpus file.
func c12Mutate(r *fw.RNG, c *c12Corpus) (string, string) {
	if len(c.texts) == 0 {
		return c12GenBalancedSoup(r), "soup-balanced"
	}
	i := r.Intn(len(c.texts))
	s := c.texts[i]
	// work on a window of the file to keep cases small and varied
	if len(s) > 4000 && r.Chance(3, 4) {
		// cut at line starts that begin a top-level form
		var starts []int
		for p := 0; p < len(s); p++ {
			if (p == 0 || s[p-1] == '\n') && s[p] == '(' {
				starts = append(starts, p)
			}
		}
		if len(starts) > 2 {
			a := r.Intn(len(starts) - 1)
			b := a + 1 + r.Intn(min(8, len(starts)-a-1))
			s = s[starts[a]:starts[b]]
		}
	}
	nm := r.Intn(4) // 0 = unmodified
	kinds := ""
	for k := 0; k < nm && len(s) > 0; k++ {
		p := r.Intn(len(s))
		switch r.Intn(9) {
		case 0:
			s = s[:p] + s[p+1:]
			kinds += "d"
		case 1:
			s = s[:p] + fw.Pick(r, c12SoupFrags) + s[p:]
			kinds += "i"
		case 2:
			s = s[:p] + string(c12MutBytes[r.Intn(len(c12MutBytes))]) + s[p+1:]
			kinds += "r"
		case 3:
			s = s[:p]
			kinds += "t"
		case 4:
			q := min(len(s), p+r.Range(1, 40))
			s = s[:p] + s[p:q] + s[p:q] + s[q:]
			kinds += "u"
		case 5:
			q := min(len(s), p+r.Range(1, 40))
			s = s[:p] + s[q:]
			kinds += "x"
		case 6:
			o := c.texts[r.Intn(len(c.texts))]
			a := r.Intn(len(o))
			b := min(len(o), a+r.Range(1, 200))
			s = s[:p] + o[a:b] + s[p:]
			kinds += "s"
		case 7:
			s = s[:p] + " ; injected (comment\n" + s[p:]
			kinds += "c"
		default:
			s = s[:p] + string(rune(r.Intn(256))) + s[p:]
			kinds += "b"
		}
	}
	if len(s) > 64<<10 {
		s = s[:64<<10]
	}
	if nm == 0 {
		return s, "corpus-window"
	}
	return s, "corpus-mutated"
}

// c12GenBig concatenates corpus files past the scanner's 128 KiB window so
// that tokens straddle window refills.
func c12GenBig(r *fw.RNG, c *c12Corpus) string {
	if len(c.texts) == 0 {
		return strings.Repeat("(a b \"c\") ; x\n", 12000)
	}
	var sb strings.Builder
	target := r.Range(132<<10, 300<<10)
	for sb.Len() < target {
		sb.WriteString(c.texts[r.Intn(len(c.texts))])
		sb.WriteString("\n")
		if r.Chance(1, 3) {
			sb.WriteString(strings.Repeat(" ", r.Intn(7)))
		}
	}
	return sb.String()
}

// --- rendered nested programs with comments -------------------------------

type c12Render struct {
	r  *fw.RNG
	sb strings.Builder
}

func (g *c12Render) gap(must bool) {
	r := g.r
	switch r.Intn(9) {
	case 0:
		if !must {
			return
		}
		g.sb.WriteString(" ")
	case 1:
		g.sb.WriteString("\n")
	case 2:
		g.sb.WriteString("\n  ")
	case 3:
		g.sb.WriteString(" ; " + fw.Pick(r, []string{"note", "(unbalanced", "\"quote", "é", "]", ";;", ""}) + "\n")
	case 4:
		g.sb.WriteString("\n;; full line\n\n")
	case 5:
		g.sb.WriteString("\t")
	default:
		g.sb.WriteString(" ")
	}
}

func (g *c12Render) atom() {
	r := g.r
	switch r.Intn(12) {
	case 0:
		g.sb.WriteString(strconv.FormatInt(int64(r.Range(-100000, 100000)), 10))
	case 1:
		g.sb.WriteString(fw.Pick(r, []string{"#o17", "#xFF", "#xdeadBEEF", "#o0", "007", "-0", "9223372036854775807", "-9223372036854775808"}))
	case 2:
		g.sb.WriteString(fw.Pick(r, []string{"1.5", "-2.25", "1e5", "1E+5", "1.5e-3", "0.5", "-0.0", "1e21", "5e-324", "123456.0", "1e400"}))
	case 3:
		s := c12GenString(r).S
		g.sb.WriteString(strconv.Quote(s[:min(20, len(s))]))
	case 4:
		g.sb.WriteString(fw.Pick(r, []string{"\"\"", "\"plain\"", "\"a\\tb\"", "\"\\\\\"", "\"q\\\"q\"", "\"\"\"raw \" ; ( \n line\"\"\"", "\"\"\"\"\"\"", "\"; not a comment\""}))
	case 5:
		g.sb.WriteString(":" + fw.Pick(r, []string{"key", "k1", "1", "-", "a-b"}))
	case 6:
		g.sb.WriteString("#'" + fw.Pick(r, []string{"car", "math:sin", "-", "+", "my-fn"}))
	case 7:
		g.sb.WriteString("#^" + fw.Pick(r, []string{"x", "(+ % 1)", "'(a)", "(f %1 %2)"}))
	default:
		v := c12GenSymbol(r, nil)
		g.sb.WriteString(strings.Repeat("'", c12GenQuoteDepth(r)%3) + v.S)
	}
}

func (g *c12Render) expr(depth int) {
	r := g.r
	if depth <= 0 || r.Chance(2, 5) {
		g.atom()
		return
	}
	open, clos := "(", ")"
	switch r.Intn(6) {
	case 0:
		open, clos = "[", "]"
	case 1:
		open = "'("
	case 2:
		open = "''("
	case 3:
		open, clos = "'[", "]"
	}
	g.sb.WriteString(open)
	n := r.Range(0, 5)
	g.gap(false)
	if n > 0 && r.Chance(1, 3) {
		g.sb.WriteString(fw.Pick(r, []string{"defun", "let", "lambda", "if", "set", "quote", "list", "+", "-", "thread-first"}))
		g.gap(true)
	}
	for i := 0; i < n; i++ {
		g.expr(depth - 1)
		// a separator is needed unless the next thing is the closing bracket
		g.gap(i < n-1)
	}
	g.sb.WriteString(clos)
}

func c12GenRendered(r *fw.RNG) string {
	g := &c12Render{r: r}
	if r.Chance(1, 10) {
		g.sb.WriteString("#!/usr/bin/env elps\n")
	}
	n := r.Range(1, 5)
	for i := 0; i < n; i++ {
		g.gap(false)
		g.expr(r.Range(1, 6))
		g.gap(true)
	}
	return g.sb.String()
}

// ---------------------------------------------------------------------------
// (c) re-layout between complete tokens

// c12GlueAfter: the gap after these tokens is never touched — the token is a
// prefix of the next expression, not a complete expression or bracket.
func c12GlueAfter(t token.Type) bool {
	switch t {
	case token.QUOTE, token.UNBOUND, token.FUN_REF, token.INT_OCTAL_MACRO, token.INT_HEX_MACRO, token.NEGATIVE, token.HASH_BANG:
		return true
	}
	return false
}

func c12IsBracket(t token.Type) bool {
	return t == token.PAREN_L || t == token.PAREN_R || t == token.BRACE_L || t == token.BRACE_R
}

type c12GapChange struct {
	index int    // gap index: gap i precedes significant token i; gap len(sig) is the tail; -1 is the hash-bang line
	text  string // new gap text (index -1: the new first line, "" = none)
	class string
	left  string
	right string
	huge  bool // holds a comment longer than the 128 KiB sliding window: source-sized scanner only
}

type c12Layout struct {
	src  string
	sig  []c12Tok // significant (non-comment) tokens after the fixed prefix
	gaps []string // gaps[i] precedes sig[i]; gaps[len(sig)] is the tail
	head string   // prefix (hash-bang line); kept byte for byte unless change -1 rewrites it
	// per re-layout: may comment bodies hold invalid UTF-8 / outgrow the sliding window
	allowInvalid, allowHuge bool
	free []bool   // gap may be changed
	need []bool   // gap must stay non-empty
}

// c12PlanLayout splits src at token boundaries.  A non-empty reason means the
// source is skipped (nothing to vary, or the plan would not be trustworthy).
func c12PlanLayout(src string) (*c12Layout, string) {
	toks, ok := c12Tokenize(src)
	if !ok {
		return nil, "token-positions-do-not-tile-source"
	}
	l := &c12Layout{src: src}
	start := 0
	// A leading hash-bang line is kept byte for byte (the rest of its line is
	// its operand, and it is only legal at the very start).
	if len(toks) > 0 && toks[0].typ == token.HASH_BANG {
		end := toks[0].end
		n := 1
		if len(toks) > 1 && toks[1].typ == token.COMMENT {
			end = toks[1].end
			n = 2
		}
		if end < len(src) && src[end] == '\n' {
			end++
		} else if end < len(src) {
			return nil, "hashbang-shape"
		}
		l.head = src[:end]
		start = end
		toks = toks[n:]
	}
	prevEnd := start
	prevType := token.Type(0)
	havePrev := false
	for _, t := range toks {
		if t.typ == token.COMMENT {
			continue
		}
		if t.typ == token.HASH_BANG {
			return nil, "hashbang-not-first" // rejected source anyway
		}
		gap := src[prevEnd:t.pos]
		l.gaps = append(l.gaps, gap)
		free := !(havePrev && c12GlueAfter(prevType))
		need := havePrev && gap != "" && !c12IsBracket(prevType) && !c12IsBracket(t.typ)
		l.free = append(l.free, free)
		l.need = append(l.need, need)
		l.sig = append(l.sig, t)
		prevEnd, prevType, havePrev = t.end, t.typ, true
	}
	l.gaps = append(l.gaps, src[prevEnd:])
	l.free = append(l.free, !(havePrev && c12GlueAfter(prevType)))
	l.need = append(l.need, false)
	if len(l.sig) == 0 {
		return nil, "no-expression-tokens"
	}
	return l, ""
}

func (l *c12Layout) tokName(i int) string {
	if i < 0 {
		return "BOF"
	}
	if i >= len(l.sig) {
		return "EOF"
	}
	return c12TokName(l.sig[i].typ)
}

// leftClass describes what stands to the left of gap i: the token type, or
// "dash-run" when the glued run of sign tokens ending there spells only dashes
// ("--", "---": NEGATIVE tokens merged with a final "-" symbol).
func (l *c12Layout) leftClass(i int) string {
	if i-1 < 0 {
		return "BOF"
	}
	if i-1 >= len(l.sig) {
		return "?"
	}
	j := i - 1
	start := l.sig[j].pos
	for j-1 >= 0 && l.sig[j-1].typ == token.NEGATIVE && l.sig[j-1].end == l.sig[j].pos {
		j--
		start = l.sig[j].pos
	}
	run := l.src[start:l.sig[i-1].end]
	if len(run) >= 2 && strings.Trim(run, "-") == "" {
		return "dash-run"
	}
	return c12TokName(l.sig[i-1].typ)
}

// glueClass describes what the new gap puts directly after the left token.
func (l *c12Layout) glueClass(c c12GapChange) string {
	switch {
	case c.index == -1:
		return "hashbang"
	case c.text == "":
		return c.right
	case strings.HasPrefix(c.text, ";"):
		return "comment"
	default:
		return "ws"
	}
}

var c12CommentBodies = []string{"", " c", "; doc", " (", " )", " [", " \"", " '", " #'", " #!", " \\", " é", " -", " 1e5", "\t", " \r", " \"\"\"", " ;; x ; y"}

// c12NewGap draws a replacement for gap i.  Half of the comments carry one of
// the tame bodies above, half a hostile one (c12HostileBody).
func (l *c12Layout) newGap(r *fw.RNG, i int) (string, string, bool) {
	old := l.gaps[i]
	tail := i == len(l.sig)
	ws := func() string {
		// every kind of white space the reader skips between tokens (unicode.IsSpace),
		// not only the ASCII ones
		return fw.Pick(r, []string{" ", " ", "  ", "\t", "\n", "\n\n", "\r\n", " \n ", "\n\t", "    ",
			"\f", "\v", "\u0085", "\u00a0", "\u1680", "\u2003", "\u2028", "\u2029", "\u202f", "\u205f", "\u3000", " \u00a0", "\f\n"})
	}
	for tries := 0; tries < 8; tries++ {
		hostile, huge := false, false
		body := func() string {
			if r.Bool() {
				return fw.Pick(r, c12CommentBodies)
			}
			hostile = true
			b, h := c12HostileBody(r, l.allowInvalid, l.allowHuge)
			huge = huge || h
			return b
		}
		comment := func() string { return ";" + body() + "\n" }
		var nw, class string
		switch r.Intn(7) {
		case 0:
			if l.need[i] {
				continue
			}
			nw = ""
			class = "to-empty"
		case 1, 2:
			nw = ws()
			class = "to-space"
			if strings.Contains(nw, "\n") {
				class = "to-newline"
			}
		case 3:
			nw = ws() + comment()
			class = "to-comment"
		case 4:
			nw = comment() + comment() + ws()
			class = "to-comments"
		case 5:
			if tail {
				// no final newline at end of input
				nw = fw.Pick(r, []string{" ;", " ;", ";", "\n;", ";c\n;"}) + body()
				class = "to-eof-comment"
			} else {
				nw = comment()
				class = "to-glued-comment"
			}
		default:
			nw = ws() + ws() + ws()
			class = "to-space"
			if strings.Contains(nw, "\n") {
				class = "to-newline"
			}
		}
		if nw == old {
			continue
		}
		if hostile {
			class += "+hostile"
		}
		from := "ws"
		switch {
		case old == "":
			from = "empty"
		case strings.Contains(old, ";"):
			from = "comment"
		}
		return nw, from + "-" + class, huge
	}
	return old, "", false
}

// c12NewHead draws a replacement for the hash-bang line: another body, or
// (rarely) no hash-bang line at all.  The grammar makes the line optional, so
// a text without one may receive one.
func (l *c12Layout) newHead(r *fw.RNG) (string, string, bool) {
	from := "nohashbang"
	if l.head != "" {
		from = "hashbang"
	}
	if l.head != "" && r.Chance(1, 8) {
		return "", from + "-to-none", false
	}
	hostile, huge := false, false
	var body string
	switch r.Intn(4) {
	case 0:
		body = fw.Pick(r, []string{"", "/usr/bin/env elps", " /usr/bin/env elps", "/bin/elps run", " x"})
	case 1:
		body = fw.Pick(r, c12CommentBodies)
	default:
		hostile = true
		body, huge = c12HostileBody(r, l.allowInvalid, l.allowHuge)
	}
	nw := "#!" + body + "\n"
	if nw == l.head {
		return l.head, "", false
	}
	class := from + "-to-hashbang"
	if hostile {
		class += "+hostile"
	}
	return nw, class, huge
}

// c12Relayout draws a set of gap changes.
func (l *c12Layout) relayout(r *fw.RNG) []c12GapChange {
	var out []c12GapChange
	mode := r.Intn(4) // 0: every gap, 1: half, 2: a few, 3: exactly one
	// invalid UTF-8 in a comment makes a rejection unjudgeable for the whole
	// re-layout, so it is confined to a tenth of them
	l.allowInvalid = r.Chance(1, 10)
	// -1: the hash-bang line.  Rewritten where there is one; added to one text in four.
	var idxs []int
	if l.head != "" || r.Chance(1, 4) {
		idxs = append(idxs, -1)
	}
	for i := range l.gaps {
		if l.free[i] {
			idxs = append(idxs, i)
		}
	}
	if len(idxs) == 0 {
		return nil
	}
	pick := func(i int) bool {
		switch mode {
		case 0:
			return true
		case 1:
			return r.Bool()
		default:
			return r.Chance(3, len(idxs)+2)
		}
	}
	if mode == 3 {
		idxs = []int{idxs[r.Intn(len(idxs))]}
	}
	for _, i := range idxs {
		if mode != 3 && !pick(i) {
			continue
		}
		if i == -1 {
			nw, class, huge := l.newHead(r)
			if class != "" {
				out = append(out, c12GapChange{index: -1, text: nw, class: class, left: "BOF", right: "BOF", huge: huge})
			}
			continue
		}
		nw, class, huge := l.newGap(r, i)
		if class == "" {
			continue
		}
		out = append(out, c12GapChange{index: i, text: nw, class: class, left: l.tokName(i - 1), right: l.tokName(i), huge: huge})
	}
	return out
}

// apply renders the source with the given gap changes.
func (l *c12Layout) apply(chs []c12GapChange) string {
	repl := map[int]string{}
	for _, c := range chs {
		repl[c.index] = c.text
	}
	var sb strings.Builder
	if nw, ok := repl[-1]; ok {
		sb.WriteString(nw)
	} else {
		sb.WriteString(l.head)
	}
	for i, t := range l.sig {
		if nw, ok := repl[i]; ok {
			sb.WriteString(nw)
		} else {
			sb.WriteString(l.gaps[i])
		}
		sb.WriteString(l.src[t.pos:t.end])
	}
	if nw, ok := repl[len(l.sig)]; ok {
		sb.WriteString(nw)
	} else {
		sb.WriteString(l.gaps[len(l.sig)])
	}
	return sb.String()
}
