package props

import (
	"fmt"
	"sort"

	"verifharness/fw"
	"verifharness/sx"
)

// C06, the dimension "how is the raising callee reached".
//
// Every raise site of a generated program is a call of some callee (error, verif:fail,
// car, verif:panic, rethrow ...) on some arguments.  Until round 9 that call was always
// written as the head of an evaluated form.  Here the SAME callee on the SAME arguments
// is reached in one of many ways: as a function value given to funcall / apply / unpack
// (as a value, a quoted symbol or #'name), as the callback of map / foldl / foldr /
// select / reject / all? / any? / stable-sort / insert-sorted / search-sorted, through a
// function built by compose / flip / curry-function, as a step of thread-first /
// thread-last, after being stored in a variable, a list or a sorted-map or passed as an
// argument to a lambda or a named function, through a host builtin that calls back
// through FunCall / FunCallContext / EvalSExpr / SpecialOpCall / MacroCall of the
// environment it was given, or inside a host special operator / host macro.
//
// The reference model says the same for every route: the error made at the raise site
// travels outward unchanged, and one made by recovering a host panic keeps that nature
// (ignore-errors does not swallow it, `condition` does not match it) however the failing
// host code was reached.
//
// The route of a site is drawn from a generator of its own, (seed, property, case,
// site number), so the program skeleton of a case is the one it had before this
// dimension existed, and a case can be rebuilt with any subset of its sites routed: a
// disagreement that disappears when every callee is called directly and reappears with
// one site routed is reported under that route's key.

// c06Site records one routed raise site of a generated program.
type c06Site struct {
	n     int    // site number (generation order)
	kind  string // raise kind: host-panic, host-fail, error, type-error, rethrow
	route string
	desig string // how the callee was designated: value, symbol, funref
}

// c06Route is one way of reaching a callee f on arguments a.
type c06Route struct {
	name string
	// arity: -1 any number of arguments, -2 at least one, n >= 0 exactly n
	arity int
	// desig: the builtin accepts a function designator (value, quoted symbol, #'name)
	desig bool
	// always: only for callees that fail whatever they are called with (the builtin calls
	// its callback in an order, and with arguments, the reference does not fix)
	always bool
	// build writes the form; f designates the callee, name is its symbol
	build func(g *c06Gen, rr *fw.RNG, f *sx.N, name string, a []*sx.N) *sx.N
}

const c06Var = "c06f"

func c06List(a []*sx.N) *sx.N { return sx.Call("list", a...) }

func c06Call(head *sx.N, a []*sx.N) *sx.N { return sx.L(append([]*sx.N{head}, a...)...) }

func c06Funcall(f *sx.N, a []*sx.N) *sx.N {
	return sx.Call("funcall", append([]*sx.N{f}, a...)...)
}

func c06Spec(rr *fw.RNG) (spec *sx.N, mk string) {
	if rr.Bool() {
		return sx.QY("vector"), "vector"
	}
	return sx.QY("list"), "list"
}

var c06Routes = []c06Route{
	{"funcall", -1, true, false, func(g *c06Gen, rr *fw.RNG, f *sx.N, name string, a []*sx.N) *sx.N {
		return c06Funcall(f, a)
	}},
	{"apply-list", -1, true, false, func(g *c06Gen, rr *fw.RNG, f *sx.N, name string, a []*sx.N) *sx.N {
		return sx.Call("apply", f, c06List(a))
	}},
	{"apply-leading", -2, true, false, func(g *c06Gen, rr *fw.RNG, f *sx.N, name string, a []*sx.N) *sx.N {
		k := rr.Range(1, len(a))
		return sx.Call("apply", append(append([]*sx.N{f}, a[:k]...), c06List(a[k:]))...)
	}},
	{"unpack", -1, true, false, func(g *c06Gen, rr *fw.RNG, f *sx.N, name string, a []*sx.N) *sx.N {
		return sx.Call("unpack", f, c06List(a))
	}},
	{"let-var-call", -1, false, false, func(g *c06Gen, rr *fw.RNG, f *sx.N, name string, a []*sx.N) *sx.N {
		return sx.Call("let", sx.L(sx.L(sx.Y(c06Var), f)), sx.Call(c06Var, a...))
	}},
	{"let-var-funcall", -1, true, false, func(g *c06Gen, rr *fw.RNG, f *sx.N, name string, a []*sx.N) *sx.N {
		return sx.Call("let", sx.L(sx.L(sx.Y(c06Var), f)), c06Funcall(sx.Y(c06Var), a))
	}},
	{"arg-of-lambda", -1, false, false, func(g *c06Gen, rr *fw.RNG, f *sx.N, name string, a []*sx.N) *sx.N {
		return sx.L(sx.Call("lambda", sx.L(sx.Y(c06Var)), sx.Call(c06Var, a...)), f)
	}},
	{"arg-of-defun", -1, true, false, func(g *c06Gen, rr *fw.RNG, f *sx.N, name string, a []*sx.N) *sx.N {
		g.needCallWith = true
		return sx.Call("c06-call-with", append([]*sx.N{f}, a...)...)
	}},
	{"from-sorted-map", -1, false, false, func(g *c06Gen, rr *fw.RNG, f *sx.N, name string, a []*sx.N) *sx.N {
		return c06Funcall(sx.Call("get", sx.Call("sorted-map", sx.QY("k"), f), sx.QY("k")), a)
	}},
	{"from-list", -1, false, false, func(g *c06Gen, rr *fw.RNG, f *sx.N, name string, a []*sx.N) *sx.N {
		if rr.Bool() {
			return c06Funcall(sx.Call("car", sx.Call("list", f)), a)
		}
		return c06Funcall(sx.Call("nth", sx.Call("list", sx.I(0), f), sx.I(1)), a)
	}},
	{"compose-outer", -1, true, false, func(g *c06Gen, rr *fw.RNG, f *sx.N, name string, a []*sx.N) *sx.N {
		return c06Funcall(sx.Call("compose", sx.Y("identity"), f), a)
	}},
	{"compose-inner", 1, true, false, func(g *c06Gen, rr *fw.RNG, f *sx.N, name string, a []*sx.N) *sx.N {
		return c06Funcall(sx.Call("compose", f, sx.Y("identity")), a)
	}},
	{"curry-function", -1, true, false, func(g *c06Gen, rr *fw.RNG, f *sx.N, name string, a []*sx.N) *sx.N {
		k := rr.Range(0, len(a))
		return c06Funcall(sx.Call("curry-function", append([]*sx.N{f}, a[:k]...)...), a[k:])
	}},
	{"thread-first", -2, false, false, func(g *c06Gen, rr *fw.RNG, f *sx.N, name string, a []*sx.N) *sx.N {
		return sx.Call("thread-first", a[0], sx.Call(name, a[1:]...))
	}},
	{"thread-last", -2, false, false, func(g *c06Gen, rr *fw.RNG, f *sx.N, name string, a []*sx.N) *sx.N {
		return sx.Call("thread-last", a[len(a)-1], sx.Call(name, a[:len(a)-1]...))
	}},
	{"host-funcall", -1, false, false, func(g *c06Gen, rr *fw.RNG, f *sx.N, name string, a []*sx.N) *sx.N {
		return sx.Call("verif:via-funcall", append([]*sx.N{f}, a...)...)
	}},
	{"host-funcall-context", -1, false, false, func(g *c06Gen, rr *fw.RNG, f *sx.N, name string, a []*sx.N) *sx.N {
		return sx.Call("verif:via-funcall-ctx", append([]*sx.N{f}, a...)...)
	}},
	{"host-eval-sexpr", -1, false, false, func(g *c06Gen, rr *fw.RNG, f *sx.N, name string, a []*sx.N) *sx.N {
		return sx.Call("verif:via-eval-sexpr", sx.Q(sx.Call(name, a...)))
	}},
	{"host-special-op-evaluates", -1, false, false, func(g *c06Gen, rr *fw.RNG, f *sx.N, name string, a []*sx.N) *sx.N {
		return sx.Call("verif:op-eval", sx.Call(name, a...))
	}},
	{"host-macro-expands-to", -1, false, false, func(g *c06Gen, rr *fw.RNG, f *sx.N, name string, a []*sx.N) *sx.N {
		return sx.Call("verif:m-id", sx.Call(name, a...))
	}},
	{"map", 1, true, false, func(g *c06Gen, rr *fw.RNG, f *sx.N, name string, a []*sx.N) *sx.N {
		switch rr.Intn(3) {
		case 0:
			return sx.Call("map", sx.QY("list"), f, c06List(a))
		case 1:
			return sx.Call("map", sx.QY("vector"), f, sx.Call("vector", a...))
		}
		return sx.Call("map", sx.Nil(), f, c06List(a))
	}},
	{"select", 1, true, false, func(g *c06Gen, rr *fw.RNG, f *sx.N, name string, a []*sx.N) *sx.N {
		spec, mk := c06Spec(rr)
		return sx.Call("select", spec, f, sx.Call(mk, a...))
	}},
	{"reject", 1, true, false, func(g *c06Gen, rr *fw.RNG, f *sx.N, name string, a []*sx.N) *sx.N {
		spec, mk := c06Spec(rr)
		return sx.Call("reject", spec, f, sx.Call(mk, a...))
	}},
	{"all?", 1, true, false, func(g *c06Gen, rr *fw.RNG, f *sx.N, name string, a []*sx.N) *sx.N {
		return sx.Call("all?", f, c06List(a))
	}},
	{"any?", 1, true, false, func(g *c06Gen, rr *fw.RNG, f *sx.N, name string, a []*sx.N) *sx.N {
		return sx.Call("any?", f, c06List(a))
	}},
	{"foldl", 2, true, false, func(g *c06Gen, rr *fw.RNG, f *sx.N, name string, a []*sx.N) *sx.N {
		return sx.Call("foldl", f, a[0], c06List(a[1:]))
	}},
	{"foldr", 2, true, false, func(g *c06Gen, rr *fw.RNG, f *sx.N, name string, a []*sx.N) *sx.N {
		return sx.Call("foldr", f, a[1], c06List(a[:1]))
	}},
	{"flip", 2, true, false, func(g *c06Gen, rr *fw.RNG, f *sx.N, name string, a []*sx.N) *sx.N {
		return c06Funcall(sx.Call("flip", f), []*sx.N{a[1], a[0]})
	}},
	{"stable-sort", 2, true, true, func(g *c06Gen, rr *fw.RNG, f *sx.N, name string, a []*sx.N) *sx.N {
		return sx.Call("stable-sort", f, c06List(a))
	}},
	{"insert-sorted", 2, false, true, func(g *c06Gen, rr *fw.RNG, f *sx.N, name string, a []*sx.N) *sx.N {
		spec, mk := c06Spec(rr)
		return sx.Call("insert-sorted", spec, sx.Call(mk, a[0]), f, a[1])
	}},
	{"search-sorted", 0, true, true, func(g *c06Gen, rr *fw.RNG, f *sx.N, name string, a []*sx.N) *sx.N {
		return sx.Call("search-sorted", sx.I(int64(rr.Range(1, 5))), f)
	}},
}

// c06SpecialRoutes reach host code that is not a function: a host special operator
// and a host macro that fail in Go, used directly, through the host entry points
// SpecialOpCall / MacroCall / EvalSExpr, and through macroexpand / macroexpand-1.
var c06SpecialRoutes = []struct {
	name  string
	build func(a []*sx.N) *sx.N
}{
	{"host-special-op:direct", func(a []*sx.N) *sx.N { return sx.Call("verif:op-panic", a...) }},
	{"host-special-op:host-special-op-call", func(a []*sx.N) *sx.N {
		return sx.Call("verif:via-special-op", append([]*sx.N{sx.Y("verif:op-panic")}, a...)...)
	}},
	{"host-special-op:host-eval-sexpr", func(a []*sx.N) *sx.N {
		return sx.Call("verif:via-eval-sexpr", sx.Q(sx.Call("verif:op-panic", a...)))
	}},
	{"host-macro:direct", func(a []*sx.N) *sx.N { return sx.Call("verif:m-panic", a...) }},
	{"host-macro:macroexpand-1", func(a []*sx.N) *sx.N {
		return sx.Call("macroexpand-1", sx.Q(sx.Call("verif:m-panic", a...)))
	}},
	{"host-macro:macroexpand", func(a []*sx.N) *sx.N {
		return sx.Call("macroexpand", sx.Q(sx.Call("verif:m-panic", a...)))
	}},
	{"host-macro:host-macro-call", func(a []*sx.N) *sx.N {
		return sx.Call("verif:via-macro-call", append([]*sx.N{sx.Y("verif:m-panic")}, a...)...)
	}},
	{"host-macro:host-eval-sexpr", func(a []*sx.N) *sx.N {
		return sx.Call("verif:via-eval-sexpr", sx.Q(sx.Call("verif:m-panic", a...)))
	}},
}

// c06RouteNames lists every route name (the coverage floor wants each of them seen
// with a host panic in a judged case).
func c06RouteNames() []string {
	var out []string
	for _, r := range c06Routes {
		out = append(out, r.name)
	}
	for _, r := range c06SpecialRoutes {
		out = append(out, r.name)
	}
	sort.Strings(out)
	return out
}

func (g *c06Gen) siteRNG() (int, *fw.RNG, bool) {
	n := g.nsite
	g.nsite++
	if g.rrOf == nil {
		return n, nil, false
	}
	rr := g.rrOf(n)
	routed := rr.Chance(1, 2)
	if g.mask != nil && !g.mask(n) {
		routed = false
	}
	return n, rr, routed
}

func (g *c06Gen) designate(rr *fw.RNG, rt *c06Route, name string) (*sx.N, string) {
	if rt.desig {
		switch rr.Intn(4) {
		case 0:
			return sx.QY(name), "symbol"
		case 1:
			return sx.FR(name), "funref"
		}
	}
	return sx.Y(name), "value"
}

// site writes the call of callee on args at one raise site: directly, or by one of the
// routes its number of arguments admits.
func (g *c06Gen) site(kind, callee string, args []*sx.N) *sx.N {
	n, rr, routed := g.siteRNG()
	if !routed {
		return sx.Call(callee, args...)
	}
	var fit []*c06Route
	for i := range c06Routes {
		rt := &c06Routes[i]
		if rt.always {
			continue
		}
		if rt.arity == -1 || (rt.arity == -2 && len(args) >= 1) || rt.arity == len(args) {
			fit = append(fit, rt)
		}
	}
	rt := fit[rr.Intn(len(fit))]
	f, how := g.designate(rr, rt, callee)
	g.sites = append(g.sites, c06Site{n: n, kind: kind, route: rt.name, desig: how})
	return rt.build(g, rr, f, callee, args)
}

// panicSite writes a host panic at one raise site.  A panicking host function fails
// whatever it is called with, so every route is open to it: the route is drawn first and
// the arguments are made to fit.  zeroArgs names the host function used when the route
// calls it without arguments, nArgs the ones used otherwise.
func (g *c06Gen) panicSite(zeroArgs string, nArgs []string) *sx.N {
	n, rr, routed := g.siteRNG()
	if !routed {
		return sx.Call(zeroArgs)
	}
	ints := func(k int) []*sx.N {
		var a []*sx.N
		for i := 0; i < k; i++ {
			a = append(a, sx.I(int64(rr.Intn(9))))
		}
		return a
	}
	k := rr.Intn(len(c06Routes) + len(c06SpecialRoutes))
	if k >= len(c06Routes) {
		sr := c06SpecialRoutes[k-len(c06Routes)]
		g.sites = append(g.sites, c06Site{n: n, kind: "host-panic", route: sr.name, desig: "value"})
		return sr.build(ints(rr.Intn(3)))
	}
	rt := &c06Routes[k]
	na := rt.arity
	switch na {
	case -1:
		na = rr.Intn(3)
	case -2:
		na = rr.Range(1, 3)
	}
	callee := zeroArgs
	if na > 0 || rt.always || rr.Bool() {
		callee = fw.Pick(rr, nArgs)
	}
	f, how := g.designate(rr, rt, callee)
	g.sites = append(g.sites, c06Site{n: n, kind: "host-panic", route: rt.name, desig: how})
	return rt.build(g, rr, f, callee, ints(na))
}

// c06CallWith is the named function of the route arg-of-defun.
func c06CallWith() *sx.N {
	return sx.Call("defun", sx.Y("c06-call-with"), sx.L(sx.Y("f"), sx.Y("&rest"), sx.Y("a")), sx.Call("apply", sx.Y("f"), sx.Y("a")))
}

func (s c06Site) String() string {
	return fmt.Sprintf("site %d: %s reached via %s (callee given as %s)", s.n, s.kind, s.route, s.desig)
}

// c06Driver is the coverage floor of the reach dimension: every route must have been
// generated with a host panic in a case the model judged.
func c06Driver(d *fw.D) {
	c06LibDriver(d)
	seen := d.Sets["panic_routes_judged"]
	var missing []string
	for _, r := range c06RouteNames() {
		if !seen[r] {
			missing = append(missing, r)
		}
	}
	if len(missing) > 0 {
		d.Inconclusive(fmt.Sprintf("callee-reach dimension: %d of %d routes never carried a host panic in a judged case: %v", len(missing), len(c06RouteNames()), missing))
	}
	if d.Counters["raise_sites_routed"] == 0 {
		d.Inconclusive("callee-reach dimension: no routed raise site was generated")
	}
}
