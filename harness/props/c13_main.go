package props

// C13 — JSON encoding and decoding are faithful, canonical and mutually
// consistent.
//
// Shape 3 of DESIGN.md: the real json:* builtins are driven with generated
// values and documents; the oracle is verifharness/c13x, a byte-level RFC 8259
// recognizer/decoder with arbitrary-precision number semantics that shares no
// code with encoding/json, strconv's float parser or the repository.
//
//   half the cases (PRNG-chosen) -> one value case   (c13_values.go)
//   the other half               -> a batch of documents (this file + c13_docs.go)
//   driver phase     -> thorough tier: Python's json module re-judges a
//                       recorded sample (c13_driver.go, py/c13_json_oracle.py)

import (
	"fmt"
	"os"
	"strconv"
	"strings"

	"verifharness/c13x"
	"verifharness/fw"
)

func init() {
	fw.Register(&fw.Prop{
		ID:    "C13",
		Level: "exploration",
		Rule: "half of the cases: one generated lisp value (nil/bool/int/float/string leaves from boundary sets and random bits; sorted-maps with symbol/string/keyword keys, vectors, lists; " +
			"key names also from token look-alike families (true/false/null, nil/NaN/Infinity..., number spellings, operators and HTML characters the reader accepts in symbols, unicode letters, package-qualified, JSON punctuation, empty), " +
			"each spelled as symbol (quoted, bare true/false, or a constructor-made symbol the reader cannot spell), string or keyword, and optionally written twice under both spellings of the name (Set twice / assoc / assoc!); " +
			"shapes leaf, leaf-vector, ordering-map, nested, wide<=2000, deep<=120, invalid-utf8-mix; built either through sorted-map/vector/list source or the Go constructors) " +
			"dumped by dump-string/dump-bytes/dump-message with and without :string-numbers, the dump parsed by the independent decoder and loaded back in all four flag combinations. " +
			"other half: 4 documents each from an RFC 8259 text generator (whitespace in every gap, all number spellings, all escapes, duplicate names), " +
			"a near-miss mutation catalogue, non-UTF-8 strings, deep/wide documents and JSON-ish random bytes, loaded by load-string/load-bytes in all four flag combinations " +
			"(keywords, explicit false keywords, use-string-numbers/use-exact-integers defaults, overridden defaults); loaded values are re-dumped, also after the keys of one of their objects were re-written as symbols of the same names via assoc. " +
			"Histories (a quarter of the container-holding JSON texts and of the values): a text is loaded twice, the containers of the first result -- at every depth, the empty ones first -- are changed IN PLACE through append!, stable-sort, assoc! (new / existing name) and dissoc! (existing / absent name), optionally after a dump; " +
			"the changed value must be the text's tree with exactly those changes, the result loaded earlier, a load afterwards in the same runtime, one in a second runtime of the process and libjson.LoadWith must all still be the text's tree, the two loads equal?, the dump of the changed value must read back to it; " +
			"the first value a case loads is kept and re-compared with its tree after every later document of the case; a value is compared with a fresh twin before and after its dumps, bytes an earlier dump returned are grown in place (append-bytes!) or followed by dumps of other values, and the value is changed in place and dumped again (against the changed model and a freshly built twin). " +
			"Size: a quarter of the document batches get one more document, valid or with one named near-miss mutation, in which one place the mutation left alone (whitespace gap before/inside/after the value, string, member name, number literal, array, object) is made long " +
			"so that the defect, the end of the long place, the end of the value or the end of the document sits at a buffer boundary (2^6..2^16, 512*(2^k-1)) +-3 bytes (sometimes +-4..40); loaded in all four flag combinations by load-string/load-bytes and by libjson.Load/LoadWith. " +
			"A case class is distinct by (shape, build route, key kinds, mode, leaf classes) for values and by (origin, mutation name or number/string classes, verdict, nesting bucket) for documents; " +
			"empty or scalar-free cases are not counted.",
		Assumptions: []string{
			"math/big (Rat.Float64 correctly rounded) is trusted as the arithmetic of the oracle",
			"the harness's own RFC 8259 recognizer is correct (cross-checked against its own generator on every generated text and, in the thorough tier, against Python's json module)",
			"number literals that overflow float64 are not judged in the float-producing modes (no lisp value holds them; the statement is silent)",
			"documents that are grammatical but not UTF-8 are not JSON texts: only rejection of ungrammatical ones is demanded",
			"duplicate member names: any of the members' values is accepted; a leading byte order mark is not generated (RFC 8259 allows either treatment)",
			"strings that are not valid UTF-8 have no JSON representation: only a valid document whose decoded string is the U+FFFD replacement is demanded; equal? is not asserted for them",
			"list and vector are the same JSON array: load(dump v) is compared with v after turning lists into vectors",
			"sorted object names: bytewise (code point) order or UTF-16 code unit order are both accepted",
			"what the in-place mutators do is not C13's subject: a disagreement between a mutated loaded value and the harness's model of the mutation counts only if the same script on a value built with the Go constructors follows the model; a value that was not touched by the script is judged against the independent decoder's tree alone",
			"a sorted-map key is its name: 'k and \"k\" are the same key (docs/lang.md, Sorted Maps: the spelling is presentation only), so the member name of a symbol key is the symbol's name whatever token it resembles; which spelling a map shows after a name was written under both is not judged",
		},
		Cases: func(tier string) int {
			if n, err := strconv.Atoi(os.Getenv("C13_CASES")); err == nil && n > 0 {
				return n // debugging aid only
			}
			if tier == "thorough" {
				return 3_000_000
			}
			return 150_000
		},
		Init:   func(w *fw.W) { w.State = c13NewRT() },
		Run:    c13Run,
		Driver: c13Driver,
		MinDistinct: func(tier string) int {
			// seeds 1..5 reach ~67 000 distinct classes in the quick tier
			if os.Getenv("C13_CASES") != "" {
				return 1
			}
			if tier == "thorough" {
				return 60_000
			}
			return 20_000
		},
	})
}

func c13Run(w *fw.W, idx int) {
	c, _ := w.State.(*c13RT)
	if c == nil {
		c = c13NewRT()
		w.State = c
	}
	c.resetDefaults()
	c.kept = nil // a case is self-contained (replayable alone)
	if w.RNG(idx, "kind").Intn(2) == 0 {
		c13RunValueCase(w, c, idx)
		c13CheckKept(w, c, "")
		return
	}
	for k := 0; k < c13DocsPerCase; k++ {
		c13RunDocCase(w, c, w.RNG(idx, fmt.Sprintf("doc%d", k)))
	}
	// the size dimension (c13_size.go); an own PRNG stream, so the batch above
	// is what it was
	if rs := w.RNG(idx, "sized"); rs.Intn(c13SizedEvery) == 0 {
		c13RunSizedDoc(w, c, rs)
	}
}

const c13DocsPerCase = 4

// c13GenDocCase produces one document and its provenance.
func c13GenDocCase(r *fw.RNG, maxDeep int) (dc c13DocCase, feats map[string]bool, wantValid int) {
	// wantValid: 1 the generator promises a JSON text, 0 promises nothing
	feats = map[string]bool{}
	switch k := r.Intn(100); {
	case k < 34:
		o := c13x.GenOpts{MaxDepth: r.Intn(5), MaxWidth: 1 + r.Intn(5), Dups: r.Chance(1, 3), Features: feats}
		return c13DocCase{doc: c13x.Join(c13x.GenDoc(r, o)), origin: "generated", name: "generated"}, feats, 1
	case k < 37:
		// a scalar document with whitespace around it
		ws := []string{"", " ", "\n", "\t\r\n "}
		var body string
		if r.Bool() {
			body = c13x.GenNumber(r, feats)
		} else {
			body = c13x.GenString(r, feats)
		}
		return c13DocCase{doc: []byte(fw.Pick(r, ws) + body + fw.Pick(r, ws)), origin: "generated", name: "generated-scalar"}, feats, 1
	case k < 40:
		// deep or wide
		var sb strings.Builder
		if r.Bool() {
			d := 20 + r.Intn(maxDeep)
			open, close := make([]byte, 0, d*8), make([]byte, 0, d)
			for i := 0; i < d; i++ {
				if r.Bool() {
					open = append(open, '[')
					close = append(close, ']')
				} else {
					open = append(open, `{"k":`...)
					close = append(close, '}')
				}
			}
			sb.Write(open)
			sb.WriteString(c13x.GenNumber(r, feats))
			for i := len(close) - 1; i >= 0; i-- {
				sb.WriteByte(close[i])
			}
			feats["deep"] = true
			return c13DocCase{doc: []byte(sb.String()), origin: "generated", name: "generated-deep"}, feats, 1
		}
		n := 100 + r.Intn(1500)
		obj := r.Bool()
		if obj {
			sb.WriteByte('{')
		} else {
			sb.WriteByte('[')
		}
		for i := 0; i < n; i++ {
			if i > 0 {
				sb.WriteByte(',')
			}
			if obj {
				fmt.Fprintf(&sb, `"k%d":`, r.Intn(n))
			}
			if r.Bool() {
				sb.WriteString(c13x.GenNumber(r, feats))
			} else {
				sb.WriteString(c13x.GenString(r, feats))
			}
		}
		if obj {
			sb.WriteByte('}')
		} else {
			sb.WriteByte(']')
		}
		feats["wide"] = true
		return c13DocCase{doc: []byte(sb.String()), origin: "generated", name: "generated-wide"}, feats, 1
	case k < 82:
		toks := c13x.GenRichDoc(r, c13x.GenOpts{MaxDepth: 2, MaxWidth: 3})
		for tries := 0; tries < 8; tries++ {
			m := fw.Pick(r, c13x.Mutations)
			b, name := m.Apply(r, toks)
			if b == nil && name == "" {
				continue
			}
			if b == nil {
				b = []byte{}
			}
			return c13DocCase{doc: b, origin: "nearmiss", name: "nearmiss:" + name}, feats, 0
		}
		return c13DocCase{doc: []byte("[1,]"), origin: "nearmiss", name: "nearmiss:trailing-comma-array"}, feats, 0
	case k < 90:
		// a string (value or name) holding bytes that are not UTF-8
		bad := fw.Pick(r, c13x.BadUTF8Seqs)
		pre := fw.Pick(r, []string{"", "a", "é", `\n`})
		post := fw.Pick(r, []string{"", "b", "€", `A`})
		s := `"` + pre + bad.Bytes + post + `"`
		var doc string
		switch r.Intn(4) {
		case 0:
			doc = s
		case 1:
			doc = "[1," + s + "]"
		case 2:
			doc = `{"a":` + s + "}"
		default:
			doc = "{" + s + ":1}"
		}
		name := "non-utf8:" + bad.Name
		if r.Chance(1, 3) {
			// and a grammar error on top: must be rejected
			doc += fw.Pick(r, []string{"]", ",", "x"})
			name = "non-utf8-and-trailing-data:" + bad.Name
		}
		return c13DocCase{doc: []byte(doc), origin: "non-utf8", name: name}, feats, 0
	case k < 95:
		return c13DocCase{doc: c13x.JSONishBytes(r), origin: "bytes", name: "bytes:json-fragments"}, feats, 0
	default:
		return c13DocCase{doc: c13x.RandomBytes(r), origin: "bytes", name: "bytes:random"}, feats, 0
	}
}

func c13RunDocCase(w *fw.W, c *c13RT, r *fw.RNG) {
	dc, feats, wantValid := c13GenDocCase(r, 400)
	doc := c13CheckDoc(w, c, r, dc)
	if wantValid == 1 && !(doc.Valid && doc.UTF8) {
		w.Violation("harness-self-check:generator-vs-recognizer", "the harness's own text generator and recognizer disagree (harness bug)",
			fmt.Sprintf("document %s\nrecognizer: valid=%v utf8=%v %s at %d", c13Hex(dc.doc), doc.Valid, doc.UTF8, doc.Err, doc.ErrOff))
		return
	}
	w.Max("c13_max_doc_bytes", int64(len(dc.doc)))
	w.SetAdd("c13_doc_names", dc.name)
	verdict := "invalid"
	if doc.Valid && doc.UTF8 {
		verdict = "valid"
	} else if doc.Valid {
		verdict = "valid-grammar-not-utf8"
	}
	w.Count("c13_docs_"+verdict, 1)
	key := "doc|" + dc.name + "|" + verdict
	if doc.Valid {
		w.Max("c13_max_doc_depth", int64(doc.Depth))
		di := c13Inspect(doc)
		for cl := range di.numClasses {
			w.SetAdd("c13_number_classes", cl)
		}
		for cl := range di.strClasses {
			w.SetAdd("c13_string_classes", cl)
		}
		if doc.NNum+doc.NStr == 0 && doc.Depth == 0 {
			return // true / false / null alone: trivial
		}
		depth := doc.Depth
		if depth > 6 {
			depth = 6 + depth/50
		}
		key += fmt.Sprintf("|d%d|dup=%v|%s|%s", depth, doc.HasDup,
			strings.Join(c13Cap(c13SortedKeys(di.numClasses), 3), ","), strings.Join(c13Cap(c13SortedKeys(di.strClasses), 3), ","))
	} else if len(dc.doc) == 0 && dc.origin != "nearmiss" {
		return
	}
	for f := range feats {
		w.SetAdd("c13_generator_features", f)
	}
	w.CoverKey(key)
	if w.WantSample() && dc.origin == "nearmiss" {
		w.Sample(map[string]any{"kind": "document", "origin": dc.name, "document": c13Trunc(string(dc.doc), 300), "recognizer_valid": doc.Valid, "recognizer_error": doc.Err})
	}
}
