package props

// Driver phase of C13: the second, offline oracle.  The driver regenerates a
// sample of documents and value dumps with its own PRNG streams, runs them
// through the real builtins, writes what it observed as JSONL and lets
// py/c13_json_oracle.py (Python's json module, strict) re-judge every record.
// encoding/json is used here only as the transport format of that log, never
// to judge anything.

import (
	"bufio"
	"bytes"
	"encoding/base64"
	"encoding/hex"
	"encoding/json"
	"fmt"
	"math"
	"os"
	"os/exec"
	"path/filepath"
	"strconv"

	"github.com/luthersystems/elps/lisp"

	"verifharness/c13x"
	"verifharness/fw"
)

// c13Tag renders a loaded lisp value as the tagged tree the Python side reads.
func c13Tag(v *lisp.LVal) any {
	switch {
	case v == nil:
		return []any{"?", "<nil>"}
	case v.IsNil():
		return []any{"n"}
	}
	switch v.Type {
	case lisp.LSymbol:
		if v.Str == "true" || v.Str == "false" {
			return []any{"b", v.Str == "true"}
		}
		return []any{"?", "symbol " + v.Str}
	case lisp.LString:
		return []any{"s", hex.EncodeToString([]byte(v.Str))}
	case lisp.LInt:
		return []any{"i", strconv.FormatInt(int64(v.Int), 10)}
	case lisp.LFloat:
		return []any{"f", strconv.FormatUint(math.Float64bits(v.Float), 10)}
	case lisp.LArray:
		if len(v.Cells) != 2 || v.Cells[0].Len() != 1 {
			return []any{"?", "array with dims " + v.Cells[0].String()}
		}
		out := make([]any, 0, len(v.Cells[1].Cells))
		for _, c := range v.Cells[1].Cells {
			out = append(out, c13Tag(c))
		}
		return []any{"a", out}
	case lisp.LSortMap:
		ents := v.MapEntries()
		if ents.Type == lisp.LError {
			return []any{"?", ents.String()}
		}
		out := make([]any, 0, len(ents.Cells))
		for _, p := range ents.Cells {
			if p.Cells[0].Type != lisp.LString {
				return []any{"?", "map key of type " + p.Cells[0].Type.String()}
			}
			out = append(out, []any{hex.EncodeToString([]byte(p.Cells[0].Str)), c13Tag(p.Cells[1])})
		}
		return []any{"o", out}
	}
	return []any{"?", v.Type.String()}
}

func c13TagModel(v *c13Val) any {
	switch v.kind {
	case c13VNull:
		return []any{"n"}
	case c13VBool:
		return []any{"b", v.b}
	case c13VInt:
		return []any{"i", strconv.FormatInt(v.i, 10)}
	case c13VFloat:
		return []any{"f", strconv.FormatUint(math.Float64bits(v.f), 10)}
	case c13VStr:
		return []any{"s", hex.EncodeToString([]byte(v.s))}
	case c13VVec, c13VList:
		out := make([]any, 0, len(v.elems))
		for _, e := range v.elems {
			out = append(out, c13TagModel(e))
		}
		if v.kind == c13VList {
			return []any{"l", out}
		}
		return []any{"a", out}
	}
	out := make([]any, 0, len(v.elems))
	for i, k := range v.keys {
		out = append(out, []any{hex.EncodeToString([]byte(k.name)), c13TagModel(v.elems[i])})
	}
	return []any{"o", out}
}

func c13DepthOf(v *c13Val) int {
	d := 0
	for _, e := range v.elems {
		if x := c13DepthOf(e) + 1; x > d {
			d = x
		}
	}
	return d
}

func c13Driver(d *fw.D) {
	n := 0
	switch {
	case os.Getenv("C13_PY_SAMPLE") != "":
		n, _ = strconv.Atoi(os.Getenv("C13_PY_SAMPLE"))
	case d.Tier == "thorough":
		n = 200_000
	}
	if n <= 0 {
		return
	}
	py := ""
	for _, cand := range []string{"python3", "/usr/bin/python3", "/opt/veriftools/pyvenv/bin/python"} {
		if p, err := exec.LookPath(cand); err == nil {
			py = p
			break
		}
	}
	script := filepath.Join(d.Home, "py", "c13_json_oracle.py")
	if _, err := os.Stat(script); err != nil || py == "" {
		d.Count("c13_py_oracle_unavailable", 1)
		d.Inconclusive("the Python second oracle could not be run (python3 or py/c13_json_oracle.py missing)")
		return
	}
	tmp, err := os.MkdirTemp("", "c13py-")
	if err != nil {
		d.Inconclusive("c13 driver: " + err.Error())
		return
	}
	defer os.RemoveAll(tmp)
	logPath := filepath.Join(tmp, "c13.jsonl")
	f, err := os.Create(logPath)
	if err != nil {
		d.Inconclusive("c13 driver: " + err.Error())
		return
	}
	bw := bufio.NewWriterSize(f, 1<<20)
	enc := json.NewEncoder(bw)
	c := c13NewRT()
	modeNames := map[c13Mode]string{{false, false}: "default", {true, false}: "sn", {false, true}: "ei", {true, true}: "snei"}
	inputs := map[int][]byte{}
	keep := func(i int, b []byte) {
		if len(inputs) < 200000 {
			inputs[i] = b
		}
	}
	for i := 0; i < n; i++ {
		r := d.RNG(i, "py")
		if r.Intn(4) == 0 {
			// a value and its dumps
			v, _ := c13GenCase(r)
			if c13DepthOf(v) > 60 || c13StatsOf(v).nodes > 400 {
				v = c13GenLeaf(r, true)
			}
			c.set("c13-v", c13BuildGo(v, nil, false))
			t1, d1 := c.eval("(json:dump-bytes c13-v)")
			t2, d2 := c.eval("(json:dump-bytes c13-v :string-numbers true)")
			d.Eval(2)
			if t1.IsErr || t2.IsErr {
				d.Violation("dump-failed:driver-sample", "json:dump-bytes failed on a JSON-representable value", c13ModelStr(v)+"\n"+t1.Value+"\n"+t2.Value)
				continue
			}
			keep(i, d1.Bytes())
			enc.Encode(map[string]any{"k": "dump", "i": i, "model": c13TagModel(v),
				"dump": base64.StdEncoding.EncodeToString(d1.Bytes()), "dump_sn": base64.StdEncoding.EncodeToString(d2.Bytes())})
			continue
		}
		dc, _, _ := c13GenDocCase(r, 100)
		doc := c13x.Parse(dc.doc)
		c.bindDoc(dc.doc)
		obs := map[string]any{}
		for _, m := range c13Modes {
			t, v := c.load(fw.Pick(r, []string{"load-string", "load-bytes"}), m, "kw-min")
			d.Eval(1)
			if t.IsErr {
				obs[modeNames[m]] = map[string]any{"err": t.Cond}
			} else {
				obs[modeNames[m]] = map[string]any{"val": c13Tag(v)}
			}
		}
		keep(i, dc.doc)
		enc.Encode(map[string]any{"k": "doc", "i": i, "name": dc.name, "doc": base64.StdEncoding.EncodeToString(dc.doc),
			"go_valid": doc.Valid, "go_utf8": doc.UTF8, "obs": obs})
	}
	bw.Flush()
	f.Close()
	var stdout, stderr bytes.Buffer
	cmd := exec.Command(py, script, logPath)
	cmd.Stdout, cmd.Stderr = &stdout, &stderr
	if err := cmd.Run(); err != nil {
		d.Violation("harness-self-check:python-oracle-crashed", "py/c13_json_oracle.py failed: "+err.Error(), c13Trunc(stderr.String(), 4000))
		return
	}
	sawSummary := false
	sc := bufio.NewScanner(&stdout)
	sc.Buffer(make([]byte, 1<<20), 1<<26)
	for sc.Scan() {
		var rec struct {
			I       int              `json:"i"`
			Key     string           `json:"key"`
			Msg     string           `json:"msg"`
			Summary map[string]int64 `json:"summary"`
		}
		if err := json.Unmarshal(sc.Bytes(), &rec); err != nil {
			continue
		}
		if rec.Summary != nil {
			sawSummary = true
			for k, v := range rec.Summary {
				d.Count("c13_py_"+k, v)
			}
			continue
		}
		d.Violation("py-oracle:"+rec.Key, "Python's json module disagrees: "+c13Trunc(rec.Msg, 300),
			fmt.Sprintf("driver sample index %d (stream \"py\")\ninput: %s\n%s", rec.I, c13Hex(inputs[rec.I]), rec.Msg))
	}
	if !sawSummary {
		d.Violation("harness-self-check:python-oracle-no-summary", "py/c13_json_oracle.py printed no summary", c13Trunc(stderr.String(), 4000))
	}
}
