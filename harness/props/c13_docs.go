package props

import (
	"fmt"
	"math"
	"sort"
	"strings"

	"github.com/luthersystems/elps/lisp"

	"verifharness/c13x"
	"verifharness/fw"
	"verifharness/rt"
)

// ---------------------------------------------------------------------------
// modes and the runtime wrapper

type c13Mode struct{ sn, ei bool }

var c13Modes = []c13Mode{{false, false}, {true, false}, {false, true}, {true, true}}

func (m c13Mode) String() string {
	switch m {
	case c13Mode{true, false}:
		return "string-numbers"
	case c13Mode{false, true}:
		return "exact-integers"
	case c13Mode{true, true}:
		return "string-numbers+exact-integers"
	}
	return "default"
}

// c13RT wraps the real runtime of a worker.
type c13RT struct {
	r     *rt.R
	dirty bool // serializer defaults were changed
	progs map[string]lisp.Program
	// second is another runtime of the same process (made on first use): the
	// histories of c13_history.go load in one what was changed in the other
	second *c13RT
	// kept is the first value an ordinary load of the current case returned
	// (with the tree it matched): it must still be that tree after whatever
	// the rest of the case loads, dumps and changes
	kept *c13Kept
}

func c13NewRT() *c13RT { return &c13RT{r: rt.New(rt.Opts{})} }

func (c *c13RT) set(name string, v *lisp.LVal) {
	if rc := c.r.Env.PutGlobal(lisp.Symbol(name), v); rc != nil && rc.Type == lisp.LError {
		panic("c13: PutGlobal " + name + ": " + rc.String())
	}
}

// eval evaluates src at top level.  The fixed call forms are parsed once with
// the interpreter's own parse-once API (ParseProgram/LoadProgram) and re-run;
// the parser allocates a large scanner buffer per call, which would otherwise
// dominate the cost of a case.
func (c *c13RT) eval(src string) (rt.Transcript, *lisp.LVal) {
	if len(src) > 160 {
		return c.r.RunV("c13", src)
	}
	p, ok := c.progs[src]
	if !ok {
		var err error
		p, err = c.r.Env.ParseProgram("c13", "c13", strings.NewReader(src))
		if err != nil {
			return c.r.RunV("c13", src)
		}
		if c.progs == nil {
			c.progs = map[string]lisp.Program{}
		}
		if len(c.progs) < 2000 {
			c.progs[src] = p
		}
	}
	tf, ef := c.r.Marks()
	v := c.r.Env.LoadProgram(p)
	return c.r.TranscriptOf(v, tf, ef), v
}

func c13Bool(b bool) string {
	if b {
		return "true"
	}
	return "false"
}

// resetDefaults puts the per-runtime serializer defaults back to false.
func (c *c13RT) resetDefaults() {
	if c.dirty {
		c.eval("(json:use-string-numbers false)")
		c.eval("(json:use-exact-integers false)")
		c.dirty = false
	}
}

// c13LoadVariants are the ways a mode can be selected at a call site.
var c13LoadVariants = []string{"kw-min", "kw-all", "defaults", "override"}

// load runs json:load-string / json:load-bytes on the bound document under
// mode m, selecting the mode in the given way.
func (c *c13RT) load(fn string, m c13Mode, variant string) (rt.Transcript, *lisp.LVal) {
	arg := "c13-doc"
	if fn == "load-bytes" {
		arg = "c13-docb"
	} else if fn == "load-message" {
		arg = "c13-docm"
	}
	kw := ""
	switch variant {
	case "kw-min":
		if m.sn {
			kw += " :string-numbers true"
		}
		if m.ei {
			kw += " :exact-integers true"
		}
	case "kw-all":
		kw = " :string-numbers " + c13Bool(m.sn) + " :exact-integers " + c13Bool(m.ei)
	case "defaults":
		c.dirty = true
		c.eval("(json:use-string-numbers " + c13Bool(m.sn) + ")")
		c.eval("(json:use-exact-integers " + c13Bool(m.ei) + ")")
	case "override":
		c.dirty = true
		c.eval("(json:use-string-numbers " + c13Bool(!m.sn) + ")")
		c.eval("(json:use-exact-integers " + c13Bool(!m.ei) + ")")
		kw = " :exact-integers " + c13Bool(m.ei) + " :string-numbers " + c13Bool(m.sn)
	}
	t, v := c.eval("(json:" + fn + " " + arg + kw + ")")
	c.resetDefaults()
	return t, v
}

func (c *c13RT) bindDoc(doc []byte) {
	c.set("c13-doc", lisp.String(string(doc)))
	c.set("c13-docb", lisp.Bytes(append([]byte(nil), doc...)))
}

// ---------------------------------------------------------------------------
// what a number literal must decode to

type c13NumWant struct {
	class    string // stable class name of the literal
	overflow bool   // no float64 holds it
	f        float64
	zeroSign bool // mantissa is all zeros: the sign of the literal is what is compared

	// exact-integers view
	eiKind int // c13EI*
	i      int64
}

const (
	c13EIInt      = iota // must be an int holding i
	c13EIFloat           // must be the float f
	c13EIRange           // must signal json:integer-range-error
	c13EIUnsure          // float f or json:integer-range-error (canonical text undecided)
	c13EIOverflow        // not judged
)

func c13NumWantOf(lit string) c13NumWant {
	n, ok := c13x.ParseNum(lit)
	if !ok {
		panic("c13: recognizer accepted a literal ParseNum refuses: " + lit)
	}
	var w c13NumWant
	f, cl := n.Nearest()
	w.f, w.overflow, w.zeroSign = f, cl == c13x.FloatOverflow, n.Zero
	shape := "int"
	switch {
	case n.HasFrac && n.HasExp:
		shape = "frac-exp"
	case n.HasFrac:
		shape = "frac"
	case n.HasExp:
		shape = "exp"
	}
	switch {
	case lit == "-0":
		w.class, w.eiKind = "neg-zero-int", c13EIFloat
	case n.IntShaped:
		if i, fits := n.Int64(); fits {
			w.eiKind, w.i = c13EIInt, i
			switch {
			case n.Zero:
				w.class = "int-zero"
			case n.Mant.BitLen() <= 53:
				w.class = "int-below-2^53"
			default:
				w.class = "int-above-2^53-fits"
			}
		} else {
			t, _ := n.CanonicalFloatText()
			switch {
			case w.overflow:
				w.eiKind, w.class = c13EIRange, "int-beyond-float64"
			case t == c13x.Yes:
				w.eiKind, w.class = c13EIFloat, "int-over-int64-canonical-float-text"
			case t == c13x.No:
				w.eiKind = c13EIRange
				if n.Mant.Cmp(c13Pow10_21) >= 0 {
					w.class = "int-over-1e21"
				} else {
					w.class = "int-over-int64-not-canonical"
				}
			default:
				w.eiKind, w.class = c13EIUnsure, "int-over-int64-canonical-unsure"
			}
		}
	default:
		w.class = shape
		w.eiKind = c13EIFloat
		if n.Zero {
			w.class += "-zero"
			if n.Neg {
				w.class += "-neg"
			}
		} else if w.overflow {
			w.class += "-overflow"
			w.eiKind = c13EIOverflow
		} else if f == 0 {
			w.class += "-underflow"
		} else if math.Abs(f) < 2.2250738585072014e-308 {
			w.class += "-subnormal"
		}
	}
	return w
}

var c13Pow10_21 = c13x.Pow10(21)

// ---------------------------------------------------------------------------
// document-level facts

type c13DocInfo struct {
	anyOverflow    bool // some literal overflows float64 (default mode: not judged)
	eiOverflow     bool // some non-integer-shaped literal overflows (exact mode: not judged)
	eiRangeFirm    bool // some literal must raise integer-range-error and is not under a duplicated key
	eiRangeInDup   bool // ... but only under a duplicated key (either outcome)
	eiUnsure       bool // some oversized literal whose canonical status is undecided
	rangeClass     string
	numClasses     map[string]bool
	strClasses     map[string]bool
	nNodes         int
	hasLone        bool
	hasObj, hasArr bool
}

func c13Inspect(doc *c13x.Doc) *c13DocInfo {
	di := &c13DocInfo{numClasses: map[string]bool{}, strClasses: map[string]bool{}}
	var walk func(n *c13x.Node, inDup bool)
	walk = func(n *c13x.Node, inDup bool) {
		di.nNodes++
		switch n.Kind {
		case c13x.KNum:
			w := c13NumWantOf(n.Lit)
			di.numClasses[w.class] = true
			if w.overflow {
				di.anyOverflow = true
			}
			switch w.eiKind {
			case c13EIOverflow:
				di.eiOverflow = true
			case c13EIRange:
				if inDup {
					di.eiRangeInDup = true
				} else {
					di.eiRangeFirm = true
					if di.rangeClass == "" {
						di.rangeClass = w.class
					}
				}
			case c13EIUnsure:
				di.eiUnsure = true
			}
		case c13x.KStr:
			di.strClasses[c13StrClass(n)] = true
			if n.Lone {
				di.hasLone = true
			}
		case c13x.KArr:
			di.hasArr = true
			for _, e := range n.Elems {
				walk(e, inDup)
			}
		case c13x.KObj:
			di.hasObj = true
			cnt := map[string]int{}
			for _, m := range n.Members {
				cnt[m.Key.Str]++
			}
			for _, m := range n.Members {
				di.strClasses[c13StrClass(m.Key)] = true
				if m.Key.Lone {
					di.hasLone = true
				}
				walk(m.Val, inDup || cnt[m.Key.Str] > 1)
			}
		}
	}
	walk(doc.Root, false)
	return di
}

var c13EscNames = []struct {
	bit  uint32
	name string
}{
	{c13x.RawBadUTF8, "raw-bad-utf8"}, {c13x.EscLoneHigh, "lone-high-surrogate"}, {c13x.EscLoneLow, "lone-low-surrogate"},
	{c13x.EscPair, "surrogate-pair-escape"}, {c13x.EscUCtl, "u-escape-control"}, {c13x.EscUBMP, "u-escape-bmp"},
	{c13x.EscShort, "short-escape"}, {c13x.EscQuote, "escaped-quote"}, {c13x.EscBackslash, "escaped-backslash"},
	{c13x.EscSolidus, "escaped-solidus"}, {c13x.RawMulti4, "raw-4byte"}, {c13x.RawLineSep, "raw-line-separator"},
	{c13x.RawMulti3, "raw-3byte"}, {c13x.RawMulti2, "raw-2byte"}, {c13x.RawDEL, "raw-del"},
}

// c13StrClass names the most exotic feature of a decoded string literal.
func c13StrClass(n *c13x.Node) string {
	for _, e := range c13EscNames {
		if n.Esc&e.bit != 0 {
			return e.name
		}
	}
	if n.Str == "" {
		return "empty"
	}
	return "plain-ascii"
}

// ---------------------------------------------------------------------------
// comparison of a loaded value with the reference tree

type c13Mismatch struct {
	path string
	why  string
	node *c13x.Node
}

func (m *c13Mismatch) String() string { return "at " + m.path + ": " + m.why }

func c13TypeName(v *lisp.LVal) string {
	if v == nil {
		return "<nil>"
	}
	if v.IsNil() {
		return "nil"
	}
	return v.Type.String()
}

func c13Show(v *lisp.LVal) string {
	s := v.String()
	if len(s) > 200 {
		s = s[:200] + "…"
	}
	return s
}

func c13Q(s string) string {
	if len(s) > 300 {
		return fmt.Sprintf("%q…(%d bytes)", s[:300], len(s))
	}
	return fmt.Sprintf("%q", s)
}

// c13CmpNode compares what load returned (v) with the reference node under
// mode m.
func c13CmpNode(n *c13x.Node, v *lisp.LVal, m c13Mode, path string) *c13Mismatch {
	mm := func(f string, a ...any) *c13Mismatch { return &c13Mismatch{path, fmt.Sprintf(f, a...), n} }
	if v == nil {
		return mm("no value")
	}
	switch n.Kind {
	case c13x.KNull:
		if !v.IsNil() {
			return mm("null decoded to %s %s", c13TypeName(v), c13Show(v))
		}
	case c13x.KBool:
		want := c13Bool(n.Bool)
		if v.Type != lisp.LSymbol || v.Str != want {
			return mm("%s decoded to %s %s", want, c13TypeName(v), c13Show(v))
		}
	case c13x.KStr:
		if v.Type != lisp.LString {
			return mm("string decoded to %s %s", c13TypeName(v), c13Show(v))
		}
		if !c13StrEq(n, v.Str) {
			return mm("string decoded to %s, independent decoder says %s", c13Q(v.Str), c13Q(n.Str))
		}
	case c13x.KNum:
		return c13CmpNum(n, v, m, path)
	case c13x.KArr:
		if v.Type != lisp.LArray || len(v.Cells) != 2 || v.Cells[0].Len() != 1 {
			return mm("array decoded to %s %s", c13TypeName(v), c13Show(v))
		}
		cells := v.Cells[1].Cells
		if len(cells) != len(n.Elems) {
			return mm("array of %d elements decoded to %d elements", len(n.Elems), len(cells))
		}
		for i, e := range n.Elems {
			if x := c13CmpNode(e, cells[i], m, fmt.Sprintf("%s[%d]", path, i)); x != nil {
				return x
			}
		}
	case c13x.KObj:
		if v.Type != lisp.LSortMap {
			return mm("object decoded to %s %s", c13TypeName(v), c13Show(v))
		}
		ents := v.MapEntries()
		if ents.Type == lisp.LError {
			return mm("map entries: %s", ents.String())
		}
		got := map[string]*lisp.LVal{}
		for _, p := range ents.Cells {
			k := p.Cells[0]
			if k.Type != lisp.LString {
				return mm("decoded object has a key of type %s", c13TypeName(k))
			}
			key := k.Str
			if _, dup := got[c13NormKey(key)]; dup {
				return mm("decoded object has key %s twice", c13Q(key))
			}
			got[c13NormKey(key)] = p.Cells[1]
		}
		want := map[string][]*c13x.Node{}
		var order []string
		for _, mb := range n.Members {
			k := c13NormKey(mb.Key.Str)
			if _, ok := want[k]; !ok {
				order = append(order, k)
			}
			want[k] = append(want[k], mb.Val)
		}
		if len(got) != len(want) {
			return mm("object with %d distinct names decoded to a map of %d entries", len(want), len(got))
		}
		for _, k := range order {
			gv, ok := got[k]
			if !ok {
				return mm("decoded map lacks the name %s", c13Q(k))
			}
			// duplicate names: RFC 8259 leaves the choice open; any of the
			// members' values is accepted
			var first *c13Mismatch
			matched := false
			cands := want[k]
			for i := len(cands) - 1; i >= 0; i-- {
				x := c13CmpNode(cands[i], gv, m, path+"."+c13Q(k))
				if x == nil {
					matched = true
					break
				}
				if first == nil {
					first = x
				}
			}
			if !matched {
				return first
			}
		}
	}
	return nil
}

// c13NormKey is the identity: the reference decoder already turned every lone
// surrogate escape into one U+FFFD (the design's normalisation), so names that
// differ only in which lone surrogate they spell are the same name here, and
// the members of such names are grouped like duplicates.
func c13NormKey(s string) string { return s }

func c13StrEq(n *c13x.Node, got string) bool {
	return n.Str == got // a lone surrogate escape is one U+FFFD on both sides
}

func c13CmpNum(n *c13x.Node, v *lisp.LVal, m c13Mode, path string) *c13Mismatch {
	mm := func(f string, a ...any) *c13Mismatch { return &c13Mismatch{path, fmt.Sprintf(f, a...), n} }
	if m.sn {
		if v.Type != lisp.LString || v.Str != n.Lit {
			return mm(":string-numbers returned %s %s for the literal %s", c13TypeName(v), c13Show(v), n.Lit)
		}
		return nil
	}
	w := c13NumWantOf(n.Lit)
	wantFloat := func() *c13Mismatch {
		if v.Type != lisp.LFloat {
			return mm("literal %s decoded to %s %s, a float was expected", n.Lit, c13TypeName(v), c13Show(v))
		}
		if w.overflow {
			return nil // not judged
		}
		if w.zeroSign {
			if v.Float != 0 || math.Signbit(v.Float) != math.Signbit(w.f) {
				return mm("literal %s decoded to %v (sign bit %v)", n.Lit, v.Float, math.Signbit(v.Float))
			}
			return nil
		}
		if v.Float != w.f {
			return mm("literal %s decoded to the float %s; the nearest float64 of its exact value is %s",
				n.Lit, c13FloatStr(v.Float), c13FloatStr(w.f))
		}
		return nil
	}
	if !m.ei {
		return wantFloat()
	}
	switch w.eiKind {
	case c13EIInt:
		if v.Type != lisp.LInt {
			return mm(":exact-integers returned %s %s for the fitting integer literal %s", c13TypeName(v), c13Show(v), n.Lit)
		}
		if int64(v.Int) != w.i {
			return mm(":exact-integers returned the int %d for the literal %s", v.Int, n.Lit)
		}
		return nil
	case c13EIFloat, c13EIOverflow:
		if v.Type == lisp.LInt {
			return mm(":exact-integers returned the int %d for the literal %s, which is not written as a fitting integer", v.Int, n.Lit)
		}
		return wantFloat()
	case c13EIUnsure:
		return wantFloat()
	case c13EIRange:
		// reaching a comparison means load succeeded: only legitimate under a
		// duplicated name (the member may have been dropped) — then this
		// candidate simply does not match
		return mm(":exact-integers returned %s %s for the oversized literal %s instead of signalling json:integer-range-error", c13TypeName(v), c13Show(v), n.Lit)
	}
	return nil
}

func c13FloatStr(f float64) string {
	return fmt.Sprintf("%v (bits %016x)", f, math.Float64bits(f))
}

// ---------------------------------------------------------------------------
// the document oracle

// c13DocCase describes where a document came from (for finding keys).
type c13DocCase struct {
	doc    []byte
	origin string // "generated", "dump", "nearmiss", "bytes", "non-utf8"
	name   string // mutation name etc.; stable
	// sized documents (c13_size.go): where the defect sits relative to the
	// buffer boundary the document was built around (part of the finding key),
	// the long place, and a description of the construction for the report
	sized  string
	filler string
	note   string
}

type c13Outcome struct {
	t rt.Transcript
	v *lisp.LVal
}

func c13Hex(b []byte) string {
	if len(b) > 400 {
		return fmt.Sprintf("%q…(%d bytes)", b[:400], len(b))
	}
	return fmt.Sprintf("%q", b)
}

// c13CheckDoc runs one document through load in every mode and judges the
// outcomes against the independent decoder.  It returns the parse verdict.
func c13CheckDoc(w *fw.W, c *c13RT, r *fw.RNG, dc c13DocCase) *c13x.Doc {
	doc := c13x.Parse(dc.doc)
	var di *c13DocInfo
	if doc.Valid {
		di = c13Inspect(doc)
	}
	c.bindDoc(dc.doc)
	extra := r.Intn(len(c13Modes))
	for mi, m := range c13Modes {
		fns := []string{fw.Pick(r, []string{"load-string", "load-bytes"})}
		if mi == extra {
			fns = []string{"load-string", "load-bytes"}
		}
		for _, fn := range fns {
			variant := "kw-min"
			if r.Chance(1, 3) {
				variant = fw.Pick(r, c13LoadVariants)
			}
			t, v := c.load(fn, m, variant)
			w.Eval(1)
			w.SetAdd("c13_load_forms", fn+"/"+variant)
			c13Judge(w, c, dc, doc, di, m, fn+"/"+variant, c13Outcome{t, v})
		}
	}
	// state carried across loads: load, change the loaded containers in
	// place, load again (c13_history.go)
	if di != nil && c13HistoryWanted(dc.doc) {
		c13DocHistory(w, c, dc, doc, di)
	}
	c13CheckKept(w, c, string(dc.doc))
	return doc
}

func c13OutcomeStr(o c13Outcome) string {
	if o.t.IsErr {
		return "ERROR cond=" + o.t.Cond + " msg=" + c13Q(o.t.Msg)
	}
	return "VALUE " + c13Show(o.v)
}

// c13Judge is the verdict for one (document, mode, call form).
func c13Judge(w *fw.W, c *c13RT, dc c13DocCase, doc *c13x.Doc, di *c13DocInfo, m c13Mode, form string, o c13Outcome) {
	detail := func(extra string) string {
		return fmt.Sprintf("document (%s %s): %s\n%smode: %s via %s\nindependent recognizer: valid=%v utf8=%v err=%q at %d\nelps: %s\n%s",
			dc.origin, dc.name, c13Hex(dc.doc), dc.note, m, form, doc.Valid, doc.UTF8, doc.Err, doc.ErrOff, c13OutcomeStr(o), extra)
	}
	if o.t.Panic {
		w.Violation("load-internal-panic:"+c13KeyName(dc, doc), "json:load raised an internal panic", detail(""))
		return
	}
	// ---- grammar-invalid: must be rejected, as json:syntax-error where stated
	if !doc.Valid {
		w.Count("c13_invalid_doc_loads", 1)
		if !o.t.IsErr {
			w.Violation("invalid-accepted:"+c13KeyName(dc, doc), fmt.Sprintf("syntactically invalid document accepted in %s mode", m), detail(""))
			return
		}
		if !m.sn && o.t.Cond != "json:syntax-error" {
			w.Violation("invalid-wrong-condition:"+c13KeyName(dc, doc)+":"+m.String()+":"+o.t.Cond,
				fmt.Sprintf("syntactically invalid document rejected as %q instead of json:syntax-error in %s mode", o.t.Cond, m), detail(""))
		}
		return
	}
	// ---- grammar-valid but not UTF-8: not a JSON text; nothing demanded
	if !doc.UTF8 {
		w.Count("c13_non_utf8_valid_grammar_not_judged", 1)
		return
	}
	w.Count("c13_valid_doc_loads", 1)
	// ---- what must happen
	expectErr, flexible := false, false
	switch {
	case m.sn:
	case !m.ei:
		if di.anyOverflow {
			w.Count("c13_float_overflow_not_judged", 1)
			return
		}
	default:
		if di.eiOverflow {
			w.Count("c13_float_overflow_not_judged", 1)
			return
		}
		if di.eiRangeFirm {
			expectErr = true
		} else if di.eiRangeInDup || di.eiUnsure {
			flexible = true
		}
	}
	if expectErr {
		if !o.t.IsErr {
			w.Violation("exact-integers-no-range-error:"+di.rangeClass,
				"an oversized integer literal was loaded under :exact-integers without json:integer-range-error", detail(""))
		} else if o.t.Cond != "json:integer-range-error" {
			w.Violation("exact-integers-wrong-condition:"+di.rangeClass+":"+o.t.Cond,
				fmt.Sprintf("oversized integer literal rejected as %q instead of json:integer-range-error", o.t.Cond), detail(""))
		}
		return
	}
	if o.t.IsErr {
		if flexible && o.t.Cond == "json:integer-range-error" {
			w.Count("c13_flexible_range_error", 1)
			return
		}
		cls := c13ShrinkReject(c, dc.doc, doc, m)
		if cls == "composite" && dc.sized != "" {
			// every leaf loads alone: what is rejected is the long document
			cls = "sized:" + dc.filler
		}
		w.Violation("valid-rejected:"+m.String()+":"+cls,
			fmt.Sprintf("valid JSON text rejected in %s mode (%s)", m, o.t.Cond), detail("smallest failing part: "+cls))
		return
	}
	if x := c13CmpNode(doc.Root, o.v, m, "$"); x != nil {
		cls := "structure"
		if x.node != nil {
			switch x.node.Kind {
			case c13x.KNum:
				cls = "number:" + c13NumWantOf(x.node.Lit).class
			case c13x.KStr:
				cls = "string:" + c13StrClass(x.node)
			default:
				cls = x.node.Kind.String()
			}
		}
		w.Violation("decode-differs:"+m.String()+":"+cls, "load and the independent decoder disagree on the decoded structure: "+x.String(), detail(x.String()))
		return
	}
	if c.kept == nil && (di.hasArr || di.hasObj || doc.NStr > 0) {
		c.kept = &c13Kept{root: doc.Root, v: o.v, m: m, doc: dc.doc, name: dc.origin + " " + dc.name, form: form}
	}
	// a loaded value is itself a value of sorted maps, arrays, strings,
	// numbers, booleans and nil: dump must be faithful for it too (this is the
	// only route to the decoder's own map type, libjson.SortedMap)
	if !m.sn && c13Redump(dc.doc, m) {
		c13CheckRedump(w, c, dc, m, o.v, detail)
	}
}

// c13Redump selects (deterministically, from the document) which accepted
// documents get the dump-of-loaded-value check.
func c13Redump(doc []byte, m c13Mode) bool {
	h := fw.HashString(string(doc))
	if m.ei {
		h >>= 1
	}
	return h&1 == 0
}

// c13CheckRedump dumps a value that load returned and reads the dump back
// with the independent decoder.
func c13CheckRedump(w *fw.W, c *c13RT, dc c13DocCase, m c13Mode, lv *lisp.LVal, detail func(string) string) {
	c.set("c13-l", lv)
	t1, d1 := c.eval("(json:dump-string c13-l)")
	t2, d2 := c.eval("(json:dump-bytes c13-l)")
	w.Eval(2)
	w.Count("c13_redumps", 1)
	if t1.IsErr || t2.IsErr || d1.Type != lisp.LString || d2.Type != lisp.LBytes {
		w.Violation("redump-failed:"+m.String(), "json:dump failed on a value json:load returned", detail("dump: "+t1.Value+" / "+t2.Value))
		return
	}
	if d1.Str != string(d2.Bytes()) {
		w.Violation("redump-nondeterministic", "dump-string and dump-bytes of a loaded value differ", detail(c13Q(d1.Str)+"\n"+c13Q(string(d2.Bytes()))))
		return
	}
	doc := c13x.Parse([]byte(d1.Str))
	if !doc.Valid || !doc.UTF8 {
		w.Violation("redump-invalid-json", "the dump of a loaded value is not valid JSON", detail("dump: "+c13Q(d1.Str)+" "+doc.Err))
		return
	}
	if why, kind := c13CmpRedump(doc.Root, lv, "$"); why != "" {
		w.Violation("redump-"+kind, "the dump of a loaded value does not read back to it: "+why, detail("dump: "+c13Q(d1.Str)+"\n"+why))
		return
	}
	// and loading that dump in the same mode gives an equal? value
	kw := ""
	if m.ei {
		kw = " :exact-integers true"
	}
	t3, v3 := c.eval("(equal? c13-l (json:load-string (json:dump-string c13-l)" + kw + "))")
	w.Eval(1)
	if t3.IsErr || v3.Type != lisp.LSymbol || v3.Str != "true" {
		w.Violation("redump-load-not-equal?:"+m.String(), "(equal? l (json:load (json:dump l))) is not true for a loaded value l",
			detail("dump: "+c13Q(d1.Str)+"\n=> "+t3.Value))
		return
	}
	if fw.HashString(d1.Str)&2 == 0 {
		c13CheckRespelled(w, c, lv, d1.Str, detail)
	}
}

// c13NameClass names the family of an object name that came out of a document
// (the value side knows the family by construction, see c13GenKey).
func c13NameClass(name string) string {
	in := func(xs []string) bool {
		for _, x := range xs {
			if x == name {
				return true
			}
		}
		return false
	}
	switch {
	case name == "":
		return "empty"
	case in(c13JSONLiteralNames):
		return "json-literal"
	case in(c13LiteralLookalikeNames):
		return "literal-lookalike"
	}
	if _, ok := c13x.ParseNum(name); ok {
		return "number-lookalike"
	}
	seen := map[string]bool{}
	for _, ch := range c13SplitChars(name) {
		seen[c13CharClass(ch)] = true
	}
	for _, cl := range c13StrClassRank {
		if seen[cl] {
			return "string:" + cl
		}
	}
	return "string:ascii"
}

var c13NameClassRank = []string{"json-literal", "literal-lookalike", "number-lookalike", "empty"}

// c13CheckRespelled takes one object of a loaded value, writes its keys again
// as SYMBOLS of the same names -- the first through (assoc m 'k v), which
// copies the decoder's map into an ordinary sorted-map, the others in place --
// and dumps the result.  'k and "k" are the same key (docs/lang.md, "Sorted
// Maps": the spelling "is presentation only: it is not part of the key's
// identity"), so the map holds the same data and its dump must be a JSON text
// that reads back to it.
func c13CheckRespelled(w *fw.W, c *c13RT, lv *lisp.LVal, d1 string, detail func(string) string) {
	var maps []*lisp.LVal
	var find func(v *lisp.LVal)
	find = func(v *lisp.LVal) {
		if len(maps) >= 16 || v == nil {
			return
		}
		switch v.Type {
		case lisp.LSortMap:
			if v.Len() > 0 {
				maps = append(maps, v)
			}
			ents := v.MapEntries()
			if ents.Type != lisp.LError {
				for _, p := range ents.Cells {
					find(p.Cells[1])
				}
			}
		case lisp.LArray:
			if len(v.Cells) == 2 {
				for _, e := range v.Cells[1].Cells {
					find(e)
				}
			}
		}
	}
	find(lv)
	if len(maps) == 0 {
		return
	}
	h := fw.HashString(d1) >> 2
	m0 := maps[h%uint64(len(maps))]
	ents := m0.MapEntries()
	if ents.Type == lisp.LError || len(ents.Cells) == 0 || len(ents.Cells) > 64 {
		return
	}
	// the most token-like name goes through assoc
	first, firstRank := 0, len(c13NameClassRank)
	for i, p := range ents.Cells {
		if !c13x.ValidUTF8([]byte(p.Cells[0].Str)) {
			return
		}
		cl := c13NameClass(p.Cells[0].Str)
		for rk, x := range c13NameClassRank {
			if x == cl && rk < firstRank {
				first, firstRank = i, rk
			}
		}
	}
	if firstRank == len(c13NameClassRank) {
		first = int((h >> 8) % uint64(len(ents.Cells)))
	}
	name := ents.Cells[first].Cells[0].Str
	cls := c13NameClass(name)
	c.set("c13-m", m0)
	c.set("c13-k", lisp.Symbol(name))
	c.set("c13-kv", ents.Cells[first].Cells[1])
	t, m1 := c.eval("(assoc c13-m c13-k c13-kv)")
	w.Eval(1)
	w.Count("c13_respelled_redumps", 1)
	w.SetAdd("c13_respelled_name_classes", cls)
	if t.IsErr || m1.Type != lisp.LSortMap {
		// assoc itself is not C13's subject
		w.Count("c13_respell_assoc_failed", 1)
		return
	}
	respelled := []string{name}
	for i, p := range ents.Cells {
		if i != first && (h>>(16+uint(i%32)))&1 == 0 {
			if rc := m1.Map().Set(lisp.Symbol(p.Cells[0].Str), p.Cells[1]); rc != nil && rc.Type == lisp.LError {
				w.Count("c13_respell_assoc_failed", 1)
				return
			}
			respelled = append(respelled, p.Cells[0].Str)
		}
	}
	// blame: the family of the first re-written name that fails on its own as
	// the one-entry map {'name 1}
	blame := func() string {
		for _, nm := range respelled {
			one := &c13Val{kind: c13VMap, keys: []c13Key{{kind: c13KSym, name: nm}}, elems: []*c13Val{{kind: c13VInt, i: 1}}}
			if c13SingleBroken(c, one) {
				return c13NameClass(nm)
			}
		}
		return "composite"
	}
	c.set("c13-m1", m1)
	t1, dd := c.eval("(json:dump-string c13-m1)")
	w.Eval(1)
	what := fmt.Sprintf("object %s of the loaded value, key %s (and others) written again as a symbol via (assoc m 'k v)", c13Show(m0), c13Q(name))
	if t1.IsErr || dd.Type != lisp.LString {
		w.Violation("redump-respelled-failed:"+blame(), "json:dump failed on a loaded map after a key was re-written as a symbol", detail(what+"\ndump: "+t1.Value))
		return
	}
	doc := c13x.Parse([]byte(dd.Str))
	if !doc.Valid || !doc.UTF8 {
		w.Violation("redump-respelled-invalid-json:"+blame(), "the dump of a loaded map whose key was re-written as a symbol of the same name is not valid JSON",
			detail(what+"\ndump: "+c13Q(dd.Str)+" "+doc.Err))
		return
	}
	if why, kind := c13CmpRedump(doc.Root, m1, "$"); why != "" {
		w.Violation("redump-respelled-"+kind+":"+blame(), "the dump of a loaded map whose key was re-written as a symbol of the same name does not read back to it: "+why,
			detail(what+"\ndump: "+c13Q(dd.Str)+"\n"+why))
	}
}

// c13CmpRedump compares the independent decoding n of dump(l) with the lisp
// value l that load had returned.  It returns ("", "") when they agree.
func c13CmpRedump(n *c13x.Node, l *lisp.LVal, path string) (why, kind string) {
	bad := func(f string, a ...any) (string, string) {
		return "at " + path + ": " + fmt.Sprintf(f, a...), "differs:" + n.Kind.String()
	}
	switch {
	case l.IsNil():
		if n.Kind != c13x.KNull {
			return bad("nil written as %s", n.Kind)
		}
	case l.Type == lisp.LSymbol:
		if n.Kind != c13x.KBool || c13Bool(n.Bool) != l.Str {
			return bad("%s written as %s", l.Str, n.Kind)
		}
	case l.Type == lisp.LString:
		if n.Kind != c13x.KStr || n.Str != l.Str {
			return bad("string %s written so that it reads back as %s %s", c13Q(l.Str), n.Kind, c13Q(n.Str))
		}
	case l.Type == lisp.LInt:
		if n.Kind != c13x.KNum {
			return bad("int written as %s", n.Kind)
		}
		if ok, msg := c13NumLitIs(n.Lit, &c13Val{kind: c13VInt, i: int64(l.Int)}); !ok {
			return bad("int %d written as %s: %s", l.Int, n.Lit, msg)
		}
	case l.Type == lisp.LFloat:
		if n.Kind != c13x.KNum {
			return bad("float written as %s", n.Kind)
		}
		if ok, msg := c13NumLitIs(n.Lit, &c13Val{kind: c13VFloat, f: l.Float}); !ok {
			return bad("float %s written as %s: %s", c13FloatStr(l.Float), n.Lit, msg)
		}
	case l.Type == lisp.LArray:
		if n.Kind != c13x.KArr || len(l.Cells) != 2 || len(l.Cells[1].Cells) != len(n.Elems) {
			return bad("array of %d written as %s of %d", l.Len(), n.Kind, len(n.Elems))
		}
		for i, e := range n.Elems {
			if why, kind := c13CmpRedump(e, l.Cells[1].Cells[i], fmt.Sprintf("%s[%d]", path, i)); why != "" {
				return why, kind
			}
		}
	case l.Type == lisp.LSortMap:
		if n.Kind != c13x.KObj {
			return bad("map written as %s", n.Kind)
		}
		ents := l.MapEntries()
		if ents.Type == lisp.LError {
			return bad("map entries: %s", ents)
		}
		have := map[string]*lisp.LVal{}
		for _, p := range ents.Cells {
			have[p.Cells[0].Str] = p.Cells[1]
		}
		if len(n.Members) != len(have) {
			return bad("map of %d entries written with %d members", len(have), len(n.Members))
		}
		byteSorted, u16Sorted := true, true
		for i, mb := range n.Members {
			if i > 0 {
				a, b := n.Members[i-1].Key.Str, mb.Key.Str
				if !(a < b) {
					byteSorted = false
				}
				if !c13x.UTF16Less(a, b) {
					u16Sorted = false
				}
			}
		}
		if !byteSorted && !u16Sorted {
			return "at " + path + ": object names of a dumped loaded map are not in sorted order", "keys-unsorted"
		}
		for _, mb := range n.Members {
			lv, ok := have[mb.Key.Str]
			if !ok {
				return bad("member name %s is not a key of the loaded map", c13Q(mb.Key.Str))
			}
			if why, kind := c13CmpRedump(mb.Val, lv, path+"."+c13Q(mb.Key.Str)); why != "" {
				return why, kind
			}
		}
	default:
		return bad("loaded value of type %s", c13TypeName(l))
	}
	return "", ""
}

// c13KeyName is the stable part of a finding key for a document case: the
// origin or the full mutation name; for the generic origins (random bytes,
// byte noise, truncation) the recognizer's reason is appended so that
// different defects get different keys.
func c13KeyName(dc c13DocCase, doc *c13x.Doc) string {
	name := dc.name
	if name == "" {
		name = dc.origin
	}
	if doc != nil && !doc.Valid && (dc.origin == "bytes" || strings.HasPrefix(name, "nearmiss:byte-noise") || name == "nearmiss:truncated") {
		name += ":" + c13ErrClass(doc.Err)
	}
	if dc.sized != "" && dc.origin == "nearmiss" {
		name += ":sized:" + dc.sized
	}
	return name
}

var c13ErrClasses = []struct{ sub, class string }{
	{"trailing data", "trailing-data"},
	{"value expected", "value-expected"},
	{"bad literal", "bad-literal"},
	{"too deep", "too-deep"},
	{"end of input in array", "eof-in-array"},
	{"end of input in object", "eof-in-object"},
	{"in array,", "bad-array-separator"},
	{"member name expected", "member-name-expected"},
	{"':' expected", "colon-expected"},
	{"in object,", "bad-object-separator"},
	{"digit expected", "bad-number"},
	{"unterminated", "unterminated-string"},
	{"raw control", "raw-control-in-string"},
	{"escape", "bad-escape"},
}

func c13ErrClass(msg string) string {
	for _, e := range c13ErrClasses {
		if strings.Contains(msg, e.sub) {
			return e.class
		}
	}
	return "other"
}

// c13ShrinkReject finds the first leaf of a rejected valid document that is
// rejected on its own, and names its class.
func c13ShrinkReject(c *c13RT, src []byte, doc *c13x.Doc, m c13Mode) string {
	found := ""
	try := func(text string) bool {
		c.set("c13-doc", lisp.String(text))
		t, _ := c.load("load-string", m, "kw-min")
		return t.IsErr
	}
	var walk func(n *c13x.Node)
	walk = func(n *c13x.Node) {
		if found != "" {
			return
		}
		switch n.Kind {
		case c13x.KNum:
			if try(n.Lit) {
				found = "number:" + c13NumWantOf(n.Lit).class
			}
		case c13x.KStr:
			if try(string(src[n.Off:n.End])) {
				found = "string:" + c13StrClass(n)
			}
		case c13x.KArr:
			for _, e := range n.Elems {
				walk(e)
			}
		case c13x.KObj:
			for _, mb := range n.Members {
				walk(mb.Key)
				walk(mb.Val)
			}
		}
	}
	if doc.Root != nil {
		walk(doc.Root)
	}
	c.bindDoc(src)
	if found == "" {
		return "composite"
	}
	return found
}

func c13SortedKeys(m map[string]bool) []string {
	out := make([]string, 0, len(m))
	for k := range m {
		out = append(out, k)
	}
	sort.Strings(out)
	return out
}
