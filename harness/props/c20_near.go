package props

// C20 \u2014 near-equal names (layouts of c20x/sandbox/near.go).
//
// The near layouts put directories next to the root (and next to one of its
// ancestors) whose names are near-equal to the root's path components: letter
// case (ASCII, non-ASCII, across encoded lengths, full / Turkic mappings),
// Unicode normalisation and compatibility forms, what Windows trims from the
// end of a name, ignorable code points, 8.3 aliases, prefixes and suffixes.
// On the file system of the sandbox (probed: it distinguishes letter case,
// NFC from NFD and a trailing dot) these are different directories, so the
// fsmodel - which decides by real resolved paths - places their files outside
// the root and the oracle of the static loads applies unchanged.  This file
// holds the probe, the classification of an escape for the finding key, the
// evidence counters and the coverage floor of the family.

import (
	"errors"
	"fmt"
	"os"
	"sort"
	"strings"

	"verifharness/c20x/fsmodel"
	"verifharness/c20x/sandbox"
	"verifharness/fw"
)

var errC20NearNotApplicable = errors.New("the sandbox file system does not distinguish near-equal names")

// c20NearFSNote says why (set when errC20NearNotApplicable is returned).
var c20NearFSNote string

// c20NameInsensitive probes the file system below base: it returns "" when a
// name differing in letter case, in normalisation form or by a trailing dot
// denotes a different (here: missing) entry, and otherwise what the file
// system ignores.  On such a file system the twins of a near layout are not
// different directories and the family does not apply.
func c20NameInsensitive(base string) string {
	probes := []struct{ made, asked, what string }{
		{"c20probe-a", "C20PROBE-A", "letter case"},
		{"c20probe-\u00e9", "c20probe-e\u0301", "Unicode normalisation"},
		{"c20probe-t", "c20probe-t.", "a trailing dot"},
	}
	var ignored []string
	for _, p := range probes {
		if err := os.Mkdir(base+"/"+p.made, 0o755); err != nil {
			return "probe directory could not be made: " + err.Error()
		}
		if _, err := os.Lstat(base + "/" + p.asked); err == nil {
			ignored = append(ignored, p.what)
		}
		os.Remove(base + "/" + p.made)
	}
	if len(ignored) > 0 {
		return "the file system ignores " + strings.Join(ignored, ", ")
	}
	return ""
}

func c20PathComps(n *fsmodel.Node) []string {
	var out []string
	for c := n; c.Parent != c; c = c.Parent {
		out = append(out, c.Name)
	}
	for i, j := 0, len(out)-1; i < j; i, j = i+1, j-1 {
		out[i], out[j] = out[j], out[i]
	}
	return out
}

// c20NearOutside: served lies outside root, below a directory whose real path
// is the root's except for components that are near-equal (sandbox.NearClass)
// to the root's.  It returns the class of the first differing component and
// its position.  Names that merely extend or shorten the root's are left to
// the older shape "sibling-name-prefix".
func c20NearOutside(root, served *fsmodel.Node) (class, pos string) {
	if root.Parent == root || served.UnderOrSelf(root) {
		return "", ""
	}
	rc, sc := c20PathComps(root), c20PathComps(served)
	if len(sc) <= len(rc) {
		return "", ""
	}
	for i := range rc {
		if rc[i] == sc[i] {
			continue
		}
		cls := sandbox.NearClass(rc[i], sc[i])
		if cls == "" || cls == sandbox.NearPrefix {
			return "", ""
		}
		if class == "" {
			class, pos = cls, sandbox.NearPos(i, len(rc))
		}
	}
	return class, pos
}

// c20NearInside: the file served and a file that might have been served lie
// at paths that differ in near-equal components only (both inside the root).
func c20NearInside(ex c20Expect, served *fsmodel.Node) string {
	if served == nil {
		return ""
	}
	cands := make([]*fsmodel.Node, 0, len(ex.allowed)+1)
	for n := range ex.allowed {
		cands = append(cands, n)
	}
	if ex.mustServe != nil {
		cands = append(cands, ex.mustServe)
	}
	sort.Slice(cands, func(i, j int) bool { return cands[i].Path() < cands[j].Path() })
	sc := c20PathComps(served)
	for _, n := range cands {
		nc := c20PathComps(n)
		if n == served || len(nc) != len(sc) {
			continue
		}
		class := ""
		for i := range nc {
			if nc[i] == sc[i] {
				continue
			}
			cls := sandbox.NearClass(nc[i], sc[i])
			if cls == "" || cls == sandbox.NearPrefix {
				class = ""
				break
			}
			if class == "" {
				class = cls
			}
		}
		if class != "" {
			return ":near-equal-name:" + class
		}
	}
	return ""
}

// c20NearEvidence records what a near layout holds.
func c20NearEvidence(w *fw.W, l *sandbox.Layout) {
	w.Rec.Count("nearname_cases", 1)
	w.SetAdd("nearname_sandbox_fs", "distinguishes letter case, NFC from NFD and a trailing dot (probed in the sandbox directory)")
	for _, tw := range l.Twins {
		w.SetAdd("nearname_twin_classes", tw.Class+":"+tw.Pos)
		w.SetAdd("nearname_twins", fmt.Sprintf("%s: %q ~ %q (%s, %s)", l.Name, tw.Of, tw.Name, tw.Class, tw.Pos))
	}
	for _, p := range l.InsideTwins {
		w.SetAdd("nearname_twins_inside_root", l.Name+": "+fmt.Sprintf("%q", strings.TrimPrefix(p, l.RootRel+"/")))
	}
	cwd := "elsewhere"
	switch {
	case l.Cwd == l.Tree.Base:
		cwd = "sandbox"
	case l.Cwd == l.Root:
		cwd = "root"
	case l.Cwd.Under(l.Root):
		cwd = "below-root"
	case l.Root.Under(l.Cwd):
		cwd = "ancestor-of-root"
	default:
		for _, tw := range l.Twins {
			if l.CwdRel == tw.Rel {
				cwd = "near-equal-twin-of-root"
			}
		}
	}
	w.SetAdd("nearname_working_directories", cwd)
}

// nearCover counts a judged load whose location denotes (under either reading)
// a file below a near-equal twin of the configuration's root: class, position,
// the way the location gets there and the outcome.
func (ck *c20Checker) nearCover(lb *c20Lib, loc string, ex c20Expect, outcome string) {
	root := lb.rootOf(ck.l)
	for _, r := range []fsmodel.Res{ex.phy, ex.lex} {
		if r.Err != fsmodel.OK || r.Node.Kind != fsmodel.File || r.Node.UnderOrSelf(root) {
			continue
		}
		cls, pos := c20NearOutside(root, r.Node)
		if cls == "" {
			continue
		}
		how := "relative-without-dotdot"
		switch {
		case len(r.Links) > 0:
			how = "through-link"
		case strings.HasPrefix(loc, "/"):
			how = "absolute"
		case strings.Contains(loc, ".."):
			how = "dotdot-walk"
		}
		ck.rec.Count("nearname_loads:"+cls+":"+pos+":"+outcome, 1)
		ck.rec.Count("nearname_loads_reached:"+how+":"+outcome, 1)
		return
	}
}

// c20NearFloor is the coverage floor of the family: loads that denote a file
// below a near-equal twin were judged for enough classes at both positions and
// by every way of getting there - or the family did not apply at all.
func c20NearFloor(d *fw.D) {
	if d.Counters["nearname_cases"] == 0 {
		if d.Counters["nearname_cases_not_applicable"] > 0 {
			d.SetAdd("nearname_sandbox_fs", "NOT APPLICABLE: the sandbox file system does not distinguish near-equal names; the near layouts were skipped and their floor waived")
			return
		}
		d.Inconclusive("coverage floor of the near-equal-name layouts not met: no such case ran")
		return
	}
	combos := map[string]bool{}
	for k, v := range d.Counters {
		if v > 0 && strings.HasPrefix(k, "nearname_loads:") && strings.HasSuffix(k, ":refused") {
			combos[strings.TrimSuffix(strings.TrimPrefix(k, "nearname_loads:"), ":refused")] = true
		}
	}
	want := 8
	if d.Tier == "thorough" {
		want = 14
	}
	if len(combos) < want {
		d.Inconclusive(fmt.Sprintf("coverage floor of the near-equal-name layouts not met: refused loads of files below near-equal twins seen for %d (class, position) pairs < %d", len(combos), want))
	}
	for _, how := range []string{"absolute", "dotdot-walk", "through-link", "relative-without-dotdot"} {
		if d.Counters["nearname_loads_reached:"+how+":refused"] == 0 {
			d.Inconclusive("coverage floor of the near-equal-name layouts not met: no refused load reached a near-equal twin by way of " + how)
		}
	}
}
