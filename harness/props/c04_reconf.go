package props

import (
	"fmt"
	"strings"

	"github.com/luthersystems/elps/lisp"

	"verifharness/fw"
	"verifharness/rt"
)

// C04, limits reconfigured on a live runtime (round 9).
//
// Everywhere else in this check a limit is given once, through one route, before
// the runtime has evaluated anything.  An embedder does more than that with one
// long-lived runtime: it loads its own (trusted) definitions under the defaults and
// tightens a limit before it runs a request, loosens it again for a batch job,
// disables it, tightens it again after a request tripped it - and it has several
// documented ways of doing so: the With* Config values (given to InitializeUserEnv,
// or applied to the root environment later: a Config is a function of the
// environment), and plain assignment of the exported, doc-commented fields
// (Runtime.MaxEvalNesting, Runtime.MaxMacroExpansionDepth, Stack.MaxHeightPhysical,
// Stack.MaxTailIterations), before InitializeUserEnv or at any later time.  The
// step budget only has WithMaxSteps; the context has the root WithContext and the
// per-call *Context entry points.
//
// A case fixes one limit kind and plays a HISTORY on ONE runtime: a sequence of
// phases, each of which sets the limit (route and value vary from phase to phase)
// and then evaluates a program whose need is known: the program is first run on a
// twin runtime that stays at the defaults, where the hooks measure how much of the
// limited quantity it uses (deepest eval nesting, highest stack, loop turns,
// expansions, steps) and what it returns.  The value of the limit is then chosen
// RELATIVE to that need - just below (the program must end in the limit's error),
// exactly the need, just above, far above, the documented special values (0 =
// default or disabled, negative = disabled) - and when a phase loosens (tightens) a
// limit the program is grown (shrunk) so that its need lies between the old and the
// new maximum wherever that is possible: a maximum that did not take effect, in
// either direction, changes what happens.
//
// Oracles, all relative to the value configured at the time:
//   - at every push and every eval entry the hook reads the maximum back through the
//     public field / accessor (Stack.MaxHeightPhysical, MaxEvalNestingDepth()) and
//     the height / nesting must not exceed it;
//   - a program whose need exceeds the maximum ends in an ordinary error (uncaught:
//     an error value with the documented condition name where there is one; under
//     handler-bind: the handler's value; under ignore-errors: swallowed), and a small
//     probe program works afterwards;
//   - a program whose need is within the maximum (or whose limit is disabled / at its
//     large default) does exactly what it does on the twin;
//   - step budget and context: the step-stamped probe trace is the twin's cut at the
//     budget (at k-1), ending in step-limit-exceeded (context-cancelled at step k).
//
// Not judged (counted): tail-iteration and macro-expansion needs within the
// off-by-one zone the check's assumptions leave open; negative values where the
// documentation does not define them (only MaxEvalNesting does); MaxHeightLogical
// and MaxAlloc (not named by the property); a per-call context after the root
// context was cancelled.

type c04Knob struct {
	name   string
	routes []string // on a live runtime
	first  []string // step budget / context: the route of the first setting of a history
	zero   string   // documented meaning of 0: "default" or "disabled"
	neg    bool     // negative values are documented (as "disabled")
	slack  int      // need in (cap, cap+slack] is not judged (counter conventions left open)
	minV   int      // smallest maximum under which definitions, handlers and the probe program fit
	shapes []string
}

var c04Knobs = []c04Knob{
	{name: "nesting", routes: []string{"field", "config"}, zero: "default", neg: true, minV: 8,
		shapes: []string{"identity-tower", "recursion", "macro-generated", "recursion-in-let"}},
	{name: "physical", routes: []string{"field", "config"}, zero: "disabled", minV: 8,
		shapes: []string{"recursion", "mutual-recursion", "operator-tower", "recursion-in-callback"}},
	{name: "tail-iterations", routes: []string{"field", "config"}, zero: "disabled", slack: 1, minV: 1,
		shapes: []string{"loop", "loop-deep-body", "loop-below-chain"}},
	{name: "macro-expansion", routes: []string{"field", "config"}, zero: "default", slack: 2, minV: 1,
		shapes: []string{"re-expanding-macro"}},
	{name: "steps", routes: []string{"config"}, first: []string{"init-config", "config"}, zero: "disabled", minV: 1},
	{name: "context", routes: []string{"root", "per-call"}, first: []string{"root", "per-call"}},
}

const c04ReconfDefs = `(defun deep (n) (if (<= n 0) 0 (+ 1 (deep (- n 1)))))
(defun deep-let (n) (let ((m (- n 1))) (if (< m 0) 0 (let ((r (deep-let m))) (+ r 1)))))
(defun ev (n) (if (<= n 0) 0 (+ 1 (od (- n 1)))))
(defun od (n) (if (<= n 0) 0 (+ 1 (ev (- n 1)))))
(defmacro nest (n) (if (<= n 0) 1 (quasiquote (identity (nest (unquote (- n 1)))))))
(defun spin (n) (if (<= n 0) 'done (spin (- n 1))))
(defun spin-deep (n) (deep 25) (if (<= n 0) 'done (spin-deep (- n 1))))
(defun start (k n) (if (<= k 0) (spin n) (identity (start (- k 1) n))))
(defmacro cnt (n) (if (<= n 0) 7 (quasiquote (cnt (unquote (- n 1))))))
`

// c04RcSet sets one limit through one route on a live runtime.
func c04RcSet(env *lisp.LEnv, kind, route string, v int) string {
	if route == "config" {
		var c lisp.Config
		switch kind {
		case "nesting":
			c = lisp.WithMaxEvalNesting(v)
		case "physical":
			c = lisp.WithMaximumPhysicalStackHeight(v)
		case "tail-iterations":
			c = lisp.WithMaxTailIterations(v)
		case "macro-expansion":
			c = lisp.WithMaxMacroExpansionDepth(v)
		case "steps":
			c = lisp.WithMaxSteps(int64(v))
		}
		if rc := c(env); rc != nil && rc.Type == lisp.LError {
			return "the Config returned " + rc.String()
		}
		return ""
	}
	switch kind {
	case "nesting":
		env.Runtime.MaxEvalNesting = v
	case "physical":
		env.Runtime.Stack.MaxHeightPhysical = v
	case "tail-iterations":
		env.Runtime.Stack.MaxTailIterations = v
	case "macro-expansion":
		env.Runtime.MaxMacroExpansionDepth = v
	}
	return ""
}

// c04RcOpts builds the options of a runtime whose limit is set at construction.
func c04RcOpts(kind, route string, v int) rt.Opts {
	if route == "field-before-init" {
		return rt.Opts{PreInit: func(env *lisp.LEnv) { c04RcSet(env, kind, "field", v) }}
	}
	// init-config: the With* value among the arguments of InitializeUserEnv
	var c lisp.Config
	switch kind {
	case "nesting":
		c = lisp.WithMaxEvalNesting(v)
	case "physical":
		c = lisp.WithMaximumPhysicalStackHeight(v)
	case "tail-iterations":
		c = lisp.WithMaxTailIterations(v)
	case "macro-expansion":
		c = lisp.WithMaxMacroExpansionDepth(v)
	default:
		c = lisp.WithMaxSteps(int64(v))
	}
	return rt.Opts{Extra: []lisp.Config{c}}
}

// c04RcCap is the documented meaning of a configured value: the maximum in force, or
// none.
func c04RcCap(k *c04Knob, v int) (int, bool) {
	switch {
	case v > 0:
		return v, true
	case v == 0 && k.zero == "default":
		if k.name == "nesting" {
			return lisp.DefaultMaxEvalNesting, true
		}
		return lisp.DefaultMaxMacroExpansionDepth, true
	}
	return 0, false // 0 = disabled, or a documented negative value
}

// c04RcReadback compares what the public accessors / fields report with the
// documented meaning of the value just configured.
func c04RcReadback(env *lisp.LEnv, k *c04Knob, v int) string {
	rtm := env.Runtime
	limit, finite := c04RcCap(k, v)
	switch k.name {
	case "nesting":
		want := 0 // "a negative value disables the check and is reported as zero"
		if finite {
			want = limit
		}
		if got := rtm.MaxEvalNestingDepth(); got != want {
			return fmt.Sprintf("MaxEvalNestingDepth() = %d, documented meaning of %d is %d", got, v, want)
		}
	case "macro-expansion":
		if got := rtm.MaxMacroExpansions(); got != limit {
			return fmt.Sprintf("MaxMacroExpansions() = %d, documented meaning of %d is %d", got, v, limit)
		}
	case "physical":
		if got := rtm.Stack.MaxHeightPhysical; got != v {
			return fmt.Sprintf("Stack.MaxHeightPhysical = %d after configuring %d", got, v)
		}
	case "tail-iterations":
		if got := rtm.Stack.MaxTailIterations; got != v {
			return fmt.Sprintf("Stack.MaxTailIterations = %d after configuring %d", got, v)
		}
	case "steps":
		if got := lisp.VerifMaxSteps(rtm); got != int64(v) {
			return fmt.Sprintf("the step budget reads %d after WithMaxSteps(%d)", got, v)
		}
	}
	return ""
}

// c04RcProgram renders the program of a shape at size d (without its wrapper) and, for
// the kinds whose need is known by construction, that need.
func c04RcProgram(kind, shape string, d int) (src string, need int) {
	switch kind {
	case "nesting":
		switch shape {
		case "identity-tower":
			return strings.Repeat("(identity ", d) + "1" + strings.Repeat(")", d), 0
		case "recursion":
			return fmt.Sprintf("(deep %d)", d), 0
		case "recursion-in-let":
			return fmt.Sprintf("(deep-let %d)", d), 0
		default:
			return fmt.Sprintf("(nest %d)", d), 0
		}
	case "physical":
		switch shape {
		case "recursion":
			return fmt.Sprintf("(deep %d)", d), 0
		case "mutual-recursion":
			return fmt.Sprintf("(ev %d)", d), 0
		case "operator-tower":
			tower := "'done"
			for i := 0; i < d; i++ {
				switch i % 3 {
				case 0:
					tower = "(let ((a 1)) " + tower + ")"
				case 1:
					tower = "(progn 1 " + tower + ")"
				default:
					tower = "(if true " + tower + " 0)"
				}
			}
			return tower, 0
		default:
			return fmt.Sprintf("(first (map 'list (lambda (x) (deep x)) (list %d)))", d), 0
		}
	case "tail-iterations":
		switch shape {
		case "loop":
			return fmt.Sprintf("(spin %d)", d), d
		case "loop-deep-body":
			return fmt.Sprintf("(spin-deep %d)", d), d
		default:
			return fmt.Sprintf("(start 40 %d)", d), d
		}
	default: // macro-expansion: (cnt e) is expanded e+1 times in a row
		return fmt.Sprintf("(cnt %d)", d), d + 1
	}
}

func c04RcWrap(kind, catch, prog string) string {
	switch catch {
	case "handler-bind":
		c := "condition"
		if kind == "nesting" {
			c = "eval-nesting-exceeded"
		}
		return "(handler-bind ((" + c + " (lambda (c &rest a) (list 'caught c)))) " + prog + ")\n"
	case "ignore-errors":
		return "(or (ignore-errors " + prog + ") 'swallowed)\n"
	}
	return prog + "\n"
}

// c04RcClasses: where the configured value lies relative to the program's need.
var c04RcNear = []string{"below", "below", "exact", "above"}
var c04RcFar = []string{"loose", "zero", "negative"}

type c04RcHist struct {
	w       *fw.W
	k       *c04Knob
	r       *fw.RNG
	rut     *rt.R
	twin    *rt.R
	evals   int // top-level evaluations the runtime under test has made
	caught  bool
	prevV   int
	prevSet bool
	log     []string
	defNeed c04RcNeed
}

type c04RcNeed struct{ nest, height int }

func (h *c04RcHist) when() string {
	switch {
	case h.evals == 0:
		return "before-first-evaluation"
	case h.caught:
		return "after-a-limit-error"
	}
	return "after-evaluation"
}

func (h *c04RcHist) detail(extra string) string {
	return "history on one runtime (" + h.k.name + "):\n  " + strings.Join(h.log, "\n  ") + "\n" + extra
}

// measure runs src on the twin (defaults) and returns what it uses and does.
func (h *c04RcHist) measure(src string) (c04RcNeed, rt.Transcript) {
	m := &c04Mon{}
	c04Cur = m
	t := h.twin.Run("c04-twin", src)
	c04Cur = nil
	h.w.Eval(1)
	return c04RcNeed{nest: m.maxNest, height: m.maxHeight}, t
}

func (n c04RcNeed) of(kind string) int {
	if kind == "nesting" {
		return n.nest
	}
	return n.height
}

// run evaluates src on the runtime under test with the live hook assertions on.
func (h *c04RcHist) run(src string) (rt.Transcript, *c04Mon) {
	m := &c04Mon{live: true}
	c04Cur = m
	t := h.rut.Run("c04", src)
	c04Cur = nil
	h.evals++
	h.w.Eval(1)
	h.w.Count("reconf_live_hook_assertions", m.liveChecks)
	return t, m
}

// c04Reconf plays one history.  Case c of the family: kind c mod 6.
func c04Reconf(w *fw.W, idx int) {
	c := idx / 7
	n := len(c04Knobs)
	// two histories per case: kind c mod 6 in round c/6, and the kind three further on in
	// a round whose first setting is made another way
	for j, at := range [][2]int{{c % n, c / n}, {(c + n/2) % n, c/n + 5}} {
		k := &c04Knobs[at[0]]
		r := w.RNG(idx, fmt.Sprint("reconf", j))
		switch k.name {
		case "steps", "context":
			c04ReconfTrace(w, r, k, at[1])
		default:
			c04ReconfStack(w, r, k, at[1])
		}
	}
}

// c04ReconfStack: nesting, physical height, tail iterations, macro expansions.
func c04ReconfStack(w *fw.W, r *fw.RNG, k *c04Knob, round int) {
	h := &c04RcHist{w: w, k: k, r: r}
	h.twin = rt.New(rt.Opts{})
	var dt rt.Transcript
	h.defNeed, dt = h.measure(c04ReconfDefs)
	if dt.IsErr {
		w.Violation("reconf-definitions-failed", dt.Cond+" "+dt.Msg, c04ReconfDefs)
		return
	}
	minV := k.minV
	if n := h.defNeed.of(k.name) + 2; (k.name == "nesting" || k.name == "physical") && n > minV {
		minV = n
	}
	phases := pick(w.Tier, 5, 9)
	dmax := pick(w.Tier, 40, 120)
	// the first setting: at construction, or on a runtime that has evaluated 0, 1 or
	// several programs (the combinations are stratified over the rounds of the family,
	// the ones on a live runtime first)
	combos := []struct {
		first string
		warm  int
	}{{"field", 1}, {"init-config", 0}, {"config", 3}, {"field-before-init", 0}, {"field", 0}, {"config", 1}, {"field", 3}, {"config", 0}, {"field", 2}, {"config", 2}}
	combo := combos[round%len(combos)]
	first, warm := combo.first, combo.warm
	if first == "field" || first == "config" {
		h.rut = rt.New(rt.Opts{})
		h.log = append(h.log, "runtime built with the defaults")
		if warm > 0 {
			if !h.loadDefs() {
				return
			}
			for i := 1; i < warm; i++ {
				if !h.warmUp(fmt.Sprintf("(deep %d)\n", 3+i)) {
					return
				}
			}
		}
	}
	far := r.Bool() // histories alternate between values near the need and far from it
	var classes []string
	for i := 0; i < phases; i++ {
		route := first
		if j := len(classes); j > 0 {
			// the route changes every second phase, the distance of the value (near the
			// need / far from it) mostly every phase: every route meets both
			route = k.routes[(round+(j+1)/2)%len(k.routes)]
		}
		var class string
		for {
			if far {
				class = fw.Pick(r, c04RcFar)
			} else {
				class = fw.Pick(r, c04RcNear)
			}
			if class == "negative" && !k.neg {
				continue
			}
			break
		}
		if !r.Chance(1, 5) {
			far = !far
		}
		shape := fw.Pick(r, k.shapes)
		catch := fw.Pick(r, []string{"none", "handler-bind", "ignore-errors"})
		d := r.Range(5, dmax)
		if class == "zero" && k.zero == "default" && h.rut != nil && r.Chance(1, 3) && (k.name == "macro-expansion" || w.Tier == "thorough" && r.Chance(1, 8)) {
			// 0 means the DEFAULT maximum, not "none": raise the maximum above the default,
			// then go back to 0 with a program that needs more than the default
			if !h.defaultRestored(route, catch) {
				return
			}
			classes = append(classes, "raised-above-default>zero-restores-default")
			continue
		}
		// the program, its need on the twin, and - when the limit is being loosened
		// (tightened) - a need between the maximum in force so far and the new one
		var src string
		var need int
		var tw rt.Transcript
		oldCap, oldFinite := 0, false
		if h.prevSet {
			oldCap, oldFinite = c04RcCap(k, h.prevV)
		} else if k.name == "nesting" || k.name == "macro-expansion" {
			oldCap, oldFinite = c04RcCap(k, 0)
		}
		binding := class == "below"
		// programs stay far below the defaults, which bound the twin as well
		ceil := map[string]int{"nesting": 2500, "physical": 2500, "tail-iterations": 5000, "macro-expansion": 600}[k.name]
		for try := 0; ; try++ {
			prog, byConstruction := c04RcProgram(k.name, shape, d)
			src = c04RcWrap(k.name, catch, prog)
			var nd c04RcNeed
			nd, tw = h.measure(src)
			need = byConstruction
			if need == 0 {
				need = nd.of(k.name)
			}
			if c04RcFailed(tw) || try >= 8 || !oldFinite {
				break
			}
			if binding && need > oldCap && d > 5 {
				d = (d + 5) / 2 // shrink: the old maximum would have admitted it
				continue
			}
			if !binding && need <= oldCap && oldCap < ceil {
				d = d*2 + 3 // grow: the old maximum would have refused it
				continue
			}
			break
		}
		between := "no"
		switch {
		case !oldFinite && binding:
			between = "tightened:old-maximum-disabled"
		case oldFinite && binding && need <= oldCap:
			between = "tightened:need-within-old-maximum"
		case oldFinite && !binding && need > oldCap:
			between = "loosened:need-above-old-maximum"
		}
		if c04RcFailed(tw) {
			w.Count("reconf_program_fails_on_the_twin(not judged)", 1)
			h.log = append(h.log, "skipped "+strings.TrimSpace(src)+": on the twin "+tw.Outcome())
			continue
		}
		var v int
		switch class {
		case "below":
			v = need - k.slack - 1 - r.Intn(4)
		case "exact":
			v = need
		case "above":
			v = need + 1 + r.Intn(3)
		case "loose":
			v = 3*need + 50
		case "zero":
			v = 0
		default:
			v = -1 - r.Intn(3)
		}
		if v > 0 && v < minV {
			v = minV
		}
		if class == "below" && v <= 0 {
			v = minV
		}
		classes = append(classes, class)
		when := h.when()
		// configure
		if h.rut == nil {
			h.rut = rt.New(c04RcOpts(k.name, route, v))
			h.log = append(h.log, fmt.Sprintf("runtime built with %s = %d (%s)", k.name, v, route))
		} else {
			if bad := c04RcSet(h.rut.Env, k.name, route, v); bad != "" {
				w.Violation("reconf-config-failed:"+k.name, bad, h.detail(""))
				return
			}
			h.log = append(h.log, fmt.Sprintf("%s := %d through %s (%s; %s of a program needing %d)", k.name, v, route, when, class, need))
		}
		if bad := c04RcReadback(h.rut.Env, k, v); bad != "" {
			w.Violation("configured-limit-reads-back-differently:"+k.name+":"+route, bad, h.detail(""))
			return
		}
		h.prevV, h.prevSet = v, true
		if h.evals == 0 {
			// definitions are loaded under the limit just configured
			if !h.loadDefs() {
				return
			}
		}
		w.SetAdd("reconf_kind_route_when", k.name+" "+route+" "+when)
		w.SetAdd("reconf_value_classes", k.name+" "+class+" between-old-and-new="+between)
		if strings.HasPrefix(between, "tightened") || strings.HasPrefix(between, "loosened") {
			w.Count("reconf_phases_with_need_between_old_and_new_maximum", 1)
		}
		if !h.judgedAgainst(class, route, when, shape, catch, src, need, tw) {
			return
		}
		w.Count("reconf_phases_judged:"+k.name, 1)
		if route == "field" && when != "before-first-evaluation" {
			w.Count("reconf_field_assigned_on_a_live_runtime:"+k.name, 1)
		}
	}
	w.SetAdd("reconf_histories", k.name+": "+first+fmt.Sprintf("+%d-evaluations ", warm)+strings.Join(classes, ">"))
	if round == 0 {
		w.SetAdd("reconf_example_histories", k.name+": "+strings.Join(h.log, " | "))
	}
}

// loadDefs loads the definitions on the runtime under test; they fit under every
// maximum the family configures (minV), so they must load.
func (h *c04RcHist) loadDefs() bool {
	t, m := h.run(c04ReconfDefs)
	h.log = append(h.log, "definitions loaded => "+t.Outcome())
	if m.liveBad != "" {
		h.w.Violation("reconfigured-limit-exceeded:"+m.liveWhat+":while-loading-definitions", m.liveBad, h.detail(c04ReconfDefs))
		return false
	}
	if t.IsErr {
		h.w.Violation("reconf-definitions-refused:"+h.k.name, fmt.Sprintf("definitions needing nesting %d / %d frames failed under %s = %d: %s %s", h.defNeed.nest, h.defNeed.height, h.k.name, h.prevV, t.Cond, t.Msg), h.detail(c04ReconfDefs))
		return false
	}
	return true
}

// defaultRestored: with a maximum above the default a program needing more than the
// default runs (its value is known by construction: the twin, bound by the default,
// cannot run it); back at 0 the default is in force again and the same program must end
// in the limit's error.
func (h *c04RcHist) defaultRestored(route, catch string) bool {
	w, k := h.w, h.k
	def, _ := c04RcCap(k, 0)
	var prog, want string
	var need int
	if k.name == "macro-expansion" {
		e := def + 2 + h.r.Intn(40)
		prog, need, want = fmt.Sprintf("(cnt %d)", e), e+1, "7"
	} else {
		// evaluator nesting of a macro-generated tower, measured on a twin whose nesting
		// check is disabled
		d := def + 10 + h.r.Intn(200) // one level of nesting per level of the tower
		prog, want = fmt.Sprintf("(nest %d)", d), "1"
		free := rt.New(rt.Opts{MaxNest: -1})
		free.Run("defs", c04ReconfDefs)
		m := &c04Mon{}
		c04Cur = m
		ft := free.Run("c04-twin", c04RcWrap(k.name, catch, prog))
		c04Cur = nil
		w.Eval(1)
		need = m.maxNest
		if ft.Outcome() != want || need <= def {
			w.Count("reconf_default_restored_program_unsuitable(not judged)", 1)
			return true
		}
	}
	src := c04RcWrap(k.name, catch, prog)
	for step, v := range []int{need + 100 + h.r.Intn(100), 0} {
		when := h.when()
		if bad := c04RcSet(h.rut.Env, k.name, route, v); bad != "" {
			w.Violation("reconf-config-failed:"+k.name, bad, h.detail(""))
			return false
		}
		h.log = append(h.log, fmt.Sprintf("%s := %d through %s (%s; the default is %d, the program needs %d)", k.name, v, route, when, def, need))
		if bad := c04RcReadback(h.rut.Env, k, v); bad != "" {
			w.Violation("configured-limit-reads-back-differently:"+k.name+":"+route, bad, h.detail(""))
			return false
		}
		h.prevV, h.prevSet = v, true
		if h.evals == 0 && !h.loadDefs() {
			return false
		}
		tw := rt.Transcript{Value: want}
		if !h.judgedAgainst([]string{"raised-above-default", "zero-restores-default"}[step], route, when, "needs-more-than-the-default", catch, src, need, tw) {
			return false
		}
		w.Count("reconf_phases_judged:"+k.name, 1)
		w.Count("reconf_default_restored_phases:"+k.name, 1)
		w.SetAdd("reconf_kind_route_when", k.name+" "+route+" "+when)
	}
	return true
}

// warmUp runs a small program before any limit was configured: it must do what it
// does on the twin.
func (h *c04RcHist) warmUp(src string) bool {
	_, tw := h.measure(src)
	t, m := h.run(src)
	h.log = append(h.log, strings.TrimSpace(src)+" => "+t.Outcome())
	if m.liveBad != "" {
		h.w.Violation("reconfigured-limit-exceeded:"+m.liveWhat+":warm-up", m.liveBad, h.detail(src))
		return false
	}
	if t.Outcome() != tw.Outcome() {
		h.w.Violation("reconf-warm-up-differs:"+h.k.name, "on the twin "+tw.Outcome()+", on the runtime under test "+t.Outcome()+" "+t.Msg, h.detail(src))
		return false
	}
	return true
}

// judgedAgainst runs the phase's program under the maximum just configured.
func (h *c04RcHist) judgedAgainst(class, route, when, shape, catch, src string, need int, tw rt.Transcript) bool {
	w, k := h.w, h.k
	limit, finite := c04RcCap(k, h.prevV)
	h.caught = false
	t, m := h.run(src)
	h.log = append(h.log, fmt.Sprintf("  %s => %s (on the twin %s; nesting reached %d, stack %d)", strings.TrimSpace(c04RcShort(src)), t.Outcome(), tw.Outcome(), m.maxNest, m.maxHeight))
	class3 := k.name + ":" + route + ":" + when
	detail := func() string {
		return h.detail(fmt.Sprintf("program (%s, %s): %s\nneeds %d; configured %d (maximum in force: %s)\non the twin: %s\non the runtime under test: %s %s", shape, catch, strings.TrimSpace(src), need, h.prevV, c04RcCapString(limit, finite), tw.Outcome(), t.Outcome(), t.Msg))
	}
	if m.liveBad != "" {
		w.Violation("reconfigured-limit-exceeded:"+m.liveWhat+":"+route+":"+when, m.liveBad+fmt.Sprintf(" (%s configured to %d through %s, %s)", k.name, h.prevV, route, when), detail())
		return false
	}
	failed := c04RcFailed(t)
	outcome := "as-on-the-twin"
	switch {
	case !finite || need <= limit:
		// not binding: exactly what the twin does
		if failed && !t.Panic {
			w.Violation("limit-error-under-a-maximum-that-admits-the-program:"+class3,
				fmt.Sprintf("%s = %d (%s): a program needing %d ended in %s %s", k.name, h.prevV, c04RcCapString(limit, finite), need, t.Outcome(), t.Msg), detail())
			return false
		}
		if t.Outcome() != tw.Outcome() {
			w.Violation("non-binding-limit-changes-outcome:"+class3, "twin "+tw.Outcome()+" vs "+t.Outcome(), detail())
			return false
		}
	case need > limit+k.slack:
		outcome = "limit-error"
		h.caught = true
		if !failed {
			w.Violation("reconfigured-limit-not-enforced:"+class3,
				fmt.Sprintf("%s = %d: a program needing %d completed with %s", k.name, h.prevV, need, t.Outcome()), detail())
			return false
		}
		if t.Panic {
			w.Violation("reconfigured-limit-error-is-a-panic:"+class3, t.Msg, detail())
			return false
		}
		if t.IsErr && catch != "none" {
			w.Violation("reconfigured-limit-not-catchable:"+class3, fmt.Sprintf("under %s the evaluation still ended in %s %s", catch, t.Cond, t.Msg), detail())
			return false
		}
		if k.name == "nesting" && (t.IsErr && t.Cond != "eval-nesting-exceeded" || catch == "handler-bind" && t.Value != "'('caught 'eval-nesting-exceeded)") {
			w.Violation("reconfigured-limit-wrong-condition:"+class3, t.Outcome()+" "+t.Msg, detail())
			return false
		}
		// the error really came from reaching the maximum
		if k.name == "nesting" && m.maxNest < limit || k.name == "physical" && m.maxHeight < limit {
			w.Violation("reconfigured-limit-premature:"+class3, fmt.Sprintf("%s = %d: the error was raised although only %d was reached", k.name, limit, map[bool]int{true: m.maxNest, false: m.maxHeight}[k.name == "nesting"]), detail())
			return false
		}
		// usable afterwards, as far as the probe program fits under the maximum
		un, utw := h.measure(c04Usable)
		uneed := map[string]int{"nesting": un.nest, "physical": un.height, "tail-iterations": 11, "macro-expansion": 1}[k.name]
		if uneed <= limit && !utw.IsErr {
			ut, um := h.run(c04Usable)
			if um.liveBad != "" {
				w.Violation("reconfigured-limit-exceeded:"+um.liveWhat+":"+route+":probe-program-after-a-limit-error", um.liveBad, detail())
				return false
			}
			if ut.Outcome() != utw.Outcome() {
				w.Violation("runtime-unusable-after-reconfigured-limit:"+class3, "the probe program gave "+ut.Outcome()+" "+ut.Msg+", on the twin "+utw.Outcome(), detail())
				return false
			}
			w.Count("reconf_usable_after_limit_error", 1)
		}
	default:
		outcome = "off-by-one-zone"
		w.Count("reconf_need_in_off_by_one_zone(not judged)", 1)
	}
	w.CoverKey(fmt.Sprintf("reconf|%s|%s|%s|%s|%s|%s|%s", k.name, route, when, class, shape, catch, outcome))
	w.Max("reconf_max_need:"+k.name, int64(need))
	return true
}

// c04RcFailed: the evaluation ended in an error (returned, handled or swallowed).
func c04RcFailed(t rt.Transcript) bool {
	return t.IsErr || strings.HasPrefix(t.Value, "'('caught") || t.Value == "'swallowed"
}

func c04RcCapString(limit int, finite bool) string {
	if !finite {
		return "none"
	}
	return fmt.Sprint(limit)
}

func c04RcShort(s string) string {
	if len(s) > 160 {
		return s[:70] + " ... " + s[len(s)-70:]
	}
	return s
}

// c04RcTemplates: the self-contained templates without an error-swallowing form.
var c04RcTemplates = []int{0, 1, 2, 3, 4, 5, 6, 7, 11, 12, 13}

// c04ReconfTrace: the step budget and the context, decided by the step-stamped trace.
func c04ReconfTrace(w *fw.W, r *fw.RNG, k *c04Knob, round int) {
	h := &c04RcHist{w: w, k: k, r: r}
	h.twin = rt.New(rt.Opts{})
	phases := pick(w.Tier, 6, 10)
	first := k.first[round%len(k.first)]
	var root *scriptedCtx
	if k.name == "context" {
		root = newScriptedCtx(0)
		h.rut = rt.New(rt.Opts{Ctx: root})
		h.log = append(h.log, "runtime built with a root WithContext (not cancelled)")
	} else if first == "config" {
		h.rut = rt.New(rt.Opts{})
		h.log = append(h.log, "runtime built with the defaults")
		for i := 0; i < []int{0, 1, 3}[(round/len(k.first))%3]; i++ {
			p := c04Template(r, fw.Pick(r, c04RcTemplates))
			h.twin.Run("warm", p.src)
			t, _ := h.run(p.src)
			h.log = append(h.log, "warm-up "+p.name+" => "+t.Outcome())
		}
	}
	rootCancelled := false
	var classes []string
	for i := 0; i < phases; i++ {
		p := c04Template(r, fw.Pick(r, c04RcTemplates))
		m0 := &c04Mon{}
		c04Cur = m0
		tw := h.twin.RunCtx(newScriptedCtx(0), "c04-twin", p.src)
		c04Cur = nil
		w.Eval(1)
		N := tw.Steps
		if N < 4 || N > 20000 || c02LimitErr(tw) || m0.badStep != "" {
			w.Count("reconf_program_skipped", 1)
			continue
		}
		when := h.when()
		var t rt.Transcript
		var mon *c04Mon
		var cut int64 = -1 // the trace must be the twin's up to this stamp; -1: all of it
		var wantCond, route, class string
		counted := true
		if k.name == "steps" {
			route = "config"
			if h.rut == nil {
				route = "init-config"
			}
			class = fw.Pick(r, []string{"below", "below", "exact", "above", "loose", "zero"})
			var v int64
			switch class {
			case "below":
				v = 1 + int64(r.Intn(int(N-1)))
			case "exact":
				v = N
			case "above":
				v = N + 1 + int64(r.Intn(3))
			case "loose":
				v = 3*N + 50
			}
			if h.rut == nil {
				h.rut = rt.New(c04RcOpts("steps", route, int(v)))
				h.log = append(h.log, fmt.Sprintf("runtime built with WithMaxSteps(%d)", v))
			} else {
				if bad := c04RcSet(h.rut.Env, "steps", "config", int(v)); bad != "" {
					w.Violation("reconf-config-failed:steps", bad, h.detail(""))
					return
				}
				h.log = append(h.log, fmt.Sprintf("WithMaxSteps(%d) applied (%s; %s of a program needing %d)", v, when, class, N))
			}
			if bad := c04RcReadback(h.rut.Env, k, int(v)); bad != "" {
				w.Violation("configured-limit-reads-back-differently:steps:"+route, bad, h.detail(""))
				return
			}
			h.prevV, h.prevSet = int(v), true
			if v > 0 && v < N {
				cut, wantCond = v, "step-limit-exceeded"
			}
			counted = v > 0
			t, mon = h.run(p.src)
		} else {
			route = k.routes[(round+i+r.Intn(2))%2]
			if i == 0 {
				route = first
			}
			class = fw.Pick(r, []string{"never", "cancel", "never"})
			if route == "root" {
				class = "never"
			}
			if i >= phases-2 {
				// the root context is cancelled once, late; afterwards every evaluation
				// under it stops at its first step
				route, class = "root", "cancel"
			}
			var kk int64
			if class == "cancel" {
				kk = 1 + int64(r.Intn(int(N)))
			}
			if route == "root" {
				switch {
				case rootCancelled:
					kk, class = 1, "already-cancelled"
				case class == "cancel":
					root.at = root.calls + int(kk)
					rootCancelled = true
				}
				h.log = append(h.log, fmt.Sprintf("plain entry point under the root context (%s, k=%d)", class, kk))
				t, mon = h.run(p.src)
			} else {
				h.log = append(h.log, fmt.Sprintf("LoadStringContext under a context of its own (%s, k=%d)", class, kk))
				m := &c04Mon{live: true}
				c04Cur = m
				t = h.rut.RunCtx(newScriptedCtx(int(kk)), "c04", p.src)
				c04Cur = nil
				h.evals++
				w.Eval(1)
				mon = m
			}
			if kk > 0 {
				cut, wantCond = kk-1, "context-cancelled"
			}
			h.prevV = int(kk)
		}
		classes = append(classes, route+"/"+class)
		h.log = append(h.log, fmt.Sprintf("  %s (N=%d) => %s after %d steps", p.name, N, t.Outcome(), t.Steps))
		class3 := k.name + ":" + route + ":" + when
		detail := func() string {
			return h.detail(fmt.Sprintf("program %s:\n%s\non the twin (N=%d): %s\n  trace %s\non the runtime under test: %s %s after %d steps\n  trace %s", p.name, p.src, N, tw.Outcome(), c04Stamped(tw.Trace), t.Outcome(), t.Msg, t.Steps, c04Stamped(t.Trace)))
		}
		if mon.badStep != "" {
			w.Violation("step-counter-not-monotone:reconfigured:"+class3, mon.badStep, detail())
			return
		}
		outcome := "complete"
		h.caught = false
		if cut >= 0 {
			outcome = wantCond
			h.caught = true
			if got, want := c04Stamped(t.Trace), c04TraceUpTo(tw.Trace, cut); got != want {
				w.Violation("reconfigured-limit-trace-not-a-prefix:"+class3, fmt.Sprintf("what ran is not the unlimited run cut at step %d", cut), detail())
				return
			}
			if !t.IsErr || t.Cond != wantCond {
				w.Violation("reconfigured-limit-not-enforced:"+class3, fmt.Sprintf("expected %s, got %s %s", wantCond, t.Outcome(), t.Msg), detail())
				return
			}
			if k.name == "steps" && t.Steps < cut || k.name == "context" && t.Steps != cut+1 {
				w.Violation("reconfigured-limit-step-count:"+class3, fmt.Sprintf("the evaluation ended with the counter reading %d", t.Steps), detail())
				return
			}
		} else {
			got, want := t.TraceString(), tw.TraceString()
			if counted {
				got, want = c04Stamped(t.Trace), c04Stamped(tw.Trace)
			}
			if t.IsErr && (t.Cond == "step-limit-exceeded" || t.Cond == "context-cancelled") {
				w.Violation("limit-error-under-a-maximum-that-admits-the-program:"+class3, fmt.Sprintf("a program needing %d steps ended in %s (%s)", N, t.Cond, h.log[len(h.log)-2]), detail())
				return
			}
			if got != want || t.Outcome() != tw.Outcome() {
				w.Violation("non-binding-limit-changes-outcome:"+class3, "twin "+tw.Outcome()+" vs "+t.Outcome(), detail())
				return
			}
		}
		w.SetAdd("reconf_kind_route_when", k.name+" "+route+" "+when)
		w.Count("reconf_phases_judged:"+k.name, 1)
		w.CoverKey(fmt.Sprintf("reconf|%s|%s|%s|%s|%s|%s", k.name, route, when, class, p.name, outcome))
		w.Max("reconf_max_need:"+k.name, N)
	}
	w.SetAdd("reconf_histories", k.name+": "+strings.Join(classes, ">"))
	if round == 0 {
		w.SetAdd("reconf_example_histories", k.name+": "+strings.Join(h.log, " | "))
	}
}

// c04Driver: the coverage floor of the reconfiguration family.
func c04Driver(d *fw.D) {
	for _, k := range c04Knobs {
		if d.Counters["reconf_phases_judged:"+k.name] == 0 {
			d.Inconclusive("limits reconfigured on a live runtime: no phase judged for " + k.name)
		}
	}
	for _, kind := range []string{"nesting", "physical", "tail-iterations", "macro-expansion"} {
		if d.Counters["reconf_field_assigned_on_a_live_runtime:"+kind] == 0 {
			d.Inconclusive("limits reconfigured on a live runtime: the exported field of " + kind + " was never assigned after an evaluation")
		}
	}
	if d.Counters["reconf_phases_with_need_between_old_and_new_maximum"] == 0 {
		d.Inconclusive("limits reconfigured on a live runtime: no program had a need between the old and the new maximum")
	}
	c04LongDriver(d)
}
