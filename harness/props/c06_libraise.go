package props

import (
	"fmt"
	"regexp"
	"sort"
	"strings"

	"github.com/luthersystems/elps/lisp"

	"verifharness/fw"
	"verifharness/rt"
)

// C06, round 10: errors raised by the library itself.
//
// Every raise site of the generated trees is one of a dozen callees the harness knows
// (error, verif:fail, car / + / cons on bad arguments, an unbound name, a panicking host
// function).  The property is about ANY error a body form signals, and by far most
// errors a program meets are raised by a registered function rejecting its arguments:
// each of the ~230 builtins builds its error values itself.  What the handler is handed
// is what that builtin put into the error, so "is called with the condition name and the
// error's data, and its value becomes the value of that handler-bind" holds only if
// every one of them builds an error whose data are ordinary values.  (Side finding of the
// round-9 seeding agent for C06: `aref` wraps an error VALUE as the datum of its
// out-of-bounds error; a handler that so much as mentions its parameter re-raises it.)
//
// The family takes the raise site from the registry: one case = one registered function
// x one arity, argument tuples drawn from a pool of spellings until a call fails with an
// ordinary error.  The failing call is then put under every handling form, and next to it
// a CONTROL: the same form around `(error 'COND 1 .. n)` with the condition name and the
// number of data the library error carries.  Nothing knows what the function should do;
// the oracle is that a library-raised error is handled exactly like one raised by
// `error` - the handler's value comes back, a binding by name matches, an unmatched one
// does not, ignore-errors gives (), the forms after the failing one do not run, and
// rethrow delivers the same condition and data to the next handler and to the host.

func c06LibCases(tier string) int { return pick(tier, 1400, 60000) }

type c06LibFun struct {
	pkg, name string
	nformals  int
}

var c06LibFuns []c06LibFun

func c06LibRegistry() []c06LibFun {
	if c06LibFuns != nil {
		return c06LibFuns
	}
	r := rt.New(rt.Opts{})
	reg := r.Env.Runtime.Registry
	names := reg.PackageNames()
	sort.Strings(names)
	for _, pn := range names {
		if pn == "verif" || pn == "user" {
			continue
		}
		p := reg.Package(pn)
		sns := p.SymbolNames()
		sort.Strings(sns)
		for _, sn := range sns {
			v, _ := p.Symbol(sn)
			if v == nil || v.Type != lisp.LFun || v.FunType != lisp.LFunNone {
				continue
			}
			if pn != "lisp" && !c03Exported(p, sn) {
				continue
			}
			if sn == "sleep" || sn == "rethrow" || sn == "error" {
				// sleep would sleep; rethrow and error are the raise sites of the main family
				continue
			}
			f := c06LibFun{pkg: pn, name: sn}
			for _, fs := range v.Cells[0].Cells {
				if !strings.HasPrefix(fs.Str, "&") {
					f.nformals++
				}
			}
			c06LibFuns = append(c06LibFuns, f)
		}
	}
	return c06LibFuns
}

// argument spellings: source text, so that a finding replays from its sample alone
var c06LibPool = []string{
	"0", "1", "-1", "2", "3", "100", "-5", "9223372036854775807", "1.5", "-0.0",
	`""`, `"a"`, `"hello world"`, `"1h"`, `"2020-01-01T00:00:00Z"`, `"{"`, `"[1,2"`, `"^(a"`, `"$.x["`,
	"'sym", ":kw", "'list", "'vector", "'bytes", "'sorted-map", "true", "false", "()",
	"'(1 2 3)", "'((1 2) (3))", `(list "a" 'b 3.5)`, "(vector)", "(vector 1 2 3)", "(vector (vector 1) (vector))",
	"(sorted-map)", `(sorted-map "a" 1 'b 2)`, `(to-bytes "abc")`, "car", "(lambda (x) x)", "(lambda (&rest xs) xs)",
	"(lambda () (error 'from-callback 7))", `(time:parse-rfc3339 "2020-01-01T00:00:00Z")`,
}

var c06LibCondRe = regexp.MustCompile(`^[a-z][a-z0-9-]*(:[a-z][a-z0-9-]*)?$`)

type c06LibVariant struct {
	name string
	// form builds the text around BODY (the failing call, or the control's `error` call)
	form func(body, cond string, n int) string
	// what is compared between the library run and the control run
	cmp string // "value" | "error"
}

func c06LibParams(n int) (formals, uses string) {
	var f, u []string
	for i := 0; i < n; i++ {
		f = append(f, fmt.Sprintf("d%d", i))
		u = append(u, fmt.Sprintf("(type d%d)", i))
	}
	return strings.Join(f, " "), strings.Join(u, " ")
}

var c06LibVariants = []c06LibVariant{
	{"catch-all-rest-handler", func(b, c string, n int) string {
		return "(handler-bind ((condition (lambda (c &rest d) (list 'c06-handled c (length d) (length (map 'list (lambda (x) (type x)) d)))))) " + b + ")"
	}, "value"},
	{"catch-all-positional-handler", func(b, c string, n int) string {
		f, u := c06LibParams(n)
		return "(handler-bind ((condition (lambda (c " + f + ") " + u + " (list 'c06-handled c)))) " + b + ")"
	}, "value"},
	{"binding-by-name", func(b, c string, n int) string {
		return "(handler-bind ((c06-other (lambda (&rest e) 'c06-wrong)) (" + c + " (lambda (c &rest d) (list 'c06-by-name c (length d))))) " + b + ")"
	}, "value"},
	{"unmatched-binding-then-outer", func(b, c string, n int) string {
		return "(handler-bind ((condition (lambda (c &rest d) (list 'c06-outer c (length d) (length (map 'list (lambda (x) (type x)) d)))))) (handler-bind ((c06-other (lambda (&rest e) 'c06-wrong))) " + b + "))"
	}, "value"},
	{"ignore-errors", func(b, c string, n int) string {
		return "(list 1 (ignore-errors " + b + ") 2)"
	}, "value"},
	{"forms-after-not-evaluated", func(b, c string, n int) string {
		// the witness is a lexical variable: a failing library call may have changed global
		// state on its way (a refused in-package still switches package), which is not C06's matter
		return "(let ([n (vector)]) (list (handler-bind ((condition (lambda (c &rest d) 'c06-h))) (progn " + b + " (append! n 1))) (length n)))"
	}, "value"},
	{"rethrow-to-outer-handler", func(b, c string, n int) string {
		return "(handler-bind ((condition (lambda (c &rest d) (list 'c06-outer c (length d) (length (map 'list (lambda (x) (type x)) d)))))) (handler-bind ((condition (lambda (c &rest d) (rethrow)))) " + b + "))"
	}, "value"},
	{"rethrow-to-host", func(b, c string, n int) string {
		return "(handler-bind ((condition (lambda (c &rest d) (map 'list (lambda (x) (type x)) d) (rethrow)))) " + b + ")"
	}, "error"},
}

func c06LibOutcome(v *lisp.LVal) string {
	if v == nil {
		return "<nil>"
	}
	if v.Type == lisp.LError {
		p := ""
		if lisp.IsInternalPanic(v) {
			p = "[panic]"
		}
		return fmt.Sprintf("ERROR%s %s/%d", p, v.Str, len(v.Cells))
	}
	return v.String()
}

func c06LibNewRT() *rt.R {
	return rt.New(rt.Opts{MaxSteps: 200_000, MaxAlloc: 200_000, MaxPhys: 2000})
}

func c06LibRaise(w *fw.W, k int) {
	funs := c06LibRegistry()
	if len(funs) == 0 {
		w.Inconclusive("library-raise family: registry enumeration found no functions")
		return
	}
	r := w.RNG(k, "libraise")
	f := funs[k%len(funs)]
	maxAr := f.nformals + 1
	if maxAr > 5 {
		maxAr = 5
	}
	arity := (k / len(funs)) % (maxAr + 1)
	callee := f.pkg + ":" + f.name
	if f.pkg == "lisp" {
		callee = f.name
	}
	w.Eval(1)
	w.Count("libraise_cases", 1)
	// discovery: a call that fails with an ordinary error, each try in a runtime of its own
	var call, cond string
	var bare *lisp.LVal
	for try := 0; try < 8 && call == ""; try++ {
		parts := []string{callee}
		for i := 0; i < arity; i++ {
			parts = append(parts, c06LibPool[r.Intn(len(c06LibPool))])
		}
		c := "(" + strings.Join(parts, " ") + ")"
		v := c06LibNewRT().Load("c06lib", c)
		w.Count("libraise_discovery_calls", 1)
		if v == nil || v.Type != lisp.LError || lisp.IsInternalPanic(v) {
			continue
		}
		if !c06LibCondRe.MatchString(v.Str) || v.Str == "condition" || len(v.Cells) > 6 {
			w.Count("libraise_errors_not_judged:condition-name-or-data-count", 1)
			continue
		}
		// a limit error is not the function's own error
		if strings.Contains(v.Str, "limit") || strings.Contains(rt.ErrMsg(v), "alloc") {
			continue
		}
		call, cond, bare = c, v.Str, v
	}
	if call == "" {
		w.Count("libraise_cases_without_failing_call", 1)
		return
	}
	n := len(bare.Cells)
	var ctlArgs []string
	for i := 0; i < n; i++ {
		ctlArgs = append(ctlArgs, fmt.Sprint(i+1))
	}
	control := strings.TrimSpace("(error '" + cond + " " + strings.Join(ctlArgs, " ") + ")")
	w.Count("libraise_failing_calls_judged", 1)
	w.SetAdd("libraise_functions_judged", callee)
	w.SetAdd("libraise_conditions_seen", cond)
	w.CoverKey(fmt.Sprintf("libraise|%s|%s|%d", callee, cond, n))
	for _, va := range c06LibVariants {
		src := va.form(call, cond, n)
		ctl := va.form(control, cond, n)
		judge := func() (bad bool, got, want string) {
			lv := c06LibNewRT().Load("c06lib", src)
			cv := c06LibNewRT().Load("c06ctl", ctl)
			switch va.cmp {
			case "value":
				if cv == nil || cv.Type == lisp.LError {
					return false, "", "" // the control itself fails: the form is not judged
				}
				got, want = c06LibOutcome(lv), c06LibOutcome(cv)
				return got != want, got, want
			default: // the error the host receives: same condition and data as the bare call
				if cv == nil || cv.Type != lisp.LError {
					return false, "", ""
				}
				got = c06LibErrSig(lv)
				want = c06LibErrSig(bare)
				return got != want, got, want
			}
		}
		bad, got, want := judge()
		w.Count("libraise_forms_judged", 1)
		if bad {
			// once more, everything fresh: what is reported must not depend on this worker's history
			bad, got, want = judge()
		}
		if bad {
			w.Violation("library-raised-error:"+va.name+":"+callee,
				fmt.Sprintf("the error %s raises (condition %s, %d data) is not handled like one raised by (error '%s …): %s gives %s, the control gives %s", callee, cond, n, cond, va.name, trunc(got, 200), trunc(want, 200)),
				"library: "+src+"\ncontrol: "+ctl)
			return
		}
	}
	if w.WantSample() && k%7 == 0 {
		w.Sample(map[string]any{"family": "library-raise", "call": call, "condition": cond, "data": n, "forms": len(c06LibVariants)})
	}
}

// c06LibLoc: a message may quote the position of the failing call ("c06lib:1:102: s:of: ..."),
// and the bare call sits at another column than the same call inside a handling form; the two
// runs are compared with positions blanked (a false alarm at seed 3 before this).
var c06LibLoc = regexp.MustCompile(`c06(lib|ctl):\d+:\d+`)

func c06LibErrSig(v *lisp.LVal) string {
	if v == nil || v.Type != lisp.LError {
		return "not-an-error: " + c06LibOutcome(v)
	}
	var d []string
	for _, c := range v.Cells {
		d = append(d, c.String())
	}
	p := ""
	if lisp.IsInternalPanic(v) {
		p = "[panic]"
	}
	return v.Str + p + " " + c06LibLoc.ReplaceAllString(strings.Join(d, " | "), "c06:L:C")
}

func c06LibDriver(d *fw.D) {
	if d.Counters["libraise_cases"] == 0 {
		return // a replay or a shard without cases of the family
	}
	if n := len(d.Sets["libraise_functions_judged"]); n < pick(d.Tier, 100, 150) {
		d.Inconclusive(fmt.Sprintf("library-raise family: only %d registered functions were seen raising an ordinary error", n))
	}
	if d.Counters["libraise_forms_judged"] == 0 {
		d.Inconclusive("library-raise family: no handling form was judged")
	}
}
