package props

// C07, OVERLAPPING LIFETIMES of two expansions of the same macro (round 10).
//
// "Evaluating a macro call is equivalent to evaluating the form that
// macroexpand returns for that call ...: macro arguments reach the macro
// unevaluated" is said of every call, whatever other calls of the same macro
// happen before, during or after it.  The macro programs of c07Macros expand one
// call at a time: the body of a macro runs to its end before the next expansion
// of the same macro starts, and nothing made by the body survives it.  Here the
// lifetimes of two expansions of one macro overlap:
//
//	re-entry   the macro body - or a helper function it calls - expands or
//	           evaluates a form headed by the SAME macro (macroexpand,
//	           macroexpand-1, eval) while its own expansion is being computed
//	           and reads its parameters afterwards: an `all`-like macro that
//	           expands its tail itself, a macro that sums at expansion time, a
//	           code walker that expands an argument form;
//	escape     the body makes a closure over its parameters which outlives the
//	           expansion: embedded into the expansion and called there, kept
//	           in a global list and called at the end, put into a function the
//	           expansion defines;
//	held       the expansions of several calls are taken (macroexpand /
//	           macroexpand-1) before any of them is evaluated.
//
// Oracles, all from the property text:
//
//	(a) the reference interpreter (every macro call binds its parameters in a
//	    frame of its own; macroexpand modelled by refint.InstallMacroexpand)
//	    predicts the direct program and the "held" program;
//	(b) a parameter nobody assigns holds the argument form of ITS call for as
//	    long as the body runs: the body snapshots its parameters before the
//	    re-entry and reports snapshot and parameters after it in one probe; the
//	    two must be equal (no model involved);
//	(c) twin routes in fresh runtimes: every call replaced by
//	    (eval (macroexpand '(call))), and all expansions taken first - in
//	    program order or reversed - and evaluated afterwards in program order.
//	    The run-time events (argument probes, statement values, the final
//	    readings) and the outcome must be those of the direct program.
//
// Macro bodies here read nothing but their parameters (and append to a global
// list in the "kept" kind, for which the held route keeps program order), so
// the expansion of a call does not depend on when it is made.

import (
	"fmt"
	"sort"
	"strings"

	"verifharness/fw"
	"verifharness/refint"
	"verifharness/rt"
	"verifharness/sx"
	"verifharness/tree"
)

// c07Parse reads the small s-expression texts the templates below are written in
// (lists, quote marks, integers, strings without escapes, symbols).
func c07Parse(src string) []*sx.N {
	pos := 0
	var read func() *sx.N
	skip := func() {
		for pos < len(src) && strings.ContainsRune(" \t\n", rune(src[pos])) {
			pos++
		}
	}
	read = func() *sx.N {
		skip()
		if pos >= len(src) {
			panic("c07Parse: unexpected end in " + src)
		}
		switch c := src[pos]; {
		case c == '(':
			pos++
			var xs []*sx.N
			for {
				skip()
				if pos >= len(src) {
					panic("c07Parse: unclosed list in " + src)
				}
				if src[pos] == ')' {
					pos++
					return sx.L(xs...)
				}
				xs = append(xs, read())
			}
		case c == ')':
			panic("c07Parse: stray ) in " + src)
		case c == '\'':
			pos++
			return sx.Q(read())
		case c == '"':
			end := strings.IndexByte(src[pos+1:], '"')
			s := src[pos+1 : pos+1+end]
			pos += end + 2
			return sx.S(s)
		default:
			start := pos
			for pos < len(src) && !strings.ContainsRune(" \t\n()'\"", rune(src[pos])) {
				pos++
			}
			tok := src[start:pos]
			var n int64
			if _, err := fmt.Sscanf(tok, "%d", &n); err == nil && fmt.Sprint(n) == tok {
				return sx.I(n)
			}
			return sx.Y(tok)
		}
	}
	var out []*sx.N
	for {
		skip()
		if pos >= len(src) {
			return out
		}
		out = append(out, read())
	}
}

type c07OvMacro struct {
	name    string
	kind    string // eager-tail, eval-tail, walker, closure, kept-closure, getter
	feat    string
	p1      bool // a required parameter before &rest (eager-tail) / the kinds with fixed parameters use p1 [p2]
	p2      bool
	rest    bool
	local   bool // defined by macrolet
	numeric bool // argument forms must evaluate to numbers
	plain   bool // argument forms without effects (they are evaluated at expansion time too)
	def     *sx.N
	pre     []*sx.N
	post    []*sx.N
	getters []string
}

type c07OvGen struct {
	c07Gen
	ms []*c07OvMacro
}

// c07Subst replaces the placeholders one after the other, so a replacement may itself
// contain placeholders named later in kv.
func c07Subst(t string, kv ...string) string {
	for i := 0; i+1 < len(kv); i += 2 {
		t = strings.ReplaceAll(t, kv[i], kv[i+1])
	}
	return t
}

func (g *c07OvGen) macro(k int) *c07OvMacro {
	r := g.r
	m := &c07OvMacro{name: fmt.Sprintf("ov%d", k)}
	expander := fw.Pick(r, []string{"macroexpand", "macroexpand", "macroexpand-1", "NAME-walk", "NAME-walk1"})
	helper := func() {
		switch expander {
		case "NAME-walk":
			m.pre = append(m.pre, c07Parse(c07Subst(`(defun NAME-walk (form) (macroexpand form))`, "NAME", m.name))...)
		case "NAME-walk1":
			m.pre = append(m.pre, c07Parse(c07Subst(`(defun NAME-walk1 (form) (let ((e (macroexpand-1 form))) e))`, "NAME", m.name))...)
		}
	}
	var text string
	switch r.Intn(10) {
	case 0, 1, 2:
		m.kind, m.rest = "eager-tail", true
		m.p1 = r.Chance(1, 3)
		helper()
		type tv struct{ feat, base, tmpl string }
		var v tv
		if m.p1 {
			v = fw.Pick(r, []tv{
				{"list+p1", "(quasiquote (list (unquote p1)))", "(list (unquote p1) (unquote (car xs)) ((unquote-splicing tail)))"},
				{"if+p1", "(quasiquote (progn (unquote p1)))", "(if (unquote (car xs)) ((unquote-splicing tail)) (quote (unquote p1)))"},
				{"count+p1", "'(list)", "(list (unquote (length xs)) (quote (unquote p1)) (unquote (car xs)) ((unquote-splicing tail)))"},
			})
		} else {
			v = fw.Pick(r, []tv{
				{"if", "'(progn true)", "(if (unquote (car xs)) ((unquote-splicing tail)) false)"},
				{"list", "'(list)", "(list (unquote (car xs)) ((unquote-splicing tail)))"},
				{"progn", "'(progn 0)", "(progn (unquote (car xs)) ((unquote-splicing tail)))"},
				{"plus", "'(+ 0)", "(+ (unquote (car xs)) ((unquote-splicing tail)))"},
				{"count", "'(list)", "(list (unquote (length xs)) (quote (unquote (car xs))) ((unquote-splicing tail)))"},
				{"tail-first", "'(list)", "(list ((unquote-splicing tail)) (unquote (car xs)) (unquote (length xs)))"},
			})
		}
		m.numeric = v.feat == "plus"
		m.feat = "eager-tail:" + v.feat + ":" + strings.TrimPrefix(expander, "NAME-")
		formals, params, inner := "(&rest xs)", "xs", "(cdr xs)"
		if m.p1 {
			formals, params = "(p1 &rest xs)", "p1 xs"
			inner = fw.Pick(r, []string{"(cons p1 (cdr xs))", "(cons 0 (cdr xs))", "(cons (car xs) (cdr xs))"})
		}
		form := "(cons 'NAME INNER)"
		if r.Bool() {
			form = "(quasiquote (NAME (unquote-splicing INNER)))"
			m.feat += ":qq"
		}
		pre := ""
		if r.Chance(1, 3) {
			pre = "(verif:probe 'x-NAME (list PARAMS))"
		}
		text = c07Subst(`(defmacro NAME FORMALS PRE
  (if (nil? xs)
    BASE
    (let* ((before (list PARAMS))
           (tail (EXPAND REENTRY)))
      (verif:probe 'xheld-NAME before (list PARAMS))
      (quasiquote TMPL))))`, "PRE", pre, "REENTRY", form, "FORMALS", formals, "PARAMS", params, "INNER", inner, "BASE", v.base, "TMPL", v.tmpl, "EXPAND", expander, "NAME", m.name)
	case 3:
		m.kind, m.rest, m.numeric, m.plain = "eval-tail", true, true, true
		m.feat = "eval-tail"
		text = c07Subst(`(defmacro NAME (&rest xs)
  (if (nil? xs)
    0
    (let* ((before (list xs))
           (rest-val (eval (quasiquote (NAME (unquote-splicing (cdr xs)))))))
      (verif:probe 'xheld-NAME before (list xs))
      (quasiquote (+ (unquote (car xs)) (unquote rest-val))))))`, "NAME", m.name)
	case 4, 5:
		m.kind, m.p1, m.p2 = "walker", true, true
		helper()
		use := fw.Pick(r, []string{"code", "data"})
		m.feat = "walker:" + use + ":" + strings.TrimPrefix(expander, "NAME-")
		tmpl := `(quasiquote (list (quote (unquote e1)) (unquote p2)))`
		if use == "code" {
			tmpl = `(if (list? p1)
      (quasiquote (list ((unquote-splicing e1)) (unquote p2)))
      (quasiquote (list (unquote e1) (unquote p2))))`
		}
		text = c07Subst(`(defmacro NAME (p1 p2)
  (let* ((before (list p1 p2))
         (e1 (if (list? p1) (EXPAND p1) p1)))
    (verif:probe 'xheld-NAME before (list p1 p2))
    TMPL))`, "TMPL", tmpl, "EXPAND", expander, "NAME", m.name)
	case 6, 7:
		m.kind, m.p1 = "closure", true
		m.p2 = r.Bool()
		m.local = r.Chance(1, 3)
		type cv struct{ feat, lam, call string }
		v := fw.Pick(r, []cv{
			{"thunk", "(lambda () p1)", "(funcall (unquote f))"},
			{"thunk-list", "(lambda () (list 'held p1))", "(funcall (unquote f))"},
			{"with-arg", "(lambda (k) (list k p1))", "(funcall (unquote f) 1)"},
			{"nested-lambda", "(lambda () (funcall (lambda () p1)))", "(funcall (unquote f))"},
		})
		if m.p2 {
			v.lam = strings.ReplaceAll(v.lam, "p1)", "p1 p2)")
			if v.feat == "thunk" || v.feat == "nested-lambda" {
				v.lam = strings.ReplaceAll(v.lam, "p1 p2)", "(list p1 p2))")
			}
		}
		formals := "(p1)"
		if m.p2 {
			formals = "(p1 p2)"
		}
		tmpl := fw.Pick(r, []string{
			"(list (quote (unquote p1)) CALL)",
			"(list (unquote p1) CALL)",
			"(let ((v (unquote p1))) (list v CALL))",
		})
		m.feat = "closure:" + v.feat
		text = c07Subst(`(defmacro NAME FORMALS
  (let ((f LAM))
    (quasiquote TMPL)))`, "TMPL", tmpl, "CALL", v.call, "LAM", v.lam, "FORMALS", formals, "NAME", m.name)
	case 8:
		m.kind = "kept-closure"
		m.rest = r.Bool()
		m.p1 = !m.rest
		m.feat = "kept-closure"
		formals, lam, tmpl := "(p1)", "(lambda () p1)", "(list (quote (unquote p1)) (unquote (length NAME-kept)))"
		if m.rest {
			formals, lam, tmpl = "(&rest xs)", "(lambda () (list (length xs) xs))", "(list (unquote-splicing xs))"
			m.feat += ":rest"
		}
		m.pre = c07Parse(c07Subst(`(set 'NAME-kept ())`, "NAME", m.name))
		m.post = c07Parse(c07Subst(`(verif:probe 'kept-NAME (map 'list (lambda (k) (funcall k)) NAME-kept))`, "NAME", m.name))
		text = c07Subst(`(defmacro NAME FORMALS
  (let ((f LAM))
    (set 'NAME-kept (cons f NAME-kept))
    (quasiquote TMPL)))`, "TMPL", tmpl, "LAM", lam, "FORMALS", formals, "NAME", m.name)
	default:
		// a definer: the expansion defines a function around a closure of the body
		m.kind, m.p1, m.p2 = "getter", true, true
		m.feat = "getter"
		text = c07Subst(`(defmacro NAME (p1 p2)
  (let ((f (lambda () p2)))
    (quasiquote (defun (unquote p1) () (list (quote (unquote p1)) (funcall (unquote f)))))))`, "NAME", m.name)
	}
	forms := c07Parse(text)
	m.def = forms[0]
	if m.local {
		m.feat += ":macrolet"
	}
	g.feat[m.feat] = true
	return m
}

func (g *c07OvGen) arg(m *c07OvMacro) *sx.N {
	r := g.r
	switch {
	case m.plain:
		if r.Chance(1, 4) {
			return sx.Y("gv")
		}
		return sx.I(int64(r.Intn(20)))
	case m.numeric:
		switch r.Intn(4) {
		case 0:
			return g.probe("arg", sx.I(int64(r.Intn(20))))
		case 1:
			return sx.Y("lex")
		case 2:
			return sx.Call("progn", g.probe("side", sx.I(0)), sx.I(int64(r.Intn(20))))
		}
		return sx.I(int64(r.Intn(20)))
	}
	return g.argForm()
}

// call builds one call of m; depth > 0 allows a call of the same macro among the arguments.
func (g *c07OvGen) call(m *c07OvMacro, depth int) *sx.N {
	r := g.r
	a := func() *sx.N {
		if depth > 0 && m.kind != "getter" && m.kind != "kept-closure" && r.Chance(1, 4) {
			g.feat["call:nested-in-argument"] = true
			return g.call(m, depth-1)
		}
		return g.arg(m)
	}
	var args []*sx.N
	switch m.kind {
	case "walker":
		p1 := g.arg(m)
		if depth > 0 && r.Chance(2, 3) {
			g.feat["call:walker-argument-is-a-call"] = true
			p1 = g.call(m, depth-1)
		}
		args = []*sx.N{p1, g.arg(m)}
	case "getter":
		name := fmt.Sprintf("get-%s-%d", m.name, len(m.getters)+1)
		m.getters = append(m.getters, name)
		args = []*sx.N{sx.Y(name), g.arg(m)}
	default:
		if m.p1 {
			args = append(args, a())
		}
		if m.p2 {
			args = append(args, a())
		}
		if m.rest {
			for i := r.Range(0, 4); i > 0; i-- {
				args = append(args, a())
			}
		}
	}
	return sx.Call(m.name, args...)
}

func c07OvExpTag(tag string) bool {
	return strings.HasPrefix(tag, "x-") || strings.HasPrefix(tag, "xheld-")
}

// c07OvRunTime renders outcome and the events that belong to run time (everything but
// the probes inside macro bodies).
func c07OvRunTime(t rt.Transcript) string {
	var parts []string
	for _, p := range t.Trace {
		if !c07OvExpTag(p.Tag) {
			parts = append(parts, p.String())
		}
	}
	return t.Outcome() + " || " + strings.Join(parts, "|")
}

func c07Overlap(w *fw.W, idx int) {
	r := w.RNG(idx, "overlap")
	g := &c07OvGen{c07Gen: c07Gen{r: r, feat: map[string]bool{}}}
	for k := 1; k <= r.Range(1, 3); k++ {
		g.ms = append(g.ms, g.macro(k))
	}
	// at most one macrolet macro (it scopes the call statements)
	var local *c07OvMacro
	for _, m := range g.ms {
		if m.local && local == nil {
			local = m
		} else {
			m.local = false
		}
	}
	type stmt struct {
		call    *sx.N
		discard bool // the value of the call is not rendered (a function)
	}
	var stmts []stmt
	for i := r.Range(2, 5); i > 0; i-- {
		m := g.ms[r.Intn(len(g.ms))]
		stmts = append(stmts, stmt{call: g.call(m, 2), discard: m.kind == "getter"})
	}
	keepOrder := false
	kinds := map[string]bool{}
	for _, m := range g.ms {
		kinds[m.kind] = true
		if m.kind == "kept-closure" {
			keepOrder = true
		}
	}
	const (
		direct = iota
		seq
		held
	)
	heldWith := fw.Pick(r, []string{"macroexpand", "macroexpand-1"})
	heldReversed := !keepOrder && r.Bool()
	build := func(route int) []*sx.N {
		out := c07Parse(`(set 'gv 3)`)
		for _, m := range g.ms {
			for _, p := range m.pre {
				out = append(out, p.Clone())
			}
			if !m.local {
				out = append(out, m.def.Clone())
			}
		}
		wrap := func(i int, s stmt, c *sx.N) *sx.N {
			if s.discard {
				c = sx.Call("progn", c, sx.I(int64(i)))
			}
			return sx.Call("verif:probe", sx.QY(fmt.Sprintf("r%d", i)), c)
		}
		var body []*sx.N
		switch route {
		case direct:
			for i, s := range stmts {
				body = append(body, wrap(i, s, s.call.Clone()))
			}
		case seq:
			for i, s := range stmts {
				body = append(body, wrap(i, s, sx.Call("eval", sx.Call("macroexpand", sx.Q(s.call.Clone())))))
			}
		case held:
			var binds []*sx.N
			for i, s := range stmts {
				binds = append(binds, sx.L(sx.Y(fmt.Sprintf("e%d", i)), sx.Call(heldWith, sx.Q(s.call.Clone()))))
			}
			if heldReversed {
				for i, j := 0, len(binds)-1; i < j; i, j = i+1, j-1 {
					binds[i], binds[j] = binds[j], binds[i]
				}
			}
			var evals []*sx.N
			for i, s := range stmts {
				evals = append(evals, wrap(i, s, sx.Call("eval", sx.Y(fmt.Sprintf("e%d", i)))))
			}
			body = []*sx.N{sx.Call("let*", append([]*sx.N{sx.L(binds...)}, evals...)...)}
		}
		for _, m := range g.ms {
			for _, p := range m.post {
				body = append(body, p.Clone())
			}
			if len(m.getters) > 0 {
				var gs []*sx.N
				for _, n := range m.getters {
					gs = append(gs, sx.Call(n))
				}
				body = append(body, sx.Call("verif:probe", sx.QY("getters-"+m.name), sx.Call("list", gs...)))
			}
		}
		scope := sx.Call("let", append([]*sx.N{sx.L(sx.L(sx.Y("lex"), sx.I(7)))}, body...)...)
		if local != nil {
			scope = sx.Call("macrolet", sx.L(sx.L(local.def.L[1:]...)).Clone(), scope)
		}
		return append(out, scope)
	}
	w.Count("overlap_cases", 1)

	run := func(route int) ([]*sx.N, string, *rt.R, rt.Transcript) {
		forms := build(route)
		src := sx.Render(forms, nil)
		rr := rt.New(rt.Opts{MaxSteps: 300_000})
		t := rr.Run("c07", src)
		w.Eval(1)
		return forms, src, rr, t
	}
	model := func(forms []*sx.N, rr *rt.R, t rt.Transcript) (bad string, declined bool, in *refint.Interp) {
		return c07AgainstModelWith(forms, rr, t, func(in *refint.Interp) { in.InstallMacroexpand() })
	}
	forms, src, rr, t1 := run(direct)
	w.Logf("source:\n%s\n=> %s trace %s", src, t1.Outcome(), t1.TraceString())

	// (b) the parameters of an activation before and after the expansion it started
	reentries := 0
	for _, p := range t1.Trace {
		if !strings.HasPrefix(p.Tag, "xheld-") || len(p.Trees) != 2 {
			continue
		}
		reentries++
		if !tree.Equal(p.Trees[0], p.Trees[1], tree.Opts{}) {
			w.Violation("overlapping-expansions:parameters-changed-while-the-expansion-was-computed",
				fmt.Sprintf("macro %s: its parameters held %s before its body expanded another call of the same macro and %s after it", strings.TrimPrefix(p.Tag, "xheld-"), p.Trees[0], p.Trees[1]),
				fmt.Sprintf("source:\n%s\nreal: %s\n trace %s", src, t1.Outcome(), t1.TraceString()))
			return
		}
	}
	w.Count("overlap_expansions_that_expanded_the_same_macro", int64(reentries))

	// (a) reference interpreter on the direct program
	if bad, declined, in := model(forms, rr, t1); declined {
		_ = in
		w.Count("overlap_model_declined", 1)
		w.Logf("model declined: %s", bad)
		w.SetAdd("overlap_model_declined_reasons", bad)
	} else if bad != "" {
		w.Violation("overlapping-expansions:model-disagreement", bad, fmt.Sprintf("source:\n%s\nreal: %s\n trace %s\nmodel trace %s", src, t1.Outcome(), t1.TraceString(), in.TraceString()))
		return
	} else {
		w.Count("overlap_model_judged", 1)
		for k := range kinds {
			w.SetAdd("overlap_kinds_judged_by_model", k)
		}
	}

	// (c) twin routes
	_, src2, _, t2 := run(seq)
	if t1.Outcome() != t2.Outcome() || t1.TraceString() != t2.TraceString() || t1.Stderr != t2.Stderr {
		w.Violation("overlapping-expansions:call-differs-from-eval-of-macroexpand",
			fmt.Sprintf("(m args) gave %s, (eval (macroexpand '(m args))) gave %s", t1.Outcome(), t2.Outcome()),
			fmt.Sprintf("call program:\n%s\ntrace %s\nexpansion program:\n%s\ntrace %s", src, t1.TraceString(), src2, t2.TraceString()))
		return
	}
	if t1.IsErr {
		// the direct program stops at the failing statement, the held one expands every
		// statement first: not comparable
		w.Count("overlap_held_route_skipped_direct_failed", 1)
		for _, m := range g.ms {
			w.SetAdd("overlap_direct_program_failed", m.feat+"|"+t1.Cond)
		}
	} else {
		forms3, src3, r3, t3 := run(held)
		order := "program-order"
		if heldReversed {
			order = "reversed"
		}
		if a, b := c07OvRunTime(t1), c07OvRunTime(t3); a != b {
			w.Violation("overlapping-expansions:call-differs-from-eval-of-an-expansion-held-while-others-were-taken",
				fmt.Sprintf("the calls gave %s; their expansions, all taken with %s (%s) before any was evaluated, gave %s", trunc(a, 300), heldWith, order, trunc(b, 300)),
				fmt.Sprintf("call program:\n%s\ntrace %s\nheld program:\n%s\ntrace %s", src, t1.TraceString(), src3, t3.TraceString()))
			return
		}
		w.Count("overlap_held_route_judged", 1)
		w.Count("overlap_expansions_held_together", int64(len(stmts)))
		for k := range kinds {
			w.SetAdd("overlap_kinds_judged_held", k)
		}
		if bad, declined, in := model(forms3, r3, t3); declined {
			w.Count("overlap_model_declined_held", 1)
			w.SetAdd("overlap_model_declined_reasons", bad)
		} else if bad != "" {
			w.Violation("overlapping-expansions:model-disagreement:expansions-held", bad, fmt.Sprintf("source:\n%s\nreal: %s\n trace %s\nmodel trace %s", src3, t3.Outcome(), t3.TraceString(), in.TraceString()))
			return
		} else {
			w.Count("overlap_model_judged_held", 1)
		}
	}

	out := "value"
	if t1.IsErr {
		out = "err:" + t1.Cond
	}
	var fs []string
	for f := range g.feat {
		fs = append(fs, f)
	}
	sort.Strings(fs)
	for _, f := range fs {
		w.CoverKey("overlap|" + f + "|" + out)
		w.SetAdd("overlap_features", f)
		for _, f2 := range fs {
			if f < f2 {
				w.CoverKey("overlap-pair|" + f + "+" + f2)
			}
		}
	}
	w.Count("probe_events", int64(len(t1.Trace)))
	if w.WantSample() && len(src) < 1200 && reentries > 1 {
		w.Sample(map[string]any{"source": src, "outcome": t1.Outcome(), "trace": t1.TraceString()})
	}
}

// c07Driver: the floor of the overlapping-expansions family.
func c07Driver(d *fw.D) {
	if d.Counters["c07_cases"] < 256 {
		return // a replay or a deliberately tiny run
	}
	switch {
	case d.Counters["overlap_cases"] == 0:
		d.Inconclusive("overlapping-expansions family: no case was generated")
	case d.Counters["overlap_expansions_that_expanded_the_same_macro"] == 0:
		d.Inconclusive("overlapping-expansions family: no macro body expanded a call of its own macro")
	case d.Counters["overlap_model_judged"] == 0:
		d.Inconclusive("overlapping-expansions family: the reference model judged no program")
	case d.Counters["overlap_held_route_judged"] == 0:
		d.Inconclusive("overlapping-expansions family: no program had its expansions held together")
	case len(d.Sets["overlap_kinds_judged_by_model"]) < 6 || len(d.Sets["overlap_kinds_judged_held"]) < 6:
		d.Inconclusive(fmt.Sprintf("overlapping-expansions family: kinds judged by the model %d, on the held route %d, of 6", len(d.Sets["overlap_kinds_judged_by_model"]), len(d.Sets["overlap_kinds_judged_held"])))
	}
}
