package props

// C12, lexemes around and beyond the scanner window.
//
// token.NewScanner reads through a fixed 128 KiB sliding window
// (token.DefaultBufSize) and documents the window as the largest single token:
// "a token that fills it fails with 'token exceeds maximum allowable size'".
// Whitespace is not a token.  The re-layout family of c12_main.go keeps its
// comments below the window (longer ones are only read through the
// source-sized scanner), so nothing there asks what the sliding-window readers
// - the ones behind LoadFile, `elps run`, parser.NewReader - do with a lexeme
// that does not fit.  This family does: one gap of an accepted text receives a
// whitespace run, a comment or a hash-bang line whose length sits around the
// window size (W-9 .. W+5), around 2W, or anywhere in 129-300 KB, or the text
// receives one more expression that is a single long symbol / keyword /
// qualified symbol / string.
//
// Oracle (three readers x two sliding-window scanner variants, against the
// source-sized scanner as reference):
//   - the three modes agree (as everywhere in C12);
//   - a whitespace run of any length separates tokens: accepted, same tree;
//   - a text with an oversized token is either rejected by all modes or reads
//     to the tree the source-sized scanner gives - never to another tree (the
//     tail of a split comment read as program text, a symbol read as two);
//   - a token at least 8 bytes shorter than the window is read.
//
// Finding keys: layout-dependent:<becomes-reject|tree-changed>:<kind>-beyond-window,
// token-split-at-scanner-window:<kind>, modes-<...>:beyond-window:<kind>.

import (
	"fmt"
	"strconv"
	"strings"

	"github.com/luthersystems/elps/parser/token"

	"verifharness/fw"
)

const c12W = token.DefaultBufSize

var c12WindowKinds = []string{"whitespace-run", "whitespace-run", "comment", "comment", "eof-comment", "hashbang", "symbol", "keyword", "qualified-symbol", "string"}

// c12WindowLen draws the byte length of the long lexeme.
func c12WindowLen(r *fw.RNG) (int, string) {
	switch r.Intn(4) {
	case 0:
		return c12W + r.Range(-9, 5), "around-window"
	case 1:
		return 2*c12W + r.Range(-3, 3), "around-two-windows"
	case 2:
		return r.Range(129<<10, 300<<10), "beyond-window"
	default:
		return c12W - r.Range(8, 4000), "below-window"
	}
}

// c12Fill repeats unit up to n bytes (never beyond) and pads with pad.
func c12Fill(unit string, n int, pad byte) string {
	var sb strings.Builder
	sb.Grow(n)
	for sb.Len()+len(unit) <= n {
		sb.WriteString(unit)
	}
	for sb.Len() < n {
		sb.WriteByte(pad)
	}
	return sb.String()
}

func c12RunWindow(w *fw.W, idx int) {
	r := w.RNG(idx, "window")
	var src string
	var base c12Read
	for tries := 0; ; tries++ {
		if tries == 6 {
			w.Count("window_cases_without_accepted_base", 1)
			return
		}
		src = c12GenRendered(r)
		if len(src) > 32<<10 {
			continue
		}
		base = c12ReadStrict(src, 0, r)
		if base.outcome() == "accept" && len(base.exprs) > 0 {
			break
		}
	}
	l, why := c12PlanLayout(src)
	if why != "" || l.apply(nil) != src {
		w.Count("window_cases_layout_skipped", 1)
		return
	}
	kind := fw.Pick(r, c12WindowKinds)
	n, lclass := c12WindowLen(r)
	var free []int
	for i := range l.gaps {
		if l.free[i] && i < len(l.sig) {
			free = append(free, i)
		}
	}
	if len(free) == 0 {
		w.Count("window_cases_layout_skipped", 1)
		return
	}
	gi := fw.Pick(r, free)
	var src2 string
	layoutOnly := true
	switch kind {
	case "whitespace-run":
		unit := fw.Pick(r, []string{" ", "\n", "\t", " \n", "\r\n", " ", " ", "  \n\t", "\f"})
		run := c12Fill(unit, n, ' ')
		src2 = l.apply([]c12GapChange{{index: gi, text: run}})
	case "comment", "eof-comment", "hashbang":
		unit := fw.Pick(r, []string{"x", "ab ", "(f 1) ", "é", "\" ", "; ", " y", "(", "'q "})
		// the last bytes may look like program text: if the comment is cut
		// anywhere, what follows the cut is a form of its own
		tail := ""
		if r.Bool() {
			tail = " (window-tail 1)"
		}
		body := c12Fill(unit, n-1-len(tail), 'z') + tail
		switch kind {
		case "comment":
			src2 = l.apply([]c12GapChange{{index: gi, text: fw.Pick(r, []string{" ", "\n"}) + ";" + body + "\n"}})
		case "eof-comment":
			src2 = l.apply([]c12GapChange{{index: len(l.sig), text: fw.Pick(r, []string{" ", "\n"}) + ";" + body}})
		default:
			src2 = l.apply([]c12GapChange{{index: -1, text: "#!" + body + "\n"}})
		}
	default:
		layoutOnly = false
		unit := fw.Pick(r, []string{"a", "ab-", "é", "x1", "k?"})
		var tok string
		switch kind {
		case "symbol":
			tok = c12Fill(unit, n, 'a')
		case "keyword":
			tok = ":" + c12Fill(unit, n-1, 'a')
		case "qualified-symbol":
			tok = "pk:" + c12Fill(unit, n-3, 'a')
		default:
			tok = "\"" + c12Fill(fw.Pick(r, []string{"s", "ab ", "é", "\\n", "(x) "}), n-2, 's') + "\""
		}
		src2 = src + fw.Pick(r, []string{" ", "\n"}) + tok + fw.Pick(r, []string{"", "\n", " (after 1)\n"})
	}
	w.CoverKey("window|" + kind + "|" + lclass)
	w.Count("window_cases", 1)
	w.Count("window_cases_"+kind, 1)
	w.Max("max_window_lexeme_bytes", int64(n))

	// reference: the scanner whose window is the source
	ref := c12Modes(src2, 0, r)
	w.Eval(3)
	if ref.disagree != "" {
		w.Violation("modes-"+ref.disagree+":beyond-window:"+kind,
			fmt.Sprintf("reader modes disagree (%s) on a text with a %d-byte %s (source-sized scanner)", ref.disagree, n, kind),
			ref.detail+"\n\ntext: "+c12Clip(strconv.Quote(src2)))
		return
	}
	if layoutOnly {
		if bad, detail := c12LayoutDiff(base.exprs, ref); bad != "" {
			w.Violation(fmt.Sprintf("layout-dependent:%s:%s-beyond-window", bad, kind),
				fmt.Sprintf("a %d-byte %s (%s) between complete tokens: %s (source-sized scanner)", n, kind, lclass, bad),
				detail+"\n\noriginal: "+c12Clip(strconv.Quote(src))+"\nre-laid : "+c12Clip(strconv.Quote(src2)))
			return
		}
	} else {
		// the appended token is an expression of its own after the base forms
		if ref.strict.outcome() != "accept" || len(ref.strict.exprs) <= len(base.exprs) {
			w.Count("window_cases_reference_rejects_token:"+kind, 1)
			return
		}
		if ok, _ := c12ForestEq(base.exprs, ref.strict.exprs[:len(base.exprs)]); !ok {
			w.Count("window_cases_reference_prefix_differs", 1)
			return
		}
	}
	for variant := 1; variant <= 2; variant++ {
		m := c12Modes(src2, variant, r)
		w.Eval(3)
		if m.disagree != "" {
			w.Violation("modes-"+m.disagree+":beyond-window:"+kind,
				fmt.Sprintf("reader modes disagree (%s) on a text with a %d-byte %s (sliding-window scanner, variant %d)", m.disagree, n, kind, variant),
				m.detail+"\n\ntext: "+c12Clip(strconv.Quote(src2)))
			return
		}
		out := m.strict.outcome()
		w.Count(fmt.Sprintf("window_%s_%s_%s", kind, lclass, out), 1)
		if out == "accept" {
			if ok, d := c12ForestEq(ref.strict.exprs, m.strict.exprs); !ok {
				key := fmt.Sprintf("layout-dependent:tree-changed:%s-beyond-window", kind)
				if !layoutOnly {
					key = "token-split-at-scanner-window:" + kind
				}
				w.Violation(key,
					fmt.Sprintf("a %d-byte %s (%s) is read to another tree through the %d-byte sliding window than through the source-sized scanner", n, kind, lclass, c12W),
					d+"\nsource-sized scanner: "+c12Clip(c12ForestString(ref.strict.exprs))+"\nsliding window      : "+c12Clip(c12ForestString(m.strict.exprs))+
						"\n\ntext: "+c12Clip(strconv.Quote(src2)))
				return
			}
			continue
		}
		// rejected (or panicked) by all three modes
		switch {
		case out != "reject":
			w.Violation("reader-panic:beyond-window:"+kind, fmt.Sprintf("a %d-byte %s: %s", n, kind, out), m.strict.panicked+"\n\ntext: "+c12Clip(strconv.Quote(src2)))
			return
		case kind == "whitespace-run":
			w.Violation("layout-dependent:becomes-reject:whitespace-run-beyond-window",
				fmt.Sprintf("a %d-byte whitespace run (%s) between two tokens makes the sliding-window readers reject the text", n, lclass),
				fmt.Sprintf("strict reader: %v\n\noriginal: %s\nre-laid : %s", m.strict.err, c12Clip(strconv.Quote(src)), c12Clip(strconv.Quote(src2))))
			return
		case n <= c12W-8:
			w.Violation("token-below-scanner-window-rejected:"+kind,
				fmt.Sprintf("a %d-byte %s, shorter than the %d-byte window, is rejected by the sliding-window readers", n, kind, c12W),
				fmt.Sprintf("strict reader: %v\n\ntext: %s", m.strict.err, c12Clip(strconv.Quote(src2))))
			return
		default:
			w.Count("window_oversized_token_rejected_by_all_modes", 1)
		}
	}
}
