package props

import (
	"fmt"
	"os"
	"sort"
	"strconv"
	"strings"

	"github.com/luthersystems/elps/lisp"

	"verifharness/fw"
	"verifharness/refint"
	"verifharness/rt"
	"verifharness/sx"
	"verifharness/tree"
)

// C08, round 10 — histories with REFUSED package operations.
//
// The main family's statements all succeed as package operations: every
// in-package, export and use-package of the mix is well formed (use-package may
// name a package that does not exist yet, nothing else), and a case is one load
// on a fresh runtime.  What a program does after a package operation was
// REFUSED - and a REPL, an embedder's next load, an ignore-errors or a
// handler-bind all carry on after one - was never part of a history.  This
// family makes it one: the statement mix of the main family, run as a sequence
// of top-level loads on ONE runtime, with refused in-package / use-package /
// export calls among the statements (bad trailing arguments, a name that is not
// a symbol or string, an unknown package), guarded by handler-bind or
// ignore-errors, inside a nested load-string that fails, or as the failing last
// form of a top-level load, and followed - at once or later, through the mix -
// by the valid form of the same operation on the same name.
//
// The property does not say what a refused call leaves behind, so the oracle
// does not either (refint.Interp.RefusedPackageOpsUnjudged): after a refused
// in-package the current package is undetermined (the generator re-enters a
// package through `lisp:in-package`, which resolves whatever is current, or lets
// the enclosing load end), and a name only refused calls have mentioned is in
// limbo - its existence is not compared, the generator does not refer to it, and
// should an evaluation depend on either unknown the model declines the case.
// What IS demanded is what the property states, after any such history: a
// package entered by a successful in-package that did not exist (or was in
// limbo) has the language package's exports and nothing else; use-package copies
// exactly the exported bindings; definitions land in the current package; the
// load does not leak its package to the host.
//
// A disagreement is attributed before it is reported: the same history is run
// again with every refused call replaced by `()`; if that control disagrees with
// the model too, the finding is the main family's (`package-model-disagreement:…`),
// otherwise it is `after-refused-package-operation:<class>:<aspect>` where
// <class> is the kind of refused call the case was built around.

func c08MainCases(tier string) int    { return pick(tier, 16000, 500000) }
func c08RefusedCases(tier string) int { return pick(tier, 2400, 80000) }

// the kinds of refused call; one per case (idx mod len), used 1-3 times in its history
var c08RefClasses = []string{
	"in-package-bad-docstring:unentered-name",
	"in-package-bad-docstring:workload-package",
	"in-package-bad-docstring:unentered-name", // twice: the class with the most ways to go on
	"in-package-bad-docstring:current-package",
	"in-package-bad-name",
	"use-package-unknown-package",
	"use-package-bad-argument",
	"export-bad-argument",
}

var c08RefGuards = []string{"handler-bind", "ignore-errors", "failing-load-string", "failing-top-level-load"}

type c08Ref struct {
	class    string
	pool     []string // names the workload must not refer to: not entered yet, possibly in limbo
	npool    int
	entered  map[string]bool
	nodes    []*sx.N // the refused calls (replaced by () in the control run)
	endSeg   bool    // the statement just generated ends its top-level load
	next     string  // ... and the next load starts with the valid in-package on this name
	forms    []string
	followed int // refused calls followed at once by the valid form on the same name
	want     int // refused calls still to place
}

func (g *c08Gen) refEnter(p string) {
	x := g.ref
	x.entered[p] = true
	for i, n := range x.pool {
		if n == p {
			x.pool = append(x.pool[:i:i], x.pool[i+1:]...)
			g.pkgs = append(g.pkgs, p)
			break
		}
	}
}

// refUnentered picks a name no valid in-package has been generated for; names of the
// workload's own packages are withdrawn from the referable ones until they are entered.
func (g *c08Gen) refUnentered() string {
	x := g.ref
	var cand []string
	for _, p := range g.pkgs {
		if !x.entered[p] && p != "user" {
			cand = append(cand, p)
		}
	}
	cand = append(cand, x.pool...)
	if len(cand) == 0 || (x.npool < 4 && g.r.Chance(1, 3)) {
		x.npool++
		n := fmt.Sprintf("n%d", x.npool)
		x.pool = append(x.pool, n)
		return n
	}
	p := fw.Pick(g.r, cand)
	for i, n := range g.pkgs {
		if n == p {
			g.pkgs = append(g.pkgs[:i:i], g.pkgs[i+1:]...)
			x.pool = append(x.pool, p)
		}
	}
	return p
}

func (g *c08Gen) refName(p string) *sx.N {
	if g.r.Chance(1, 4) {
		return sx.S(p)
	}
	return sx.QY(p)
}

func (g *c08Gen) refBadDocs() []*sx.N {
	switch g.r.Intn(7) {
	case 0:
		return []*sx.N{sx.I(int64(g.r.Intn(100)))}
	case 1:
		return []*sx.N{sx.QY("v2")}
	case 2:
		return []*sx.N{sx.S("doc"), sx.I(42)}
	case 3:
		return []*sx.N{sx.S("doc"), sx.QY("v2")}
	case 4:
		return []*sx.N{sx.F(1.5)}
	case 5:
		return []*sx.N{sx.Q(sx.L(sx.S("doc")))}
	}
	return []*sx.N{sx.S("doc"), sx.S("more"), sx.I(7)}
}

// refusedStmt places one refused call of the case's class.
func (g *c08Gen) refusedStmt() *sx.N {
	x := g.ref
	x.want--
	var call *sx.N
	name := ""      // the package name the call mentions, if any
	resync := false // the current package is undetermined after it
	switch x.class {
	case "in-package-bad-docstring:unentered-name":
		name, resync = g.refUnentered(), true
	case "in-package-bad-docstring:workload-package":
		var cand []string
		for _, p := range g.pkgs {
			if x.entered[p] && p != g.cur {
				cand = append(cand, p)
			}
		}
		if len(cand) == 0 {
			cand = []string{"user"}
		}
		name, resync = fw.Pick(g.r, cand), true
	case "in-package-bad-docstring:current-package":
		name, resync = g.cur, true
	}
	switch {
	case resync:
		call = sx.Call("in-package", append([]*sx.N{g.refName(name)}, g.refBadDocs()...)...)
	case x.class == "in-package-bad-name":
		resync = true
		bad := []*sx.N{sx.I(42), sx.F(2.5), sx.Q(sx.L(sx.Y(g.pkgRef()))), sx.L()}[g.r.Intn(4)]
		call = sx.Call("in-package", bad)
		if g.r.Bool() {
			call.L = append(call.L, sx.S("doc"))
		}
	case x.class == "use-package-unknown-package":
		name = g.refUnentered()
		call = sx.Call("use-package", g.refName(name))
	case x.class == "use-package-bad-argument":
		call = sx.Call("use-package", []*sx.N{sx.I(42), sx.F(2.5), sx.Q(sx.L(sx.Y(g.pkgRef())))}[g.r.Intn(3)])
	default: // export-bad-argument
		call = sx.Call("export", sx.I(int64(g.r.Intn(100))))
		if g.r.Bool() {
			call.L = append(call.L, sx.F(0.5))
		}
	}
	x.nodes = append(x.nodes, call)
	guard := fw.Pick(g.r, c08RefGuards)
	if guard == "failing-top-level-load" && g.depth > 0 {
		guard = "handler-bind"
	}
	if guard == "failing-load-string" && g.depth >= 3 {
		guard = "ignore-errors"
	}
	g.kinds = append(g.kinds, "refused-"+strings.SplitN(x.class, ":", 2)[0]+"/"+guard)
	form := call.String()
	if name != "" {
		form = strings.ReplaceAll(form, name, "<name>")
	}
	x.forms = append(x.forms, form+" under "+guard)
	prev := g.cur
	var out []*sx.N
	switch guard {
	case "handler-bind":
		// the handler expression of handler-bind is evaluated when the condition is
		// raised - in whatever package the refused call left current - so the handler
		// is made beforehand
		out = append(out, g.probe("refused", sx.Call("let", sx.L(sx.L(sx.Y("h"), sx.Call("lambda", sx.L(sx.Y("c"), sx.Y("&rest"), sx.Y("r")), sx.QY("failed")))),
			sx.Call("handler-bind", sx.L(sx.L(sx.Y("condition"), sx.Y("h"))), call))))
	case "ignore-errors":
		out = append(out, g.probe("refused", sx.Call("ignore-errors", call, sx.QY("unreached"))))
	case "failing-load-string":
		// the load ends with the refused call: its package is restored whatever the call did
		g.depth++
		var inner []*sx.N
		for i := g.r.Intn(3); i > 0; i-- {
			inner = append(inner, g.plainStmt())
		}
		g.cur = prev
		g.depth--
		inner = append(inner, call, sx.Call("set", sx.QY(fw.Pick(g.r, c08Names)), sx.I(-7)))
		s := &sx.N{K: sx.Str, Prog: inner}
		wrap := g.guarded(sx.Call("load-string", s))
		if g.r.Bool() {
			wrap = sx.Call("ignore-errors", sx.Call("load-string", s))
		}
		out = append(out, g.probe("refused", wrap))
		resync = false
	default:
		// the call is the last form of its top-level load, which fails; the next load
		// of the history may start with the valid form
		x.endSeg = true
		if strings.HasPrefix(x.class, "in-package") && name != "" && g.r.Bool() {
			x.next = name
		}
		return call
	}
	// how the program goes on
	same := name != "" && g.r.Bool()
	switch {
	case resync:
		to := prev
		if same {
			to = name
			x.followed++
		}
		out = append(out, sx.Call("lisp:in-package", sx.QY(to)))
		g.cur = to
		g.refEnter(to)
	case strings.HasPrefix(x.class, "in-package") && same:
		x.followed++
		out = append(out, sx.Call("in-package", g.refName(name)))
		g.cur = name
		g.refEnter(name)
	case x.class == "use-package-unknown-package" && same:
		// the package comes into being, exports something, and is used from where we were
		x.followed++
		e := fw.Pick(g.r, c08Names)
		out = append(out,
			sx.Call("in-package", sx.QY(name)),
			sx.Call("export", sx.QY(e)),
			sx.Call("set", sx.QY(e), sx.I(int64(600+g.r.Intn(9)))),
			sx.Call("set", sx.QY(fw.Pick(g.r, c08Names)), sx.I(int64(650+g.r.Intn(9)))),
			sx.Call("in-package", sx.QY(prev)),
			g.probe("use", g.guarded(sx.Call("use-package", g.refName(name)))),
			g.probe("u", g.guarded(sx.Y(e))))
		g.refEnter(name)
	case x.class == "use-package-bad-argument" && g.r.Bool():
		x.followed++
		out = append(out, g.probe("use", g.guarded(sx.Call("use-package", sx.QY(g.pkgRef())))))
	case x.class == "export-bad-argument" && g.r.Bool():
		x.followed++
		out = append(out, sx.Call("export", sx.QY(fw.Pick(g.r, c08Names))))
	}
	if len(out) == 1 {
		return out[0]
	}
	return sx.Call("progn", out...)
}

// plainStmt is a statement that is not a refused call: the main family's mix, plus an
// in-package that may enter a name of the pool (which makes it referable from then on)
// and may carry a docstring.
func (g *c08Gen) plainStmt() *sx.N {
	if g.r.Chance(1, 8) {
		g.kinds = append(g.kinds, "in-package")
		all := append(append([]string(nil), g.pkgs...), g.ref.pool...)
		return g.refValidInPackage(fw.Pick(g.r, all))
	}
	return g.stmt()
}

func (g *c08Gen) refValidInPackage(p string) *sx.N {
	g.refEnter(p)
	g.cur = p
	call := sx.Call("in-package", g.refName(p))
	if g.r.Chance(1, 3) {
		call.L = append(call.L, sx.S("about "+p))
	}
	return call
}

type c08Diff struct{ aspect, summary string }

// c08History runs the loads on one runtime and one model.  It returns the first
// disagreement, or declined = true when the model does not judge the history.
func c08History(w *fw.W, segs [][]*sx.N, names []string, unjudged bool) (d *c08Diff, declined string, detail string, rr *rt.R, in *refint.Interp) {
	rr = rt.New(rt.Opts{MaxSteps: 400_000})
	in = refint.New()
	in.RefusedPackageOpsUnjudged = unjudged
	var log strings.Builder
	detail0 := func() string {
		return log.String() + "real trace " + fmt.Sprint(rr.Trace) + "\nmodel trace " + in.TraceString()
	}
	for si, forms := range segs {
		src := sx.Render(forms, nil)
		v := rr.Env.LoadString(fmt.Sprintf("load%d", si+1), src)
		w.Eval(1)
		mv, merr := func() (mv *refint.V, me *refint.Err) {
			defer func() {
				if rec := recover(); rec != nil {
					me = &refint.Err{Cond: fmt.Sprint("<model panic: ", rec, ">"), Unsure: true}
				}
			}()
			return in.LoadForms(forms)
		}()
		fmt.Fprintf(&log, ";; load %d\n%s\n;; real: %s\n;; model: %s %v\n", si+1, src, trunc(v.String(), 300), c06Val(mv), merr)
		if merr != nil && (merr.Fuel || merr.Unsure) {
			return nil, merr.Cond, detail0(), rr, in
		}
		realErr := v.Type == lisp.LError
		if realErr != (merr != nil) || (realErr && v.Str != merr.Cond) {
			return &c08Diff{"outcome", fmt.Sprintf("load %d of the history: real %s vs model %s %v", si+1, trunc(v.String(), 200), c06Val(mv), merr)}, "", detail0(), rr, in
		}
		if !realErr && !tree.Equal(tree.FromLVal(v), mv.ToTree(), tree.Opts{IgnoreQuote: true}) {
			return &c08Diff{"final-values", fmt.Sprintf("load %d of the history: real %s vs model %s", si+1, v, mv.ToTree())}, "", detail0(), rr, in
		}
		if got := rr.Env.Runtime.Package.Name; got != "user" {
			return &c08Diff{"in-package-leaks-to-host", fmt.Sprintf("Runtime.Package is %s after load %d returned", got, si+1)}, "", detail0(), rr, in
		}
	}
	if len(rr.Trace) != len(in.Trace) {
		return &c08Diff{"trace", fmt.Sprintf("effect trace length %d vs model %d", len(rr.Trace), len(in.Trace))}, "", detail0(), rr, in
	}
	for i := range rr.Trace {
		a, b := rr.Trace[i], in.Trace[i]
		ok := a.Tag == b.Tag && len(a.Trees) == len(b.Vals)
		for j := 0; ok && j < len(a.Trees); j++ {
			ok = tree.Equal(a.Trees[j], b.Vals[j], tree.Opts{IgnoreQuote: true})
		}
		if !ok {
			kind := strings.TrimRight(a.Tag, "0123456789")
			return &c08Diff{c08TagKind(kind), fmt.Sprintf("effect %d (%s): real %s vs model %s", i, a.Tag, a.Vals, c08Vals(b))}, "", detail0(), rr, in
		}
	}
	// registry contents through exported accessors
	reg := rr.Env.Runtime.Registry
	lang := reg.Package("lisp")
	langSyms := map[string]bool{}
	for _, s := range lang.Externals() {
		langSyms[s] = true
	}
	for _, pn := range names {
		if in.Limbo[pn] {
			w.Count("refused_existence_not_judged", 1)
			continue
		}
		rp, mp := reg.Package(pn), in.Pkgs[pn]
		if (rp == nil) != (mp == nil) {
			return &c08Diff{"package-existence", fmt.Sprintf("package %s exists: real %v, model %v", pn, rp != nil, mp != nil)}, "", detail0(), rr, in
		}
		if rp == nil {
			continue
		}
		if miss := c08LangMissing(lang, rp); len(miss) > 0 {
			return &c08Diff{"language-exports", fmt.Sprintf("package %s exists and lacks %d of the language package's exports (first: %s)", pn, len(miss), miss[0])}, "", detail0(), rr, in
		}
		keep := func(s string) bool { return !langSyms[s] || c08IsPool(s) }
		var rs, ms, re, me []string
		for _, s := range rp.SymbolNames() {
			if keep(s) {
				rs = append(rs, s)
			}
		}
		for s := range mp.Syms {
			if keep(s) {
				ms = append(ms, s)
			}
		}
		sort.Strings(rs)
		sort.Strings(ms)
		if strings.Join(rs, ",") != strings.Join(ms, ",") {
			return &c08Diff{"package-symbol-table", fmt.Sprintf("package %s binds [%s], the model says [%s]", pn, strings.Join(rs, ","), strings.Join(ms, ","))}, "", detail0(), rr, in
		}
		for _, e := range rp.Externals() {
			if keep(e) {
				re = append(re, e)
			}
		}
		me = append(me, mp.Exports...)
		sort.Strings(re)
		sort.Strings(me)
		if strings.Join(re, ",") != strings.Join(me, ",") {
			return &c08Diff{"package-exports", fmt.Sprintf("package %s exports [%s], the model says [%s]", pn, strings.Join(re, ","), strings.Join(me, ","))}, "", detail0(), rr, in
		}
	}
	return nil, "", detail0(), rr, in
}

// c08LangMissing lists the exports of the language package that are bound there and
// not bound in p ("a new package starts with the language package's exports", and
// nothing unbinds a symbol).
func c08LangMissing(lang, p *lisp.Package) []string {
	var miss []string
	for _, s := range lang.Externals() {
		if _, ok := lang.Symbol(s); !ok {
			continue
		}
		if _, ok := p.Symbol(s); !ok {
			miss = append(miss, s)
		}
	}
	sort.Strings(miss)
	return miss
}

func c08RefusedRun(w *fw.W, idx int) {
	r := w.RNG(idx, "refused-history")
	x := &c08Ref{class: c08RefClasses[idx%len(c08RefClasses)], entered: map[string]bool{"user": true}}
	g := &c08Gen{r: r, cur: "user", ref: x}
	g.pkgs = []string{"user"}
	for i, np := 1, r.Range(1, 3); i <= np; i++ {
		g.pkgs = append(g.pkgs, fmt.Sprintf("p%d", i))
	}
	x.want = r.Range(1, 3)
	n := r.Range(6, 24)
	var segs [][]*sx.N
	var seg []*sx.N
	closeSeg := func() {
		if len(seg) > 0 {
			segs = append(segs, seg)
			seg = nil
		}
		g.cur = "user" // the load restores its caller's package
	}
	for i := 0; i < n || x.want > 0; i++ {
		var st *sx.N
		// refused calls are spread over the history, the first one early
		if x.want > 0 && (g.r.Chance(1, 5) || i >= n) {
			st = g.refusedStmt()
		} else {
			st = g.plainStmt()
		}
		seg = append(seg, st)
		if x.endSeg || g.r.Chance(1, 9) {
			x.endSeg = false
			closeSeg()
			if x.next != "" {
				x.followed++
				g.kinds = append(g.kinds, "in-package")
				seg = append(seg, g.refValidInPackage(x.next))
				x.next = ""
			}
		}
	}
	closeSeg()
	// final observation: every referable package is entered (a package that does not
	// exist yet comes into being here) and every name read, with language functions
	// called unqualified
	var obs []*sx.N
	names := append(append([]string(nil), g.pkgs...), x.pool...)
	for _, p := range names {
		var reads []*sx.N
		for _, nm := range c08Names {
			reads = append(reads, g.guarded(sx.Y(nm)))
		}
		obs = append(obs, sx.Call("in-package", sx.QY(p)),
			g.probe("obs", sx.Call("cons", sx.Call("car", sx.Call("cdr", sx.Call("list", sx.I(1), sx.I(2)))), sx.Call("list", reads...))))
	}
	segs = append(segs, obs)
	all := names

	w.Count("refused_cases", 1)
	w.Count("refused_calls_generated", int64(len(x.nodes)))
	w.Count("refused_followed_by_valid_form_on_same_name", int64(x.followed))
	d, declined, detail, rr, in := c08History(w, segs, all, true)
	w.Logf("class %s\n%s", x.class, detail)
	if declined != "" {
		w.Count("refused_model_declined", 1)
		w.SetAdd("refused_declined", declined)
		w.Count("refused_declined|"+x.class+"|"+declined, 1)
		if os.Getenv("C08_DEBUG") != "" {
			fmt.Fprintf(os.Stderr, "DECLINED %d %s %s\n%s\n\n", idx, x.class, declined, detail)
		}
		return
	}
	w.Count("refused_calls_in_judged_histories", int64(len(x.nodes)))
	w.Count("refusals_the_model_went_through", int64(in.RefusedCalls)) // with the mix's own use-package of packages that do not exist yet
	if d != nil {
		// attribution: the same history without its refused calls
		for _, nd := range x.nodes {
			*nd = *sx.L()
		}
		cd, cdecl, cdetail, _, _ := c08History(w, segs, all, true)
		if cd != nil && cdecl == "" {
			w.Violation("package-model-disagreement:"+cd.aspect, cd.summary+" (a history of several loads; it disagrees without its refused calls too)", cdetail)
			return
		}
		w.Violation("after-refused-package-operation:"+x.class+":"+d.aspect,
			d.summary+" (the same history with every refused call replaced by () agrees with the model)", "class "+x.class+"\n"+detail)
		return
	}
	w.SetAdd("refused_classes_judged", x.class)
	for _, f := range x.forms {
		w.SetAdd("refused_forms", f)
	}
	for i := 1; i < len(g.kinds); i++ {
		if strings.HasPrefix(g.kinds[i], "refused-") || strings.HasPrefix(g.kinds[i-1], "refused-") {
			w.CoverKey("refused-bigram|" + g.kinds[i-1] + ">" + g.kinds[i])
		}
	}
	for _, p := range rr.Trace {
		kind := strings.TrimRight(p.Tag, "0123456789")
		w.CoverKey("refused-history-ref|" + x.class + "|" + kind + "|" + c08Class(p.Vals))
	}
	w.CoverKey(fmt.Sprintf("refused-history|%s|loads=%d|followed=%d", x.class, len(segs), x.followed))
	w.Count("refused_histories_judged", 1)
	if w.WantSample() && len(detail) < 2500 && in.RefusedCalls > 0 {
		w.Sample(map[string]any{"family": "refused-operation history", "class": x.class, "history": detail})
	}
	w.Count("refused_loads", int64(len(segs)))
	w.Count("probe_events", int64(len(rr.Trace)))
}

// c08Driver is the floor of the refused-operation family.
func c08Driver(d *fw.D) {
	total := d.Prop.Cases(d.Tier)
	if s := os.Getenv("VERIF_CASES"); s != "" {
		if n, err := strconv.Atoi(s); err == nil && n > 0 {
			total = n
		}
	}
	if total <= c08MainCases(d.Tier) {
		return // a truncated case list (development aid) without the family
	}
	if d.Counters["refused_histories_judged"] == 0 || d.Counters["refused_calls_in_judged_histories"] == 0 {
		d.Inconclusive("refused-operation histories: no history with a refused package operation was judged")
		return
	}
	want := map[string]bool{}
	for _, c := range c08RefClasses {
		want[c] = true
	}
	if total-c08MainCases(d.Tier) >= 20*len(c08RefClasses) {
		for c := range want {
			if !d.Sets["refused_classes_judged"][c] {
				d.Inconclusive("refused-operation histories: no history judged for the class " + c)
			}
		}
		if d.Counters["refused_followed_by_valid_form_on_same_name"] == 0 {
			d.Inconclusive("refused-operation histories: no refused call was followed by the valid form on the same name")
		}
		if 2*d.Counters["refused_histories_judged"] < d.Counters["refused_cases"] {
			d.Inconclusive(fmt.Sprintf("refused-operation histories: the model judged only %d of %d", d.Counters["refused_histories_judged"], d.Counters["refused_cases"]))
		}
	}
}
