package props

import (
	"fmt"
	"strings"

	"github.com/luthersystems/elps/lisp"

	"verifharness/fw"
	"verifharness/gen"
	"verifharness/rt"
	"verifharness/sx"
)

// C02 — tail-call elimination is transparent; tail loops run in constant stack.
//
// Case list layout (indices):
//   [0, nShapes)            the shape enumerator: wrapper chains x call forms x recursion kinds x definers
//   [nShapes, nShapes+nBlk) blocked shapes (handler-bind / ignore-errors / load-string / macro body)
//   [.., ..+nTwin)          twin runs of generated programs under {default, dormant debugger, profiler}
//   [.., ..+nExits)         exit shapes: tail-position constructs exercised along each of their internal
//                           exits, the exit taken being chosen by the turn number (appended so that the
//                           indices - hence the generated programs - of the earlier blocks stay what they were)
//   [.., ..+nEsc)           escape shapes (c02_escape.go): every turn creates closures over its own
//                           parameters / locals, they escape the turn and are called later (appended)
//   [.., ..+nDepth)         depth-history cases (c02_depth.go): the stack goes deeper than it has ever
//                           been in the runtime while loop frames are live (appended)
//   the rest (nCallee)      callee-identity cases (c02_callee.go): the function value a turn calls changes
//                           from turn to turn (closures made afresh every turn, tables of lambdas) (appended last)

func init() {
	fw.Register(&fw.Prop{
		ID:    "C02",
		Level: "exploration",
		Rule: "(a) every chain of <=2 tail-position wrappers (14 wrappers) x 5 call forms x {self, 2-cycle, 3-cycle} x {defun, labels, set-lambda} is run with iteration counts {1,2,10,100,1000(,20000)}; a host builtin samples len(Stack.Frames) and TailIterations each turn; longer chains are sampled; " +
			"(a') exit shapes: every tail-position construct is also exercised along each of its internal exits (dotimes with a zero / negative / turn-dependent count, with and without body; if / cond branch and clause chosen by the turn number; let, let*, flet, labels, macrolet with zero, one, many bindings; progn / or / thread-first / thread-last with one..many forms; the call form itself chosen by the turn), alone x 11 call forms x 3 recursion kinds and in sampled chains with the other wrappers, iteration counts {1,2,24,120,1200(,24000)}: the sampled entry heights must repeat with the period of the exit selection (12 turns) and the maximum height must be the same for 24 and for 120, 1200 turns; " +
			"(a'') escape shapes: every turn of the loop creates one or two closures over the loop's own parameters and locals of the turn (directly, through a nested lambda, a let / let* / flet / labels around the call, expr, an inner parameter, an &optional parameter, a closure that set!s what it captured; a fourth formal of kind &optional / &rest / &key), with set! of a captured parameter before / after the closure is created, and makes them escape (cons, append! to a vector, assoc! into a sorted-map, a global, a chain of closures, handed to the next turn which calls it); all (escape x capture x mutation) with the other dimensions, wrappers, call forms, recursion kinds and definers rotated and sampled; the closures are called after the loop (or in the next turn): the list of their values must be equal with elimination on and off and equal to the list predicted by construction (each closure sees the variables of the turn that created it); stack oracles as in (a); " +
			"(a3) depth-history cases (c02_depth.go): the stack is driven deeper than it has ever been in the runtime WHILE loop frames are live, and the loops go on: tail loops (wrappers, 11 call forms, recursion kinds, definers as above) whose turns make a non-tail recursive excursion (13 kinds: plain, let initialiser, map / foldl callbacks, handler-bind, ignore-errors, funcall, apply, 2-cycle, non-final body form, labels-local, dotimes body, with a tail loop at the bottom) in one of 5 positions of the turn (non-final body form before / after the call made for effect, argument of the tail call, let initialiser around it, exit test), of a depth that grows from turn to turn through 2^k-1, 2^k, 2^k+1 frames (k = 4..11, thorough 13) and values in between, with calls made for effect from non-final body forms to functions of the cycle (8 call forms, behind a tail-position wrapper or not) on chosen turns, started at base depths 0..250; walks of 2- and 3-ary trees (spines, zigzags, combs whose teeth grow along the tail spine, random) that reach all children but one by non-tail calls (non-final body forms, wrapped, argument, let initialiser, map callback) and the last by a tail call, self and 2-cycle; Ackermann's function m = 1..3; all (excursion kind x position x recursion kind) plus sampled combinations: value, ordered effect trace and number of activations are fixed by construction, entry heights must not grow, the tail iterations counted on the live frames and the logical height must advance every turn, pushes = pops, only terminal unblocked frames collapse, the elimination-off run and a second run in the same runtime give the same transcript; " +
			"(a4) callee-identity cases (c02_callee.go): the function VALUE a turn tail-calls changes from turn to turn instead of being a named function or one lambda bound once: a closure made afresh every turn (by a maker function closing over the turn's data or taking it as arguments, an anonymous maker handed along, labels / flet in the maker, a curried maker, curry-function / compose / flip around a fresh closure), one of k different lambdas taken from a list / vector / sorted-map built once or rebuilt every turn, called through funcall, apply (leading arguments or all in the list), unpack, a funcall step of thread-first, an apply step of thread-last, one of these chosen by the turn, or as the head of the call form, started by funcall / apply / inside a named function / a let-bound value / a head call, behind 0..2 of the wrappers of (a), (a'); all (source x via) plus sampled combinations, iteration counts {1,2,24,120,1200(,12000)}: value, one entry per turn, entry i not higher than entry i-12 from the third period on, the same maximum height for 24, 120 and 1200 turns, only terminal unblocked frames collapse, pushes = pops, elimination-off transcript equal; heights are judged for calls made by funcall / apply / unpack / threading steps of functions made by lambda, labels, flet, curry-function, compose (documented as equivalent to a lambda whose last form is the call) and only observed for a callee computed in the head of the call form and for flip; " +
			"(b) loops routed through handler-bind / ignore-errors / load-string / a macro body must keep their frames and handlers; (c) generated programs are run under elimination on, off (dormant debugger) and profiler and their transcripts compared. distinct_nontrivial counts distinct (shape, recursion kind, definer, iteration count) and program-feature signatures whose runs took >= 5 steps",
		Assumptions: []string{
			"a dormant Debugger (IsEnabled()==false) is the configuration that disables elimination, as the property states",
			"a twin pair is not judged when the elimination-off run fails with a stack/nesting/step limit (the property only covers programs that fit the stack limit without elimination)",
			"for loops whose recursive call is written inside a macro *template* the sampled heights are not judged (only the hook assertion that no TROBlock frame is elided and twin equality)",
		},
		Cases:       func(tier string) int { return c02Layout(tier).total },
		Run:         c02Run,
		Init:        c02Init,
		Driver:      c02Driver,
		Exhaustive:  func(tier string) bool { return false },
		MinDistinct: func(tier string) int { return pick(tier, 600, 1500) },
	})
}

type c02Lay struct{ nShapes, nBlocked, nTwin, nExits, nEsc, nDepth, nCallee, total int }

func c02Layout(tier string) c02Lay {
	l := c02Lay{}
	nw := len(c02Wrappers)
	chains := 1 + nw + nw*nw
	l.nShapes = chains*len(c02CallForms)*3 + pick(tier, 300, 6000) // exhaustive <=2 for (kind x definer rotated), plus sampled long chains
	l.nBlocked = pick(tier, 60, 600)
	l.nTwin = pick(tier, 3000, 200000)
	l.nExits = c02ExitExhaustive() + pick(tier, 250, 5000)
	l.nEsc = c02EscExhaustive() + pick(tier, 200, 5000)
	l.nDepth = c02DepthExhaustive() + pick(tier, 175, 6000)
	l.nCallee = c02CalExhaustive() + pick(tier, 112, 2500)
	l.total = l.nShapes + l.nBlocked + l.nTwin + l.nExits + l.nEsc + l.nDepth + l.nCallee
	return l
}

// --- wrappers: X sits in tail position of the returned form ------------------

type c02Wrapper struct {
	name string
	wrap func(x *sx.N, k int) *sx.N
}

var c02Wrappers = []c02Wrapper{
	{"if-then", func(x *sx.N, k int) *sx.N { return sx.Call("if", sx.Y("true"), x, sx.I(0)) }},
	{"if-else", func(x *sx.N, k int) *sx.N { return sx.Call("if", sx.Y("false"), sx.I(0), x) }},
	{"cond", func(x *sx.N, k int) *sx.N {
		return sx.Call("cond", sx.L(sx.Y("false"), sx.I(0)), sx.L(sx.Y("true"), sx.I(1), x))
	}},
	{"cond-else", func(x *sx.N, k int) *sx.N {
		return sx.Call("cond", sx.L(sx.Y("false"), sx.I(0)), sx.L(sx.Y("else"), x))
	}},
	{"progn", func(x *sx.N, k int) *sx.N { return sx.Call("progn", sx.I(1), x) }},
	{"let", func(x *sx.N, k int) *sx.N {
		return sx.Call("let", sx.L(sx.L(sx.Y(fmt.Sprintf("t%d", k)), sx.I(1))), x)
	}},
	{"let*", func(x *sx.N, k int) *sx.N {
		t := fmt.Sprintf("t%d", k)
		return sx.Call("let*", sx.L(sx.L(sx.Y(t), sx.I(1)), sx.L(sx.Y(t+"b"), sx.Y(t))), x)
	}},
	{"flet", func(x *sx.N, k int) *sx.N {
		return sx.Call("flet", sx.L(sx.L(sx.Y(fmt.Sprintf("h%d", k)), sx.L(sx.Y("a")), sx.Y("a"))), x)
	}},
	{"labels", func(x *sx.N, k int) *sx.N {
		return sx.Call("labels", sx.L(sx.L(sx.Y(fmt.Sprintf("h%d", k)), sx.L(sx.Y("a")), sx.Y("a"))), x)
	}},
	{"or", func(x *sx.N, k int) *sx.N { return sx.Call("or", sx.Y("false"), sx.Nil(), x) }},
	{"dotimes-result", func(x *sx.N, k int) *sx.N {
		return sx.Call("dotimes", sx.L(sx.Y(fmt.Sprintf("i%d", k)), sx.I(1), x), sx.I(0))
	}},
	{"thread-first-1", func(x *sx.N, k int) *sx.N { return sx.Call("thread-first", x) }},
	{"macrolet-body", func(x *sx.N, k int) *sx.N {
		return sx.Call("macrolet", sx.L(sx.L(sx.Y(fmt.Sprintf("mm%d", k)), sx.L(sx.Y("a")), sx.Y("a"))), x)
	}},
	{"progn-nested", func(x *sx.N, k int) *sx.N { return sx.Call("progn", sx.Call("progn", sx.I(0)), sx.Call("progn", x)) }},
}

// --- call forms: (callee n' acc') written in five ways -------------------------

var c02CallForms = []string{"direct", "thread-first", "thread-last", "funcall", "apply", "head-call", "apply-list", "unpack", "funcall-function"}

func c02Call(form, callee string, n, acc *sx.N) *sx.N {
	switch form {
	case "thread-first":
		return sx.Call("thread-first", n, sx.Call(callee, acc))
	case "thread-last":
		return sx.Call("thread-last", acc, sx.Call(callee, n))
	case "funcall":
		return sx.Call("funcall", sx.Y(callee), n, acc)
	case "apply":
		return sx.Call("apply", sx.Y(callee), n, sx.Call("list", acc))
	case "apply-list":
		// all arguments in the list, none leading
		return sx.Call("apply", sx.Y(callee), sx.Call("list", n, acc))
	case "unpack":
		return sx.Call("unpack", sx.Y(callee), sx.Call("list", n, acc))
	case "funcall-function":
		return sx.Call("funcall", sx.Call("function", sx.Y(callee)), n, acc)
	case "thread-first-2":
		// a non-final threaded expression, evaluated by the operator itself, before the final one
		return sx.Call("thread-first", n, sx.Call("+", sx.I(0)), sx.Call(callee, acc))
	case "thread-last-2":
		return sx.Call("thread-last", acc, sx.Call("+", sx.I(0)), sx.Call(callee, n))
	case "call-form-by-turn":
		// the way the call is written changes from turn to turn
		return sx.Call("cond",
			sx.L(c02Turn(4, 0), c02Call("direct", callee, n, acc)),
			sx.L(c02Turn(4, 1), c02Call("funcall", callee, n.Clone(), acc.Clone())),
			sx.L(c02Turn(4, 2), c02Call("apply", callee, n.Clone(), acc.Clone())),
			sx.L(sx.Y("else"), c02Call("thread-last", callee, n.Clone(), acc.Clone())))
	case "head-call":
		// ((callee -2 0) n' acc'): the HEAD is itself a call into the loop (it returns a
		// function that continues it); a head is evaluated, never tail-called
		return sx.L(sx.Call(callee, sx.I(-2), sx.I(0)), n, acc)
	}
	return sx.Call(callee, n, acc)
}

type c02Shape struct {
	chain   []int // indices into c02Wrappers (then, from len(c02Wrappers) on, c02ExitWrappers), outermost first
	call    string
	cycle   int    // 1 self, 2, 3
	definer string // defun labels set-lambda
	iters   []int
	side    bool    // the body also makes a NON-final call for effect to a function of the cycle
	exits   bool    // an exit shape: the path through the chain depends on the turn number
	esc     *c02Esc // an escape shape: what the turns create and how it outlives them (c02_escape.go)
}

func (s c02Shape) name() string {
	var ws []string
	for _, w := range s.chain {
		ws = append(ws, c02Wrap(w).name)
	}
	sd := ""
	if s.side {
		sd = " +non-final-call"
	}
	if s.esc != nil {
		sd += " " + s.esc.name()
	}
	return fmt.Sprintf("chain=[%s] call=%s cycle=%d definer=%s%s", strings.Join(ws, ">"), s.call, s.cycle, s.definer, sd)
}

func c02ShapeFor(w *fw.W, idx int, tier string) c02Shape {
	nw := len(c02Wrappers)
	chains := 1 + nw + nw*nw
	exh := chains * len(c02CallForms) * 3
	iters := []int{1, 2, 10, 100}
	if tier == "thorough" {
		iters = append(iters, 1000, 20000)
	} else if idx%5 == 0 {
		iters = append(iters, 1000)
	}
	definers := []string{"defun", "labels", "set-lambda"}
	if idx < exh {
		ci := idx % chains
		rest := idx / chains
		call := c02CallForms[rest%len(c02CallForms)]
		cycle := rest/len(c02CallForms) + 1
		var chain []int
		switch {
		case ci == 0:
		case ci <= nw:
			chain = []int{ci - 1}
		default:
			c := ci - 1 - nw
			chain = []int{c / nw, c % nw}
		}
		return c02Shape{chain: chain, call: call, cycle: cycle, definer: definers[(idx/7)%3], iters: iters, side: idx%4 == 1}
	}
	r := w.RNG(idx, "shape")
	n := r.Range(3, 5)
	chain := make([]int, n)
	for i := range chain {
		chain[i] = r.Intn(nw)
	}
	return c02Shape{chain: chain, call: fw.Pick(r, c02CallForms), cycle: r.Range(1, 3), definer: fw.Pick(r, definers), iters: iters, side: r.Chance(1, 3)}
}

// --- exit shapes: the path taken THROUGH a tail-position construct depends on the turn ----
//
// The wrappers above put the call on the common exit of each construct, the same one on
// every turn.  Each construct has more exits that leave the call in tail position (a
// dotimes that takes no turn at all, a let without bindings, the first clause of a cond, a
// progn of one form ...); the wrappers below put the call on each of them, and choose the
// exit from the turn variable n (> 0 here: the base case is tested first), so that one loop
// goes through all of them in turn.  The period of every selection divides c02ExitPeriod.

const c02ExitPeriod = 12

// c02Turn is the test (= v (mod n m)).
func c02Turn(m, v int) *sx.N {
	return sx.Call("=", sx.I(int64(v)), sx.Call("mod", sx.Y("n"), sx.I(int64(m))))
}

// c02By2 / c02By3 choose one of the forms by the turn number.
func c02By2(a, b *sx.N) *sx.N { return sx.Call("if", c02Turn(2, 0), a, b) }
func c02By3(a, b, c *sx.N) *sx.N {
	return sx.Call("cond", sx.L(c02Turn(3, 0), a), sx.L(c02Turn(3, 1), b), sx.L(sx.Y("else"), c))
}

func c02Fn(name string, formals []string, body ...*sx.N) *sx.N {
	var fs []*sx.N
	for _, f := range formals {
		fs = append(fs, sx.Y(f))
	}
	return sx.L(append([]*sx.N{sx.Y(name), sx.L(fs...)}, body...)...)
}

var c02ExitWrappers = []c02Wrapper{
	// if / cond: branch, clause and clause length chosen by the turn
	{"if-branch-by-turn", func(x *sx.N, k int) *sx.N { return sx.Call("if", c02Turn(2, 0), x, x.Clone()) }},
	{"cond-clause-by-turn", func(x *sx.N, k int) *sx.N {
		return sx.Call("cond", sx.L(c02Turn(3, 0), x), sx.L(c02Turn(3, 1), sx.I(1), x.Clone()), sx.L(sx.Y("else"), sx.I(1), sx.I(2), x.Clone()))
	}},
	{"cond-no-else-by-turn", func(x *sx.N, k int) *sx.N {
		return sx.Call("cond", sx.L(sx.Call("<", sx.Y("n"), sx.I(0)), sx.I(0)), sx.L(c02Turn(2, 0), x), sx.L(c02Turn(2, 1), sx.I(0), x.Clone()))
	}},
	// progn / or: one .. many forms
	{"progn-length-by-turn", func(x *sx.N, k int) *sx.N {
		return c02By3(sx.Call("progn", x), sx.Call("progn", sx.I(1), x.Clone()), sx.Call("progn", sx.I(1), sx.Y("n"), sx.Call("+", sx.Y("n"), sx.I(1)), x.Clone()))
	}},
	{"or-1", func(x *sx.N, k int) *sx.N { return sx.Call("or", x) }},
	{"or-length-by-turn", func(x *sx.N, k int) *sx.N {
		return c02By3(sx.Call("or", x), sx.Call("or", sx.Y("false"), x.Clone()), sx.Call("or", sx.Nil(), sx.Y("false"), sx.Call("=", sx.Y("n"), sx.I(0)), x.Clone()))
	}},
	// binding forms: zero, one, many bindings; one or several body forms
	{"let-0", func(x *sx.N, k int) *sx.N { return sx.Call("let", sx.L(), x) }},
	{"let-bindings-by-turn", func(x *sx.N, k int) *sx.N {
		t := fmt.Sprintf("t%d", k)
		return c02By3(sx.Call("let", sx.L(), x),
			sx.Call("let", sx.L(sx.L(sx.Y(t), sx.I(1))), x.Clone()),
			sx.Call("let", sx.L(sx.L(sx.Y(t), sx.I(1)), sx.L(sx.Y(t+"b"), sx.Y("n")), sx.L(sx.Y(t+"c"), sx.Y("acc"))), sx.Y(t+"b"), x.Clone()))
	}},
	{"let*-0", func(x *sx.N, k int) *sx.N { return sx.Call("let*", sx.L(), x) }},
	{"let*-bindings-by-turn", func(x *sx.N, k int) *sx.N {
		t := fmt.Sprintf("t%d", k)
		return c02By3(sx.Call("let*", sx.L(), x),
			sx.Call("let*", sx.L(sx.L(sx.Y(t), sx.I(1))), x.Clone()),
			sx.Call("let*", sx.L(sx.L(sx.Y(t), sx.I(1)), sx.L(sx.Y(t+"b"), sx.Y(t)), sx.L(sx.Y(t+"c"), sx.Y(t+"b"))), sx.Y(t+"c"), x.Clone()))
	}},
	{"flet-0", func(x *sx.N, k int) *sx.N { return sx.Call("flet", sx.L(), x) }},
	{"flet-bindings-by-turn", func(x *sx.N, k int) *sx.N {
		h := fmt.Sprintf("h%d", k)
		return c02By2(sx.Call("flet", sx.L(), x),
			sx.Call("flet", sx.L(c02Fn(h, []string{"a"}, sx.Y("a")), c02Fn(h+"b", nil, sx.I(1))), sx.Call(h, sx.I(1)), x.Clone()))
	}},
	{"labels-0", func(x *sx.N, k int) *sx.N { return sx.Call("labels", sx.L(), x) }},
	{"labels-bindings-by-turn", func(x *sx.N, k int) *sx.N {
		h := fmt.Sprintf("h%d", k)
		return c02By2(sx.Call("labels", sx.L(), x),
			sx.Call("labels", sx.L(c02Fn(h, []string{"a"}, sx.Y("a")), c02Fn(h+"b", nil, sx.Call(h, sx.I(1)))), sx.Call(h+"b"), x.Clone()))
	}},
	{"macrolet-bindings-by-turn", func(x *sx.N, k int) *sx.N {
		m := fmt.Sprintf("mm%d", k)
		return c02By2(sx.Call("macrolet", sx.L(), x),
			sx.Call("macrolet", sx.L(c02Fn(m, []string{"a"}, sx.Y("a")), c02Fn(m+"b", []string{"a"}, sx.Y("a"))), sx.I(0), x.Clone()))
	}},
	// dotimes: the result form after no turn at all, after a number of turns that depends
	// on the turn of the outer loop, with and without body forms
	{"dotimes-count-0", func(x *sx.N, k int) *sx.N {
		return sx.Call("dotimes", sx.L(sx.Y(fmt.Sprintf("i%d", k)), sx.I(0), x), sx.I(0))
	}},
	{"dotimes-count-negative", func(x *sx.N, k int) *sx.N {
		return sx.Call("dotimes", sx.L(sx.Y(fmt.Sprintf("i%d", k)), sx.I(-2), x), sx.I(0))
	}},
	{"dotimes-count-3", func(x *sx.N, k int) *sx.N {
		i := fmt.Sprintf("i%d", k)
		return sx.Call("dotimes", sx.L(sx.Y(i), sx.I(3), x), sx.Y(i), sx.I(0))
	}},
	{"dotimes-count-by-turn", func(x *sx.N, k int) *sx.N { // -1, 0, 1
		return sx.Call("dotimes", sx.L(sx.Y(fmt.Sprintf("i%d", k)), sx.Call("-", sx.Call("mod", sx.Y("n"), sx.I(3)), sx.I(1)), x), sx.I(0))
	}},
	{"dotimes-count-by-turn-no-body", func(x *sx.N, k int) *sx.N { // 0 .. 3
		return sx.Call("dotimes", sx.L(sx.Y(fmt.Sprintf("i%d", k)), sx.Call("mod", sx.Y("n"), sx.I(4)), x))
	}},
	// threading operators without any threaded expression
	{"thread-0-by-turn", func(x *sx.N, k int) *sx.N {
		return c02By2(sx.Call("thread-first", x), sx.Call("thread-last", x.Clone()))
	}},
}

// c02Wrap resolves a chain index: the wrappers of the enumerated shapes first, the exit wrappers after.
func c02Wrap(i int) c02Wrapper {
	if i < len(c02Wrappers) {
		return c02Wrappers[i]
	}
	return c02ExitWrappers[i-len(c02Wrappers)]
}

// call forms of the exit shapes: those of the enumerated shapes whose heights are judged, and
// the ones with an internal path of their own
var c02ExitCallForms = []string{"direct", "thread-first", "thread-last", "funcall", "apply", "apply-list", "unpack", "funcall-function",
	"thread-first-2", "thread-last-2", "call-form-by-turn"}

func c02ExitExhaustive() int { return (len(c02ExitWrappers) + 1) * len(c02ExitCallForms) * 3 }

// c02ExitShapeFor: j indexes the exit block; idx (the global index) seeds the sampled part.
func c02ExitShapeFor(w *fw.W, idx, j int, tier string) c02Shape {
	nw, ne := len(c02Wrappers), len(c02ExitWrappers)
	iters := []int{1, 2, 2 * c02ExitPeriod, 10 * c02ExitPeriod}
	if tier == "thorough" {
		iters = append(iters, 100*c02ExitPeriod, 2000*c02ExitPeriod)
	} else if j%5 == 0 {
		iters = append(iters, 100*c02ExitPeriod)
	}
	definers := []string{"defun", "labels", "set-lambda"}
	if j < c02ExitExhaustive() {
		// every exit wrapper alone (and none: the call forms alone) x call form x recursion kind
		wi := j % (ne + 1)
		rest := j / (ne + 1)
		var chain []int
		if wi > 0 {
			chain = []int{nw + wi - 1}
		}
		return c02Shape{chain: chain, call: c02ExitCallForms[rest%len(c02ExitCallForms)], cycle: rest/len(c02ExitCallForms) + 1,
			definer: definers[(j/7)%3], iters: iters, side: j%8 == 1, exits: true}
	}
	// sampled chains of 2..3 wrappers of both kinds, at least one exit wrapper
	r := w.RNG(idx, "exit-shape")
	chain := make([]int, r.Range(2, 3))
	for i := range chain {
		if r.Chance(1, 2) {
			chain[i] = nw + r.Intn(ne)
		} else {
			chain[i] = r.Intn(nw)
		}
	}
	chain[r.Intn(len(chain))] = nw + r.Intn(ne)
	return c02Shape{chain: chain, call: fw.Pick(r, c02ExitCallForms), cycle: r.Range(1, 3), definer: fw.Pick(r, definers), iters: iters, side: r.Chance(1, 8), exits: true}
}

// c02LoopProgram renders the loop functions.  Each function samples the stack
// with (verif:depth) on entry, then either returns acc or makes the wrapped
// tail call to the next function of the cycle.
func c02LoopProgram(s c02Shape, n int) string {
	if s.esc != nil {
		return c02EscProgram(s, n)
	}
	names := []string{"lp-a", "lp-b", "lp-c"}[:s.cycle]
	var defs []*sx.N
	mk := func(i int) (*sx.N, *sx.N) { // formals, body
		next := names[(i+1)%s.cycle]
		call := c02Call(s.call, next, sx.Call("-", sx.Y("n"), sx.I(1)), sx.Call("+", sx.Y("acc"), sx.I(1)))
		for k := len(s.chain) - 1; k >= 0; k-- {
			call = c02Wrap(s.chain[k]).wrap(call, k)
		}
		body := sx.Call("if", sx.Call("<=", sx.Y("n"), sx.I(0)), sx.Y("acc"), call)
		if s.call == "head-call" {
			body = sx.Call("if", sx.Call("<", sx.Y("n"), sx.I(-1)),
				sx.Call("lambda", sx.L(sx.Y("a"), sx.Y("b")), sx.Call(names[i], sx.Y("a"), sx.Y("b"))), body)
		}
		return sx.L(sx.Y("n"), sx.Y("acc")), body
	}
	// non-final body forms: a base-case marker and, on even turns, a call made
	// for effect to a function of the cycle (it returns at once: n = -1)
	pre := func(i int) []*sx.N {
		if !s.side {
			return nil
		}
		target := names[(i+s.cycle-1)%s.cycle]
		return []*sx.N{
			sx.Call("if", sx.Call("=", sx.Y("n"), sx.I(-1)), sx.Call("verif:probe", sx.QY("side"), sx.Y("acc")), sx.Nil()),
			sx.Call("if", sx.Call("and", sx.Call(">", sx.Y("n"), sx.I(0)), sx.Call("=", sx.I(0), sx.Call("mod", sx.Y("n"), sx.I(2)))), sx.Call(target, sx.I(-1), sx.Y("n")), sx.Nil()),
		}
	}
	withPre := func(i int, head []*sx.N, b *sx.N) []*sx.N { return append(append(head, pre(i)...), b) }
	start := sx.Call(names[0], sx.I(int64(n)), sx.I(0))
	switch s.definer {
	case "labels":
		var bs []*sx.N
		for i, nm := range names {
			f, b := mk(i)
			bs = append(bs, sx.L(withPre(i, []*sx.N{sx.Y(nm), f, sx.Call("verif:depth")}, b)...))
		}
		// funcall/apply resolve symbols globally, so pass the function value
		return sx.Render([]*sx.N{sx.Call("labels", sx.L(bs...), start)}, nil)
	case "set-lambda":
		for i, nm := range names {
			f, b := mk(i)
			defs = append(defs, sx.Call("set", sx.QY(nm), sx.Call("lambda", withPre(i, []*sx.N{f, sx.Call("verif:depth")}, b)...)))
		}
	default:
		for i, nm := range names {
			f, b := mk(i)
			defs = append(defs, sx.Call("defun", withPre(i, []*sx.N{sx.Y(nm), f, sx.Call("verif:depth")}, b)...))
		}
	}
	return sx.Render(append(defs, start), nil)
}

// --- hook monitor ---------------------------------------------------------------

type c02Mon struct {
	elideEvents  int64
	elidedFrames int64
	badElide     string
	maxHeight    int
	pushes, pops int64
	// depth-history block: where the frame array of the call stack moved (observed, never
	// judged): the capacity seen by the push hook changed
	watch       bool
	live        func() bool // has the loop under observation been entered
	lastCap     int
	moveHeights []int
	movesLive   int64
}

var c02Cur *c02Mon

func c02Init(w *fw.W) {
	lisp.VerifSetHooks(&lisp.VerifHooks{
		TailElide: func(r *lisp.Runtime, frames []lisp.CallFrame, callee lisp.CallFrame) {
			m := c02Cur
			if m == nil {
				return
			}
			m.elideEvents++
			m.elidedFrames += int64(len(frames))
			for _, f := range frames {
				if f.TROBlock && m.badElide == "" {
					m.badElide = "frame with TROBlock elided: " + f.QualifiedFunName()
				}
				if !f.Terminal && m.badElide == "" {
					m.badElide = "non-terminal frame elided: " + f.QualifiedFunName()
				}
			}
		},
		Push: func(s *lisp.CallStack, h int) {
			if m := c02Cur; m != nil {
				m.pushes++
				if h > m.maxHeight {
					m.maxHeight = h
				}
				if m.watch {
					if c := cap(s.Frames); c != m.lastCap {
						if m.lastCap != 0 {
							if len(m.moveHeights) < 32 {
								m.moveHeights = append(m.moveHeights, h)
							}
							if m.live != nil && m.live() {
								m.movesLive++
							}
						}
						m.lastCap = c
					}
				}
			}
		},
		Pop: func(s *lisp.CallStack, h int) {
			if m := c02Cur; m != nil {
				m.pops++
			}
		},
	})
}

type c02Tr struct {
	t       rt.Transcript
	samples []rt.DepthSample
	mon     c02Mon
}

func c02Exec(src string, o rt.Opts) c02Tr {
	m := &c02Mon{}
	c02Cur = m
	r := rt.New(o)
	t := r.Run("c02", src)
	c02Cur = nil
	return c02Tr{t: t, samples: r.DepthSamples, mon: *m}
}

func c02Same(a, b rt.Transcript) string {
	if a.IsErr != b.IsErr {
		return fmt.Sprintf("one run failed: %s vs %s", a.Outcome(), b.Outcome())
	}
	if a.IsErr && a.Cond != b.Cond {
		return fmt.Sprintf("condition %s vs %s", a.Cond, b.Cond)
	}
	if !a.IsErr && a.Value != b.Value {
		return fmt.Sprintf("value %s vs %s", a.Value, b.Value)
	}
	if a.Stderr != b.Stderr {
		return fmt.Sprintf("stderr %q vs %q", a.Stderr, b.Stderr)
	}
	if a.TraceString() != b.TraceString() {
		return fmt.Sprintf("effect trace %s vs %s", a.TraceString(), b.TraceString())
	}
	return ""
}

func c02LimitErr(t rt.Transcript) bool {
	if !t.IsErr {
		return false
	}
	switch t.Cond {
	case "step-limit-exceeded", "eval-nesting-exceeded":
		return true
	}
	return strings.Contains(t.Msg, "stack height exceeded") || strings.Contains(t.Msg, "tail-call iteration limit")
}

func c02Run(w *fw.W, idx int) {
	l := c02Layout(w.Tier)
	switch {
	case idx < l.nShapes:
		c02RunShape(w, idx)
	case idx < l.nShapes+l.nBlocked:
		c02RunBlocked(w, idx-l.nShapes)
	case idx < l.nShapes+l.nBlocked+l.nTwin:
		c02RunTwin(w, idx)
	case idx < l.nShapes+l.nBlocked+l.nTwin+l.nExits:
		c02RunShapeS(w, c02ExitShapeFor(w, idx, idx-(l.nShapes+l.nBlocked+l.nTwin), w.Tier))
	case idx < l.nShapes+l.nBlocked+l.nTwin+l.nExits+l.nEsc:
		c02RunShapeS(w, c02EscShapeFor(w, idx, idx-(l.nShapes+l.nBlocked+l.nTwin+l.nExits), w.Tier))
	case idx < l.nShapes+l.nBlocked+l.nTwin+l.nExits+l.nEsc+l.nDepth:
		c02RunDepth(w, c02DepthCaseFor(w, idx, idx-(l.nShapes+l.nBlocked+l.nTwin+l.nExits+l.nEsc), w.Tier))
	default:
		c02RunCallee(w, c02CalCaseFor(w, idx, idx-(l.nShapes+l.nBlocked+l.nTwin+l.nExits+l.nEsc+l.nDepth), w.Tier))
	}
}

func c02RunShape(w *fw.W, idx int) { c02RunShapeS(w, c02ShapeFor(w, idx, w.Tier)) }

func c02RunShapeS(w *fw.W, s c02Shape) {
	// period: the entry heights of a loop without leak repeat with this many turns
	// (the cycle length; for exit shapes the period of the exit selection, a multiple of it)
	period, base := s.cycle, 10
	if s.exits {
		period, base = c02ExitPeriod, s.iters[2]
	}
	heightAt := map[int]int{}
	for _, n := range s.iters {
		src := c02LoopProgram(s, n)
		on := c02Exec(src, rt.Opts{})
		w.Eval(1)
		w.Logf("shape %s n=%d\n%s=> %s samples=%d", s.name(), n, src, on.t.Outcome(), len(on.samples))
		want := fmt.Sprint(n)
		var calls []c02EscCall
		if s.esc != nil {
			calls = s.esc.predict(s.cycle, n)
			want = c02EscRender(calls)
		}
		// twin: elimination off must give the same answer where it fits
		var off c02Tr
		twin := n <= 120 || (n <= 1200 && w.Tier == "thorough")
		if twin {
			off = c02Exec(src, rt.Opts{Debugger: true})
			w.Eval(1)
			twin = !c02LimitErr(off.t)
		}
		if s.esc != nil && (on.t.IsErr || on.t.Value != want) {
			// what escaped a turn was called after later turns had run
			k := s.esc.key(calls, on.t.Value)
			if twin && c02Same(on.t, off.t) != "" {
				w.Violation("tro-changes-escaped-turn-state:"+k, fmt.Sprintf("closures created by the turns of tail loop %s (n=%d) return other values with tail-call elimination than without: on %s, off %s (by construction: %s)",
					s.name(), n, c02Clip(on.t.Outcome()), c02Clip(off.t.Outcome()), c02Clip(want)), src+"\non:  "+on.t.Value+"\noff: "+off.t.Value+"\nwant: "+want+"\n"+on.t.Msg)
				return
			}
			w.Violation("escaped-turn-state:"+k, fmt.Sprintf("closures created by the turns of tail loop %s (n=%d) gave %s, by construction %s", s.name(), n, c02Clip(on.t.Outcome()), c02Clip(want)),
				src+"\ngot:  "+on.t.Value+"\nwant: "+want+"\n"+on.t.Msg)
			return
		}
		if on.t.IsErr || on.t.Value != want {
			w.Violation("tail-loop-result:"+c02ShapeKey(s), fmt.Sprintf("tail loop %s with n=%d gave %s, want %s", s.name(), n, on.t.Outcome(), want),
				src+"\n"+on.t.Value+"\n"+on.t.Msg)
			return
		}
		if !s.side && s.call != "head-call" && len(on.samples) != n+1 {
			w.Violation("tail-loop-samples:"+c02ShapeKey(s), fmt.Sprintf("expected %d stack samples, got %d", n+1, len(on.samples)), src)
			return
		}
		if s.side {
			// every even turn makes one extra (non-final) call, which must run: n/2 base-case markers
			want := n / 2
			if got := strings.Count(on.t.TraceString(), "side"); got != want {
				w.Violation("non-final-call-dropped:"+c02ShapeKey(s), fmt.Sprintf("a loop of %d turns makes %d calls in non-final body forms, %d ran", n, want, got), src+"\n"+on.t.TraceString())
				return
			}
		}
		// constant stack: every function of the cycle is entered at the same
		// height on every turn from its second entry on
		for i := period + s.cycle; !s.side && s.call != "head-call" && i < len(on.samples); i++ {
			ref := on.samples[i-period]
			if on.samples[i].Height != ref.Height {
				w.Violation("tail-loop-stack-grows:"+c02ShapeKey(s),
					fmt.Sprintf("stack height grows with iterations in %s: entry %d (turn variable n=%d) at height %d, entry %d (n=%d) at height %d (%d turns in all)", s.name(), i-period, n-(i-period), ref.Height, i, n-i, on.samples[i].Height, n),
					src+"\nheights: "+c02Heights(on.samples, 40))
				return
			}
		}
		if on.mon.badElide != "" {
			w.Violation("bad-elision:"+c02ShapeKey(s), on.mon.badElide, src)
			return
		}
		if on.mon.pushes != on.mon.pops {
			w.Violation("push-pop-imbalance", fmt.Sprintf("pushes=%d pops=%d", on.mon.pushes, on.mon.pops), src)
			return
		}
		if twin {
			if d := c02Same(on.t, off.t); d != "" {
				w.Violation("tro-changes-result:"+c02ShapeKey(s), "elimination on/off differ: "+c02Clip(d), src)
				return
			}
			if off.mon.elideEvents != 0 {
				w.Violation("debugger-does-not-disable-tro", "tail elision happened with a debugger attached", src)
				return
			}
		}
		// the same loop three more times in ONE runtime whose tail-iteration bound
		// fits one run but not the sum of the runs: each run is a loop of its own, so
		// elimination on must keep giving the answer elimination off gives
		if n >= 10 && n <= 100 && s.call != "head-call" {
			rr := rt.New(rt.Opts{MaxTail: 2*n*s.cycle + 20})
			for rep := 1; rep <= 3; rep++ {
				tr := rr.Run("c02", src)
				w.Eval(1)
				if tr.IsErr || tr.Value != want {
					w.Violation("tail-loop-repeated-in-one-runtime:"+c02ShapeKey(s), fmt.Sprintf("run #%d of tail loop %s (n=%d) in one runtime gave %s %s, want %s", rep, s.name(), n, tr.Outcome(), tr.Msg, want), src)
					return
				}
			}
		}
		heightAt[n] = on.mon.maxHeight
		if s.esc != nil && s.esc.escape == "chain" {
			// the chain of closures is called after the loop, one inside the other: that
			// part is not a tail loop; the entry heights above are what is judged
			delete(heightAt, n)
		}
		if h10, ok := heightAt[base]; ok && n > base && on.mon.maxHeight != h10 {
			w.Violation("tail-loop-stack-grows:"+c02ShapeKey(s),
				fmt.Sprintf("the maximum stack height of %s grows with the iteration count: %d frames for %d turns, %d for %d turns", s.name(), h10, base, on.mon.maxHeight, n), src)
			return
		}
		w.Count("tail_elide_events", on.mon.elideEvents)
		w.Count("elided_frames", on.mon.elidedFrames)
		w.Count("depth_samples", int64(len(on.samples)))
		w.Max("max_physical_height_in_tail_loops", int64(on.mon.maxHeight))
		w.CoverKey(fmt.Sprintf("shape|%s|n=%d", s.name(), n))
	}
	for _, c := range s.chain {
		w.SetAdd("wrappers_seen", c02Wrap(c).name)
	}
	w.SetAdd("call_forms_seen", s.call)
	if w.WantSample() && len(s.chain) == 2 {
		w.Sample(map[string]any{"shape": s.name(), "source_n10": c02LoopProgram(s, 10)})
	}
}

func c02ShapeKey(s c02Shape) string {
	var ws []string
	for _, w := range s.chain {
		ws = append(ws, c02Wrap(w).name)
	}
	sd := ""
	if s.side {
		sd = "/non-final-call"
	}
	if s.esc != nil {
		sd += "/turn-state-escapes-by-" + s.esc.escape
	}
	return fmt.Sprintf("%s/%s/cycle%d/%s%s", strings.Join(ws, ">"), s.call, s.cycle, s.definer, sd)
}

func c02Clip(s string) string {
	if len(s) > 160 {
		return s[:160] + " …"
	}
	return s
}

func c02Heights(s []rt.DepthSample, max int) string {
	var sb strings.Builder
	for i, d := range s {
		if i >= max {
			sb.WriteString(" …")
			break
		}
		fmt.Fprintf(&sb, " %d", d.Height)
	}
	return sb.String()
}

// --- blocked shapes ----------------------------------------------------------------

var c02Blockers = []string{"handler-bind", "ignore-errors", "load-string", "macro-body"}

func c02BlockedProgram(kind string, n int, inner int) string {
	wrap := func(x string) string {
		if inner >= 0 {
			// additionally put a tail wrapper between the blocker and the call
			c := sx.RawText(x)
			return c02Wrappers[inner].wrap(c, 0).String()
		}
		return x
	}
	switch kind {
	case "handler-bind":
		return fmt.Sprintf(`(defun lp (n)
  (verif:depth)
  (if (<= n 0)
      (error 'bottom n)
      (handler-bind ((bottom (lambda (c x) (verif:probe 'h n) (rethrow))))
        %s)))
(handler-bind ((bottom (lambda (c x) (list 'caught x)))) (lp %d))
`, wrap("(lp (- n 1))"), n)
	case "ignore-errors":
		return fmt.Sprintf(`(defun lp (n)
  (verif:depth)
  (if (<= n 0)
      (error 'bottom n)
      (progn (verif:probe 'lvl (ignore-errors %s)) n)))
(lp %d)
`, wrap("(lp (- n 1))"), n)
	case "load-string":
		return fmt.Sprintf(`(defun lp (n)
  (verif:depth)
  (if (<= n 0)
      'done
      (load-string (format-string "%s" (- n 1)))))
(lp %d)
`, strings.ReplaceAll(wrap("(lp {})"), `"`, `\"`), n)
	default: // macro-body: a function called in tail position of a macro's body
		return fmt.Sprintf(`(defun expand-lp (n)
  (verif:depth)
  (if (<= n 0) (quasiquote (quote done)) %s))
(defmacro m (n) (expand-lp n))
(m %d)
`, wrap("(expand-lp (- n 1))"), n)
	}
}

func c02RunBlocked(w *fw.W, k int) {
	kind := c02Blockers[k%len(c02Blockers)]
	inner := -1
	if k >= len(c02Blockers) {
		inner = (k / len(c02Blockers)) % len(c02Wrappers)
		if c02Wrappers[inner].name == "macrolet-body" || c02Wrappers[inner].name == "thread-first-1" {
			inner = 0
		}
	}
	for _, n := range []int{1, 2, 5, 30} {
		src := c02BlockedProgram(kind, n, inner)
		on := c02Exec(src, rt.Opts{})
		off := c02Exec(src, rt.Opts{Debugger: true})
		w.Eval(2)
		w.Logf("blocked %s inner=%d n=%d\n%s=> on %s / off %s\n on trace %s\n heights %s", kind, inner, n, src, on.t.Outcome(), off.t.Outcome(), on.t.TraceString(), c02Heights(on.samples, 40))
		key := fmt.Sprintf("%s/inner=%d", kind, inner)
		if d := c02Same(on.t, off.t); d != "" {
			w.Violation("blocked-tro-changes-result:"+key, "elimination on/off differ through "+kind+": "+d, src)
			return
		}
		if on.mon.badElide != "" {
			w.Violation("blocked-frame-elided:"+key, on.mon.badElide, src)
			return
		}
		if kind != "macro-body" {
			// the frames of the blocker must stay: heights strictly increase
			for i := 1; i < len(on.samples); i++ {
				if on.samples[i].Height <= on.samples[i-1].Height {
					w.Violation("blocked-call-collapsed:"+key,
						fmt.Sprintf("a call made through %s was collapsed: heights %s", kind, c02Heights(on.samples, 40)), src)
					return
				}
			}
		} else if kind == "macro-body" {
			// elimination inside the macro body may happen, but never past the macro frame:
			// the expansion still has to be produced and evaluated (checked by result equality)
			_ = on
		}
		if len(on.samples) != n+1 {
			w.Violation("blocked-samples:"+key, fmt.Sprintf("expected %d samples, got %d", n+1, len(on.samples)), src+"\n"+on.t.Value+on.t.Msg)
			return
		}
		w.CoverKey(fmt.Sprintf("blocked|%s|n=%d", key, n))
	}
	w.SetAdd("blockers_seen", kind)
}

// --- twin runs of generated programs ----------------------------------------------

func c02RunTwin(w *fw.W, idx int) {
	r := w.RNG(idx, "prog")
	prof := gen.DefaultProfile()
	prof.Hostile = []int{0, 10, 30}[idx%3]
	prof.LoopBudget = 9
	g := gen.New(r, prof)
	src := sx.Render(g.Program(), nil)
	const maxPhys, maxSteps = 4000, 2_000_000
	on := c02Exec(src, rt.Opts{MaxSteps: maxSteps, MaxPhys: maxPhys})
	off := c02Exec(src, rt.Opts{MaxSteps: maxSteps, MaxPhys: maxPhys, Debugger: true})
	prf := c02Exec(src, rt.Opts{MaxSteps: maxSteps, MaxPhys: maxPhys, Profiler: true})
	w.Eval(3)
	// A run that hit a resource limit is not comparable: elimination changes how much
	// stack a runaway program uses, that is its purpose.  The limit error may have been
	// HANDLED by the program, so the final outcome does not show it: the stack height
	// seen by the push hook and the step counter do.
	hitLimit := func(x c02Tr) bool {
		return c02LimitErr(x.t) || x.mon.maxHeight >= maxPhys-1 || x.t.Steps >= maxSteps-1
	}
	if hitLimit(off) || hitLimit(on) || hitLimit(prf) {
		w.Count("twin_skipped_limit", 1)
		return
	}
	w.Logf("twin source:\n%s\non: %s\noff: %s\nprofiler: %s", src, on.t.Outcome(), off.t.Outcome(), prf.t.Outcome())
	if d := c02Same(on.t, off.t); d != "" {
		w.Violation("twin:tro-on-vs-off", "elimination on/off differ: "+d, src)
		return
	}
	if d := c02Same(on.t, prf.t); d != "" {
		w.Violation("twin:profiler", "profiler attached changes the outcome: "+d, src)
		return
	}
	if on.mon.badElide != "" {
		w.Violation("twin:bad-elision", on.mon.badElide, src)
		return
	}
	if on.mon.pushes != on.mon.pops || off.mon.pushes != off.mon.pops {
		w.Violation("push-pop-imbalance", fmt.Sprintf("pushes=%d pops=%d (off: %d/%d)", on.mon.pushes, on.mon.pops, off.mon.pushes, off.mon.pops), src)
		return
	}
	w.Count("twin_elide_events", on.mon.elideEvents)
	if on.t.Steps >= 5 {
		out := "value"
		if on.t.IsErr {
			out = "err:" + on.t.Cond
		}
		elide := "no-elision"
		if on.mon.elideEvents > 0 {
			elide = "elision"
		}
		for f := range g.Feat {
			w.CoverKey("twin|" + f + "|" + out + "|" + elide)
		}
	}
}
