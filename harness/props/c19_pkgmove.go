package props

// C19 family 7 — package movement between a global shadowing definition and
// the call.  Family 3 writes the definition that shadows a builtin name and the
// target call next to each other in one package.  Here something that touches
// the package system is evaluated in between: the same package is declared a
// second time, the program leaves for another package and comes back,
// (in-package 'user) is evaluated while already in user, a nested load-string
// enters and leaves packages, the name is exported, a package exporting the
// same name is used, the call is made from a function of the defining package
// that is invoked after the movement or from another package.
//
// Nothing about the effect of a movement is assumed.  The shared judge of
// family 3 (c19JudgeShadow) decides by evaluating which binding the call
// reaches (probe in the shadow body, function id / package on top of the
// binder error's call stack, control run with the target replaced by a probe)
// and applies the same one-directional demands.  A finding that the plain
// program (definition immediately followed by the call, no movement) shows
// under the same key is recorded under the plain shape's key: the movement is
// then not its cause.  Only what the movement changes gets a key of its own,
// <kind>-before-call:then:<movement>.

import (
	"fmt"
	"strings"
	"sync"

	"verifharness/fw"
)

// c19GlobalKind is one way to rebind a name globally in the working package.
type c19GlobalKind struct {
	Name  string
	Plain string // the family-3 shape "definition, then the call"
	Uses  string // "fn" | "val" (see c19Shape.Uses)
	Defun bool
	Def   func(n string, s c19Shadow) string // one line, newline-terminated
}

var c19GlobalKinds = []c19GlobalKind{
	{Name: "defun", Plain: "defun-before-call", Uses: "fn", Defun: true, Def: func(n string, s c19Shadow) string {
		return fmt.Sprintf("(defun %s %s %s)\n", n, s.Formals, c19ShadowProbe)
	}},
	{Name: "defmacro", Plain: "defmacro-before-call", Uses: "fn", Def: func(n string, s c19Shadow) string {
		return fmt.Sprintf("(defmacro %s %s (quasiquote %s))\n", n, s.Formals, c19ShadowProbe)
	}},
	{Name: "set", Plain: "set-before-call", Uses: "val", Def: func(n string, s c19Shadow) string {
		return fmt.Sprintf("(set '%s %s)\n", n, s.lambda())
	}},
}

const (
	c19MovePkgP = "c19-p"
	c19MovePkgQ = "c19-q"
	c19MoveInP  = "(in-package '" + c19MovePkgP + ")\n"
	c19MoveInQ  = "(in-package '" + c19MovePkgQ + ")\n"
	c19MoveInU  = "(in-package 'user)\n"
	c19MoveBusy = "(set 'c19-unrelated 1)\n"
	c19MoveT    = c19Mark + "\n"
	c19MoveG    = "(defun c19-g ()\n  " + c19Mark + ")\n"
)

// c19Move is one package movement.  Build receives the text of the
// definition and the shadowed name and returns the program template.
type c19Move struct {
	Name  string
	Build func(def, n string) string
}

var c19Moves = []c19Move{
	// the package that holds the definition is declared again (what the second
	// file of a multi-file package does)
	{"reenter-same-package", func(def, n string) string {
		return c19MoveInP + def + c19MoveInP + c19MoveT
	}},
	{"excursion-to-other-package-and-back", func(def, n string) string {
		return c19MoveInP + def + c19MoveInQ + c19MoveBusy + c19MoveInP + c19MoveT
	}},
	// the default package: nothing but (in-package 'user) while already there
	{"in-package-user-when-in-user", func(def, n string) string {
		return def + c19MoveInU + c19MoveT
	}},
	{"excursion-from-user-and-back", func(def, n string) string {
		return def + c19MoveInQ + c19MoveBusy + c19MoveInU + c19MoveT
	}},
	// a nested load enters and leaves packages (the load restores the caller's
	// working package afterwards)
	{"nested-load-string-entering-and-leaving-packages", func(def, n string) string {
		return def + "(load-string \"(in-package '" + c19MovePkgQ + ") (set 'c19-unrelated 1) (in-package 'user) (set 'c19-unrelated2 2)\")\n" + c19MoveT
	}},
	{"nested-load-string-in-declared-package", func(def, n string) string {
		return c19MoveInP + def + "(load-string \"(in-package '" + c19MovePkgP + ") (set 'c19-unrelated 1)\")\n" + c19MoveT
	}},
	// export statements
	{"export-of-the-name", func(def, n string) string {
		return c19MoveInP + def + "(export '" + n + ")\n" + c19MoveT
	}},
	{"export-then-used-from-other-package", func(def, n string) string {
		return c19MoveInP + def + "(export '" + n + ")\n" + c19MoveInQ + "(use-package '" + c19MovePkgP + ")\n" + c19MoveT
	}},
	// use-package of a package that exports the same name, bound the same way
	// with the same parameters (so that "a name defined more than once with
	// different signatures", family 5, is not what is being asked here)
	{"use-package-exporting-same-name", func(def, n string) string {
		return c19MoveInQ + def + "(export '" + n + ")\n" + c19MoveInU + def + "(use-package '" + c19MovePkgQ + ")\n" + c19MoveT
	}},
	{"use-package-exporting-other-names", func(def, n string) string {
		return c19MoveInQ + c19MoveBusy + "(export 'c19-unrelated)\n" + c19MoveInP + def + "(use-package '" + c19MovePkgQ + ")\n" + c19MoveT
	}},
	// the call sits in a function of the defining package
	{"reenter-same-package:call-in-fn-defined-before", func(def, n string) string {
		return c19MoveInP + def + c19MoveG + c19MoveInP + "(c19-g)\n"
	}},
	{"call-from-other-package-through-fn-of-defining-package", func(def, n string) string {
		return c19MoveInP + def + c19MoveG + c19MoveInQ + "(" + c19MovePkgP + ":c19-g)\n"
	}},
}

// c19MoveShadows are the shadow values of the enumerated part: every one of
// the 9 builtin names differs in arity from at least one of the functions.
// (The sampled part draws from all of c19Shadows.)
func c19MoveShadowsFor(kd c19GlobalKind) []c19Shadow {
	out := []c19Shadow{{Formals: "()"}, {Formals: "(a b)"}}
	if kd.Uses == "val" {
		out = append(out, c19Shadow{NonFn: true})
	}
	return out
}

// c19MoveCase is one enumerated case: a kind, a builtin name and a shadow
// value x every movement x k = 0..c19ShadowMaxK.
type c19MoveCase struct {
	Kind   int
	Target string
	Shadow c19Shadow
}

var (
	c19MoveOnce sync.Once
	c19MoveList []c19MoveCase
)

func c19MoveCases() []c19MoveCase {
	c19MoveOnce.Do(func() {
		for ki, kd := range c19GlobalKinds {
			for _, t := range c19Targets {
				for _, s := range c19MoveShadowsFor(kd) {
					c19MoveList = append(c19MoveList, c19MoveCase{ki, t, s})
				}
			}
		}
	})
	return c19MoveList
}

func c19PlainShape(name string) c19Shape {
	for _, sh := range c19Shapes {
		if sh.Name == name {
			return sh
		}
	}
	panic("c19: no shape " + name)
}

func c19MoveShapeName(kd c19GlobalKind, mv c19Move) string {
	return kd.Plain + ":then:" + mv.Name
}

// c19MovePlain judges the plain program of a case for one count (memoised by
// the caller) and returns its finding keys.
func c19MovePlain(w *fw.W, kd c19GlobalKind, mc c19MoveCase, args []string) map[string]bool {
	var pf c19Findings
	sh := c19PlainShape(kd.Plain)
	c19JudgeShadow(w, &pf, sh, c19CoreFun(mc.Target), mc.Shadow, c19Spell(sh.Build(mc.Target, mc.Shadow), false), args, "", "")
	keys := map[string]bool{}
	for _, k := range pf.keys {
		keys[k] = true
	}
	return keys
}

// c19JudgeMove judges one (case, movement, count) and returns the findings
// keyed as described at the top of the file.  plain returns the finding keys of
// the plain program for the same count (evaluated only when needed).
func c19JudgeMove(w *fw.W, mc c19MoveCase, mv c19Move, wr *c19Wrap, args []string, plain func() map[string]bool) c19Findings {
	kd := c19GlobalKinds[mc.Kind]
	moved := c19Shape{Name: c19MoveShapeName(kd, mv), Uses: kd.Uses, Defun: kd.Defun}
	tmpl := c19ApplyWrap(mv.Build(kd.Def(mc.Target, mc.Shadow), mc.Target), wr)
	var mf, out c19Findings
	if !c19JudgeShadow(w, &mf, moved, c19CoreFun(mc.Target), mc.Shadow, tmpl, args, wr.label(), "") {
		return out
	}
	pk := plain()
	for _, key := range mf.keys {
		nk := key
		asPlain := strings.Replace(key, moved.Name, kd.Plain, 1)
		switch {
		case strings.HasPrefix(key, "harness-"):
		case pk[asPlain]:
			// the plain program shows the same: not the movement's doing
			nk = asPlain
			w.Count("pkgmove_findings_also_shown_by_the_plain_program", 1)
		case asPlain == key:
			// a key that does not name the shape (e.g. missed:core:*), and the
			// plain program is silent
			nk = key + ":only-after:" + mv.Name
		}
		for _, d := range mf.detail[key] {
			out.add(nk, mf.summary[key], d)
		}
	}
	return out
}

func (f *c19Findings) merge(g c19Findings, keySuffix func(key string) string) {
	for _, key := range g.keys {
		nk := key
		if keySuffix != nil {
			nk += keySuffix(key)
		}
		for _, d := range g.detail[key] {
			f.add(nk, g.summary[key], d)
		}
	}
}

// c19RunMoveCase: exhaustive family 7.
func c19RunMoveCase(w *fw.W, mc c19MoveCase) {
	var fnd c19Findings
	kd := c19GlobalKinds[mc.Kind]
	plainMemo := map[int]map[string]bool{}
	for _, mv := range c19Moves {
		for k := 0; k <= c19ShadowMaxK; k++ {
			args := c19Ints(k, 101)
			fnd.merge(c19JudgeMove(w, mc, mv, nil, args, func() map[string]bool {
				if plainMemo[k] == nil {
					plainMemo[k] = c19MovePlain(w, kd, mc, args)
				}
				return plainMemo[k]
			}), nil)
		}
		w.SetAdd("package_movements", mv.Name)
	}
	w.SetAdd("package_movement_kinds", kd.Name)
	w.Count("pkgmove_cases_enumerated", 1)
	for _, k := range fnd.keys {
		w.SetAdd("pkgmove_finding_keys", k)
	}
	fnd.flush(w)
}

// c19RandomMove is the sampled variant: all shadow values, neutral wrappers
// around the call, inert non-integer arguments, one movement and one count.  A
// finding that the same movement without the variation does not show is keyed
// ...:only-when-wrapped.
func c19RandomMove(w *fw.W, r *fw.RNG) {
	ki := r.Intn(len(c19GlobalKinds))
	kd := c19GlobalKinds[ki]
	shadows := c19ShadowsFor(c19Shape{Uses: kd.Uses})
	mc := c19MoveCase{ki, fw.Pick(r, c19Targets), shadows[r.Intn(len(shadows))]}
	mv := fw.Pick(r, c19Moves)
	wr := c19RandWrap(r, true)
	// a prefix line would be evaluated in front of the first in-package and
	// move the whole program's package; keep the movement as written
	wr.Prefix = ""
	if len(wr.Names) > 0 && wr.Names[0] == "prefix" {
		wr.Names = wr.Names[1:]
	}
	k := r.Intn(c19ShadowMaxK + 1)
	args := c19Ints(k, 101)
	if wr.Args != nil {
		args = wr.Args(k)
	}
	var plainKeys map[string]bool
	plain := func() map[string]bool {
		if plainKeys == nil {
			plainKeys = c19MovePlain(w, kd, mc, c19Ints(k, 101))
		}
		return plainKeys
	}
	var fnd c19Findings
	got := c19JudgeMove(w, mc, mv, wr, args, plain)
	if len(got.keys) > 0 {
		bare := c19JudgeMove(w, mc, mv, nil, c19Ints(k, 101), plain)
		fnd.merge(got, func(key string) string {
			if _, ok := bare.summary[key]; ok || wr.label() == "" {
				return ""
			}
			return ":only-when-wrapped"
		})
	}
	c19AddWrapperNames(w, wr)
	for _, key := range fnd.keys {
		w.SetAdd("pkgmove_finding_keys", key)
	}
	w.SetAdd("package_movements", mv.Name)
	fnd.flush(w)
}
