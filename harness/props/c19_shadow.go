package props

// C19 family 3 — shadowing contexts.  A builtin name is rebound globally or
// locally; the target call sits in a position that either reaches the shadowing
// binding or still reaches the builtin.  Which one is decided by evaluating.

import (
	"fmt"
	"strings"
	"sync"

	"verifharness/fw"
)

// c19Shadow describes the value the name is rebound to.
type c19Shadow struct {
	Formals string // "(a b)"; "" for the non-function value
	NonFn   bool
}

func (s c19Shadow) sig() c19Sig {
	return c19ParseFormals(strings.Fields(strings.Trim(s.Formals, "()")))
}

func (s c19Shadow) label() string {
	if s.NonFn {
		return "int"
	}
	return s.sig().Class()
}

const c19ShadowProbe = "(verif:probe 'c19-shadow)"

// lambda renders the shadow as a value expression.
func (s c19Shadow) lambda() string {
	if s.NonFn {
		return "5"
	}
	return "(lambda " + s.Formals + " " + c19ShadowProbe + ")"
}

// entryArgs renders arguments that bind the shadow's formals.
func (s c19Shadow) entryArgs() string {
	n := s.sig().Req
	if n == 0 {
		return ""
	}
	return " " + strings.Join(c19Ints(n, 1), " ")
}

var c19Shadows = []c19Shadow{
	{Formals: "()"}, {Formals: "(a)"}, {Formals: "(a b)"}, {Formals: "(a b c)"}, {Formals: "(&rest r)"}, {NonFn: true},
}

// c19Shape is one context shape.  Build returns the program text with
// c19Mark at the target call.
type c19Shape struct {
	Name string
	// Uses says what the shape needs from the shadow: "fn" (a named function
	// definition: defun / flet / labels / macrolet / defmacro), "val" (any value
	// expression, so the non-function shadow applies too), "none" (the shape
	// rebinds the name without a shadow function).
	Uses string
	// Defun is set when the shadowing binding is a global defun (so that
	// user-arity owes a report when binding the shadow fails).
	Defun bool
	Build func(n string, s c19Shadow) string
}

// Binding entries of let / let* / flet / labels / macrolet are written with
// these two markers in the shape templates; c19Spell turns them into the paren
// spelling ((x init)) or the bracket spelling ([x init]) that docs/lang.md
// uses ("Conventionally, braces are used with let to define the bindings").
// Both are one character wide, so positions do not depend on the spelling.
const (
	c19EO = "\x01"
	c19EC = "\x02"
)

func c19Spell(tmpl string, brackets bool) string {
	o, c := "(", ")"
	if brackets {
		o, c = "[", "]"
	}
	return strings.ReplaceAll(strings.ReplaceAll(tmpl, c19EO, o), c19EC, c)
}

// once-guard used by the own-body shapes: the shadow's body evaluates the
// target only the first time it runs.
const c19Guard = "(cond (c19-once (set 'c19-once ()) " + c19Mark + ") (else 0))"

var c19Shapes = []c19Shape{
	// ---- global rebinding
	{Name: "defun-before-call", Uses: "fn", Defun: true, Build: func(n string, s c19Shadow) string {
		return fmt.Sprintf("(defun %s %s %s)\n%s\n", n, s.Formals, c19ShadowProbe, c19Mark)
	}},
	{Name: "defun-after-call", Uses: "fn", Defun: true, Build: func(n string, s c19Shadow) string {
		return fmt.Sprintf("%s\n(defun %s %s %s)\n", c19Mark, n, s.Formals, c19ShadowProbe)
	}},
	{Name: "defun-after-call-in-fn-invoked-later", Uses: "fn", Defun: true, Build: func(n string, s c19Shadow) string {
		return fmt.Sprintf("(defun c19-g ()\n  %s)\n(defun %s %s %s)\n(c19-g)\n", c19Mark, n, s.Formals, c19ShadowProbe)
	}},
	{Name: "defun-after-call-in-fn-invoked-earlier", Uses: "fn", Defun: true, Build: func(n string, s c19Shadow) string {
		return fmt.Sprintf("(defun c19-g ()\n  %s)\n(c19-g)\n(defun %s %s %s)\n", c19Mark, n, s.Formals, c19ShadowProbe)
	}},
	{Name: "defmacro-before-call", Uses: "fn", Build: func(n string, s c19Shadow) string {
		return fmt.Sprintf("(defmacro %s %s (quasiquote %s))\n%s\n", n, s.Formals, c19ShadowProbe, c19Mark)
	}},
	{Name: "defmacro-after-call", Uses: "fn", Build: func(n string, s c19Shadow) string {
		return fmt.Sprintf("%s\n(defmacro %s %s (quasiquote %s))\n", c19Mark, n, s.Formals, c19ShadowProbe)
	}},
	{Name: "set-before-call", Uses: "val", Build: func(n string, s c19Shadow) string {
		return fmt.Sprintf("(set '%s %s)\n%s\n", n, s.lambda(), c19Mark)
	}},
	{Name: "param-of-unrelated-defun", Uses: "none", Build: func(n string, s c19Shadow) string {
		return fmt.Sprintf("(defun c19-g (%s) %s)\n%s\n", n, n, c19Mark)
	}},
	{Name: "param-of-unrelated-lambda", Uses: "none", Build: func(n string, s c19Shadow) string {
		return fmt.Sprintf("(set 'c19-h (lambda (%s) %s))\n%s\n", n, n, c19Mark)
	}},
	// ---- let / let*
	{Name: "let-body", Uses: "val", Build: func(n string, s c19Shadow) string {
		return fmt.Sprintf("(let (\x01%s %s\x02)\n  %s)\n", n, s.lambda(), c19Mark)
	}},
	{Name: "let-init-of-same-binding", Uses: "none", Build: func(n string, s c19Shadow) string {
		return fmt.Sprintf("(let (\x01%s %s\x02)\n  0)\n", n, c19Mark)
	}},
	{Name: "let-init-of-later-sibling", Uses: "val", Build: func(n string, s c19Shadow) string {
		return fmt.Sprintf("(let (\x01%s %s\x02\n      \x01c19-x %s\x02)\n  c19-x)\n", n, s.lambda(), c19Mark)
	}},
	{Name: "let-init-of-earlier-sibling", Uses: "val", Build: func(n string, s c19Shadow) string {
		return fmt.Sprintf("(let (\x01c19-x %s\x02\n      \x01%s %s\x02)\n  c19-x)\n", c19Mark, n, s.lambda())
	}},
	{Name: "let-after-form", Uses: "val", Build: func(n string, s c19Shadow) string {
		return fmt.Sprintf("(let (\x01%s %s\x02)\n  0)\n%s\n", n, s.lambda(), c19Mark)
	}},
	{Name: "let-before-form", Uses: "val", Build: func(n string, s c19Shadow) string {
		return fmt.Sprintf("%s\n(let (\x01%s %s\x02)\n  0)\n", c19Mark, n, s.lambda())
	}},
	{Name: "let*-body", Uses: "val", Build: func(n string, s c19Shadow) string {
		return fmt.Sprintf("(let* (\x01%s %s\x02)\n  %s)\n", n, s.lambda(), c19Mark)
	}},
	{Name: "let*-init-of-same-binding", Uses: "none", Build: func(n string, s c19Shadow) string {
		return fmt.Sprintf("(let* (\x01%s %s\x02)\n  0)\n", n, c19Mark)
	}},
	{Name: "let*-init-of-later-sibling", Uses: "val", Build: func(n string, s c19Shadow) string {
		return fmt.Sprintf("(let* (\x01%s %s\x02\n       \x01c19-x %s\x02)\n  c19-x)\n", n, s.lambda(), c19Mark)
	}},
	{Name: "let*-init-of-earlier-sibling", Uses: "val", Build: func(n string, s c19Shadow) string {
		return fmt.Sprintf("(let* (\x01c19-x %s\x02\n       \x01%s %s\x02)\n  c19-x)\n", c19Mark, n, s.lambda())
	}},
	// ---- flet / labels
	{Name: "flet-body", Uses: "fn", Build: func(n string, s c19Shadow) string {
		return fmt.Sprintf("(flet (\x01%s %s %s\x02)\n  %s)\n", n, s.Formals, c19ShadowProbe, c19Mark)
	}},
	{Name: "flet-own-body", Uses: "fn", Build: func(n string, s c19Shadow) string {
		return fmt.Sprintf("(set 'c19-once true)\n(flet (\x01%s %s %s %s\x02)\n  (%s%s))\n", n, s.Formals, c19ShadowProbe, c19Guard, n, s.entryArgs())
	}},
	{Name: "flet-sibling-body", Uses: "fn", Build: func(n string, s c19Shadow) string {
		return fmt.Sprintf("(flet (\x01%s %s %s\x02\n       \x01c19-g () %s\x02)\n  (c19-g))\n", n, s.Formals, c19ShadowProbe, c19Mark)
	}},
	{Name: "flet-after-form", Uses: "fn", Build: func(n string, s c19Shadow) string {
		return fmt.Sprintf("(flet (\x01%s %s %s\x02)\n  0)\n%s\n", n, s.Formals, c19ShadowProbe, c19Mark)
	}},
	{Name: "flet-param-of-binding-reaching-body", Uses: "val", Build: func(n string, s c19Shadow) string {
		return fmt.Sprintf("(flet (\x01c19-g (%s) %s\x02)\n  (c19-g %s))\n", n, c19Mark, s.lambda())
	}},
	{Name: "flet-param-of-unrelated-binding", Uses: "none", Build: func(n string, s c19Shadow) string {
		return fmt.Sprintf("(flet (\x01c19-g (%s) %s\x02)\n  %s)\n", n, n, c19Mark)
	}},
	{Name: "labels-body", Uses: "fn", Build: func(n string, s c19Shadow) string {
		return fmt.Sprintf("(labels (\x01%s %s %s\x02)\n  %s)\n", n, s.Formals, c19ShadowProbe, c19Mark)
	}},
	{Name: "labels-own-body", Uses: "fn", Build: func(n string, s c19Shadow) string {
		return fmt.Sprintf("(set 'c19-once true)\n(labels (\x01%s %s %s %s\x02)\n  (%s%s))\n", n, s.Formals, c19ShadowProbe, c19Guard, n, s.entryArgs())
	}},
	{Name: "labels-sibling-body", Uses: "fn", Build: func(n string, s c19Shadow) string {
		return fmt.Sprintf("(labels (\x01%s %s %s\x02\n         \x01c19-g () %s\x02)\n  (c19-g))\n", n, s.Formals, c19ShadowProbe, c19Mark)
	}},
	// ---- lambda / defun parameters
	{Name: "lambda-param-body", Uses: "val", Build: func(n string, s c19Shadow) string {
		return fmt.Sprintf("((lambda (%s)\n   %s)\n %s)\n", n, c19Mark, s.lambda())
	}},
	{Name: "defun-param-body", Uses: "val", Build: func(n string, s c19Shadow) string {
		return fmt.Sprintf("(defun c19-g (%s)\n  %s)\n(c19-g %s)\n", n, c19Mark, s.lambda())
	}},
	// ---- macrolet
	{Name: "macrolet-body", Uses: "fn", Build: func(n string, s c19Shadow) string {
		return fmt.Sprintf("(macrolet (\x01%s %s (quasiquote %s)\x02)\n  %s)\n", n, s.Formals, c19ShadowProbe, c19Mark)
	}},
	{Name: "macrolet-after-form", Uses: "fn", Build: func(n string, s c19Shadow) string {
		return fmt.Sprintf("(macrolet (\x01%s %s (quasiquote %s)\x02)\n  0)\n%s\n", n, s.Formals, c19ShadowProbe, c19Mark)
	}},
}

// c19Targets are the builtin names that get shadowed: functions, macros and
// special operators of different arities, none of them used by the scaffolding.
var c19Targets = []string{"car", "cons", "gensym", "list", "nth", "get-default", "trace", "if", "set!"}

type c19ShadowCase struct {
	Shape  int
	Target string
	Shadow c19Shadow
}

var (
	c19ShadowOnce sync.Once
	c19ShadowList []c19ShadowCase
)

func c19ShadowsFor(sh c19Shape) []c19Shadow {
	switch sh.Uses {
	case "none":
		return c19Shadows[:1]
	case "fn":
		return c19Shadows[:len(c19Shadows)-1]
	}
	return c19Shadows
}

func c19ShadowCases() []c19ShadowCase {
	c19ShadowOnce.Do(func() {
		for si, sh := range c19Shapes {
			for _, t := range c19Targets {
				for _, s := range c19ShadowsFor(sh) {
					c19ShadowList = append(c19ShadowList, c19ShadowCase{si, t, s})
				}
			}
		}
	})
	return c19ShadowList
}

const c19ShadowMaxK = 4

// c19BracketSubset selects the exhaustive cases that are enumerated a second
// time in the bracket spelling of the binding entries: every shape that has
// binding entries x a function, a macro and a special operator x a two-parameter
// function shadow and the non-function shadow.  (The sampled family draws the
// bracket spelling for all names and shadows.)
func c19BracketSubset(sc c19ShadowCase) bool {
	switch sc.Target {
	case "car", "get-default", "if":
	default:
		return false
	}
	if !sc.Shadow.NonFn && sc.Shadow.Formals != "(a b)" && c19Shapes[sc.Shape].Uses != "none" {
		return false
	}
	return strings.Contains(c19Shapes[sc.Shape].Build(sc.Target, sc.Shadow), c19EO)
}

// c19Wrap describes modifications the sampled family applies on top of an
// exhaustive shadow case.
type c19Wrap struct {
	Inner  []string // wrapper templates around the target, innermost first; each has one c19Mark
	Names  []string
	Prefix string // lines put in front of the program
	// Brackets spells the shape's binding entries [x init] instead of (x init).
	Brackets bool
	Args     func(k int) []string
}

func (wr *c19Wrap) label() string {
	if wr == nil || len(wr.Names) == 0 {
		return ""
	}
	return strings.Join(wr.Names, ">")
}

func c19ApplyWrap(tmpl string, wr *c19Wrap) string {
	if wr == nil {
		return tmpl
	}
	inner := c19Mark
	for _, wt := range wr.Inner {
		inner = strings.Replace(wt, c19Mark, inner, 1)
	}
	return wr.Prefix + strings.Replace(tmpl, c19Mark, inner, 1)
}

// c19RunShadowCase runs one (shape, target, shadow) for k = 0..4 (exhaustive
// family, wr == nil) or for the single k chosen by the sampled family.
func c19RunShadowCase(w *fw.W, sc c19ShadowCase, wr *c19Wrap, ks ...int) {
	var fnd c19Findings
	if len(ks) == 0 {
		for k := 0; k <= c19ShadowMaxK; k++ {
			ks = append(ks, k)
		}
	}
	sh := c19Shapes[sc.Shape]
	target := c19CoreFun(sc.Target)
	raw := sh.Build(sc.Target, sc.Shadow)
	base := c19Spell(raw, false)
	spelled := c19Spell(raw, wr != nil && wr.Brackets)
	for _, k := range ks {
		args := c19Ints(k, 101)
		if wr != nil && wr.Args != nil {
			args = wr.Args(k)
		}
		viol := c19JudgeShadow(w, &fnd, sh, target, sc.Shadow, c19ApplyWrap(spelled, wr), args, wr.label(), "")
		if viol && wr != nil {
			// attribute: does the plain (exhaustive) form of the case violate too?
			var plain c19Findings
			if !c19JudgeShadow(w, &plain, sh, target, sc.Shadow, base, c19Ints(k, 101), "", "") {
				// only the wrapped form violates: re-key with the wrapper
				fnd = c19Findings{}
				c19JudgeShadow(w, &fnd, sh, target, sc.Shadow, c19ApplyWrap(spelled, wr), args, wr.label(), ":only-when-wrapped")
			}
		}
	}
	if wr == nil {
		w.Count("shadow_cases_enumerated", 1)
	}
	fnd.flush(w)
}

// c19CtlCache holds the control runs of the current case's templates (per
// worker process).
var c19CtlCache = map[string]c19Obs{}

// c19LastReach is the reach class c19JudgeShadow found for the program it
// judged last ("" when the judge stopped before classifying).  Family 8 reads it
// to compare what a placement declares with what the evaluator did.
var c19LastReach string

// c19JudgeShadow evaluates control + real program, lints the real program in
// the three modes and applies the property.
func c19JudgeShadow(w *fw.W, fnd *c19Findings, sh c19Shape, target c19Fun, shadow c19Shadow, tmpl string, args []string, wrapLabel, keyExtra string) (violated bool) {
	// control run: the target replaced by a probe must be evaluated exactly once,
	// without error, and no shadow invocation may follow it.
	csrc, cpos := c19Place(tmpl, "(verif:probe 'c19-target)")
	ctl, cached := c19CtlCache[csrc]
	if !cached {
		// the control source does not depend on the argument count: the k = 0..4
		// judgements of one case share one control evaluation (a fresh runtime
		// evaluates the same text the same way)
		ctl = c19Eval(csrc, cpos)
		w.Eval(1)
		if len(c19CtlCache) >= 32 {
			c19CtlCache = map[string]c19Obs{}
		}
		c19CtlCache[csrc] = ctl
	}
	pre, seenTarget, after := 0, 0, 0
	for _, p := range ctl.T.Trace {
		switch p.Tag {
		case "c19-target":
			seenTarget++
		case "c19-shadow":
			if seenTarget == 0 {
				pre++
			} else {
				after++
			}
		}
	}
	if ctl.T.IsErr || seenTarget != 1 || after != 0 {
		fnd.add("harness-template:"+sh.Name+keyExtra, "control run of a shadowing template is not clean (harness bug, not a finding about elps)",
			fmt.Sprintf("control source:\n%s\nrun: %s", csrc, ctl))
		return true
	}

	src, pos := c19Place(tmpl, c19Call(target.Name, args))
	obs := c19Eval(src, pos)
	w.Eval(1)
	k := len(args)
	class := ""
	// The control run is clean, so every call other than the target binds; a
	// binder error therefore belongs to the target call, and the function on top
	// of its call stack is what the head resolved to.
	switch {
	case obs.BindFailed() && obs.TopFID == target.FID:
		class = "builtin-bind-fail"
	case obs.BindFailed() && obs.TopPkg != "lisp":
		class = "shadow-bind-fail"
	case obs.BindFailed():
		fnd.add("harness-shadow-unclassified:"+sh.Name, "binder error from a core function other than the target (harness cannot classify)",
			fmt.Sprintf("source:\n%s\nrun: %s", src, obs))
		return true
	case c19CountTag(obs, "c19-shadow") > pre:
		class = "shadow-bound"
	case shadow.NonFn && obs.T.IsErr && obs.T.Msg == "first element of expression is not a function: 5":
		class = "shadow-not-a-function"
	default:
		class = "builtin-bound"
	}
	if obs.BindFailed() && !obs.AtTarget {
		w.Count("bind_errors_located_off_target", 1)
	}
	w.Count("reach:"+class, 1)
	c19LastReach = class
	tsig := target.sig()

	var lints []c19LintResult
	lintClass := ""
	for _, mode := range c19Modes {
		lr := c19Lint(mode, src)
		lints = append(lints, lr)
		if lr.Err != nil {
			fnd.add("harness-lint-error:shadow", "lint failed on a generated shadowing source: "+lr.Err.Error(), src)
			violated = true
			continue
		}
		w.Count("lint_runs", 1)
		arity, other := lr.arityAt(pos)
		var builtinish []c19Diag
		for _, d := range arity {
			if d.Analyzer != "user-arity" {
				builtinish = append(builtinish, d)
			}
		}
		lc := "none"
		if len(arity) > 0 {
			lc = c19Analyzers(arity)
			w.Count("calls_reported", 1)
		}
		lintClass += mode + "=" + lc + ","
		detail := fmt.Sprintf("source:\n%s\ntarget call %s at %d:%d; shape %s; builtin %s (%s) formals (%s); shadow %s; wrappers [%s]\nlint mode %s: arity diagnostics at the call: %s\nrun time: the call %s -- %s",
			src, c19Call(target.Name, args), pos.Line, pos.Col, sh.Name, target.Name, target.Kind, strings.Join(target.Formals, " "), shadow.label(), wrapLabel,
			mode, c19DiagList(arity), c19ReachText(class), obs)
		switch class {
		case "builtin-bind-fail":
			if len(arity) == 0 && !tsig.HasKey() {
				if len(other) > 0 {
					w.Count("failing_calls_reported_only_by_non_arity_analyzer", 1)
					break
				}
				key := "missed:shadow-ctx:" + sh.Name + keyExtra
				summary := fmt.Sprintf("the builtin's arity check is suppressed for a call that still reaches the builtin and fails binding (shape %s, e.g. %s)", sh.Name, c19Call(target.Name, args))
				if !c19BareReported(mode, target.Name, args) {
					// not a matter of the context: the bare call is not reported either
					key = fmt.Sprintf("missed:core:%s:%s", target.Name, c19Rel(tsig, k))
					summary = fmt.Sprintf("no arity diagnostic for %s but binding fails at run time (seen inside shape %s)", c19Call(target.Name, args), sh.Name)
				}
				fnd.add(key, summary, detail)
				violated = true
			}
		case "builtin-bound", "shadow-bound", "shadow-not-a-function":
			if len(arity) > 0 {
				key := fmt.Sprintf("spurious:shadow-ctx:%s:%s%s", sh.Name, c19Analyzers(arity), keyExtra)
				if c19Analyzers(arity) == "if-arity" {
					key = "spurious:if-arity-ignores-shadowing" // one defect: the analyzer has no notion of shadowing, whatever the shape
				}
				if class == "builtin-bound" && c19BareReported(mode, target.Name, args) {
					// not a matter of the context: the bare call is reported too
					key = fmt.Sprintf("spurious:core:%s:%s", target.Name, c19Analyzers(arity))
				}
				fnd.add(key,
					fmt.Sprintf("%s reports a call that binds at run time (%s; shape %s, e.g. %s)", c19Analyzers(arity), c19ReachText(class), sh.Name, c19Call(target.Name, args)), detail)
				violated = true
			}
		case "shadow-bind-fail":
			if len(builtinish) > 0 {
				key := fmt.Sprintf("builtin-check-on-shadowed-call:%s:%s%s", sh.Name, c19Analyzers(builtinish), keyExtra)
				if c19Analyzers(builtinish) == "if-arity" {
					key = "builtin-check-on-shadowed-call:if-arity-ignores-shadowing"
				}
				fnd.add(key,
					fmt.Sprintf("%s applies the builtin's signature to a call that reaches the shadowing binding (shape %s, e.g. %s)", c19Analyzers(builtinish), sh.Name, c19Call(target.Name, args)), detail)
				violated = true
			}
			if sh.Defun && mode != "syn" && len(arity) == 0 && !shadow.sig().HasKey() {
				if len(other) > 0 {
					w.Count("failing_calls_reported_only_by_non_arity_analyzer", 1)
					break
				}
				fnd.add("missed:shadowing-defun:"+sh.Name+keyExtra,
					fmt.Sprintf("no arity diagnostic (semantic analysis on) for a call that reaches a defun shadowing a builtin and fails binding (shape %s, e.g. %s)", sh.Name, c19Call(target.Name, args)), detail)
				violated = true
			}
		}
	}
	rel := c19Rel(tsig, k)
	w.CoverKey(fmt.Sprintf("shadow|%s|%s|%s|%s|%s|lint:%s|wrap:%v", sh.Name, target.Kind, target.Name, rel, class, lintClass, wrapLabel != ""))
	w.SetAdd("shadow_shapes", sh.Name)
	if reach := sh.Name + " -> " + strings.TrimSuffix(strings.TrimSuffix(class, "-bind-fail"), "-bound"); strings.Contains(sh.Name, ":then:") {
		w.SetAdd("pkgmove_reach_by_movement", reach) // family 7 (a set of its own: sets over 60 members are truncated in the evidence)
	} else if strings.Contains(sh.Name, "-placed:") {
		// family 8 records the reach per kind itself (definition_placement_reach:*)
	} else {
		w.SetAdd("shadow_reach_by_shape", reach)
	}
	for _, n := range strings.Split(wrapLabel, ">") {
		if n != "" {
			w.SetAdd("wrappers", n)
		}
	}
	c19Sample(w, "shadow", src, pos, lints, obs)
	return violated
}

func c19ReachText(class string) string {
	switch class {
	case "builtin-bind-fail":
		return "reaches the builtin and fails binding"
	case "builtin-bound":
		return "reaches the builtin and binds"
	case "shadow-bound":
		return "reaches the shadowing binding and binds"
	case "shadow-bind-fail":
		return "reaches the shadowing binding and fails binding there"
	case "shadow-not-a-function":
		return "reaches the shadowing binding, which is not a function"
	}
	return class
}

// c19BareReported lints the one-call source (name args...) alone and says
// whether an arity analyzer reports it.  Used only to attribute a finding seen
// inside a shadowing shape to the shape or to the builtin's table entry.
func c19BareReported(mode, name string, args []string) bool {
	src, pos := c19Place(c19Mark+"\n", c19Call(name, args))
	lr := c19Lint(mode, src)
	a, _ := lr.arityAt(pos)
	return len(a) > 0
}
