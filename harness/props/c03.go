package props

import (
	"context"
	"fmt"
	"os"
	"path/filepath"
	"sort"
	"strconv"
	"strings"
	"time"

	"github.com/luthersystems/elps/lisp"
	"github.com/luthersystems/elps/parser/lexer"
	"github.com/luthersystems/elps/parser/rdparser"
	"github.com/luthersystems/elps/parser/token"

	"verifharness/fw"
	"verifharness/gen"
	"verifharness/rt"
	"verifharness/sx"
)

// C03 — no source text or data value can crash, wedge or panic the host.
// Hostile-input survival in child worker processes: the culprit of a fatal
// runtime throw is the last case logged before the process died.
//
//   idx%3 == 0  bytes as source, evaluated under limits an embedder would configure
//   idx%3 == 1  registry sweep: every function / operator / macro of every loaded package
//               x arities 0..max+2 x argument tuples from a pool of every value type
//   idx%3 == 2  reader only, no limits: strict, fault-tolerant, format-preserving readers and the lexer
//   and, interleaved as every seventh case, the formals zoo (c03_formals.go): formals lists
//   enumerated x every definer x every kind of call site x call shapes
//   every thirteenth case: re-entrant callbacks (c03_reentrant.go)
//   after all of them, as a block: operator forms (c03_opforms.go): every special operator
//   and macro x list-shaped arguments empty / 1 / several x body forms that are calls,
//   evaluated as source in tail and non-tail positions

func init() {
	fw.Register(&fw.Prop{
		ID:    "C03",
		Level: "exploration",
		Rule: "(1) sources: random bytes, token soup over the lexer alphabet, splice/delete/duplicate/bit-flip mutations of the repository's .lisp files and of generated programs, and structured stressors (10^5-10^6 deep brackets and quote chains, recursive macros, runaway tail and non-tail recursion, self-containing maps/vectors passed to printing, equal?, json:dump-*, format-string, elpspath, macro expansion returning a cyclic form, huge #^ indexes), loaded with MaxSteps, default stack/nesting/tail limits, MaxAlloc and a context deadline; " +
			"(2) every function, operator and macro found in the registry at run time x arities 0..max+2 x argument tuples from a pool of ~60 values of every type (boundary ints, NaN/Inf, invalid UTF-8 and long strings, bytes, symbols/keywords, nested/empty lists and vectors, 0-dim and multi-dimensional arrays, maps incl. JSON-decoded, cyclic containers, natives, error values, builtin/lambda/macro/operator function values, tagged values); (3) the same byte corpus through the three readers and the bare lexer without limits. " +
			"(4) formals zoo (every seventh case): formals lists enumerated x every definer x every kind of call site x call shapes; " +
			"(5) re-entrant callbacks (every thirteenth case): every (registered function, arity 2..5, callback position, container position) on which a counting callback is invoked at all, found by calling the whole registry, plus listed call forms (handlers, compose/flip/curry-function wrappers, thread-*, dotimes, keys) x a callback that on its 1st / 2nd / last / every invocation does one thing (append! once, twice, nine at once, append-bytes!, assoc! new/existing key, dissoc!, elpspath ?set! ?del! ?del! twice ?nil!, a nested stable-sort, re-binding the variable, raising, the same call again, load-string) to the container the builtin is working on, to the vector a view was taken from, to a view of it or to the element it was handed x vectors (full, spare capacity), lists (built, quoted), bytes, sorted-maps, a host-built 2-dimensional array, rest / slice views, vectors of vectors, of 2, 3, 8, 25, 50 elements (thorough: drawn sizes up to 60); afterwards the container and the result are read (length, printing, equal?, map, json, nth). " +
			"(6) operator forms (a block after the other cases): every special operator and macro found in the registry, written as source with FORMS as arguments: every argument position in turn list-shaped (the empty list; 1, 2, 3 entries of one kind: symbols, numbers, name/value pairs with a literal or a call, condition/handler pairs, function definitions with and without body, test/body and test-only clauses, empty lists; name/count pairs with count 0, 1, 3, a call), the other positions body forms (literal; calls of a builtin, a user function, a lambda, a user macro, through funcall, one that raises, the recursive call of the enclosing function under if; calls in tail position of if / progn / let / cond), arities 0 .. one past the formals, each evaluated at top level, in tail position of a named function, and (quick: one of, thorough: all of) as argument of a call inside a function, as non-final body form, in tail position of a lambda called through funcall, inside a handler-bind that has a clause; past an operator's enumeration random compositions (operator forms inside operator forms, mixed lists of 0-4 entries). " +
			"Oracle: the call returns, the result is not lisp.IsInternalPanic, no Go panic escapes, the worker survives. distinct_nontrivial counts distinct (source class, outcome condition) and (package:function, arity, outcome condition class) signatures",
		Assumptions: []string{
			"total memory is not bounded by elps (documented); inputs are kept <= 2 MiB and MaxAlloc is set to 1M elements so a single builtin call cannot exhaust the machine",
			"a per-case wall-clock watchdog (120 s, generous: cases take milliseconds) ends the worker; the driver reports the last logged case. Blocking builtins are only reached under a context deadline",
			"host builtins registered by the harness itself (package verif, which panics on demand) are excluded from the sweep",
			"re-entrant callbacks: WHAT a builtin answers when its container changes under it is unspecified and not judged (any value or ordinary error is accepted); the runs evaluate forms read once per worker through EvalContext, and a failure is loaded again as one source text in a fresh runtime (reported either way, the summary says whether it showed there too)",
			"operator forms: WHAT an operator answers to a degenerate shape (a value, which error) is not judged; the forms of a case are read as one text and evaluated one top-level form at a time through EvalContext in one runtime (definitions made by earlier forms of the case stay), each with its own step budget of 100000; a failure is loaded again as one source text in a fresh runtime and the summary says what it answered there",
		},
		// 12000 / 400000 + every seventh + every thirteenth, then the block of operator forms
		Cases:         func(tier string) int { return pick(tier, c03BaseQuick+c03OfQuickCases, c03BaseThorough+c03OfThorough) },
		Run:           c03Run,
		Init:          c03Init,
		Driver:        c03Driver,
		MinDistinct:   func(tier string) int { return pick(tier, 900, 1200) },
		WorkerTimeout: func(tier string) time.Duration { return time.Duration(pick(tier, 25, 240)) * time.Minute },
	})
}

// the cases of families (1)-(5); the operator forms follow them
const (
	c03BaseQuick    = 15167
	c03BaseThorough = 505555
)

type c03State struct {
	files [][]byte
	funs  []c03Fun
}

type c03Fun struct {
	pkg, name string
	kind      lisp.LFunType
	nformals  int
	variadic  bool
	formals   []string // the names, in order (the re-entrant family names a callback position after its formal)
}

func c03Init(w *fw.W) {
	st := &c03State{}
	repo := os.Getenv("VERIF_REPO")
	if repo == "" {
		repo = "/repo"
	}
	filepath.WalkDir(repo, func(p string, d os.DirEntry, err error) error {
		if err != nil {
			return nil
		}
		if d.IsDir() && (d.Name() == ".git" || d.Name() == "node_modules") {
			return filepath.SkipDir
		}
		if !d.IsDir() && strings.HasSuffix(p, ".lisp") {
			if b, e := os.ReadFile(p); e == nil && len(b) > 0 && len(b) < 64<<10 {
				st.files = append(st.files, b)
			}
		}
		return nil
	})
	sort.Slice(st.files, func(i, j int) bool { return string(st.files[i]) < string(st.files[j]) })
	// enumerate the registry at run time so new builtins are picked up
	r := rt.New(rt.Opts{})
	reg := r.Env.Runtime.Registry
	for _, pn := range reg.PackageNames() {
		if pn == "verif" || pn == "user" {
			continue
		}
		p := reg.Package(pn)
		for _, sn := range p.SymbolNames() {
			v, _ := p.Symbol(sn)
			if v == nil || v.Type != lisp.LFun {
				continue
			}
			if pn != "lisp" && !c03Exported(p, sn) {
				continue
			}
			f := c03Fun{pkg: pn, name: sn, kind: v.FunType}
			for _, fs := range v.Cells[0].Cells {
				if strings.HasPrefix(fs.Str, "&") {
					if fs.Str == "&rest" {
						f.variadic = true
					}
					continue
				}
				f.nformals++
				f.formals = append(f.formals, fs.Str)
			}
			st.funs = append(st.funs, f)
		}
	}
	w.State = st
}

func c03Exported(p *lisp.Package, name string) bool {
	for _, e := range p.Externals() {
		if e == name {
			return true
		}
	}
	return false
}

// c03WatchLimit: 120 s, scaled when the driver re-runs a slow case alone.
func c03WatchLimit() time.Duration {
	d := 120 * time.Second
	if b, err := time.ParseDuration(os.Getenv("VERIF_WATCHDOG_BASE")); err == nil && b > 0 {
		d = b // self-test of the retry path only
	}
	if n, err := strconv.Atoi(os.Getenv("VERIF_WATCHDOG_SCALE")); err == nil && n > 1 {
		d *= time.Duration(n)
	}
	return d
}

func c03Watch(w *fw.W, idx int, what string) func() {
	done := make(chan struct{})
	go func() {
		select {
		case <-done:
		case <-time.After(c03WatchLimit()):
			select {
			case <-done: // finished just as the timer fired
				return
			default:
			}
			fmt.Fprintf(os.Stderr, "WEDGED: case %d (%s) did not return within %v\n", c03CaseIdx, what, c03WatchLimit())
			os.Exit(7)
		}
	}()
	return func() { close(done) }
}

// c03CaseIdx: the case number as the driver knows it (a worker runs one case at a time).
var c03CaseIdx int

func c03Run(w *fw.W, idx int) {
	c03CaseIdx = idx
	// the operator forms (c03_opforms.go) are a block appended to the case list: the
	// cases before it keep their numbers
	if base := pick(w.Tier, c03BaseQuick, c03BaseThorough); idx >= base {
		c03OpForms(w, idx, idx-base)
		return
	}
	// every thirteenth case belongs to the re-entrant callbacks (c03_reentrant.go); the
	// others keep the numbering they had before that family was interleaved
	if idx%13 == 12 {
		c03Reentrant(w, idx, idx/13)
		return
	}
	idx -= (idx + 1) / 13
	// every seventh case (7 shares no factor with the usual worker counts, so the family
	// spreads over all workers) belongs to the formals zoo; the other six keep the
	// numbering - and so the generators - they had before the zoo was interleaved
	if idx%7 == 6 {
		c03Formals(w, idx, idx/7)
		return
	}
	idx -= (idx + 1) / 7
	switch idx % 3 {
	case 0:
		c03Source(w, idx)
	case 1:
		c03Sweep(w, idx)
	default:
		c03Reader(w, idx)
	}
}

// --- (1) hostile sources ---------------------------------------------------------------

var c03Alphabet = []string{"(", ")", "[", "]", "'", "#'", "#^", "\"", ";", " ", "\n", "1", "-1", "1.5", "1e", "1e400", "#xFF", "#o8", "#xZ", "a", "a:b", "a:b:c", ":k", ":", "a:", "%", "%1", "%&rest", "&rest", "&key", "&optional",
	"\"str\"", "\"\\", "\"\\u12\"", "\"\"\"raw\"\"\"", "\"\"\"", "#!", "#<", "true", "false", "()", "lambda", "defun", "defmacro", "let", "quasiquote", "unquote", "unquote-splicing", "set", "if", "progn",
	"handler-bind", "condition", "error", "rethrow", "load-string", "eval", "macroexpand", "funcall", "apply", "map", "sorted-map", "vector", "list", "assoc!", "append!", "json:dump-string", "to-string", "format-string",
	"9223372036854775807", "-9223372036854775808", "9223372036854775808", "00", "+", "-", "\x00", "\xff", "\u2028", "é", "\t", "\r\n"}

func c03Stressor(r *fw.RNG) (string, string) {
	n := []int{1000, 20000, 100000, 1000000}[r.Intn(4)]
	switch r.Intn(37) {
	case 0:
		return "deep-parens", strings.Repeat("(", n)
	case 1:
		return "deep-parens-closed", strings.Repeat("(", n/2) + strings.Repeat(")", n/2)
	case 2:
		return "deep-brackets", strings.Repeat("[", n/2) + strings.Repeat("]", n/2)
	case 3:
		return "quote-chain", strings.Repeat("'", n) + "x"
	case 4:
		return "nested-identity", strings.Repeat("(identity ", 5000) + "1" + strings.Repeat(")", 5000)
	case 5:
		return "recursive-macro", fmt.Sprintf("(defmacro nest (n) (if (<= n 0) 1 (quasiquote (identity (nest (unquote (- n 1)))))))\n(nest %d)", n)
	case 6:
		return "runaway-recursion", "(defun f (n) (+ 1 (f (+ n 1))))\n(f 0)"
	case 7:
		return "runaway-tail-recursion", "(defun f (n) (f (+ n 1)))\n(f 0)"
	case 8:
		return "mutual-runaway", "(defun a (n) (b n))\n(defun b (n) (list (a n)))\n(a 0)"
	case 9:
		return "self-map-print", "(set 'm (sorted-map))\n(assoc! m \"self\" m)\n(list (to-string 1) (format-string \"{}\" m) (debug-print m) (equal? m m) m)"
	case 10:
		return "self-vector-print", "(set 'v (vector 1))\n(append! v v v v)\n(list (format-string \"{}\" v) (equal? v v) (length v) v)"
	case 11:
		return "self-map-json", "(set 'm (sorted-map))\n(assoc! m \"self\" m)\n(json:dump-string m)"
	case 12:
		return "self-vector-json", "(set 'v (vector 1))\n(append! v v)\n(json:dump-bytes v)"
	case 13:
		return "cross-cycle-equal", "(set 'a (sorted-map)) (set 'b (sorted-map))\n(assoc! a \"x\" b) (assoc! b \"x\" a)\n(list (equal? a b) (format-string \"{} {}\" a b))"
	case 14:
		k := r.Range(1, 4) // the expansion holds itself k times
		return fmt.Sprintf("cyclic-macro-expansion-width%d", k), "(defmacro cyc () (let ([v (vector 1)]) (append! v" + strings.Repeat(" v", k) + ") v))\n(cyc)"
	case 15:
		k := r.Range(1, 3)
		keys := ""
		for i := 0; i < k; i++ {
			keys += fmt.Sprintf(" (assoc! m \"k%d\" m)", i)
		}
		return fmt.Sprintf("cyclic-macro-expansion-map-width%d", k), "(defmacro cyc2 () (let ([m (sorted-map)])" + keys + " (list 'quote (list m m))))\n(cyc2)"
	case 16:
		return "huge-expr-index", fmt.Sprintf("(#^(list %%%d) 1)", n*1000)
	case 17:
		return "huge-dotimes", "(dotimes (i 9223372036854775807))"
	case 18:
		return "huge-make-sequence", "(make-sequence 0 9223372036854775807)"
	case 19:
		return "huge-pow", "(list (pow -128 9223372036854775807) (pow 2 -9223372036854775808) (mod -9223372036854775808 -1) (/ -9223372036854775808 -1))"
	case 20:
		return "string-doubling", "(set 's \"xxxxxxxxxxxxxxxx\")\n(dotimes (i 64) (set 's (concat 'string s s)))\n(length s)"
	case 21:
		return "long-symbol", strings.Repeat("a", n)
	case 22:
		return "long-string", "\"" + strings.Repeat("\\n", n/2) + "\""
	case 23:
		return "nested-load-string", "(defun l (n) (load-string (format-string \"(l {})\" (+ n 1))))\n(l 0)"
	case 34, 35, 36:
		// bounded by a context ONLY (no step budget; the class name selects that and a
		// 200 ms deadline): a counting loop of 5*10^6 turns, seconds of work, sitting in
		// every position of the body and binding forms; it must be cut short (decided by
		// the number of turns that ran, not by elapsed time)
		work := "(dotimes (i 5000000) (set 'turns (+ turns 1)))"
		positions := []struct{ name, form string }{
			{"toplevel", work},
			{"let-nonfinal", "(let ([x 1]) " + work + " x)"},
			{"let-final", "(let ([x 1]) x " + work + ")"},
			{"let-init", "(let ([x " + work + "]) x)"},
			{"let*-init", "(let* ([a 1] [b " + work + "]) b)"},
			{"let*-nonfinal", "(let* ([a 1]) " + work + " a)"},
			{"flet-nonfinal", "(flet ((h (x) x)) " + work + " (h 1))"},
			{"labels-nonfinal", "(labels ((h (x) x)) " + work + " (h 1))"},
			{"macrolet-nonfinal", "(macrolet ((m (x) x)) " + work + " (m 1))"},
			{"function-nonfinal", "(defun f () " + work + " 1) (f)"},
			{"lambda-in-map", "(map 'list (lambda (x) " + work + " x) '(1))"},
			{"handler-body", "(handler-bind ((my-err (lambda (c &rest a) 0))) " + work + " 1)"},
			{"progn-in-let-nonfinal", "(let ([x 1]) (progn " + work + " 2) x)"},
			{"cond-test", "(cond (" + work + " 1) (else 2))"},
			{"nested-let-nonfinal", "(let ([x 1]) (let ([y 2]) " + work + " y) x)"},
		}
		k := fw.Pick(r, positions)
		return "ctxonly-runaway:" + k.name, "(set 'turns 0)\n" + k.form
	case 30, 31, 32, 33:
		// refused, then used: under a lowered allocation cap (the class name selects it) a
		// mutating or constructing operation is refused; whatever it was applied to must
		// still be a consistent value for every reader afterwards
		targets := []struct{ name, build, refuse string }{
			{"vector-append!", "(set 'c (vector 1 2 3 4 5 6))", "(append! c 7 8 9)"},
			{"vector-append!-twice", "(set 'c (vector 1 2 3 4 5 6 7))", "(progn (ignore-errors (append! c 8 9)) (append! c 10 11 12))"},
			{"bytes-append-bytes!", "(set 'c (to-bytes \"abcdef\"))", "(append-bytes! c \"ghij\")"},
			{"bytes-append!", "(set 'c (to-bytes \"abcdefg\"))", "(append! c 1 2 3)"},
			{"map-assoc!", "(set 'c (sorted-map \"a\" 1 \"b\" 2 \"c\" 3 \"d\" 4 \"e\" 5 \"f\" 6 \"g\" 7 \"h\" 8))", "(progn (assoc! c \"i\" 9) (assoc! c \"j\" 10))"},
			{"vector-of-append-result", "(set 'c (append 'vector (vector 1 2 3 4 5 6) 7))", "(append! c 8 9 10)"},
			{"view-append!", "(set 'base (vector 1 2 3 4 5 6 7 8)) (set 'c (slice 'vector base 0 7))", "(append! c 9 10)"},
			{"list-concat", "(set 'c (list 1 2 3 4 5 6))", "(set 'c2 (concat 'list c c))"},
		}
		k := fw.Pick(r, targets)
		readers := []string{"(length c)", "(aref c (- (length c) 1))", "(nth c (- (length c) 1))", "(map 'list identity c)", "(reverse 'list c)", "(slice 'vector c 0 (length c))", "(format-string \"{}\" c)",
			"(json:dump-string c)", "(insert-index 'list c (length c) 0)", "(append 'vector c 1)", "(equal? c c)", "(stable-sort < c)", "(select 'list (lambda (x) true) c)", "(first c)", "(rest c)",
			"(keys c)", "(get c \"a\")", "(to-string c)", "(foldl (lambda (a x) a) 0 c)", "(zip 'list c c)", "(concat 'list c)", "(empty? c)"}
		var sb strings.Builder
		sb.WriteString(k.build + "\n(handler-bind ((condition (lambda (e &rest a) 'refused))) " + k.refuse + ")\n")
		for _, rd := range readers {
			sb.WriteString("(handler-bind ((condition (lambda (e &rest a) 'no))) " + rd + ")\n")
		}
		return "lowcap-refused-then-used:" + k.name, sb.String()
	case 26, 27, 28, 29:
		// the cycle matrix: one self-containing value (the cycle may pass through maps,
		// vectors, lists, user-typed objects, in one or several hops) handed to every
		// consumer that walks a value; each consumer is guarded so that all of them run
		kinds := []struct{ name, build string }{
			{"map", "(set 'c (sorted-map)) (assoc! c \"self\" c)"},
			{"vector", "(set 'c (vector 1)) (append! c c)"},
			{"map-map", "(set 'c (sorted-map)) (set 'd (sorted-map \"up\" c)) (assoc! c \"down\" d)"},
			{"tagged-map", "(deftype node (f) f) (set 'fields (sorted-map)) (set 'c (new node fields)) (assoc! fields \"self\" c)"},
			{"tagged-vector", "(deftype box (f) f) (set 'cells (vector 1)) (set 'c (new box cells)) (append! cells c)"},
			{"map-in-tagged-in-map", "(deftype wrap (f) f) (set 'c (sorted-map)) (assoc! c \"w\" (new wrap (sorted-map \"back\" c)))"},
			{"list-in-vector", "(set 'c (vector 1)) (append! c (list 1 c 2))"},
			{"vector-in-map-in-vector", "(set 'c (vector)) (append! c (sorted-map \"v\" (vector c)))"},
			{"two-hop-tagged", "(deftype n2 (f) f) (set 'm1 (sorted-map)) (set 'm2 (sorted-map \"a\" (new n2 m1))) (set 'c (new n2 m2)) (assoc! m1 \"b\" c)"},
		}
		k := fw.Pick(r, kinds)
		consumers := []string{"(json:dump-string c)", "(json:dump-bytes c)", "(to-string c)", "(format-string \"{}\" c)", "(debug-print c)", "(equal? c c)", "(equal? c (list c))",
			"(format-string \"{}\" (vector c c))", "(error 'carrier c)", "(sorted-map \"k\" c)", "(json:dump-string (sorted-map \"k\" (vector c)))", "(string:join (list (to-string c)) \",\")",
			"(length (format-string \"{} {}\" c c))", "(s:validate s:any c)", "(assert false \"{}\" c)", "(concat 'string \"\" (to-string (list c)))", "(type c)", "(user-data c)", "(map 'list identity (list c c))"}
		var sb strings.Builder
		sb.WriteString(k.build + "\n")
		for _, cons := range consumers {
			sb.WriteString("(handler-bind ((condition (lambda (e &rest a) 'refused))) " + cons + ")\n")
		}
		return "cycle-matrix:" + k.name, sb.String()
	case 24:
		return "self-path", "(set 'm (sorted-map))\n(assoc! m \"self\" m)\n(list (elpspath:get m \"$..self\") (elpspath:get m \"$..*\"))"
	default:
		return "handler-loop", "(defun h (n) (handler-bind ((condition (lambda (c &rest a) (h (+ n 1))))) (error 'x)))\n(h 0)"
	}
}

func c03Mutate(r *fw.RNG, b []byte) []byte {
	out := append([]byte(nil), b...)
	for k := r.Range(1, 6); k > 0 && len(out) > 0; k-- {
		i := r.Intn(len(out))
		switch r.Intn(5) {
		case 0:
			out[i] ^= 1 << uint(r.Intn(8))
		case 1:
			j := i + r.Intn(40)
			if j > len(out) {
				j = len(out)
			}
			out = append(out[:i], out[j:]...)
		case 2:
			j := i + r.Intn(60)
			if j > len(out) {
				j = len(out)
			}
			dup := append([]byte(nil), out[i:j]...)
			out = append(out[:j], append(dup, out[j:]...)...)
		case 3:
			tok := fw.Pick(r, c03Alphabet)
			out = append(out[:i], append([]byte(tok), out[i:]...)...)
		default:
			j := r.Intn(len(out))
			out[i], out[j] = out[j], out[i]
		}
	}
	return out
}

func c03Bytes(w *fw.W, r *fw.RNG) (class string, src []byte) {
	st := w.State.(*c03State)
	switch r.Intn(7) {
	case 0:
		n := r.Range(0, 300)
		b := make([]byte, n)
		for i := range b {
			b[i] = byte(r.Intn(256))
		}
		return "random-bytes", b
	case 1, 2:
		var sb strings.Builder
		for i := r.Range(1, 80); i > 0; i-- {
			sb.WriteString(fw.Pick(r, c03Alphabet))
			if r.Bool() {
				sb.WriteByte(' ')
			}
		}
		return "token-soup", []byte(sb.String())
	case 3:
		if len(st.files) > 0 {
			return "repo-file-mutation", c03Mutate(r, st.files[r.Intn(len(st.files))])
		}
		fallthrough
	case 4:
		g := gen.New(r, gen.DefaultProfile())
		return "generated-program-mutation", c03Mutate(r, []byte(sx.Render(g.Program(), nil)))
	default:
		c, s := c03Stressor(r)
		return "stressor:" + c, []byte(s)
	}
}

func c03Source(w *fw.W, idx int) {
	r := w.RNG(idx, "src")
	class, src := c03Bytes(w, r)
	stop := c03Watch(w, idx, class)
	defer stop()
	ctx, cancel := context.WithTimeout(context.Background(), 20*time.Second)
	defer cancel()
	// MaxPhys 3000: every error keeps a copy of the call stack, so unbounded handler
	// nesting at the default 25000 frames costs gigabytes (total memory is documented
	// as not bounded by elps; an embedder bounds it outside)
	opts := rt.Opts{MaxSteps: 300_000, MaxAlloc: 1_000_000, MaxPhys: 3000}
	if strings.Contains(class, "lowcap-") {
		opts.MaxAlloc = 8 // a host-lowered per-operation allocation cap
	}
	ctxOnly := strings.Contains(class, "ctxonly-")
	if ctxOnly {
		opts.MaxSteps = 0
		cancel()
		ctx, cancel = context.WithTimeout(context.Background(), 200*time.Millisecond)
		defer cancel()
	}
	rr := rt.New(opts)
	v := rr.Env.LoadStringContext(ctx, "c03", string(src))
	if ctxOnly {
		turns := rr.Env.LoadString("c03-turns", "turns")
		if v.Type != lisp.LError || v.Str != "context-cancelled" || (turns.Type == lisp.LInt && turns.Int >= 5000000) {
			w.Violation("deadline-ignored:"+class, fmt.Sprintf("a program bounded only by a 200 ms context deadline ran %v of 5000000 loop turns and ended with %s", turns, trunc(v.String(), 200)), string(src))
			return
		}
		w.Max("ctxonly_max_turns_before_cancellation", int64(turns.Int))
	}
	w.Eval(1)
	w.Logf("class %s source (%d bytes): %q\n=> %s", class, len(src), trunc(string(src), 600), trunc(v.String(), 400))
	if lisp.IsInternalPanic(v) {
		w.Violation("internal-panic-from-source:"+class, "loading source text produced internal-panic: "+trunc(rt.ErrMsg(v), 300), fmt.Sprintf("%q", trunc(string(src), 4000)))
		return
	}
	out := "value"
	if v.Type == lisp.LError {
		out = v.Str
	}
	w.CoverKey("src|" + class + "|" + out)
	w.SetAdd("conditions_from_sources", out)
	if out == "context-cancelled" {
		w.SetAdd("classes_stopped_by_the_deadline", class)
	}
	if w.WantSample() && strings.HasPrefix(class, "stressor") {
		w.Sample(map[string]any{"class": class, "source_head": trunc(string(src), 160), "outcome": trunc(v.String(), 200)})
	}
}

// --- (3) readers without limits ------------------------------------------------------------

func c03Reader(w *fw.W, idx int) {
	r := w.RNG(idx, "rd")
	class, src := c03Bytes(w, r)
	stop := c03Watch(w, idx, "reader:"+class)
	defer stop()
	s := string(src)
	_, e1 := rdparser.New(token.NewScanner("c03", strings.NewReader(s))).ParseProgram()
	res := rdparser.New(token.NewScanner("c03", strings.NewReader(s))).ParseProgramFaultTolerant()
	_, e3 := rdparser.NewFormatting(token.NewScanner("c03", strings.NewReader(s))).ParseProgram()
	lx := lexer.New(token.NewScanner("c03", strings.NewReader(s)))
	ntok := 0
	for {
		toks := lx.ReadToken()
		ntok += len(toks)
		end := len(toks) == 0
		for _, t := range toks {
			if t.Type == token.EOF || t.Type == token.ERROR {
				end = true
			}
		}
		if end || ntok > 8<<20 {
			break
		}
	}
	w.Eval(4)
	_ = res
	out := "ok"
	if e1 != nil {
		out = "rejected"
	}
	if (e1 == nil) != (e3 == nil) {
		out += "/formatting-differs"
	}
	w.CoverKey("reader|" + class + "|" + out)
	w.Count("tokens_lexed", int64(ntok))
}

// --- (2) registry sweep -----------------------------------------------------------------------

type c03Native struct{ A, B int }

func c03Pool(rr *rt.R, r *fw.RNG) []*lisp.LVal {
	env := rr.Env
	eval := func(s string) *lisp.LVal { return env.LoadString("pool", s) }
	cycMap := eval("(let ([m (sorted-map \"a\" 1)]) (assoc! m \"self\" m) m)")
	cycVec := eval("(let ([v (vector 1 2)]) (append! v v) v)")
	arr0 := lisp.Array(lisp.QExpr(nil), nil)
	arr2 := lisp.Array(lisp.QExpr([]*lisp.LVal{lisp.Int(2), lisp.Int(3)}), nil)
	arrBig := lisp.Array(lisp.QExpr([]*lisp.LVal{lisp.Int(2), lisp.Int(0), lisp.Int(3)}), nil)
	pool := []*lisp.LVal{
		lisp.Int(0), lisp.Int(1), lisp.Int(-1), lisp.Int(2), lisp.Int(1 << 31), lisp.Int(-(1 << 31)), lisp.Int(1 << 53), lisp.Int(-(1 << 53)), lisp.Int(1<<63 - 1), lisp.Int(-1 << 63),
		lisp.Float(0), eval("(/ -1.0 (/ 1 0.0))"), lisp.Float(1.5), eval("(- (/ 1 0.0) (/ 1 0.0))"), eval("(/ 1 0.0)"), eval("(/ -1 0.0)"), lisp.Float(1e308), lisp.Float(5e-324),
		lisp.String(""), lisp.String("a"), lisp.String("hello world"), lisp.String("\xff\xfe\x00"), lisp.String(strings.Repeat("x", 70000)), lisp.String("{}{"), lisp.String("^(a+)+$"), lisp.String("$..x[*]"), lisp.String("2020-02-30T25:61:61Z"), lisp.String("1h"),
		lisp.Bytes(nil), lisp.Bytes([]byte{0, 255, 1}), lisp.Bytes([]byte("abc")),
		lisp.Quote(lisp.Symbol("sym")), lisp.Symbol(":kw"), lisp.Quote(lisp.Symbol("lisp:car")), lisp.Quote(lisp.Symbol("a:b:c")), lisp.Quote(lisp.Symbol("list")), lisp.Quote(lisp.Symbol("vector")), lisp.Bool(true), lisp.Bool(false),
		lisp.Nil(), eval("'()"), eval("'(1 2 3)"), eval("'((1 2) (3 (4)))"), eval("(list \"a\" 'b 3.5)"), eval("''x"),
		eval("(vector)"), eval("(vector 1 2 3)"), eval("(vector (vector 1) (vector))"), arr0, arr2, arrBig,
		eval("(sorted-map)"), eval("(sorted-map \"a\" 1 'b (vector 1))"), eval("(json:load-string \"{\\\"a\\\":[1,{\\\"b\\\":null}]}\")"),
		cycMap, cycVec,
		lisp.Native(&c03Native{1, 2}), lisp.Native(nil), eval("(time:parse-rfc3339 \"2020-01-01T00:00:00Z\")"), eval("(time:parse-duration \"90s\")"), eval("(regexp:regexp-compile \"a+\")"),
		lisp.Errorf("an error value"), eval("(ignore-errors (handler-bind ((condition (lambda (&rest e) (car e)))) (error 'x 1)))"),
		eval("car"), eval("(lambda (x) x)"), eval("(lambda (&rest xs) xs)"), eval("(lambda () (error 'from-callback 1))"), eval("(function defun)"), eval("(function if)"), eval("(flip -)"),
		eval("(progn (deftype c03t (x) x) (new c03t 5))"), eval("lisp:typedef"),
		lisp.Int(3), lisp.Int(1 << 32), lisp.Int(1 << 62), lisp.Int(-(1 << 62)), lisp.String("ab"), lisp.String("héé"),
		// the remaining type specifiers the sequence builtins take as their first argument
		lisp.Quote(lisp.Symbol("bytes")), lisp.Quote(lisp.Symbol("string")), lisp.Quote(lisp.Symbol("sorted-map")), lisp.Quote(lisp.Symbol("array")),
	}
	for i, p := range pool {
		if p == nil {
			pool[i] = lisp.Nil()
		}
	}
	return pool
}

func c03Sweep(w *fw.W, idx int) {
	st := w.State.(*c03State)
	r := w.RNG(idx, "sweep")
	if len(st.funs) == 0 {
		w.Inconclusive("registry enumeration found no functions")
		return
	}
	// one batch = one fresh runtime, ~40 calls of one function at one arity
	k := idx / 3
	f := st.funs[k%len(st.funs)]
	maxAr := f.nformals + 2
	arity := (k / len(st.funs)) % (maxAr + 1)
	// the watchdog is re-armed for every call: what must return promptly is ONE call,
	// and an enumerating batch makes several hundred of them, many of which run a
	// builtin up to the allocation cap
	stop := c03Watch(w, idx, fmt.Sprintf("sweep %s:%s/%d", f.pkg, f.name, arity))
	defer func() { stop() }()
	rr := rt.New(rt.Opts{MaxSteps: 200_000, MaxAlloc: 200_000, MaxPhys: 2000})
	pool := c03Pool(rr, r)
	p := rr.Env.Runtime.Registry.Package(f.pkg)
	fn, ok := p.Symbol(f.name)
	if !ok || fn.Type != lisp.LFun {
		return
	}
	ncalls := 40
	if arity == 0 {
		ncalls = 1
	}
	// Every second visit of a (function, arity <= 3) enumerates instead of sampling:
	// arity 1 every pool value; arity 2 and 3 the full cross product of the boundary
	// values in two positions (a defect that needs a PAIR of unusual arguments, such as
	// a long string and a count near the integer limit, is otherwise a lottery).
	rep := k / (len(st.funs) * (maxAr + 1)) // how often this (function, arity) came up before
	var bidx []int                          // boundary subset of the pool
	perType := map[lisp.LType]int{}
	for j, p := range pool {
		switch {
		case p.Type == lisp.LInt, p.Type == lisp.LFloat && (j%2 == 0), p.Type == lisp.LString && len(p.Str) != 1, p.Type == lisp.LBytes && j%2 == 0:
			bidx = append(bidx, j)
		case p.Type == lisp.LArray:
			bidx = append(bidx, j) // every array shape: empty, flat, nested, 0-dimensional, multi-dimensional
		case p.Type == lisp.LFloat || p.Type == lisp.LString || p.Type == lisp.LBytes:
		default:
			// two representatives of every other type (symbols, lists, maps, natives, functions ...)
			if perType[p.Type] < 2 {
				perType[p.Type]++
				bidx = append(bidx, j)
			}
		}
	}
	// type specifiers: the sequence builtins dispatch on a symbol in the first position,
	// so every second call of an arity >= 2 batch walks them there (unless that position
	// is one of the two being enumerated)
	var tsidx []int
	for j, p := range pool {
		if p.Type == lisp.LSymbol || p.Type == lisp.LQSymbol {
			switch p.Str {
			case "list", "vector", "bytes", "string", "sorted-map", "array":
				tsidx = append(tsidx, j)
			}
		}
	}
	enumerate := arity >= 1 && arity <= 3 && rep%2 == 0
	pa, pb := 0, 1
	if arity == 3 {
		pair := [][2]int{{0, 1}, {0, 2}, {1, 2}}[(k%len(st.funs)+rep/2)%3]
		pa, pb = pair[0], pair[1]
	}
	if enumerate {
		if arity == 1 {
			ncalls = len(pool)
		} else {
			ncalls = len(bidx) * len(bidx)
		}
		w.Count("sweep_enumerated_batches", 1)
	}
	for c := 0; c < ncalls; c++ {
		args := make([]*lisp.LVal, arity)
		desc := make([]string, arity)
		for i := range args {
			j := r.Intn(len(pool))
			if !enumerate && arity <= 3 && c < len(pool) && i == c%max(arity, 1) {
				j = (c / max(arity, 1) * 7) % len(pool) // walk the pool systematically in one position
			}
			if i == 0 && arity >= 2 && c%2 == 1 && len(tsidx) > 0 {
				j = tsidx[(c/2+c/len(bidx))%len(tsidx)]
			}
			if enumerate {
				switch {
				case arity == 1:
					j = c
				case i == pa:
					j = bidx[c/len(bidx)]
				case i == pb:
					j = bidx[c%len(bidx)]
				}
			}
			args[i] = pool[j]
			desc[i] = fmt.Sprintf("#%d:%s", j, pool[j].Type)
		}
		w.Logf("call %s:%s %v", f.pkg, f.name, desc)
		stop()
		stop = c03Watch(w, idx, fmt.Sprintf("sweep %s:%s/%d call %d %v", f.pkg, f.name, arity, c, desc))
		ctx, cancel := context.WithTimeout(context.Background(), 30*time.Second)
		var v *lisp.LVal
		var escaped any
		func() {
			defer func() { escaped = recover() }()
			switch fn.FunType {
			case lisp.LFunNone:
				v = rr.Env.FunCallContext(ctx, fn, lisp.SExpr(args))
			case lisp.LFunMacro:
				v = rr.Env.MacroCall(fn, lisp.SExpr(args))
				if v != nil && v.Type == lisp.LMarkMacExpand {
					v = rr.Env.EvalContext(ctx, v.Cells[0])
				}
			default:
				v = rr.Env.SpecialOpCall(fn, lisp.SExpr(args))
			}
		}()
		cancel()
		w.Eval(1)
		if escaped != nil {
			w.Violation(fmt.Sprintf("go-panic-from-builtin:%s:%s/%d", f.pkg, f.name, arity),
				fmt.Sprintf("(%s:%s %s) panicked in Go: %v", f.pkg, f.name, strings.Join(desc, " "), escaped), strings.Join(desc, " "))
			return
		}
		if v == nil {
			w.Violation("nil-result:"+f.pkg+":"+f.name, "a registered function returned a nil *LVal to the host", strings.Join(desc, " "))
			return
		}
		if lisp.IsInternalPanic(v) {
			w.Violation(fmt.Sprintf("internal-panic-from-builtin:%s:%s/%d", f.pkg, f.name, arity),
				fmt.Sprintf("(%s:%s %s) answered with internal-panic: %s", f.pkg, f.name, strings.Join(desc, " "), trunc(rt.ErrMsg(v), 300)), strings.Join(desc, " "))
			return
		}
		out := "value"
		if v.Type == lisp.LError {
			out = "error"
			if v.Str != "error" {
				out = v.Str
			}
		}
		w.CoverKey(fmt.Sprintf("sweep|%s:%s|%d|%s", f.pkg, f.name, arity, out))
	}
	w.SetAdd("packages_swept", f.pkg)
	w.Count("sweep_functions_total", 0)
	w.Max("registry_functions", int64(len(st.funs)))
}
