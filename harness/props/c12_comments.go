package props

// C12 part (c): the text of inserted line comments and of the hash-bang line.
//
// A comment is documented as ";[^\n]*" and the hash-bang line as "\A#![^\n]*"
// (tree-sitter-elps/grammar.js `comment`/`hashbang`, the vscode grammar): it
// runs to the line feed (or the end of input) whatever it contains.  So the
// body is drawn from everything except '\n': bare carriage returns at the
// start, in the middle and at the end (CRLF), control bytes, every kind of
// blank, quotes, backslashes, brackets, prefix characters, text that would be
// a token (or glue to the next line's token) if the comment ended early, long
// and very long bodies.  docs/lang.md requires source text to be UTF-8, so a
// body with invalid UTF-8 is outside the judged domain: the modes still have
// to agree on it and an accepted text must keep its tree, but a rejection is
// not judged.

import (
	"strings"
	"unicode/utf8"

	"verifharness/fw"
)

// every piece is valid UTF-8 and free of '\n'
var c12HostilePieces = []string{
	"\r", "\r", "\r", "\r\r", "\r ", " \r", "\rx", "x\ry", "\r100% done", "50%\r100%", "\r(oops", "\r)", "\r]", "\r[", "\r\"x", "\ry\"", "\r\"\"\"", "\r'a", "\r#^", "\r#'f", "\r#!", "\r;", "\r;; x",
	"\r 1", "\r-", "\r--", "\r1e", "\r:k", "\r\\", "\r\t", "\r\f", "\r\x00", "\r ", "\r#o8", "\r#z",
	"\t", "\f", "\v", "\x00", "\x01", "\x07", "\x08", "\x1a", "\x1b[0m", "\x1f", "\x7f", "\u0080", "\u009f",
	"\u0085", "\u2028", "\u2029", "\u00a0", "\u1680", "\u2003", "\u202f", "\u3000", "\ufeff", "\u200b", "\u200e",
	"\"", "\"\"", "\"\"\"", "\"x", "x\"", "\\", "\\\\", "\\n", "\\r", "\\\"", "\\x0a", "\\u000a",
	"(", ")", "[", "]", "{", "}", "((", "))", "(]", "[)", "(a", "b)",
	";", ";;", "; ;", "#|", "|#", "#^", "#'", "#!", "#o", "#x", "#o8", "#", "#z", "'", "''", "`", ",", ",@", "@", "^", "|", "~", "&", "%", "$", "!", "?",
	"0", "1", "42", "-", "--", "+", "-1", "1e", "1e+", "1.", ".", ".5", "a", "foo", "a:b", ":k", "a:", ":", "true", "é", "λ", "中", "😀", "\U0010ffff", "\ufffd",
	" ", "  ", "c", "; doc", "nolint:x", "TODO(x): y",
}

// pieces that make the body end in something that would continue into, or
// take as its operand, the first token of the next line
var c12HostileTails = []string{"\r", "\r", "\r\r", "\\", "\\\r", "'", "#'", "#^", "#o", "#x", "#!", "-", "--", "+", "1", "1e", "1e+", "1.", "a", "a:", ":", "\"", "\"\"\"", "(", "[", ";", "#", "\t", "\f", "\x00", " "}

var c12InvalidUTF8 = []string{"\xff", "\xfe", "\x80", "\xbf", "\xc3", "\xc0\x80", "\xe4\xb8", "\xed\xa0\x80", "\xf0\x9f\x98", "\xf4\x90\x80\x80", "\xf8\x88\x80\x80\x80", "a\xffb", "\xc3("}

// c12HostileBody draws the text of a comment (without ';') or of a hash-bang
// line (without "#!").  It never contains '\n'.
func c12HostileBody(r *fw.RNG, allowInvalid, allowHuge bool) (body string, huge bool) {
	var sb strings.Builder
	switch r.Intn(10) {
	case 0:
		// any byte value below 0x80 except LF, uniformly
		for n := r.Range(1, 12); n > 0; n-- {
			b := byte(r.Intn(128))
			if b == '\n' {
				b = '\r'
			}
			sb.WriteByte(b)
		}
	case 1:
		// any rune
		for n := r.Range(1, 8); n > 0; n-- {
			var c rune
			switch r.Intn(4) {
			case 0:
				c = rune(r.Intn(0x100))
			case 1:
				c = rune(r.Intn(0x3000))
			case 2:
				c = rune(r.Intn(0x10000))
			default:
				c = rune(r.Intn(0x110000))
			}
			if c == '\n' || (c >= 0xd800 && c <= 0xdfff) {
				c = '\r'
			}
			sb.WriteRune(c)
		}
	default:
		for n := r.Range(1, 6); n > 0; n-- {
			sb.WriteString(fw.Pick(r, c12HostilePieces))
			if r.Chance(1, 4) {
				sb.WriteByte(' ')
			}
		}
	}
	if r.Chance(1, 4) {
		sb.WriteString(fw.Pick(r, c12HostileTails))
	}
	if allowInvalid && r.Chance(1, 4) {
		s := sb.String()
		p := 0
		if len(s) > 0 {
			p = r.Intn(len(s) + 1)
			for p < len(s) && !utf8.RuneStart(s[p]) {
				p++
			}
		}
		return s[:p] + fw.Pick(r, c12InvalidUTF8) + s[p:], false
	}
	if r.Chance(1, 1000) {
		// long: one unit repeated to 1-100 KB (fits the sliding window); rarely past 128 KiB
		unit := sb.String()
		if unit == "" {
			unit = "x"
		}
		target := r.Range(1<<10, 100<<10)
		if allowHuge && r.Chance(1, 8) {
			target = r.Range(129<<10, 200<<10)
			huge = true
		}
		return strings.Repeat(unit, target/len(unit)+1), huge
	}
	return sb.String(), false
}

// ---------------------------------------------------------------------------
// attribution of a layout finding to the comment text

// c12Seg is a piece of a gap text: the body of a comment, or the rest (blanks,
// the ';' / "#!" that opens the comment and the '\n' that ends it).
type c12Seg struct {
	s    string
	body bool
	lf   bool // a body that is followed by its line feed
}

// c12SplitGap cuts a gap text (or, with head set, a hash-bang line) into
// bodies and the rest.  Gap blanks never contain ';'.
func c12SplitGap(text string, head bool) []c12Seg {
	var out []c12Seg
	for len(text) > 0 {
		var open int
		if head {
			open = strings.Index(text, "#!")
			if open >= 0 {
				open += 2
			}
			head = false
		} else {
			open = strings.IndexByte(text, ';')
			if open >= 0 {
				open++
			}
		}
		if open < 0 {
			out = append(out, c12Seg{s: text})
			break
		}
		out = append(out, c12Seg{s: text[:open]})
		text = text[open:]
		end := strings.IndexByte(text, '\n')
		if end < 0 {
			out = append(out, c12Seg{s: text, body: true})
			break
		}
		out = append(out, c12Seg{s: text[:end], body: true, lf: true})
		text = text[end:]
	}
	return out
}

func c12JoinSegs(segs []c12Seg) string {
	var sb strings.Builder
	for _, g := range segs {
		sb.WriteString(g.s)
	}
	return sb.String()
}

// the classes of comment text, in the order in which they are tried
var c12BodyClasses = []string{"invalid-utf8", "bare-cr", "cr-before-lf", "nul", "control", "tab", "form-feed", "vtab", "unicode-space",
	"quote", "backslash", "bracket", "semicolon", "hash", "prefix-char", "non-ascii", "long", "plain"}

func c12BodyRuneClass(c rune, size int, last, lf bool) string {
	switch {
	case c == utf8.RuneError && size == 1:
		return "invalid-utf8"
	case c == '\r' && last && lf:
		return "cr-before-lf"
	case c == '\r':
		return "bare-cr"
	case c == 0:
		return "nul"
	case c == '\t':
		return "tab"
	case c == '\f':
		return "form-feed"
	case c == '\v':
		return "vtab"
	case c12IsSpaceRune(c) && c != ' ':
		return "unicode-space"
	case c < 0x20 || (c >= 0x7f && c <= 0x9f):
		return "control"
	case c == '"':
		return "quote"
	case c == '\\':
		return "backslash"
	case strings.ContainsRune("()[]{}", c):
		return "bracket"
	case c == ';':
		return "semicolon"
	case c == '#':
		return "hash"
	case strings.ContainsRune("'`,@^", c):
		return "prefix-char"
	case c > 0x7f:
		return "non-ascii"
	}
	return "plain"
}

// c12Neutralize rewrites the runes of one class in a body as 'x' ("long":
// cuts the body down).  changed reports whether the class occurred.
func c12Neutralize(body string, lf bool, class string) (string, bool) {
	if class == "long" {
		if len(body) <= 512 {
			return body, false
		}
		cut := 64
		for cut > 0 && !utf8.RuneStart(body[cut]) {
			cut--
		}
		return body[:cut], true
	}
	var sb strings.Builder
	changed := false
	for i := 0; i < len(body); {
		c, n := utf8.DecodeRuneInString(body[i:])
		if c12BodyRuneClass(c, n, i+n == len(body), lf) == class {
			if class == "plain" {
				if c != 'x' && c != ' ' {
					changed = true
				}
				if c == ' ' {
					sb.WriteByte(' ')
				} else {
					sb.WriteByte('x')
				}
			} else {
				changed = true
				sb.WriteByte('x')
			}
		} else {
			sb.WriteString(body[i : i+n])
		}
		i += n
	}
	return sb.String(), changed
}

// c12AttributeBody decides whether a finding isolated to one gap (or to the
// hash-bang line) is due to the comment text, and to which class of it.
// fails(text) re-runs the comparison with that gap text.  "" = the text of the
// comment does not matter (any comment there fails, or there is none).
func c12AttributeBody(text string, head bool, fails func(string) bool) string {
	segs := c12SplitGap(text, head)
	has := false
	for _, g := range segs {
		has = has || g.body
	}
	if !has {
		return ""
	}
	with := func(f func(g c12Seg) string) string {
		cp := append([]c12Seg(nil), segs...)
		for i, g := range cp {
			if g.body {
				cp[i].s = f(g)
			}
		}
		return c12JoinSegs(cp)
	}
	if fails(with(func(c12Seg) string { return " c" })) {
		return ""
	}
	for _, class := range c12BodyClasses {
		any := false
		cand := with(func(g c12Seg) string {
			s, ch := c12Neutralize(g.s, g.lf, class)
			any = any || ch
			return s
		})
		if any && !fails(cand) {
			return class
		}
	}
	return "mixed"
}
