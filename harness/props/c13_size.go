package props

// C13, the SIZE dimension: documents built around buffer boundaries.
//
// Every other document of the workload is short (the near-miss catalogue works
// on a ~100-byte token list; the wide documents are long but always valid), so
// the defect of an invalid document always sat inside whatever a decoder reads
// first.  A quarter of the document batches therefore get one more document
// from c13x.GenSized: a generated document -- valid, or with one NAMED mutation
// of the same catalogue applied -- in which one place (a whitespace gap before,
// inside or after the value, a string, a member name, a number literal, an
// array, an object) was made long by exactly the amount that puts the defect /
// the end of the long place / the end of the value / the end of the document
// at a boundary (powers of two 64..65536 and 512*(2^k-1)) +-3 bytes, now and
// then +-4..40.  It goes through the same oracle as every document (all four
// flag combinations, load-string / load-bytes, every way of selecting the mode)
// and, in one PRNG-chosen mode, through the Go entry points libjson.LoadWith /
// libjson.Load.  The verdict is the independent recognizer's, as everywhere.

import (
	"fmt"

	"github.com/luthersystems/elps/lisp/lisplib/libjson"

	"verifharness/c13x"
	"verifharness/fw"
)

// c13SizedEvery: one document batch in this many gets a sized document.
const c13SizedEvery = 4

func c13Around(b []byte, off int) string {
	lo, hi := off-24, off+24
	if lo < 0 {
		lo = 0
	}
	if hi > len(b) {
		hi = len(b)
	}
	if off < 0 || off > len(b) {
		return ""
	}
	return fmt.Sprintf("%q|%q", b[lo:off], b[off:hi])
}

func c13RunSizedDoc(w *fw.W, c *c13RT, r *fw.RNG) {
	mutate := !r.Chance(1, 4)
	sd, ok := c13x.GenSized(r, mutate)
	if !ok {
		w.Count("c13_sized_not_built", 1)
		return
	}
	anchorOff := sd.Boundary + sd.Delta
	dc := c13DocCase{doc: sd.Doc, origin: "generated", name: "generated-sized", sized: sd.Place(), filler: sd.Filler}
	dc.note = fmt.Sprintf("sized document: %d bytes, base %s, %d bytes of %s inserted at offset %d so that the %s is at offset %d = boundary %d%+d; bytes around that offset: %s\n",
		len(sd.Doc), sd.Base, sd.FillLen, sd.Filler, sd.FillOff, sd.Anchor, anchorOff, sd.Boundary, sd.Delta, c13Around(sd.Doc, anchorOff))
	if mutate {
		dc.origin, dc.name = "nearmiss", "nearmiss:"+sd.Mutation
		dc.note += fmt.Sprintf("mutation %s, first changed byte at offset %d (%s): %s\n", sd.Mutation, sd.DefectOff, sd.Place(), c13Around(sd.Doc, sd.DefectOff))
	}
	doc := c13CheckDoc(w, c, r, dc)

	// the Go entry points, in one mode
	m := fw.Pick(r, c13Modes)
	buf := append([]byte(nil), sd.Doc...)
	tf, ef := c.r.Marks()
	form := "go/LoadWith"
	opts := libjson.LoadOpts{StringNumbers: m.sn, ExactIntegers: m.ei}
	var out c13Outcome
	switch k := r.Intn(3); {
	case k == 0 && !m.ei:
		form = "go/Load"
		out.v = libjson.Load(buf, m.sn)
	case k == 1:
		// a bound on the elements of one container that no document here reaches
		form = "go/LoadWith+MaxAlloc"
		opts.MaxAlloc = 1 << 20
		out.v = libjson.LoadWith(buf, opts)
	default:
		out.v = libjson.LoadWith(buf, opts)
	}
	out.t = c.r.TranscriptOf(out.v, tf, ef)
	w.Eval(1)
	w.SetAdd("c13_load_forms", form)
	var di *c13DocInfo
	if doc.Valid {
		di = c13Inspect(doc)
	}
	c13Judge(w, c, dc, doc, di, m, form, out)

	if !mutate && !(doc.Valid && doc.UTF8) {
		w.Violation("harness-self-check:sized-generator-vs-recognizer", "a sized document built without mutation is not a JSON text for the harness's recognizer (harness bug)",
			fmt.Sprintf("document %s\n%srecognizer: valid=%v utf8=%v %s at %d", c13Hex(dc.doc), dc.note, doc.Valid, doc.UTF8, doc.Err, doc.ErrOff))
		return
	}

	// evidence and coverage
	w.Count("c13_sized_docs", 1)
	w.Max("c13_max_doc_bytes", int64(len(sd.Doc)))
	w.SetAdd("c13_size_boundaries", fmt.Sprint(sd.Boundary))
	w.SetAdd("c13_size_fillers", sd.Filler)
	w.SetAdd("c13_size_anchors", sd.Anchor)
	w.SetAdd("c13_size_places", sd.Place())
	verdict := "invalid"
	if doc.Valid && doc.UTF8 {
		verdict = "valid"
	} else if doc.Valid {
		verdict = "valid-grammar-not-utf8"
	}
	w.Count("c13_sized_"+verdict, 1)
	if mutate {
		w.SetAdd("c13_sized_mutations", sd.Mutation)
		if !doc.Valid {
			w.Count("c13_sized_invalid_"+sd.Place(), 1)
			if sd.Anchor == "defect" && sd.Delta == 0 {
				w.Count("c13_sized_invalid_defect_exactly_at_boundary", 1)
			}
		}
	}
	d := sd.Delta
	if d < -3 {
		d = -4
	} else if d > 3 {
		d = 4
	}
	w.CoverKey(fmt.Sprintf("sized|%s|%s|%s|%s|%d|%d|%s", sd.Base, sd.Mutation, sd.Filler, sd.Anchor, sd.Boundary, d, verdict))
}
