package props

// C14 — schema validators accept exactly the values their declaration
// describes.  Shape 3 (history + executable reference model): schema ASTs and
// values are generated here, rendered to lisp, built and applied in a REAL
// runtime, and every (validator, value) outcome is compared with c14x, an
// independently written model of the documented meaning of the s: package.

import (
	"fmt"
	"sort"
	"strings"

	"github.com/luthersystems/elps/lisp"

	"verifharness/c14x"
	"verifharness/fw"
	"verifharness/rt"
)

func init() {
	fw.Register(&fw.Prop{
		ID: "C14", Level: "exploration",
		Rule: "one case = one generated schema program (a top validator over 0-4 constraints from every s: constructor, nested validators up to depth 2, built with s:deftype / s:make-validator / make-validator-with-typedef) in a fresh runtime, validated against 10 values aimed at its constants (numbers around every comparison constant incl. beyond 2^53, lengths around every length constant, strings sampled from/near every pattern, maps with/without every named key; for every s:in enum - whose members are numbers, strings, symbols, bytes, nil, lists, arrays, maps and tagged values - its members and their kin: values of another kind with the same spelling, number, members or emptiness) plus, for every map-bearing value, its all-string-key, all-symbol-key, JSON round-trip and rebuilt-in-lisp twins; every 5th case applies one malformation and demands rejection at construction; every 10th case appends one case around ONE LARGE declaration (families in rotation: an s:in of 5-72 allowed values [300 thorough], a record of 5-36 declared keys, 4-36 alternative types in s:of / s:has-key, lengths and arrays of 7-72, 5-18 constraints all satisfied by one witness value; sizes drawn half of the time at a power of two or round number +-1; placed directly, under s:not, behind s:has-key / s:may-have-key / s:of / s:when) with values aimed at every position of it, judged like every other case.  A distinct non-trivial case = top type x how built x set of constraint constructors used x value class (kind, emptiness, origin) x observed outcome (well-formed), or malformed piece x slot x build outcome (malformed)",
		Assumptions: []string{
			"the oracle is the documented meaning (libschema README + builtin docstrings) as encoded in harness/c14x; cases the documentation does not decide (listed in NOTES-C14.md) are not judged",
			"the elps reader, sorted-map, vector, to-bytes, new/deftype, get/aref/user-data and json:dump-string/json:load-string build the value the harness wrote; this is re-checked per value by reading the built value back through the Go API and comparing it with the model value (echo check)",
			"s:in is documented as 'checks if the input is equal to one of the allowed values'; where those words alone leave a pair open (int against float of the same value, string against symbol or bytes of the same spelling, containers, tagged values) 'equal' is taken to be the language's equality: membership must agree with (equal? input allowed) evaluated in the same runtime, both argument orders agreeing (else not judged); functions are never judged",
			"numeric comparison in the model is exact (math/big rationals); regular expressions are matched by the harness's own backtracking matcher over the generated pattern AST, not by Go's regexp",
		},
		Cases: func(tier string) int {
			if tier == "thorough" {
				return 600_000
			}
			return 20_000
		},
		Run:    c14Run,
		Driver: c14SizedDriver,
		MinDistinct: func(tier string) int {
			if tier == "thorough" {
				return 150_000
			}
			return 20_000
		},
	})
}

const c14Prelude = `(deftype c14tag (x) x) (deftype c14tagb (x) x)
(s:deftype "c14truthy" s:any (s:is-truthy)) (s:deftype "c14falsy" s:any (s:is-falsy))`

type c14Ctx struct {
	w   *fw.W
	r   *rt.R
	g   *c14x.Gen
	idx int
	log []string // program so far, for violation details
	eq  map[string]int
	// the large-declaration family (c14_sized.go): what the case built
	sized *c14x.SizedInfo
}

// eqRef is the c14x.EqualRef of this case: (equal? v a) in the runtime under
// test, asked in both argument orders; -1 when the orders disagree, when the
// evaluation fails, or when a function is involved (the model cannot rebuild
// the same function object).
func (c *c14Ctx) eqRef(v, a *c14x.Value) int {
	if v.HasFun() || a.HasFun() {
		return -1
	}
	key := v.Canon(true) + "\x00" + a.Canon(true)
	if r, ok := c.eq[key]; ok {
		return r
	}
	if c.eq == nil {
		c.eq = map[string]int{}
	}
	vs, as := v.Render(), a.Render()
	t := c.probe("(let ((c14p " + vs + ") (c14q " + as + ")) (if (equal? c14p c14q) (if (equal? c14q c14p) 1 2) (if (equal? c14q c14p) 3 0)))")
	res := -1
	switch {
	case t.IsErr:
		c.w.Count("equal?_reference_failed", 1)
	case t.Value == "1":
		res = 1
	case t.Value == "0":
		res = 0
	default:
		c.w.Count("equal?_reference_asymmetric", 1)
	}
	c.eq[key] = res
	c.w.Count("in_pairs_decided_by_equal?", 1)
	kin := c14x.KinOf(v, a)
	if kin == "" {
		kin = v.K.String() + "-vs-" + a.K.String()
	}
	c.w.CoverKey(fmt.Sprintf("in-equality|%s|equal?=%d", kin, res))
	c.w.SetAdd("in_equality_reference", fmt.Sprintf("%s equal?=%d", kin, res))
	return res
}

func (c *c14Ctx) run(src string) rt.Transcript {
	c.log = append(c.log, src)
	return c.r.Run("c14", src)
}

// quiet run: not part of the reproduced program (attribution probes)
func (c *c14Ctx) probe(src string) rt.Transcript { return c.r.Run("c14probe", src) }

func (c *c14Ctx) program() string {
	l := c.log
	if len(l) > 14 {
		l = append(append([]string{}, l[:8]...), append([]string{"; ..."}, l[len(l)-5:]...)...)
	}
	return c14Prelude + "\n" + strings.Join(l, "\n")
}

// c14Outcome classifies the result of one (s:validate ...) evaluation.
func c14Outcome(t rt.Transcript) string {
	if !t.IsErr {
		return "accept"
	}
	if t.Panic {
		return "internal-panic"
	}
	switch t.Cond {
	case "wrong-type", "failed-constraint", "bad-arguments":
		return t.Cond
	}
	return "condition-" + t.Cond
}

// c14Compare returns "" when the observed outcome is one the documentation
// permits, else the direction of the disagreement.
func c14Compare(model c14x.Out, real string) string {
	switch real {
	case "accept":
		if model&c14x.Accept != 0 {
			return ""
		}
		return "accepts-invalid"
	case "wrong-type", "failed-constraint":
		bit := c14x.WrongType
		other := "failed-constraint"
		if real == "failed-constraint" {
			bit = c14x.FailedConstraint
			other = "wrong-type"
		}
		if model&bit != 0 {
			return ""
		}
		if model&c14x.Reject != 0 {
			return "signals-" + real + "-want-" + other
		}
		return "rejects-valid"
	}
	return "signals-" + real
}

func c14Reify(v *lisp.LVal, json bool, depth int) (*c14x.Value, bool) {
	if v == nil || depth > 12 {
		return nil, false
	}
	switch v.Type {
	case lisp.LInt:
		return c14x.Int(int64(v.Int)), true
	case lisp.LFloat:
		return c14x.Float(v.Float), true
	case lisp.LString:
		return c14x.Str(v.Str), true
	case lisp.LBytes:
		return &c14x.Value{K: c14x.VBytes, B: append([]byte{}, v.Bytes()...)}, true
	case lisp.LSymbol:
		return c14x.Sym(v.Str), true
	case lisp.LSExpr:
		if len(v.Cells) == 0 {
			return c14x.Nil(), true
		}
		out := &c14x.Value{K: c14x.VList}
		for _, c := range v.Cells {
			e, ok := c14Reify(c, json, depth+1)
			if !ok {
				return nil, false
			}
			out.Elems = append(out.Elems, e)
		}
		return out, true
	case lisp.LArray:
		if len(v.Cells) < 2 || v.Cells[0].Len() != 1 {
			return nil, false
		}
		n := v.Cells[0].Cells[0].Int
		if n > len(v.Cells[1].Cells) {
			return nil, false
		}
		out := &c14x.Value{K: c14x.VArr, Elems: []*c14x.Value{}}
		for _, c := range v.Cells[1].Cells[:n] {
			e, ok := c14Reify(c, json, depth+1)
			if !ok {
				return nil, false
			}
			out.Elems = append(out.Elems, e)
		}
		return out, true
	case lisp.LSortMap:
		out := &c14x.Value{K: c14x.VMap, Entries: []c14x.Entry{}, JSON: json}
		keys := v.Map().Keys()
		if keys == nil || keys.Type == lisp.LError {
			return nil, false
		}
		for _, k := range keys.Cells {
			if k.Type != lisp.LString && k.Type != lisp.LSymbol {
				return nil, false
			}
			val, ok := v.Map().Get(lisp.String(k.Str))
			if !ok {
				return nil, false
			}
			e, ok := c14Reify(val, json, depth+1)
			if !ok {
				return nil, false
			}
			out.Entries = append(out.Entries, c14x.Entry{Key: k.Str, Sym: k.Type == lisp.LSymbol, Val: e})
		}
		return out, true
	case lisp.LFun:
		if v.IsSpecialFun() {
			return nil, false
		}
		return c14x.Fun(""), true
	case lisp.LTaggedVal:
		if len(v.Cells) != 1 {
			return nil, false
		}
		u, ok := c14Reify(v.Cells[0], json, depth+1)
		if !ok {
			return nil, false
		}
		return c14x.Tagged(strings.TrimPrefix(v.Str, "user:"), u), true
	}
	return nil, false
}

func c14HasMap(v *c14x.Value) bool {
	if v.K == c14x.VMap {
		return true
	}
	for _, e := range v.Elems {
		if c14HasMap(e) {
			return true
		}
	}
	if v.User != nil {
		return c14HasMap(v.User)
	}
	return false
}

// ---------------------------------------------------------------------------
// attribution: find the smallest piece of the schema whose real behaviour
// disagrees with its documented meaning, so that the finding key names the
// constructor and the input class rather than the whole generated schema.

type c14Culprit struct {
	op   string
	v    *c14x.Value
	dir  string
	want c14x.Out
	got  string
	cls  string // overrides the value class in the key
	src  string // minimal validator expression
	expr string // expression of the value
}

func (c *c14Ctx) mism(validator string, model c14x.Out, expr string) (string, string) {
	t := c.probe("(s:validate " + validator + " " + expr + ")")
	got := c14Outcome(t)
	return c14Compare(model, got), got
}

func c14Iso(arg string) string { return `(s:make-validator "c14iso" ` + arg + ")" }

func c14TypeSrc(t string) string { return "s:" + t }

func (c *c14Ctx) attrType(t string, v *c14x.Value, expr string) *c14Culprit {
	model := c14x.TypeOut(t, v)
	src := c14Iso(c14TypeSrc(t))
	if dir, got := c.mism(src, model, expr); dir != "" {
		return &c14Culprit{op: "type-" + t, v: v, dir: dir, want: model, got: got, src: src, expr: expr}
	}
	return nil
}

func (c *c14Ctx) attrSchema(s *c14x.Schema, v *c14x.Value, expr string) *c14Culprit {
	typ, sub, cons := s.Type, s.Sub, s.Cons
	if s.Via == c14x.ViaTypedef {
		typ = "tagged-value"
	}
	if cu := c.attrType(typ, v, expr); cu != nil {
		return cu
	}
	if c14x.TypeOut(typ, v)&c14x.Accept == 0 {
		return nil
	}
	if typ == "tagged-value" {
		v, expr = v.User, "(user-data "+expr+")"
		if sub != "" {
			if cu := c.attrType(sub, v, expr); cu != nil {
				return cu
			}
			if c14x.TypeOut(sub, v)&c14x.Accept == 0 {
				return nil
			}
		}
	}
	for _, k := range cons {
		if cu := c.attrCons(k, v, expr); cu != nil {
			return cu
		}
	}
	return nil
}

func (c *c14Ctx) attrRef(r *c14x.Ref, v *c14x.Value, expr string) *c14Culprit {
	switch r.Kind {
	case c14x.RType:
		return c.attrType(r.Type, v, expr)
	case c14x.RValidator:
		model := c14x.EvalSchema(r.V, v)
		dir, got := c.mism(r.V.Name, model, expr)
		if dir == "" {
			return nil
		}
		if cu := c.attrSchema(r.V, v, expr); cu != nil {
			return cu
		}
		return &c14Culprit{op: "validator-as-type", v: v, dir: dir, want: model, got: got, src: r.V.Def(), expr: expr}
	}
	return c.attrCons(r.C, v, expr)
}

func (c *c14Ctx) attrCons(k *c14x.Cons, v *c14x.Value, expr string) *c14Culprit {
	model := c14x.EvalCons(k, v)
	src := c14Iso("s:any " + k.Src())
	dir, got := c.mism(src, model, expr)
	if dir == "" {
		return nil
	}
	sub := func(key string) (*c14x.Value, string, bool) {
		if v.K != c14x.VMap {
			return nil, "", false
		}
		x, ok := v.Get(key)
		return x, "(get " + expr + " " + c14x.QuoteStr(key) + ")", ok
	}
	switch k.Op {
	case "not":
		if k.NotV != nil {
			if cu := c.attrSchema(k.NotV, v, expr); cu != nil {
				return cu
			}
		} else if cu := c.attrCons(k.Inner[0], v, expr); cu != nil {
			return cu
		}
	case "of":
		if v.K == c14x.VArr {
			for i, e := range v.Elems {
				for _, r := range k.Refs {
					if cu := c.attrRef(r, e, fmt.Sprintf("(aref %s %d)", expr, i)); cu != nil {
						return cu
					}
				}
			}
		}
	case "has-key", "may-have-key":
		if x, xe, ok := sub(k.Key); ok {
			for _, r := range k.Refs {
				if cu := c.attrRef(r, x, xe); cu != nil {
					return cu
				}
			}
		}
	case "no-other-keys":
		for _, i := range k.Inner {
			if cu := c.attrCons(i, v, expr); cu != nil {
				return cu
			}
		}
	case "when":
		if x, xe, ok := sub(k.Key); ok {
			if cu := c.attrRef(k.Refs[0], x, xe); cu != nil {
				return cu
			}
		}
		if x, xe, ok := sub(k.Key2); ok {
			for _, r := range k.Refs[1:] {
				if cu := c.attrRef(r, x, xe); cu != nil {
					return cu
				}
			}
		}
	}
	cu := &c14Culprit{op: k.OpKey(), v: v, dir: dir, want: model, got: got, src: src, expr: expr}
	switch k.Op {
	case "has-key", "may-have-key":
		// the class of the map says nothing; whether the key is there does
		cu.cls = "key-absent"
		if _, _, ok := sub(k.Key); ok {
			cu.cls = "key-present"
		} else if v.K != c14x.VMap {
			cu.cls = "not-a-map"
		}
	case "no-other-keys", "when":
		cu.cls = "map"
	case "of":
		cu.cls = "array"
		if v.K != c14x.VArr {
			cu.cls = "not-an-array"
		}
	case "in":
		// which allowed value is mis-compared?  Each member alone, as its own enum.
		single := false
		for _, a := range k.Vals {
			one := &c14x.Cons{Op: "in", Vals: []*c14x.Value{a}, EqRef: k.EqRef}
			osrc := c14Iso("s:any " + one.Src())
			if odir, ogot := c.mism(osrc, c14x.EvalCons(one, v), expr); odir != "" {
				cu.src, cu.dir, cu.got, cu.want = osrc, odir, ogot, c14x.EvalCons(one, v)
				cu.cls = c14x.KinOf(v, a)
				single = true
				break
			}
		}
		if !single && len(k.Vals) > 1 {
			// every allowed value on its own compares as documented; the
			// enumeration as a whole does not
			c.attrWholeEnum(k, v, expr, cu)
		}
	}
	switch k.Op {
	case "no-other-keys", "when", "has-key", "may-have-key":
		if v.K != c14x.VMap {
			cu.cls = "not-a-map"
		}
	}
	// One root cause, one key: comparisons routed through float64.
	switch k.Op {
	case "gt", "gte", "lt", "lte":
		if v.IsNum() {
			if cmp, ok := c14x.NumCmp(v, k.Num); ok && cmp != 0 && c14ToF(v) == c14ToF(k.Num) {
				cu.op = k.Op + ":operands-differ-but-collide-as-float64"
				cu.v = nil
			}
		}
	}
	return cu
}

func c14ToF(v *c14x.Value) float64 {
	if v.K == c14x.VInt {
		return float64(v.I)
	}
	return v.F
}

func (cu *c14Culprit) key() string {
	if cu.v == nil {
		return cu.op + ":" + cu.dir
	}
	if cu.cls != "" {
		return cu.op + ":" + cu.cls + ":" + cu.dir
	}
	return cu.op + ":" + cu.v.KeyClass() + ":" + cu.dir
}

// ---------------------------------------------------------------------------

func c14OpsOf(s *c14x.Schema) string {
	set := map[string]bool{}
	var walk func(k *c14x.Cons, pfx string)
	walk = func(k *c14x.Cons, pfx string) {
		set[pfx+k.OpKey()] = true
		for _, i := range k.Inner {
			walk(i, k.Op+">")
		}
		for _, r := range k.Refs {
			switch r.Kind {
			case c14x.RType:
				set[k.Op+">type"] = true
			case c14x.RValidator:
				set[k.Op+">validator"] = true
			case c14x.RCons:
				walk(r.C, k.Op+">")
			}
		}
		if k.NotV != nil {
			set["not>validator"] = true
		}
	}
	for _, k := range s.Cons {
		walk(k, "")
	}
	var l []string
	for k := range set {
		l = append(l, k)
	}
	sort.Strings(l)
	return strings.Join(l, ",")
}

var c14Vias = [...]string{"deftype", "make-validator", "make-validator-typedef"}

func c14Run(w *fw.W, idx int) {
	rng := w.RNG(idx, "main")
	c := &c14Ctx{w: w, idx: idx, g: &c14x.Gen{R: rng, Prefix: "c14s"}}
	c.g.EqRef = c.eqRef
	c.g.OnKin = func(kin string, verdict int) {
		// the class of input this extension exists for: met how often, judged how
		top := kin
		if i := strings.Index(kin, ":members:"); i >= 0 {
			top = kin[:i] + ":members"
		}
		c.w.Count(fmt.Sprintf("in_meets_kin_of_allowed_value:%s:model+equal?=%d", top, verdict), 1)
		c.w.CoverKey(fmt.Sprintf("in-kin|%s|%d", kin, verdict))
	}
	c.r = rt.New(rt.Opts{NoProbes: true})
	if t := c.r.Run("c14prelude", c14Prelude); t.IsErr {
		w.Violation("harness:prelude-failed", "prelude did not evaluate: "+t.Cond+" "+t.Msg, c14Prelude)
		return
	}
	if idx%5 == 4 {
		c.malformedCase()
		return
	}
	c.wellFormedCase()
	if idx%10 == 2 {
		// appended, with a random stream of its own: one LARGE declaration
		w.Count("c14_sized_due", 1)
		c14SizedCase(w, idx)
	}
}

// violate records a violation.  The framework keeps at most 200 violations
// per worker, so only the first two occurrences of a key per worker are filed
// (every occurrence is counted), otherwise frequent findings would crowd out
// rare ones.
func (c *c14Ctx) violate(key, summary, detail string) {
	seen, _ := c.w.State.(map[string]int)
	if seen == nil {
		seen = map[string]int{}
		c.w.State = seen
	}
	seen[key]++
	c.w.SetAdd("violation_keys", key)
	c.w.Count("violations:"+key, 1)
	if seen[key] <= 2 || c.w.Verbose {
		c.w.Violation(key, summary, detail)
	}
}

// define evaluates the defining forms; ok=false (and a violation) when a
// well-formed definition is refused.
func (c *c14Ctx) define(defs []*c14x.Schema) bool {
	for _, s := range defs {
		t := c.run(s.Def())
		if !t.IsErr {
			continue
		}
		// attribute: which piece is refused on its own?
		piece := "definition"
		var min string
		typeArg := c14TypeSrc(s.Type)
		if s.Via == c14x.ViaTypedef {
			typeArg = c14TypeSrc(s.Sub)
		}
		if pt := c.probe(c14Iso(typeArg)); pt.IsErr {
			piece, min = "type-"+strings.TrimPrefix(typeArg, "s:"), c14Iso(typeArg)
		} else if s.Type == "tagged-value" && s.Sub != "" && c.probe(c14Iso("s:tagged-value "+c14TypeSrc(s.Sub))).IsErr {
			piece, min = "tagged-value-subtype-"+s.Sub, c14Iso("s:tagged-value "+c14TypeSrc(s.Sub))
		} else {
			for _, k := range s.Cons {
				if c.probe(k.Src()).IsErr {
					piece, min = "constraint-"+k.OpKey(), k.Src()
					break
				}
			}
		}
		c.violate("wellformed-schema-rejected:"+piece+":"+c14Outcome(t),
			fmt.Sprintf("a schema built only from documented types/constraints is refused at construction (%s: %s)", t.Cond, t.Msg),
			fmt.Sprintf("form: %s\nminimal refused piece: %s\nresult: %s\nprogram:\n%s", s.Def(), min, t.Value, c.program()))
		c.w.CoverKey("wellformed-rejected|" + piece)
		return false
	}
	return true
}

type c14Val struct {
	v    *c14x.Value
	expr string // expression that builds it
	kind string // base | strkeys | symkeys | json | json-rebuilt
}

func (c *c14Ctx) wellFormedCase() {
	top := c.g.Schema(0)
	if !c.define(c.g.Defs) {
		return
	}
	c.judge(top, "")
	if c.idx%3 == 1 {
		// the validator as the base type of another one, constraints declared on top
		c.derivedCase(top)
	}
}

// judge validates values aimed at top (and their twins) and compares every
// outcome with the documented meaning.
func (c *c14Ctx) judge(top *c14x.Schema, coverPrefix string) {
	ops := c14OpsOf(top)
	cover := coverPrefix + "type=" + top.Type + "/" + top.Sub + "|via=" + c14Vias[top.Via] + "|ops=" + ops

	nvals := 10
	for i := 0; i < nvals; i++ {
		base := c.g.ForSchema(top, 0)
		vals := []c14Val{{base, base.Render(), "base"}}
		if c14HasMap(base) {
			vals = append(vals, c14Val{base.WithKeys(false), "", "strkeys"})
			if base.SymbolSafeKeys() {
				vals = append(vals, c14Val{base.WithKeys(true), "", "symkeys"})
			}
			vals = append(vals, c14Val{nil, "(json:load-string (json:dump-string " + base.Render() + "))", "json"})
		}
		outcomes := map[string]string{}
		for j := 0; j < len(vals); j++ {
			x := vals[j]
			if x.expr == "" {
				x.expr = x.v.Render()
			}
			t, raw := c.r.RunV("c14", "(set 'c14v "+x.expr+")")
			if t.IsErr {
				if x.kind == "json" {
					c.w.Count("json_twin_not_encodable", 1)
					continue
				}
				c.violate("harness:value-expression-failed", "value expression failed: "+t.Cond+" "+t.Msg, x.expr)
				continue
			}
			got, ok := c14Reify(raw, x.kind == "json", 0)
			if !ok {
				c.w.Count("value_not_reifiable", 1)
				continue
			}
			if x.v == nil { // json twin: the decoded value IS the model value; add its rebuilt-in-lisp twin
				x.v = got
				rebuilt := got.WithKeys(false)
				vals = append(vals, c14Val{rebuilt, "", "json-rebuilt"})
			} else if got.Canon(true) != x.v.Canon(true) {
				c.violate("harness:echo-mismatch", "the value built by the runtime is not the value the harness wrote",
					fmt.Sprintf("expr: %s\nmodel: %s\nbuilt: %s", x.expr, x.v.Canon(true), got.Canon(true)))
				continue
			}
			c.log = append(c.log, "(set 'c14v "+x.expr+")")
			vt := c.run("(s:validate " + top.Name + " c14v)")
			c.w.Eval(1)
			real := c14Outcome(vt)
			outcomes[x.kind] = real
			model := c14x.EvalSchema(top, x.v)
			c.w.CoverKey(cover + "|v=" + x.v.Class() + "/" + x.kind + "|out=" + real)
			c.w.SetAdd("outcomes", real)
			if c.sized != nil {
				c.sizedObserve(x.v, x.kind, model, real)
			}
			if !model.Judged() {
				c.w.Count("not_judged_by_documentation", 1)
			}
			if c.w.WantSample() && i == 3 {
				c.w.Sample(map[string]any{"program": c.program(), "documented": model.String(), "observed": real})
			}
			if real == "accept" && vt.Value != "()" {
				c.violate("accept-returns-non-nil:"+c14Vias[top.Via], "successful validation returned "+vt.Value+" instead of ()", c.program())
			}
			if dir := c14Compare(model, real); dir != "" {
				cu := c.attrSchema(top, x.v, "c14v")
				var key, min string
				if cu != nil {
					key = cu.key()
					min = fmt.Sprintf("minimal: (s:validate %s %s)\n  value there: %s\n  documented: %s   observed: %s\n", cu.src, cu.expr, c14Canon(cu.v), cu.want, cu.got)
				} else {
					key = "unattributed:type=" + top.Type + ":" + x.v.KeyClass() + ":" + dir
				}
				sum := fmt.Sprintf("whole schema on a %s value: documented meaning permits {%s}, observed %s", x.v.Class(), model, real)
				if cu != nil {
					sum = fmt.Sprintf("%s %s: documented {%s}, observed %s (%s)", cu.op, cu.dir, cu.want, cu.got, sum)
				}
				c.violate(key, sum,
					fmt.Sprintf("%svalue (%s): %s\nresult: %s %s\nprogram:\n%s", min, x.kind, x.v.Canon(true), vt.Cond, vt.Msg, c.program()))
			}
			// is-falsy is documented as the logical negation of is-truthy
			if x.kind == "base" {
				tt, ft := c14Outcome(c.probe("(s:validate c14truthy c14v)")), c14Outcome(c.probe("(s:validate c14falsy c14v)"))
				c.w.Eval(2)
				if !((tt == "accept" && ft == "failed-constraint") || (tt == "failed-constraint" && ft == "accept")) {
					c.violate("is-falsy-not-negation-of-is-truthy:"+x.v.KeyClass(), fmt.Sprintf("is-truthy -> %s, is-falsy -> %s on the same value", tt, ft), x.expr)
				}
			}
		}
		// twins must agree with each other, whatever the documentation says about the verdict
		c.twin(outcomes, "strkeys", "symkeys", "symbol-keyed-map-validates-differently-from-string-keyed", top, base)
		c.twin(outcomes, "json", "json-rebuilt", "json-decoded-map-validates-differently-from-lisp-built", top, base)
	}
}

func c14Canon(v *c14x.Value) string {
	if v == nil {
		return "(see below)"
	}
	return v.Canon(true)
}

func (c *c14Ctx) twin(outcomes map[string]string, a, b, key string, top *c14x.Schema, base *c14x.Value) {
	oa, ok1 := outcomes[a]
	ob, ok2 := outcomes[b]
	if !ok1 || !ok2 {
		return
	}
	c.w.Count("twin_pairs_compared:"+a+"/"+b, 1)
	if oa == ob {
		return
	}
	// name the first top-level constraint constructor on which the twins differ
	op := "type-" + top.Type
	ea, eb := base.WithKeys(false).Render(), base.WithKeys(true).Render()
	if a == "json" {
		ea = "(json:load-string (json:dump-string " + base.Render() + "))"
		eb = "c14twinb"
		if t, raw := c.r.RunV("c14probe", "(set 'c14twina "+ea+")"); !t.IsErr {
			if got, ok := c14Reify(raw, true, 0); ok {
				c.probe("(set 'c14twinb " + got.WithKeys(false).Render() + ")")
			}
		}
		ea = "c14twina"
	}
	if top.Type == "sorted-map" || top.Type == "any" {
		for _, k := range top.Cons {
			src := c14Iso("s:any " + k.Src())
			if c14Outcome(c.probe("(s:validate "+src+" "+ea+")")) != c14Outcome(c.probe("(s:validate "+src+" "+eb+")")) {
				op = k.OpKey()
				break
			}
		}
	}
	c.violate(key+":"+op, fmt.Sprintf("same content, %s twin -> %s, %s twin -> %s", a, oa, b, ob),
		fmt.Sprintf("base value: %s\nprogram:\n%s", base.Render(), c.program()))
}

// ---------------------------------------------------------------------------
// malformed schemas

func (c *c14Ctx) malformedCase() {
	g := c.g
	g.AvoidTypes = map[string]bool{"bytes": true, "error": true}
	m := g.Malformed()
	id := m.Piece + "@" + m.Slot
	var top, target *c14x.Schema
	if m.ConsText != "" && g.R.Bool() {
		// put the malformed validator behind a chosen parent constructor
		target = g.Schema(1)
		top = g.Wrap(target, fw.Pick(g.R, c14x.Wrappers))
	} else {
		top = g.Schema(0)
		target = g.Defs[g.R.Intn(len(g.Defs))]
	}

	if m.ValidateAs != "" {
		// a non-validator as first argument of s:validate
		t := c.run("(s:validate " + m.ValidateAs + " 5)")
		c.w.Eval(1)
		out := c14Outcome(t)
		c.w.CoverKey("malformed|" + id + "|" + out)
		switch {
		case out == "accept":
			c.violate("malformed-validation-passed:"+id, "s:validate with a non-validator succeeded", c.program())
		case out != "bad-arguments":
			c.violate("malformed-wrong-condition:"+id+":"+out, "s:validate with a non-validator signalled "+out+", not bad-arguments", c.program()+"\n"+t.Msg)
		}
		return
	}

	switch {
	case m.ConsText != "":
		pos := g.R.Intn(len(target.Cons) + 1)
		raw := &c14x.Cons{Op: "raw", Raw: m.ConsText}
		target.Cons = append(target.Cons[:pos:pos], append([]*c14x.Cons{raw}, target.Cons[pos:]...)...)
	case m.TypeText != "":
		if target.Via == c14x.ViaTypedef {
			target.Via = c14x.ViaMake
		}
		target.RawType = m.TypeText
		if strings.HasPrefix(m.TypeText, "s:tagged-value") {
			target.Cons = nil
		}
	case m.FormText != "":
		target.RawForm = fmt.Sprintf(m.FormText, target.Name)
	}

	built := true
	for _, s := range g.Defs {
		t := c.run(s.Def())
		if s != target {
			if t.IsErr {
				// a later form may legitimately fail once an earlier one misbehaved;
				// before the target it would be a generator problem
				built = false
				break
			}
			continue
		}
		out := c14Outcome(t)
		c.w.CoverKey("malformed|" + id + "|" + c14Vias[s.Via] + "|build=" + out)
		c.w.SetAdd("malformed_build_outcomes", out)
		if t.IsErr {
			built = false
			if t.Panic {
				c.violate("malformed-build-panics:"+id, "building a malformed schema panicked inside the interpreter", s.Def()+"\n"+t.Msg)
			} else if m.CondJudged && out != "bad-arguments" {
				c.violate("malformed-wrong-condition:"+id+":"+out,
					fmt.Sprintf("malformed schema (%s in %s) is refused at construction with %s, not bad-arguments", m.Piece, m.Slot, out),
					fmt.Sprintf("form: %s\nmessage: %s", s.Def(), t.Msg))
			}
			break
		}
		c.violate("malformed-accepted-at-build:"+id,
			fmt.Sprintf("malformed schema (%s in %s) is not refused when it is built", m.Piece, m.Slot),
			fmt.Sprintf("form: %s\nresult: %s\nprogram:\n%s", s.Def(), t.Value, c.program()))
	}
	if !built {
		return
	}
	// The malformed schema exists.  It must never MAKE validation pass.  A pass
	// counts as made by the malformation when the SAME schema without the
	// malformed piece, built next to it in the same runtime, does not accept
	// the same value (real against real: independent of the model and of any
	// other defect).  For malformations that are not an inserted constraint
	// there is no such twin and any pass counts.
	via := c14PathTo(top, target)
	twin := false
	if m.ConsText != "" {
		mutated := target.Cons
		var clean []*c14x.Cons
		for _, k := range mutated {
			if k.Raw == "" {
				clean = append(clean, k)
			}
		}
		target.Cons = clean
		for _, s := range g.Defs {
			s.Name += "u"
		}
		twin = true
		for _, s := range g.Defs {
			if t := c.run(s.Def()); t.IsErr {
				twin = false
				break
			}
		}
		for _, s := range g.Defs {
			s.Name = strings.TrimSuffix(s.Name, "u")
		}
		target.Cons = mutated
	}
	for i := 0; i < 10; i++ {
		v := g.ForSchema(top, 0)
		t := c.run("(s:validate " + top.Name + " " + v.Render() + ")")
		c.w.Eval(1)
		out := c14Outcome(t)
		c.w.CoverKey("malformed-built|" + id + "|via=" + via + "|out=" + out)
		if out != "accept" {
			continue
		}
		without := "no counterpart"
		if m.ConsText != "" {
			if !twin {
				continue
			}
			without = c14Outcome(c.run("(s:validate " + top.Name + "u " + v.Render() + ")"))
			c.w.Eval(1)
			if without == "accept" {
				continue
			}
		}
		c.violate("malformed-validation-passed:@"+m.Slot+":reached-via="+via,
			fmt.Sprintf("validation succeeds BECAUSE of a malformed piece (%s in %s, referenced through %s): the same schema without the piece -> %s", m.Piece, m.Slot, via, without),
			c.program())
		break
	}
}

// c14PathTo names the constructor through which top refers to target
// ("direct" when top is the malformed definition itself).  If an inverting
// constructor (s:not, s:when guard) lies anywhere on the way it is named,
// because that is what turns the malformation into a pass; otherwise the
// constructor that refers to target directly.
func c14PathTo(top, target *c14x.Schema) string {
	if top == target {
		return "direct"
	}
	seen := map[*c14x.Schema]bool{}
	var inS func(s *c14x.Schema) []string
	var inC func(k *c14x.Cons) []string
	inR := func(r *c14x.Ref, label string) []string {
		switch r.Kind {
		case c14x.RValidator:
			if r.V == target {
				return []string{label}
			}
			if p := inS(r.V); p != nil {
				return append([]string{label}, p...)
			}
		case c14x.RCons:
			if p := inC(r.C); p != nil {
				return append([]string{label}, p...)
			}
		}
		return nil
	}
	inC = func(k *c14x.Cons) []string {
		if k.Raw != "" {
			return nil
		}
		for i, r := range k.Refs {
			label := k.Op
			if k.Op == "when" {
				label = "when-condition"
				if i == 0 {
					label = "when-guard"
				}
			}
			if p := inR(r, label); p != nil {
				return p
			}
		}
		for _, i := range k.Inner {
			if p := inC(i); p != nil {
				return append([]string{k.Op}, p...)
			}
		}
		if k.NotV != nil {
			if k.NotV == target {
				return []string{"not"}
			}
			if p := inS(k.NotV); p != nil {
				return append([]string{"not"}, p...)
			}
		}
		return nil
	}
	inS = func(s *c14x.Schema) []string {
		if seen[s] {
			return nil
		}
		seen[s] = true
		for _, k := range s.Cons {
			if p := inC(k); p != nil {
				return p
			}
		}
		return nil
	}
	p := inS(top)
	if p == nil {
		return "unreferenced"
	}
	for _, inv := range []string{"not", "when-guard"} {
		for _, h := range p {
			if h == inv {
				return inv
			}
		}
	}
	return p[len(p)-1]
}
