package props

// C20 — histories through one library value.
//
// Every other load of the check goes through a library value that was built
// for one configuration and meets one static sandbox.  A history is a sequence
// of 2-4 rounds of loads through the SAME library value (and, for the
// interpreter entry points, the same runtime) between which the harness
// changes what the confinement root is:
//
//	rootdir-reassigned       the host assigns RelativeFileSystemLibrary.RootDir (a sibling
//	                         directory, a sub-directory, a parent, another directory, "",
//	                         back to the first), spelled absolutely, with a trailing
//	                         slash, relative to the working directory or through a link
//	fs-reassigned            the host assigns FSLibrary.FS (MapFS, os.DirFS, os.Root.FS of
//	                         another directory)
//	cwd-changed              RootDir (or the directory handed to os.DirFS) is relative and
//	                         the process working directory changes
//	root-symlink-repointed   RootDir (os.DirFS) names or passes through a symbolic link
//	                         (directly, through a second link, with a sub-directory after
//	                         it) whose target is replaced
//	tree-changed:*           the file tree changes: a file is replaced by a link to another
//	                         file, a directory (inside the root; for RootDir also the
//	                         root itself or an ancestor) is swapped for a link to another
//	                         directory, a link inside the root is re-pointed
//
// After every change the model is re-evaluated for the CURRENT configuration:
// the root is what the current RootDir resolves to in the current tree from
// the current working directory, and c20Oracle decides exactly as for the
// static loads which file a location may serve.  Nothing is remembered from
// the earlier rounds on the oracle's side.
//
// Locations of a round: every regular file of the sandbox spelled absolutely,
// relative to the working directory and relative to the directory of every
// loading file ("anchors": each round is certain to ask for files on both sides
// of the current root), plus a quarter of the case's chunk of the location
// grammar.  Loading contexts: top level, the layout's loader files that are
// still reached without a link (LoadSource and interpreter), and one regular
// file per real directory as the loading file of a LoadSource call.
//
// Finding keys end in "@after:<kind of the last change>" ("@history-start" for
// the first round; in a mixed history the kinds applied so far, sorted and
// joined by "+"); a file served from outside the current root has the shape
// "serves-outside-root".

import (
	"fmt"
	"io/fs"
	"os"
	"sort"
	"strings"

	"github.com/luthersystems/elps/lisp"

	"verifharness/c20x/fsmodel"
	"verifharness/c20x/sandbox"
	"verifharness/fw"
)

// the kinds of history, one per case, rotating with the chunk number
var c20HistSlots = [12][2]string{
	{"rootdir-reassigned", "relfs"},
	{"cwd-changed", "relfs"},
	{"root-symlink-repointed", "relfs"},
	{"tree-changed", "relfs"},
	{"fs-reassigned", "fs"},
	{"rootdir-reassigned", "relfs"},
	{"cwd-changed", "relfs"},
	{"root-symlink-repointed", "relfs"},
	{"tree-changed", "relfs"},
	{"root-symlink-repointed|cwd-changed", "dirfs"},
	{"tree-changed", "dirfs|osroot"},
	{"mixed", "relfs"},
}

const c20OldPrefix = "c20old-"

type c20Hist struct {
	ck   *c20Checker
	w    *fw.W
	rng  *fw.RNG
	l    *sandbox.Layout // private copy: Root, RootRel, Cwd, CwdRel follow the current configuration
	orig *sandbox.Layout
	t    *fsmodel.Tree
	lb   *c20Lib
	rel  *lisp.RelativeFileSystemLibrary
	fsl  *lisp.FSLibrary
	// fsKind: mapfs | dirfs | osroot (FS libraries)
	fsKind string
	// rootStr is the configured root as the host spells it: RootDir, or the
	// directory handed to os.DirFS / os.OpenRoot / the MapFS snapshot
	rootStr string
	link    *fsmodel.Node // the link the configured root is or passes through
	first   *fsmodel.Node // the directory the first configuration resolved to
	nowhere *fsmodel.Node // stands for "the configured root resolves to no directory"
	log     []string
	closers []func()
	step    int
}

// c20RunHistory runs the case's history.
func c20RunHistory(w *fw.W, st *c20State, sb *c20Sandbox, idx, layoutIdx, chunk int, chunkLocs []string, verbose bool) {
	slot := c20HistSlots[(chunk+layoutIdx)%len(c20HistSlots)]
	rng := w.RNG(idx, "history")
	hl := *sb.l
	h := &c20Hist{w: w, rng: rng, l: &hl, orig: sb.l, t: sb.l.Tree}
	h.nowhere = &fsmodel.Node{Kind: fsmodel.Dir, Name: "<the configured root does not resolve to a directory>", Kids: map[string]*fsmodel.Node{}}
	h.nowhere.Parent = h.nowhere
	h.ck = &c20Checker{w: w, rec: w.Rec, st: st, l: h.l, verbose: verbose}
	h.ck.histDesc = func() string {
		return "history through ONE library value (and one runtime); the model is re-evaluated after every change:\n  " + strings.Join(h.log, "\n  ") + "\n"
	}
	defer func() {
		// the working directory of the worker is restored whatever happened
		os.Chdir(sb.l.Cwd.Path())
		for _, c := range h.closers {
			c()
		}
	}()
	kinds := strings.Split(slot[0], "|")
	kind := kinds[rng.Intn(len(kinds))]
	libs := strings.Split(slot[1], "|")
	libKind := libs[rng.Intn(len(libs))]
	if libKind == "fs" {
		libKind = fw.Pick(rng, []string{"mapfs", "dirfs", "osroot"})
	}
	if !h.start(kind, libKind) {
		w.Rec.Count("history_not_started:"+kind+"/"+libKind, 1)
		return
	}
	w.Rec.Count("history_cases", 1)
	w.Rec.Count("history_cases:"+kind+"/"+libKind, 1)
	rounds := rng.Range(2, 4)
	made := map[string]bool{}
	for h.step = 0; h.step < rounds; h.step++ {
		change := "history-start"
		if h.step > 0 {
			var variant string
			change, variant = h.change(kind)
			if change == "" {
				w.Rec.Count("history_cut_short:"+kind, 1)
				return
			}
			h.ck.histSuffix = "@after:" + change
			if kind == "mixed" {
				// several kinds of change in one history: the class of the input is
				// the set of kinds applied so far
				made[strings.SplitN(change, ":", 2)[0]] = true
				var ks []string
				for k := range made {
					ks = append(ks, k)
				}
				sort.Strings(ks)
				h.ck.histSuffix = "@after:" + strings.Join(ks, "+")
			}
			w.Rec.Count("history_changes:"+change, 1)
			w.Rec.Count("history_changes:"+change+":"+variant, 1)
			h.note(change + " (" + variant + ")")
		} else {
			h.ck.histSuffix = "@history-start"
			h.note("first loads")
		}
		h.lb.spec = fmt.Sprintf("hist:%s:#%d", change, h.step)
		h.lb.label = h.lb.kind + "/" + h.lb.spec
		if verbose {
			w.Logf("history %s\n%s", h.log[len(h.log)-1], h.t.Dump())
		}
		h.round(chunkLocs)
	}
}

func (h *c20Hist) note(what string) {
	conf := fmt.Sprintf("RootDir=%q", h.rootStr)
	if h.rel == nil {
		conf = fmt.Sprintf("FS=%s(%q)", h.fsKind, h.rootStr)
	}
	s := fmt.Sprintf("#%d %s: %s, working directory %s => root %s", h.step, what, conf, h.l.Cwd.Path(), c20RootName(h.lb.rootOf(h.l)))
	if h.link != nil {
		s += fmt.Sprintf(" [link %s -> %s]", h.link.Path(), h.link.Target)
	}
	h.log = append(h.log, s)
}

// ---------------------------------------------------------------------------
// the current configuration

// refresh re-evaluates the model for the current configuration: what the
// configured root resolves to now.  It reports false when the configuration
// is one the oracle does not judge (the two readings of the root spelling
// differ, or the root lies above the sandbox).
func (h *c20Hist) refresh() bool {
	t, l, lb := h.t, h.l, h.lb
	l.CwdRel = l.Cwd.Rel(t.Base)
	lb.noRoot, lb.relRoot = false, false
	if h.rel != nil && h.rootStr == "" {
		lb.noRoot, lb.family = true, "relfs-noroot"
		l.Root, l.RootRel = t.Top, ""
		return true
	}
	lex := t.Resolve(l.Cwd, h.rootStr, true)
	phy := t.Resolve(l.Cwd, h.rootStr, false)
	if lex.Err != phy.Err || lex.Node != phy.Node {
		return false
	}
	node := phy.Node
	if phy.Err != fsmodel.OK || node.Kind != fsmodel.Dir {
		if phy.Err == fsmodel.Unknown {
			return false
		}
		node = h.nowhere
	} else if !node.UnderOrSelf(t.Base) {
		return false
	}
	l.Root, l.RootRel = node, node.Rel(t.Base)
	relative := !strings.HasPrefix(h.rootStr, "/")
	if h.rel != nil {
		lb.family = "relfs"
		if relative {
			lb.relRoot, lb.family = true, "relfs-relroot"
			if strings.HasSuffix(fsmodel.LexClean(h.rootStr), "..") {
				lb.family = "relfs-relroot-dotdot"
			}
		}
		return true
	}
	lb.fsRoot = h.rootStr
	if relative {
		lb.fsRoot = l.Cwd.Path() + "/" + h.rootStr
	}
	return true
}

// install hands the current root spelling to the library value.
func (h *c20Hist) install() bool {
	if h.rel != nil {
		h.rel.RootDir = h.rootStr
		return true
	}
	var f fs.FS
	switch h.fsKind {
	case "mapfs":
		n := h.t.Resolve(h.l.Cwd, h.rootStr, false)
		if n.Err != fsmodel.OK || n.Node.Kind != fsmodel.Dir {
			return false
		}
		f = h.t.MapFS(n.Node, true)
	case "dirfs":
		f = os.DirFS(h.rootStr)
	default:
		root, err := os.OpenRoot(h.rootStr)
		if err != nil {
			return false
		}
		h.closers = append(h.closers, func() { root.Close() })
		f = root.FS()
	}
	h.fsl.FS = f
	return true
}

func (h *c20Hist) start(kind, libKind string) bool {
	l := h.l
	switch libKind {
	case "relfs":
		h.rel = &lisp.RelativeFileSystemLibrary{}
		h.lb = &c20Lib{kind: "relfs", family: "relfs", lib: h.rel, lispToo: true}
	default:
		h.fsKind = libKind
		h.fsl = &lisp.FSLibrary{}
		h.lb = &c20Lib{kind: libKind, family: libKind, lib: h.fsl, isFS: true, inMem: libKind == "mapfs", lispToo: true}
	}
	root := h.orig.Root
	h.first = root
	abs := root.Path()
	switch kind {
	case "cwd-changed":
		// a relative spelling of the root; the working directory moves later
		var cands []string
		cands = append(cands, ".", "..", sandbox.RelPath(l.CwdRel, h.orig.RootRel), root.Name, "../"+root.Name)
		for _, k := range root.SortedKids() {
			if root.Kids[k].Kind == fsmodel.Dir {
				cands = append(cands, k)
			}
		}
		ok := false
		for try := 0; try < 12 && !ok; try++ {
			h.rootStr = fw.Pick(h.rng, cands)
			ok = h.refresh() && (l.Root != h.nowhere || try >= 8)
		}
		if !ok {
			h.rootStr = "."
			if !h.refresh() {
				return false
			}
		}
	case "root-symlink-repointed":
		if !h.makeLink(root) {
			return false
		}
	case "mixed":
		if h.rng.Chance(1, 2) {
			if !h.makeLink(root) {
				return false
			}
		} else {
			h.rootStr, _ = h.spellDir(root)
		}
	case "rootdir-reassigned":
		h.rootStr, _ = h.spellDir(root)
	default:
		h.rootStr = abs
		if h.rel != nil && h.rng.Chance(1, 3) {
			h.rootStr, _ = h.spellDir(root)
		}
	}
	if h.fsKind == "mapfs" || h.fsKind == "osroot" {
		if strings.HasPrefix(h.rootStr, "/") == false || kind != "fs-reassigned" && kind != "tree-changed" {
			return false
		}
	}
	if !h.refresh() || !h.install() {
		return false
	}
	h.first = l.Root
	return true
}

// makeLink creates the link the configured root is (or passes through) and
// spells the root through it: base/c20cur, base/c20cur2 -> c20cur, or
// base/c20cur/<sub-directory>.
func (h *c20Hist) makeLink(to *fsmodel.Node) bool {
	t := h.t
	text := to.Path()
	if h.rng.Chance(1, 2) {
		text = sandbox.RelPath("", to.Rel(t.Base))
	}
	if t.Base.Kids["c20cur"] != nil || t.Base.Kids["c20cur2"] != nil {
		return false
	}
	if err := os.Symlink(text, t.BasePath+"/c20cur"); err != nil {
		return false
	}
	h.link = t.AddLinkIn(t.Base, "c20cur", text)
	h.rootStr = t.BasePath + "/c20cur"
	switch h.rng.Intn(3) {
	case 1:
		if err := os.Symlink("c20cur", t.BasePath+"/c20cur2"); err != nil {
			return false
		}
		t.AddLinkIn(t.Base, "c20cur2", "c20cur")
		h.rootStr = t.BasePath + "/c20cur2"
	case 2:
		for _, k := range to.SortedKids() {
			if to.Kids[k].Kind == fsmodel.Dir {
				h.rootStr += "/" + k
				break
			}
		}
	}
	if h.rng.Chance(1, 4) {
		h.rootStr += "/"
	}
	return true
}

// dirCat classifies directory d relative to the current root.
func (h *c20Hist) dirCat(d *fsmodel.Node) string {
	r := h.l.Root
	switch {
	case h.lb.noRoot || r == h.nowhere:
		return "other"
	case d == r:
		return "same"
	case d.Under(r):
		return "sub"
	case r.Under(d):
		return "parent"
	case d.Parent == r.Parent:
		return "sibling"
	}
	return "other"
}

// drawDir draws a directory other than the current root: the category first
// (sibling, sub-directory, parent, any other, back to the first root), then a
// member.
func (h *c20Hist) drawDir() (*fsmodel.Node, string) {
	dirs := h.t.Dirs()
	cats := []string{"sibling", "sub", "parent", "other", "back"}
	start := h.rng.Intn(len(cats))
	for i := range cats {
		cat := cats[(start+i)%len(cats)]
		if cat == "back" {
			if h.first != nil && h.first != h.l.Root && h.first != h.nowhere && h.first != h.t.Top {
				return h.first, "back-to-first:" + h.dirCat(h.first)
			}
			continue
		}
		var cands []*fsmodel.Node
		for _, d := range dirs {
			if h.dirCat(d) == cat {
				cands = append(cands, d)
			}
		}
		if len(cands) > 0 {
			return fw.Pick(h.rng, cands), cat
		}
	}
	return nil, ""
}

// spellDir spells a real directory the way a host may configure it.
func (h *c20Hist) spellDir(d *fsmodel.Node) (string, string) {
	abs := d.Path()
	switch h.rng.Intn(6) {
	case 0:
		return abs + "/", "abs-trailing-slash"
	case 1, 2:
		return sandbox.RelPath(h.l.Cwd.Rel(h.t.Base), d.Rel(h.t.Base)), "relative"
	case 3:
		var via []*fsmodel.Node
		for _, ln := range h.t.LinkNodes() {
			if r := h.t.ResolveLink(ln); r.Err == fsmodel.OK && r.Node == d {
				via = append(via, ln)
			}
		}
		if len(via) > 0 {
			return fw.Pick(h.rng, via).Path(), "through-link"
		}
	}
	return abs, "abs"
}

// ---------------------------------------------------------------------------
// the changes

func (h *c20Hist) change(kind string) (string, string) {
	ops := []string{kind}
	if kind == "mixed" {
		ops = []string{"rootdir-reassigned", "tree-changed"}
		if h.link != nil {
			ops = append(ops, "root-symlink-repointed")
		}
		if h.rootStr != "" && !strings.HasPrefix(h.rootStr, "/") {
			ops = append(ops, "cwd-changed")
		}
	}
	switch fw.Pick(h.rng, ops) {
	case "rootdir-reassigned", "fs-reassigned":
		return h.opReassign()
	case "cwd-changed":
		return h.opCwd()
	case "root-symlink-repointed":
		return h.opRepoint()
	case "tree-changed":
		return h.opTree()
	}
	return "", ""
}

func (h *c20Hist) opReassign() (string, string) {
	label := "rootdir-reassigned"
	if h.rel == nil {
		label = "fs-reassigned"
	}
	old := h.rootStr
	for try := 0; try < 8; try++ {
		variant := ""
		if h.rel != nil && old != "" && h.rng.Chance(1, 7) {
			h.rootStr, variant = "", "cleared"
		} else {
			d, cat := h.drawDir()
			if d == nil {
				continue
			}
			var form string
			h.rootStr, form = h.spellDir(d)
			if h.fsKind == "mapfs" || h.fsKind == "osroot" {
				h.rootStr, form = d.Path(), "abs"
			}
			variant = cat + "/" + form
			if old == "" {
				variant = "set-again/" + form
			}
		}
		if h.rootStr != old && h.refresh() && h.install() {
			return label, variant
		}
		h.rootStr = old
		h.refresh()
	}
	return "", ""
}

func (h *c20Hist) opCwd() (string, string) {
	dirs := h.t.Dirs()
	old := h.l.Cwd
	for try := 0; try < 12; try++ {
		d := fw.Pick(h.rng, dirs)
		if d == old {
			continue
		}
		h.l.Cwd = d
		if h.refresh() && (h.l.Root != h.nowhere || try >= 8) {
			if err := os.Chdir(d.Path()); err == nil {
				variant := "root-now-elsewhere"
				switch {
				case h.l.Root == h.nowhere:
					variant = "root-now-unresolvable"
				case h.l.Root == h.first:
					variant = "root-now-the-first-again"
				}
				return "cwd-changed", variant
			}
		}
		h.l.Cwd = old
		h.refresh()
	}
	return "", ""
}

func (h *c20Hist) opRepoint() (string, string) {
	if h.link == nil {
		return "", ""
	}
	old := h.link.Target
	for try := 0; try < 8; try++ {
		d, cat := h.drawDir()
		if d == nil {
			continue
		}
		// (the directory drawn is what the LINK will denote; with a sub-directory
		// after the link in the root spelling the root follows it)
		text, form := d.Path(), "abs-target"
		if h.rng.Chance(1, 2) {
			text, form = sandbox.RelPath(h.link.Parent.Rel(h.t.Base), d.Rel(h.t.Base)), "relative-target"
		}
		if text == old {
			continue
		}
		h.link.Target = text
		if h.refresh() {
			p := h.link.Path()
			if os.Remove(p) == nil && os.Symlink(text, p) == nil {
				return "root-symlink-repointed", cat + "/" + form
			}
			return "", ""
		}
		h.link.Target = old
		h.refresh()
	}
	return "", ""
}

func c20HelperFile(name string) bool {
	return name == sandbox.HopName || strings.HasPrefix(name, sandbox.SeqPrefix) || strings.HasPrefix(name, sandbox.StrPrefix)
}

// opTree changes the file tree (model and disk alike).
func (h *c20Hist) opTree() (string, string) {
	t := h.t
	root := h.lb.rootOf(h.l)
	within := func(n *fsmodel.Node) bool { return root == h.nowhere || n.Under(root) }
	free := func(n *fsmodel.Node) bool {
		return !strings.HasPrefix(n.Name, c20OldPrefix) && n.Parent.Kids[c20OldPrefix+n.Name] == nil
	}
	text := func(fromDir, to *fsmodel.Node) (string, string) {
		if h.rng.Chance(1, 3) {
			return to.Path(), "abs-target"
		}
		return sandbox.RelPath(fromDir.Rel(t.Base), to.Rel(t.Base)), "relative-target"
	}
	side := func(n *fsmodel.Node) string {
		if root != h.nowhere && n.UnderOrSelf(root) {
			return "to-inside"
		}
		return "to-outside"
	}
	swap := func(n, to *fsmodel.Node) bool {
		// n gets the name c20old-<name>; a link called <name> takes its place
		dir, name := n.Parent, n.Name
		oldPath := n.Path()
		t.Rename(n, c20OldPrefix+name)
		txt, _ := text(dir, to)
		ln := t.AddLinkIn(dir, name, txt)
		if os.Rename(oldPath, n.Path()) != nil || os.Symlink(txt, ln.Path()) != nil {
			return false
		}
		return true
	}
	start := h.rng.Intn(3)
	for i := 0; i < 3; i++ {
		switch (start + i) % 3 {
		case 0: // a file is replaced by a link to another file
			var cands, targets []*fsmodel.Node
			for _, f := range t.Files() {
				if c20HelperFile(f.Name) {
					continue
				}
				if within(f) && free(f) {
					cands = append(cands, f)
				}
				if !within(f) || h.rng.Chance(1, 3) {
					targets = append(targets, f)
				}
			}
			if len(cands) == 0 || len(targets) == 0 {
				continue
			}
			f, g := fw.Pick(h.rng, cands), fw.Pick(h.rng, targets)
			if f == g {
				continue
			}
			variant := side(g)
			if !swap(f, g) || !h.refresh() {
				return "", ""
			}
			return "tree-changed:file-replaced-by-link", variant
		case 1: // a directory is swapped for a link to another directory
			var cands []*fsmodel.Node
			for _, d := range t.Dirs() {
				if d == t.Base || !free(d) {
					continue
				}
				inside := root != h.nowhere && root != t.Top && d.Under(root)
				// for RootDir also the root itself or one of its ancestors
				above := h.rel != nil && root != h.nowhere && root != t.Top && root.UnderOrSelf(d)
				if inside || (above && h.rng.Chance(1, 3)) {
					cands = append(cands, d)
				}
			}
			if len(cands) == 0 {
				continue
			}
			d := fw.Pick(h.rng, cands)
			var targets []*fsmodel.Node
			for _, e := range t.Dirs() {
				if e != t.Base && !e.Under(d) {
					targets = append(targets, e)
				}
			}
			if len(targets) == 0 {
				continue
			}
			e := fw.Pick(h.rng, targets)
			variant := side(e)
			if root.UnderOrSelf(d) {
				variant = "root-or-ancestor/" + variant
			}
			if !swap(d, e) || !h.refresh() {
				return "", ""
			}
			return "tree-changed:dir-swapped-for-link", variant
		case 2: // a link inside the root is re-pointed
			var cands []*fsmodel.Node
			for _, ln := range t.LinkNodes() {
				if within(ln) && ln != h.link {
					cands = append(cands, ln)
				}
			}
			var targets []*fsmodel.Node
			for _, f := range t.Files() {
				if !c20HelperFile(f.Name) {
					targets = append(targets, f)
				}
			}
			targets = append(targets, t.Dirs()[1:]...)
			if len(cands) == 0 || len(targets) == 0 {
				continue
			}
			ln, to := fw.Pick(h.rng, cands), fw.Pick(h.rng, targets)
			txt, _ := text(ln.Parent, to)
			if txt == ln.Target {
				continue
			}
			variant := side(to)
			ln.Target = txt
			if os.Remove(ln.Path()) != nil || os.Symlink(txt, ln.Path()) != nil || !h.refresh() {
				return "", ""
			}
			return "tree-changed:link-repointed", variant
		}
	}
	return "", ""
}

// ---------------------------------------------------------------------------
// one round of loads

// contexts lists the loading files of a round: the layout's plain loader files
// that are still reached without a link (usable through the interpreter), and
// one regular file per real directory (as the loading file of a LoadSource
// call).  For FS libraries only files below the current root can be named.
func (h *c20Hist) contexts() (ctxs []*sandbox.Loader, lispOK map[*sandbox.Loader]bool) {
	t := h.t
	lispOK = map[*sandbox.Loader]bool{}
	root := h.lb.rootOf(h.l)
	nameable := func(n *fsmodel.Node) bool { return !h.lb.isFS || n.Under(root) }
	for i := range h.orig.Loaders {
		ld := &h.orig.Loaders[i]
		if len(ld.CtxDirs) != 1 || len(ld.Chain) != 1 || ld.InnerSpelled != "" {
			continue
		}
		res := t.Resolve(t.Base, ld.Spelled, false)
		if res.Err != fsmodel.OK || len(res.Links) != 0 || res.Node.Marker != ld.Chain[0] || !nameable(res.Node) {
			continue
		}
		ctxs = append(ctxs, ld)
		lispOK[ld] = true
	}
	for _, d := range t.Dirs() {
		for _, k := range d.SortedKids() {
			f := d.Kids[k]
			if f.Kind != fsmodel.File || f.Marker == "" || c20HelperFile(k) || !nameable(f) {
				continue
			}
			cat := "outside-root"
			if d.UnderOrSelf(root) {
				cat = "inside-root"
			}
			ctxs = append(ctxs, &sandbox.Loader{Label: "file-in-dir-" + cat, Spelled: f.Rel(t.Base), CtxDirs: []string{d.Rel(t.Base)}})
			break
		}
	}
	return ctxs, lispOK
}

func (h *c20Hist) one(ld *sandbox.Loader, loc string, lispToo bool, flavour int) {
	ex := c20Oracle(h.l, h.lb, ld, loc)
	h.ck.direct(h.lb, ld, loc, ex)
	h.w.Rec.Count("history_loads", 1)
	if lispToo && !(h.lb.noRoot && ld == nil) {
		h.ck.viaLisp(h.lb, ld, loc, ex, flavour)
		h.w.Rec.Count("history_loads", 1)
	}
}

func (h *c20Hist) round(chunkLocs []string) {
	t := h.t
	ctxs, lispOK := h.contexts()
	salt := fmt.Sprintf("|hist#%d", h.step)
	for _, f := range t.Files() {
		if c20HelperFile(f.Name) {
			continue
		}
		rel := f.Rel(t.Base)
		var tops []string
		if h.lb.isFS {
			tops = append(tops, sandbox.RelPath(h.l.RootRel, rel))
		} else {
			tops = append(tops, f.Path(), sandbox.RelPath(h.l.CwdRel, rel))
			// the harness self-check: the (changed) model against the kernel
			h.ck.validateModel(tops[0])
			h.ck.validateModel(tops[1])
		}
		for _, loc := range tops {
			hv := fw.HashString(loc + salt)
			h.one(nil, loc, hv%2 == 0, int(hv/2))
		}
		for _, c := range ctxs {
			loc := sandbox.RelPath(c.CtxDirs[0], rel)
			hv := fw.HashString(loc + "|" + c.Spelled + salt)
			if hv%2 == 0 {
				h.one(c, loc, lispOK[c] && hv%4 == 0, int(hv/4))
			}
		}
	}
	for _, loc := range chunkLocs {
		hv := fw.HashString(loc + salt)
		if hv%4 != 0 {
			continue
		}
		h.one(nil, loc, hv%8 == 0, int(hv/8))
		if len(ctxs) > 0 {
			c := ctxs[int(hv/8)%len(ctxs)]
			h.one(c, loc, lispOK[c] && hv%8 == 0, int(hv/64))
		}
	}
}
