package props

// C19 family 8 — where the global shadowing definition sits.  Families 3 and 7
// write the form that rebinds a builtin name globally (defun, defmacro, set) as
// a bare top-level form.  Real files do not: the rebinding is wrapped in a
// top-level let that keeps the original in a closure, in a progn / if / cond /
// handler-bind, it is performed by an installer function that the file calls
// (directly, through funcall or map, from another function) before the call, or
// it sits in the same top-level form as the call.  Or it is written in the file
// and is NOT evaluated before the call: an installer nobody calls, one called
// later, a branch not taken.
//
// A placement is (site, wrapper): the wrapper is the form put around the
// definition, the site says where that form stands relative to the call.
// Nothing about the effect of a placement on the linter is assumed.  The shared
// judge of family 3 (c19JudgeShadow) decides by evaluating which binding the
// call reaches (probe in the shadow body, function id / package on top of the
// binder error's call stack, control run with the target replaced by a probe)
// and applies the same one-directional demands.  The only thing a site declares
// is whether the definition is evaluated before the call; the observed reach
// must agree (harness-placement:* otherwise).  A finding that the plain program
// (the bare definition immediately before the call for a definition that runs
// first, immediately after it otherwise) shows under the same key is recorded
// under the plain shape's key: the placement is then not its cause.  Only what
// the placement changes gets a key of its own, <kind>-placed:<site>/<wrapper>.

import (
	"fmt"
	"strings"
	"sync"

	"verifharness/fw"
)

const (
	c19DefHole  = "\x03" // the definition form
	c19NameHole = "\x04" // the shadowed name
)

// c19DefWrap is one form around the definition.  Every wrapper evaluates the
// definition exactly once and mentions none of the shadowing targets after it.
type c19DefWrap struct{ Name, Tmpl string }

var c19DefWraps = []c19DefWrap{
	{"bare", c19DefHole},
	{"in-progn", "(progn " + c19DefHole + ")"},
	// the usual way to wrap a builtin: keep the original in a closure
	{"in-let-keeping-the-original", "(let ((c19-orig " + c19NameHole + ")) " + c19DefHole + ")"},
	{"in-let*", "(let* ((c19-w 1) (c19-v c19-w)) " + c19DefHole + ")"},
	{"in-let-brackets", "(let ([c19-w 1]) " + c19DefHole + ")"},
	{"in-if-taken-branch", "(if true " + c19DefHole + " ())"},
	{"in-cond-clause", "(cond (() 0) (true " + c19DefHole + "))"},
	{"in-and", "(and true " + c19DefHole + ")"},
	{"in-flet-body", "(flet ((c19-h () 0)) " + c19DefHole + ")"},
	{"in-handler-bind-body", "(handler-bind ((condition (lambda (c19-c &rest c19-r) ()))) " + c19DefHole + ")"},
	{"in-handler-of-handler-bind", "(handler-bind ((condition (lambda (c19-c &rest c19-r) " + c19DefHole + "))) (error 'c19-e \"x\"))"},
	{"in-ignore-errors", "(ignore-errors " + c19DefHole + ")"},
	{"in-dotimes-body", "(dotimes (c19-i 1) " + c19DefHole + ")"},
	{"in-progn-in-let-in-if", "(progn (let ((c19-w 1)) (if true " + c19DefHole + " ())))"},
}

func c19DefWrapNamed(name string) c19DefWrap {
	for _, dw := range c19DefWraps {
		if dw.Name == name {
			return dw
		}
	}
	panic("c19: no definition wrapper " + name)
}

func (dw c19DefWrap) apply(def, n string) string {
	return strings.Replace(strings.ReplaceAll(dw.Tmpl, c19NameHole, n), c19DefHole, def, 1)
}

// c19Site says where the (wrapped) definition stands relative to the call.
type c19Site struct {
	Name string
	// Runs: the definition is evaluated before the call.  Declared only to choose
	// the plain program findings are attributed against; checked against the
	// reach the evaluation shows.
	Runs bool
	// Judged is false for a site about which the property and the documentation
	// are silent: the outcome is counted, no verdict.
	Judged bool
	Build  func(wdef string) string
}

var c19Sites = []c19Site{
	{"top-level", true, true, func(d string) string {
		return d + "\n" + c19MoveT
	}},
	{"same-top-level-form-as-the-call", true, true, func(d string) string {
		return "(progn " + d + "\n  " + c19Mark + ")\n"
	}},
	{"installer-fn-called-before", true, true, func(d string) string {
		return "(defun c19-install () " + d + ")\n(c19-install)\n" + c19MoveT
	}},
	{"installer-fn-called-before:call-in-fn", true, true, func(d string) string {
		return "(defun c19-install () " + d + ")\n" + c19MoveG + "(c19-install)\n(c19-g)\n"
	}},
	{"installer-fn-called-by-another-fn", true, true, func(d string) string {
		return "(defun c19-install () " + d + ")\n(defun c19-setup () (c19-install))\n(c19-setup)\n" + c19MoveT
	}},
	{"installer-lambda-funcalled", true, true, func(d string) string {
		return "(set 'c19-install (lambda () " + d + "))\n(funcall c19-install)\n" + c19MoveT
	}},
	{"installer-fn-mapped", true, true, func(d string) string {
		return "(defun c19-install (c19-x) " + d + ")\n(map 'list c19-install '(1))\n" + c19MoveT
	}},
	{"anonymous-installer-applied", true, true, func(d string) string {
		return "((lambda () " + d + "))\n" + c19MoveT
	}},
	// the definition is in the file and is not evaluated before the call
	{"installer-fn-never-called", false, true, func(d string) string {
		return "(defun c19-install () " + d + ")\n" + c19MoveT
	}},
	{"installer-fn-called-after", false, true, func(d string) string {
		return "(defun c19-install () " + d + ")\n" + c19MoveT + "(c19-install)\n"
	}},
	{"branch-not-taken", false, true, func(d string) string {
		return "(cond (() " + d + ") (true 0))\n" + c19MoveT
	}},
	// the definition is text handed to load-string: it runs before the call, but
	// it is data of the file, not a form of it.  docs/lint-checks.md speaks of
	// names the file defines; what a string evaluated at run time rebinds is not
	// covered by it.  Observed only.
	{"nested-load-string", true, false, func(d string) string {
		return "(load-string \"" + strings.NewReplacer("\\", "\\\\", "\"", "\\\"").Replace(d) + "\")\n" + c19MoveT
	}},
}

func c19SiteNamed(name string) c19Site {
	for _, s := range c19Sites {
		if s.Name == name {
			return s
		}
	}
	panic("c19: no site " + name)
}

// c19Placement is one enumerated (site, wrapper).
type c19Placement struct {
	Site c19Site
	Wrap c19DefWrap
}

func (p c19Placement) name() string { return p.Site.Name + "/" + p.Wrap.Name }

var (
	c19PlacementOnce sync.Once
	c19PlacementList []c19Placement
)

// c19Placements: every wrapper at top level, every other site with the bare
// definition, and the installer / same-form sites with the closure-keeping let.
// (The sampled part draws every site x stacks of wrappers.)
func c19Placements() []c19Placement {
	c19PlacementOnce.Do(func() {
		top := c19SiteNamed("top-level")
		for _, dw := range c19DefWraps {
			if dw.Name != "bare" { // top-level/bare is the plain program of families 3 and 7
				c19PlacementList = append(c19PlacementList, c19Placement{top, dw})
			}
		}
		for _, s := range c19Sites {
			if s.Name != "top-level" {
				c19PlacementList = append(c19PlacementList, c19Placement{s, c19DefWrapNamed("bare")})
			}
		}
		for _, sn := range []string{"installer-fn-called-before", "same-top-level-form-as-the-call", "installer-fn-never-called"} {
			c19PlacementList = append(c19PlacementList, c19Placement{c19SiteNamed(sn), c19DefWrapNamed("in-let-keeping-the-original")})
		}
	})
	return c19PlacementList
}

// c19PlaceTargets are the builtin names of the enumerated part: functions of
// arity 1, 2 and 0..1, a macro and a special operator.  (The sampled part draws
// from all of c19Targets.)
var c19PlaceTargets = []string{"car", "cons", "gensym", "get-default", "if"}

// c19PlaceCases: a kind, a builtin name and a shadow value (x every placement
// x k = 0..c19ShadowMaxK).  Same triple type as family 7.
var (
	c19PlaceOnce sync.Once
	c19PlaceList []c19MoveCase
)

func c19PlaceCases() []c19MoveCase {
	c19PlaceOnce.Do(func() {
		for ki, kd := range c19GlobalKinds {
			for _, t := range c19PlaceTargets {
				for _, s := range c19MoveShadowsFor(kd) {
					c19PlaceList = append(c19PlaceList, c19MoveCase{ki, t, s})
				}
			}
		}
	})
	return c19PlaceList
}

// c19AfterShape is the plain program "the call, then the bare definition" of a
// kind: the family-3 shape where there is one (so that its key is the one
// already known), an ad-hoc one for set.
func c19AfterShape(kd c19GlobalKind) c19Shape {
	name := kd.Name + "-after-call"
	for _, sh := range c19Shapes {
		if sh.Name == name {
			return sh
		}
	}
	return c19Shape{Name: name, Uses: kd.Uses, Defun: kd.Defun, Build: func(n string, s c19Shadow) string {
		return c19MoveT + kd.Def(n, s)
	}}
}

// c19PlacePlain judges the plain program of a case for one count and returns
// the name of its shape and its finding keys.
func c19PlacePlain(w *fw.W, kd c19GlobalKind, mc c19MoveCase, runs bool, args []string) (string, map[string]bool) {
	sh := c19AfterShape(kd)
	if runs {
		sh = c19PlainShape(kd.Plain)
	}
	var pf c19Findings
	c19JudgeShadow(w, &pf, sh, c19CoreFun(mc.Target), mc.Shadow, c19Spell(sh.Build(mc.Target, mc.Shadow), false), args, "", "")
	keys := map[string]bool{}
	for _, k := range pf.keys {
		keys[k] = true
	}
	return sh.Name, keys
}

// c19JudgePlaced judges one (case, site, wrapped definition, count).  label is
// the placement's name in finding keys; wdef the definition inside its
// wrapper(s).  plain returns the plain program's shape name and finding keys
// for the same count (evaluated only when needed).
func c19JudgePlaced(w *fw.W, mc c19MoveCase, site c19Site, label, wdef string, wr *c19Wrap, args []string, sampled bool, plain func() (string, map[string]bool)) c19Findings {
	kd := c19GlobalKinds[mc.Kind]
	placed := c19Shape{Name: kd.Name + "-placed:" + label, Uses: kd.Uses, Defun: kd.Defun}
	tmpl := c19ApplyWrap(site.Build(wdef), wr)
	var pf, out c19Findings
	c19LastReach = ""
	violated := c19JudgeShadow(w, &pf, placed, c19CoreFun(mc.Target), mc.Shadow, tmpl, args, wr.label(), "")
	w.Count("placement_judgements", 1)
	if reach := c19LastReach; reach != "" {
		// what the evaluator did with the definition, against what the site declares
		reachesShadow := strings.HasPrefix(reach, "shadow")
		set := "definition_placement_reach:"
		if sampled {
			set = "definition_placement_reach_sampled:"
		}
		w.SetAdd(set+kd.Name, label+" -> "+map[bool]string{true: "shadow", false: "builtin"}[reachesShadow])
		if reachesShadow != site.Runs {
			out.add("harness-placement:"+site.Name, "a site's declaration (definition evaluated before the call or not) disagrees with the binding the call reaches (harness bug unless the evaluator changed, not a linter finding)",
				fmt.Sprintf("template:\n%s\ndeclared runs-before-call=%v, reach %s", strings.Replace(tmpl, c19Mark, "<target>", 1), site.Runs, reach))
		}
	}
	if !violated {
		return out
	}
	if !site.Judged {
		w.Count("placement_findings_observed_only", int64(len(pf.keys)))
		for _, key := range pf.keys {
			if strings.HasPrefix(key, "harness-") {
				for _, d := range pf.detail[key] {
					out.add(key, pf.summary[key], d)
				}
				continue
			}
			w.SetAdd("placement_observed_only", strings.Replace(key, placed.Name, kd.Name+"-placed:"+site.Name, 1))
		}
		return out
	}
	plainName, pk := plain()
	for _, key := range pf.keys {
		nk := key
		asPlain := strings.Replace(key, placed.Name, plainName, 1)
		switch {
		case strings.HasPrefix(key, "harness-"):
		case pk[asPlain]:
			// the plain program shows the same: not the placement's doing
			nk = asPlain
			w.Count("placement_findings_also_shown_by_the_plain_program", 1)
		case asPlain == key:
			// a key that does not name the shape (e.g. missed:core:*), and the
			// plain program is silent
			nk = key + ":only-when-placed:" + label
		}
		for _, d := range pf.detail[key] {
			out.add(nk, pf.summary[key], d)
		}
	}
	return out
}

// c19RunPlaceCase: exhaustive family 8.
func c19RunPlaceCase(w *fw.W, mc c19MoveCase) {
	var fnd c19Findings
	kd := c19GlobalKinds[mc.Kind]
	type memoKey struct {
		runs bool
		k    int
	}
	type memoVal struct {
		name string
		keys map[string]bool
	}
	memo := map[memoKey]memoVal{}
	def := strings.TrimSuffix(kd.Def(mc.Target, mc.Shadow), "\n")
	for _, pl := range c19Placements() {
		wdef := pl.Wrap.apply(def, mc.Target)
		for k := 0; k <= c19ShadowMaxK; k++ {
			args := c19Ints(k, 101)
			fnd.merge(c19JudgePlaced(w, mc, pl.Site, pl.name(), wdef, nil, args, false, func() (string, map[string]bool) {
				mk := memoKey{pl.Site.Runs, k}
				if _, ok := memo[mk]; !ok {
					n, keys := c19PlacePlain(w, kd, mc, pl.Site.Runs, args)
					memo[mk] = memoVal{n, keys}
				}
				return memo[mk].name, memo[mk].keys
			}), nil)
		}
		w.SetAdd("definition_placements", pl.name())
	}
	w.SetAdd("definition_placement_kinds", kd.Name)
	w.Count("placement_cases_enumerated", 1)
	for _, k := range fnd.keys {
		w.SetAdd("placement_finding_keys", k)
	}
	fnd.flush(w)
}

// c19RandomPlacement is the sampled variant: all names and shadow values, any
// site, a stack of up to three wrappers around the definition, neutral wrappers
// around the call, inert non-integer arguments, one count.  Finding keys name
// the site and the outermost wrapper (the form that stands at the site), so
// that they coincide with the enumerated part's where the stack has one member;
// a finding that the same placement without the variation around the call does
// not show is keyed ...:only-when-wrapped.
func c19RandomPlacement(w *fw.W, r *fw.RNG) {
	ki := r.Intn(len(c19GlobalKinds))
	kd := c19GlobalKinds[ki]
	shadows := c19ShadowsFor(c19Shape{Uses: kd.Uses})
	mc := c19MoveCase{ki, fw.Pick(r, c19Targets), shadows[r.Intn(len(shadows))]}
	site := fw.Pick(r, c19Sites)
	def := strings.TrimSuffix(kd.Def(mc.Target, mc.Shadow), "\n")
	wdef := def
	outer := "bare"
	depth := r.Intn(4)
	var stack []string
	for i := 0; i < depth; i++ {
		dw := c19DefWraps[1+r.Intn(len(c19DefWraps)-1)]
		wdef = dw.apply(wdef, mc.Target)
		outer = dw.Name
		stack = append([]string{dw.Name}, stack...)
	}
	label := site.Name + "/" + outer
	wr := c19RandWrap(r, true)
	k := r.Intn(c19ShadowMaxK + 1)
	args := c19Ints(k, 101)
	if wr.Args != nil {
		args = wr.Args(k)
	}
	var plainName string
	var plainKeys map[string]bool
	plain := func() (string, map[string]bool) {
		if plainKeys == nil {
			plainName, plainKeys = c19PlacePlain(w, kd, mc, site.Runs, c19Ints(k, 101))
		}
		return plainName, plainKeys
	}
	var fnd c19Findings
	got := c19JudgePlaced(w, mc, site, label, wdef, wr, args, true, plain)
	if len(got.keys) > 0 {
		bare := c19JudgePlaced(w, mc, site, label, wdef, nil, c19Ints(k, 101), true, plain)
		fnd.merge(got, func(key string) string {
			if _, ok := bare.summary[key]; ok || wr.label() == "" {
				return ""
			}
			return ":only-when-wrapped"
		})
	}
	c19AddWrapperNames(w, wr)
	for _, key := range fnd.keys {
		w.SetAdd("placement_finding_keys", key)
	}
	w.SetAdd("definition_placements_sampled", label)
	w.SetAdd("definition_sites_sampled", site.Name)
	for _, n := range stack {
		w.SetAdd("definition_wrappers_sampled", n)
	}
	w.Max("max_definition_wrapper_depth", int64(depth))
	fnd.flush(w)
}
