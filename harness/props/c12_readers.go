package props

// C12 shared: invoking the three reader modes, tree comparison through
// exported fields, token boundaries through the public lexer.

import (
	"fmt"
	"io"
	"math"
	"strconv"
	"strings"

	"verifharness/fw"

	"github.com/luthersystems/elps/lisp"
	"github.com/luthersystems/elps/parser"
	"github.com/luthersystems/elps/parser/lexer"
	"github.com/luthersystems/elps/parser/rdparser"
	"github.com/luthersystems/elps/parser/token"
)

type c12Read struct {
	exprs    []*lisp.LVal
	err      error // first error (rejection)
	nerr     int
	panicked string
}

func (rd c12Read) outcome() string {
	switch {
	case rd.panicked != "":
		return "panic"
	case rd.err != nil:
		return "reject"
	default:
		return "accept"
	}
}

// c12ChunkReader delivers its data in small irregular pieces.
type c12ChunkReader struct {
	s    string
	step int
	n    int
}

func (c *c12ChunkReader) Read(p []byte) (int, error) {
	if len(c.s) == 0 {
		return 0, io.EOF
	}
	c.n++
	k := 1 + (c.n*7+c.step)%c.step
	if k > len(p) {
		k = len(p)
	}
	if k > len(c.s) {
		k = len(c.s)
	}
	copy(p, c.s[:k])
	c.s = c.s[k:]
	return k, nil
}

// c12Scanner builds a scanner over src.  variant 0: NewScannerString (window
// sized to the source); 1: NewScanner over a strings.Reader (128 KiB sliding
// window); 2: NewScanner over a reader that returns short reads.
func c12Scanner(src string, variant int) *token.Scanner {
	switch variant {
	case 1:
		return token.NewScanner("c12", strings.NewReader(src))
	case 2:
		return token.NewScanner("c12", &c12ChunkReader{s: src, step: 1 + len(src)%13})
	default:
		return token.NewScannerString("c12", src)
	}
}

func c12Guard(rd *c12Read) {
	if p := recover(); p != nil {
		rd.panicked = fmt.Sprint(p)
		rd.exprs = nil
	}
}

func c12ReadStrict(src string, variant int, r *fw.RNG) (rd c12Read) {
	defer c12Guard(&rd)
	if variant == 1 {
		// the packaged reader (parser.NewReader) is the same strict parser over NewScanner
		rd.exprs, rd.err = parser.NewReader().Read("c12", strings.NewReader(src))
	} else {
		rd.exprs, rd.err = rdparser.New(c12Scanner(src, variant)).ParseProgram()
	}
	if rd.err != nil {
		rd.nerr = 1
		rd.exprs = nil
	}
	return rd
}

func c12ReadFT(src string, variant int) (rd c12Read) {
	defer c12Guard(&rd)
	res := rdparser.New(c12Scanner(src, variant)).ParseProgramFaultTolerant()
	rd.nerr = len(res.Errors)
	if len(res.Errors) > 0 {
		rd.err = res.Errors[0]
		return rd
	}
	rd.exprs = res.Exprs
	return rd
}

func c12ReadFmt(src string, variant int) (rd c12Read) {
	defer c12Guard(&rd)
	if variant == 1 {
		rd.exprs, rd.err = parser.NewReader(parser.WithFormatPreserving()).Read("c12", strings.NewReader(src))
	} else {
		rd.exprs, rd.err = rdparser.NewFormatting(c12Scanner(src, variant)).ParseProgram()
	}
	if rd.err != nil {
		rd.nerr = 1
		rd.exprs = nil
	}
	return rd
}

// ---------------------------------------------------------------------------
// typed tree comparison (kind, name/str/number, quoting) through exported
// fields and IsQuoted only

func c12NodeDesc(v *lisp.LVal) string {
	if v == nil {
		return "<nil>"
	}
	q := ""
	if v.IsQuoted() {
		q = " quoted"
	}
	switch v.Type {
	case lisp.LInt:
		return fmt.Sprintf("int %d%s", v.Int, q)
	case lisp.LFloat:
		return fmt.Sprintf("float %s (0x%016x)%s", strconv.FormatFloat(v.Float, 'g', -1, 64), math.Float64bits(v.Float), q)
	case lisp.LString:
		return fmt.Sprintf("string %s%s", c12Clip(strconv.Quote(v.Str)), q)
	case lisp.LSymbol:
		return fmt.Sprintf("symbol %q%s", v.Str, q)
	default:
		return fmt.Sprintf("%s/%d cells%s", v.Type, len(v.Cells), q)
	}
}

func c12TreeEq(a, b *lisp.LVal, path string) (bool, string) {
	if a == nil || b == nil {
		if a == b {
			return true, ""
		}
		return false, fmt.Sprintf("%s: %s vs %s", path, c12NodeDesc(a), c12NodeDesc(b))
	}
	if a.Type != b.Type || a.IsQuoted() != b.IsQuoted() || a.Str != b.Str || a.Int != b.Int ||
		math.Float64bits(a.Float) != math.Float64bits(b.Float) || len(a.Cells) != len(b.Cells) {
		return false, fmt.Sprintf("%s: %s vs %s", path, c12NodeDesc(a), c12NodeDesc(b))
	}
	for i := range a.Cells {
		if ok, d := c12TreeEq(a.Cells[i], b.Cells[i], path+"."+strconv.Itoa(i)); !ok {
			return false, d
		}
	}
	return true, ""
}

func c12ForestEq(a, b []*lisp.LVal) (bool, string) {
	if len(a) != len(b) {
		return false, fmt.Sprintf("%d vs %d top-level expressions", len(a), len(b))
	}
	for i := range a {
		if ok, d := c12TreeEq(a[i], b[i], "expr"+strconv.Itoa(i)); !ok {
			return false, d
		}
	}
	return true, ""
}

func c12ForestString(xs []*lisp.LVal) string {
	var parts []string
	total := 0
	for i, x := range xs {
		if total > 8000 {
			parts = append(parts, fmt.Sprintf("…(%d more)", len(xs)-i))
			break
		}
		d := c12FromLVal(x).dump()
		total += len(d)
		parts = append(parts, d)
	}
	return c12Clip(strings.Join(parts, " | "))
}

// c12Modes runs the three reader modes over src with the same scanner variant
// and reports a disagreement ("" = they agree).
type c12ModesResult struct {
	strict, ft, fm c12Read
	disagree       string // "" | accept-mismatch:<pattern> | tree-mismatch:<pair>
	detail         string
}

func c12Modes(src string, variant int, r *fw.RNG) c12ModesResult {
	var m c12ModesResult
	m.strict = c12ReadStrict(src, variant, r)
	m.ft = c12ReadFT(src, variant)
	m.fm = c12ReadFmt(src, variant)
	so, fo, mo := m.strict.outcome(), m.ft.outcome(), m.fm.outcome()
	if so != fo || so != mo {
		m.disagree = fmt.Sprintf("accept-mismatch:strict=%s,fault-tolerant=%s,format=%s", so, fo, mo)
		m.detail = fmt.Sprintf("strict: %s %v%s\nfault-tolerant: %s (%d errors) %v%s\nformat-preserving: %s %v%s",
			so, m.strict.err, m.strict.panicked, fo, m.ft.nerr, m.ft.err, m.ft.panicked, mo, m.fm.err, m.fm.panicked)
		return m
	}
	if so != "accept" {
		return m
	}
	if ok, d := c12ForestEq(m.strict.exprs, m.ft.exprs); !ok {
		m.disagree = "tree-mismatch:strict-vs-fault-tolerant"
		m.detail = d + "\nstrict: " + c12ForestString(m.strict.exprs) + "\nfault-tolerant: " + c12ForestString(m.ft.exprs)
		return m
	}
	if ok, d := c12ForestEq(m.strict.exprs, m.fm.exprs); !ok {
		m.disagree = "tree-mismatch:strict-vs-format"
		m.detail = d + "\nstrict: " + c12ForestString(m.strict.exprs) + "\nformat-preserving: " + c12ForestString(m.fm.exprs)
		return m
	}
	return m
}

// ---------------------------------------------------------------------------
// token boundaries through the public lexer

type c12Tok struct {
	typ      token.Type
	pos, end int
}

// c12Tokenize returns the token spans of src, or ok=false if the lexer's
// positions do not describe src (then the layout check is skipped).
func c12Tokenize(src string) (toks []c12Tok, ok bool) {
	defer func() {
		if p := recover(); p != nil {
			toks, ok = nil, false
		}
	}()
	lex := lexer.New(token.NewScannerString("c12", src))
	last := 0
	for n := 0; n < len(src)+16; n++ {
		ts := lex.ReadToken()
		if len(ts) == 0 {
			return nil, false
		}
		for _, t := range ts {
			switch t.Type {
			case token.EOF:
				return toks, true
			case token.ERROR, token.INVALID:
				return nil, false
			}
			if t.Source == nil {
				return nil, false
			}
			p := t.Source.Pos
			e := p + len(t.Text)
			if p < last || e > len(src) || src[p:e] != t.Text {
				return nil, false
			}
			// only whitespace may be skipped between tokens
			for _, c := range src[last:p] {
				if !c12IsSpaceRune(c) {
					return nil, false
				}
			}
			toks = append(toks, c12Tok{t.Type, p, e})
			last = e
		}
	}
	return nil, false
}

func c12IsSpaceRune(c rune) bool {
	switch c {
	case ' ', '\t', '\n', '\r', '\v', '\f', 0x85, 0xa0, 0x1680, 0x2028, 0x2029, 0x202f, 0x205f, 0x3000:
		return true
	}
	return c >= 0x2000 && c <= 0x200a
}

func c12TokTypesSig(src string, max int) string {
	lex := lexer.New(token.NewScannerString("c12", src))
	var names []string
	func() {
		defer func() { recover() }()
		for n := 0; n < len(src)+16; n++ {
			for _, t := range lex.ReadToken() {
				if t.Type == token.EOF {
					return
				}
				names = append(names, c12TokName(t.Type))
				if t.Type == token.ERROR || t.Type == token.INVALID || len(names) >= max+1 {
					return
				}
			}
		}
	}()
	if len(names) > max {
		names = append(names[:max], "more")
	}
	return strings.Join(names, ",")
}

func c12TokName(t token.Type) string {
	switch t {
	case token.INVALID:
		return "INVALID"
	case token.ERROR:
		return "ERROR"
	case token.HASH_BANG:
		return "HASHBANG"
	case token.SYMBOL:
		return "SYMBOL"
	case token.INT:
		return "INT"
	case token.INT_OCTAL_MACRO:
		return "OCTMACRO"
	case token.INT_OCTAL:
		return "OCT"
	case token.INT_HEX_MACRO:
		return "HEXMACRO"
	case token.INT_HEX:
		return "HEX"
	case token.FLOAT:
		return "FLOAT"
	case token.STRING:
		return "STRING"
	case token.STRING_RAW:
		return "RAWSTRING"
	case token.COMMENT:
		return "COMMENT"
	case token.NEGATIVE:
		return "NEGATIVE"
	case token.QUOTE:
		return "QUOTE"
	case token.UNBOUND:
		return "UNBOUND"
	case token.FUN_REF:
		return "FUNREF"
	case token.PAREN_L:
		return "LPAREN"
	case token.PAREN_R:
		return "RPAREN"
	case token.BRACE_L:
		return "LBRACK"
	case token.BRACE_R:
		return "RBRACK"
	}
	return "T" + strconv.Itoa(int(t))
}

// c12Minimize is a bounded delta-debugging pass keeping pred true: first over
// bracket-balanced token ranges (so that whole sub-forms disappear), then over
// bytes.  Used only after a disagreement was found, to report a small repro and
// to derive a stable finding key.
func c12Minimize(src string, budget int, pred func(string) bool) string {
	cur := src
	try := func(cand string) bool {
		if budget <= 0 || len(cand) >= len(cur) {
			return false
		}
		budget--
		if pred(cand) {
			cur = cand
			return true
		}
		return false
	}
	// top-level pass: ddmin over bracket-balanced top-level units
	for chunkDiv := 2; budget > 0; {
		toks, ok := c12Tokenize(cur)
		if !ok || len(toks) == 0 {
			break
		}
		var units [][2]int // byte spans [start of unit, start of next unit)
		depth, ustart := 0, toks[0].pos
		for j, t := range toks {
			switch t.typ {
			case token.PAREN_L, token.BRACE_L:
				depth++
			case token.PAREN_R, token.BRACE_R:
				depth--
			}
			glued := c12GlueAfter(t.typ)
			if depth <= 0 && !glued {
				end := len(cur)
				if j+1 < len(toks) {
					end = toks[j+1].pos
				}
				units = append(units, [2]int{ustart, end})
				ustart = end
				depth = 0
			}
		}
		if len(units) < 2 {
			break
		}
		if chunkDiv > len(units) {
			chunkDiv = len(units)
		}
		size := (len(units) + chunkDiv - 1) / chunkDiv
		removed := false
		for a := 0; a < len(units) && budget > 0; a += size {
			b := a + size
			if b > len(units) {
				b = len(units)
			}
			if try(cur[:units[a][0]] + cur[units[b-1][1]:]) {
				removed = true
				break // spans are stale: re-tokenize
			}
		}
		if !removed {
			if size == 1 {
				break
			}
			chunkDiv *= 2
		}
	}
	// token-range pass
	for round := 0; round < 6 && budget > 0; round++ {
		toks, ok := c12Tokenize(cur)
		if !ok || len(toks) == 0 || len(toks) > 2000 {
			break
		}
		progressed := false
		for i := 0; i < len(toks) && !progressed; i++ {
			depth := 0
			for j := i; j < len(toks) && j < i+64; j++ {
				switch toks[j].typ {
				case token.PAREN_L, token.BRACE_L:
					depth++
				case token.PAREN_R, token.BRACE_R:
					depth--
				}
				if depth < 0 {
					break
				}
				if depth == 0 {
					end := len(cur)
					if j+1 < len(toks) {
						end = toks[j+1].pos
					}
					if try(cur[:toks[i].pos] + cur[end:]) {
						progressed = true
						break
					}
				}
			}
		}
		// unwrap: drop a bracket pair (and a quote glued in front of it), keep the inside
		for i := 0; i < len(toks) && !progressed; i++ {
			if toks[i].typ != token.PAREN_L && toks[i].typ != token.BRACE_L {
				continue
			}
			depth := 0
			for j := i; j < len(toks); j++ {
				switch toks[j].typ {
				case token.PAREN_L, token.BRACE_L:
					depth++
				case token.PAREN_R, token.BRACE_R:
					depth--
				}
				if depth == 0 {
					start := toks[i].pos
					for k := i - 1; k >= 0 && toks[k].typ == token.QUOTE && toks[k].end == start; k-- {
						start = toks[k].pos
					}
					// same length or shorter, but strictly fewer brackets: terminates
					cand := cur[:start] + " " + cur[toks[i].end:toks[j].pos] + " " + cur[toks[j].end:]
					if budget > 0 {
						budget--
						if pred(cand) {
							cur = cand
							progressed = true
						}
					}
					break
				}
			}
		}
		if !progressed {
			break
		}
		round-- // keep going while it shrinks; budget bounds the loop
	}
	// byte pass
	for chunk := len(cur) / 2; chunk >= 1 && budget > 0; {
		removed := false
		for i := 0; i+chunk <= len(cur) && budget > 0; {
			if try(cur[:i] + cur[i+chunk:]) {
				removed = true
			} else {
				i += chunk
			}
		}
		if !removed {
			chunk /= 2
		}
		if chunk > len(cur) {
			chunk = len(cur)
		}
	}
	return cur
}
