package props

// C12 — reader and printer are mutually inverse on data, and the reader modes
// agree.  Runtime monitoring, shape 2 (metamorphic / twin execution):
//
//   (a) values built through the public constructors -> LVal.String -> strict
//       reader -> independent structural comparison, and print∘read∘print == print
//       (negative zero aside);
//   (b) the same source text through the strict, fault-tolerant and
//       format-preserving readers: all reject or all accept with structurally
//       identical trees;
//   (c) accepted sources re-laid-out between complete tokens (whitespace and
//       comments only): the tree must not change.

import (
	"fmt"
	"runtime/debug"
	"sort"
	"strconv"
	"strings"
	"unicode/utf8"

	"verifharness/fw"

	"github.com/luthersystems/elps/lisp"
	"github.com/luthersystems/elps/parser/lexer"
	"github.com/luthersystems/elps/parser/token"
)

func init() {
	fw.Register(&fw.Prop{
		ID: "C12", Level: "exploration",
		Rule: "Case idx%3==0: a batch of 50 data values (ints incl. all int64 boundaries; finite floats from random bit patterns, decimal boundaries, subnormals, powers of ten; " +
			"strings assembled from 17 escape classes incl. invalid UTF-8, control bytes, U+2028, astral, trailing backslash, up to 60 KB; readable symbol spellings drawn from the lexer's word alphabet " +
			"and filtered by an independent spelling-only pre-test, keywords, booleans; lists nested to depth 8 with quote depth 0-4 at every list and symbol) printed with LVal.String and read back. " +
			"Case idx%3==1: 12 synthetic source texts (random bytes, token soup, bracket-balanced soup of well-formed lexemes, rendered nested programs with comments in the gaps, unreadable symbol spellings, printed values). " +
			"Case idx%3==2: windows of the repository's .lisp files, unmodified or with 1-3 byte/chunk mutations; every 150th such case a >128 KiB concatenation. " +
			"Every text goes through the three reader modes; every accepted text is re-laid-out twice between complete tokens. " +
			"A coverage key is distinct per (value class incl. escape-class set / float print form / symbol shape / list depth x width x quote depths x leaf kinds, outcome) for values, " +
			"per (source family, accept/reject + error condition, scanner variant, set of token types present) for texts, and per (source family, set of gap-change classes applied) for re-layouts.",
		Assumptions: []string{
			"the data domain is ints, finite floats, strings, readable symbols (incl. keywords, true/false) and lists; quote depth 0-4 is applied to symbols and lists only — a single quote on a self-evaluating atom ('5 prints as 5) is not judged because the statement only speaks of quoted lists",
			"quote depth of a value = number of LQuote wrappers + 1 if the innermost node reports IsQuoted(); [..] and '(..) are the same tree",
			"numbers are compared numerically across LInt/LFloat (2.0 prints as 2 and reads back as an int; -0.0 prints as -0 and reads back as int 0)",
			"a symbol spelling is 'readable' by a spelling-only pre-test derived from the lexer rules and docs/lang.md (word alphabet, leading digit = number, leading '-' sign rules, at most one ':' with both halves identifiers, ':name' keyword); the parser is not consulted",
			"a fault-tolerant parse 'accepts' iff it reports zero errors; its tree is ParseResult.Exprs",
			"within one comparison all three modes read through the same kind of token.Scanner (window sized to the source, the 128 KiB sliding window, or the sliding window over a short-read io.Reader); tokens longer than the documented 128 KiB window are only read through the source-sized scanner",
			"a reader panic is treated as its own outcome: three panics agree (C03 judges panics), a panic in only some modes is a disagreement",
			"layout changes are made only in gaps that follow a complete expression or bracket: the gap after a prefix token (' #' #^ #o #x, a glued sign, #!) is never touched; a non-empty gap is only emptied next to a bracket; whitespace is drawn from the blanks the reader skips (unicode.IsSpace); every inserted line comment is followed by LF except at end of input",
			"a comment is ;[^\\n]* and the hash-bang line \\A#![^\\n]* (tree-sitter-elps/grammar.js, editors/vscode/syntaxes): it runs to the line feed or the end of input whatever it holds, so half of the inserted comments and three quarters of the re-written hash-bang lines carry text drawn from everything but LF (bare CR at start/middle/end, control bytes incl. NUL, Unicode blanks and line separators, quotes, backslashes, brackets, prefix characters, token-like text, 1-100 KB bodies; bodies past the documented 128 KiB scanner window only with the source-sized scanner); the grammar makes the hash-bang line optional, so it may be added to or dropped from a text",
			"docs/lang.md: source text is UTF-8; a comment holding invalid UTF-8 (a tenth of the re-layouts may draw one) must still get the same verdict from all three modes and an accepted text must keep its tree, but a rejection of such a text is not judged",
			"token boundaries come from the public lexer (lexer.New(...).ReadToken); a source whose token positions do not tile the text is skipped for (c) and counted",
		},
		Cases: func(tier string) int {
			if tier == "thorough" {
				return 1_000_000
			}
			return 30_000
		},
		Init: func(w *fw.W) {
			// the sliding-window scanner allocates 128 KiB per parse; without
			// this the worker spends most of its time in GC sweeps
			debug.SetGCPercent(200)
			debug.SetMemoryLimit(320 << 20)
			w.State = c12LoadCorpus()
		},
		Run: c12Run,
		MinDistinct: func(tier string) int {
			// seeds 1..5 reach 116.6K..117.6K distinct keys in the quick tier
			if tier == "thorough" {
				return 250_000 // seed 1 reaches 576K
			}
			return 25_000
		},
	})
}

// c12Reported counts reports per worker process (see the caps below).
var c12Reported = map[string]int{}

// c12Sampled: one written-out sample per part per worker process.
var c12Sampled = map[string]bool{}

func c12WantSample(w *fw.W, part string) bool { return !c12Sampled[part] && w.WantSample() }

func c12Run(w *fw.W, idx int) {
	r := w.RNG(idx, "main")
	corpus, _ := w.State.(*c12Corpus)
	if corpus == nil {
		corpus = c12LoadCorpus()
		w.State = corpus
	}
	switch idx % 3 {
	case 0:
		c12RunValues(w, r, idx)
	case 1:
		c12RunSynthetic(w, r)
		if (idx/3)%25 == 7 {
			c12RunWindow(w, idx)
		}
	default:
		c12RunCorpus(w, r, corpus, idx)
	}
}

// ---------------------------------------------------------------------------
// (a)

func c12GenSpine(r *fw.RNG) *c12Val {
	// a list nested exactly 8 deep with quotes along the spine
	var v *c12Val = c12GenAtom(r, nil)
	for d := 0; d < 8; d++ {
		l := &c12Val{K: c12KList, Q: c12GenQuoteDepth(r)}
		pos := r.Intn(3)
		for i := 0; i < 3; i++ {
			if i == pos {
				l.Kids = append(l.Kids, v)
			} else if r.Bool() {
				l.Kids = append(l.Kids, c12GenAtom(r, nil))
			}
		}
		v = l
	}
	return v
}

// c12GenDeep wraps a small value that repeats a node (the empty list, a boolean, a
// string, a sublist) in tens to hundreds of enclosing lists: the printer switches to
// path tracking from some depth on, and an acyclic value must still print in full.
func c12GenDeep(r *fw.RNG) *c12Val {
	rep := fw.Pick(r, []*c12Val{{K: c12KList}, {K: c12KSym, S: "true", Class: "sym:bool"}, {K: c12KStr, S: "s", Class: "str"}, {K: c12KList, Kids: []*c12Val{{K: c12KInt, I: 1, Class: "int"}}}})
	inner := &c12Val{K: c12KList, Kids: []*c12Val{rep, {K: c12KInt, I: 1, Class: "int"}, rep}}
	if r.Chance(1, 3) {
		inner.Kids = append(inner.Kids, c12GenValue(r, 2, nil), rep)
	}
	depths := []int{20, 40, 100, 200, 400}
	for d := 55; d <= 75; d++ {
		depths = append(depths, d)
	}
	for d := 124; d <= 132; d++ {
		depths = append(depths, d)
	}
	var v *c12Val = inner
	for d := fw.Pick(r, depths); d > 0; d-- {
		l := &c12Val{K: c12KList, Kids: []*c12Val{v}}
		if r.Chance(1, 10) {
			l.Kids = append(l.Kids, rep)
		}
		if r.Chance(1, 10) {
			l.Kids = append([]*c12Val{rep}, l.Kids...)
		}
		v = l
	}
	return v
}

func c12RunValues(w *fw.W, r *fw.RNG, idx int) {
	var rejected []string
	for j := 0; j < 50; j++ {
		var v *c12Val
		switch {
		case j == 0 && r.Chance(1, 4):
			v = c12GenSpine(r)
		case j == 1 && r.Chance(1, 2):
			v = c12GenDeep(r)
		case r.Chance(1, 2):
			v = c12GenAtom(r, &rejected)
		default:
			v = c12GenValue(r, r.Range(1, 8), &rejected)
		}
		// constructor choices, scanner variant and shrinking draw from their own
		// stream, so the generated case list does not depend on outcomes
		aux := w.RNG(idx, "aux"+strconv.Itoa(j))
		res := c12RoundTrip(v, aux)
		w.Eval(1)
		class := v.Class
		if v.K == c12KList {
			class = c12ListClass(v)
			w.Max("max_list_depth", int64(v.depth()))
			w.Max("max_value_nodes", int64(v.size()))
		} else if v.Q > 0 {
			class += ":q" + strconv.Itoa(v.Q)
		}
		w.Max("max_printed_bytes", int64(len(res.printed)))
		outcome := "ok"
		if res.failure != "" {
			outcome = res.failure
		}
		w.CoverKey("val|" + class + "|" + outcome)
		w.Count("values_"+v.K.String(), 1)
		if v.hasNegZero() {
			w.Count("values_with_negative_zero_reprint_not_judged", 1)
		}
		if res.failure != "" {
			// Structural shrink is cheap and always done.  The expensive work
			// (byte-level minimisation of strings) and the report itself are
			// capped per worker and per (failure, kind of the shrunk value) so
			// that one frequent defect cannot stall the run; the rest is counted.
			min := c12ShrinkValue(v, res.failure, aux)
			capKey := "value:" + res.failure + ":" + min.K.String()
			c12Reported[capKey]++
			if c12Reported[capKey] > 15 {
				w.Count("violations_beyond_per_worker_cap_not_reported", 1)
				continue
			}
			if min.K == c12KStr {
				min = c12ShrinkString(min, res.failure, aux)
			}
			mres := c12RoundTrip(min, aux)
			if mres.failure != res.failure {
				min, mres = v, res
			}
			w.Violation("value-roundtrip:"+res.failure+":"+c12ValueClass(min),
				fmt.Sprintf("print/read round trip %s for %s (printed %s)", res.failure, c12Clip(min.dump()), c12Clip(mres.printed)),
				"minimal failing value:\n"+mres.detail+"\n\noriginal case value:\n"+res.detail)
		} else if c12WantSample(w, "a") && v.K == c12KList && v.size() > 4 && len(res.printed) < 300 {
			c12Sampled["a"] = true
			w.Sample(map[string]any{"part": "a", "value": v.dump(), "printed": res.printed, "observed": "read back structurally equal; reprint identical"})
		}
		// the printed form is also a source text for (b)/(c)
		if res.failure == "" && j%5 == 0 && len(res.printed) < 32<<10 {
			c12CheckText(w, r, res.printed, "printed-value")
		}
	}
	// spellings the pre-test calls unreadable: never used as values; they are
	// still source texts.  Informational: does the real reader agree with the
	// pre-test?  (Not a verdict: the property only quantifies over readable ones.)
	for i, s := range rejected {
		if i >= 10 {
			break
		}
		w.Count("spellings_pretest_unreadable", 1)
		rd := c12ReadStrict(s, 0, r)
		if rd.err == nil && rd.panicked == "" && len(rd.exprs) == 1 && rd.exprs[0].Type == lisp.LSymbol && rd.exprs[0].Str == s && !rd.exprs[0].IsQuoted() {
			w.Count("spellings_pretest_unreadable_but_reader_reads_back", 1)
			w.SetAdd("pretest_stricter_than_reader", s)
		}
		c12CheckText(w, r, s, "unreadable-spelling")
	}
}

// ---------------------------------------------------------------------------
// (b) + (c)

func c12RunSynthetic(w *fw.W, r *fw.RNG) {
	for j := 0; j < 12; j++ {
		var src, kind string
		switch r.Intn(8) {
		case 0:
			src, kind = c12GenRandomBytes(r), "random-bytes"
		case 1, 2:
			src, kind = c12GenSoup(r), "soup"
		case 3, 4, 5:
			src, kind = c12GenBalancedSoup(r), "soup-balanced"
		default:
			src, kind = c12GenRendered(r), "rendered"
		}
		c12CheckText(w, r, src, kind)
	}
}

func c12RunCorpus(w *fw.W, r *fw.RNG, c *c12Corpus, idx int) {
	if (idx/3)%150 == 149 {
		c12CheckText(w, r, c12GenBig(r, c), "corpus-big")
		return
	}
	for j := 0; j < 3; j++ {
		src, kind := c12Mutate(r, c)
		c12CheckText(w, r, src, kind)
	}
}

var c12Conditions = []string{"unmatched-syntax", "mismatched-syntax", "scan-error", "parse-error", "invalid-symbol", "integer-overflow-error",
	"invalid-octal-literal", "invalid-hex-literal", "unbound-expression-error", "invalid-float", "invalid-string"}

func c12ErrClass(err error) string {
	if err == nil {
		return ""
	}
	s := err.Error()
	for _, c := range c12Conditions {
		if strings.Contains(s, c) {
			return c
		}
	}
	return "other"
}

// c12TokMask is the set of token types the lexer produces for src (coverage only).
func c12TokMask(src string) (mask uint32) {
	defer func() { recover() }()
	lex := lexer.New(token.NewScannerString("c12", src))
	for n := 0; n < 3000; n++ {
		for _, t := range lex.ReadToken() {
			if t.Type < 32 {
				mask |= 1 << t.Type
			}
			if t.Type == token.EOF || t.Type == token.ERROR {
				return mask
			}
		}
	}
	return mask
}

func c12CheckText(w *fw.W, r *fw.RNG, src, kind string) {
	variant := 0
	if kind == "corpus-big" {
		variant = 1 + r.Intn(2)
	} else if len(src) < 100<<10 && r.Chance(1, 10) {
		variant = 1 + r.Intn(2)
	}
	m := c12Modes(src, variant, r)
	w.Eval(3)
	outcome := m.strict.outcome()
	w.Count("texts_"+kind+"_"+outcome, 1)
	if outcome == "panic" {
		w.Count("reader_panics_all_modes_agree", 1)
	}
	key := "src|" + kind + "|" + outcome + "|" + c12ErrClass(m.strict.err)
	if kind != "corpus-big" {
		key += fmt.Sprintf("|%x", c12TokMask(src))
	}
	if m.disagree != "" {
		key += "|DISAGREE"
	}
	w.CoverKey(key)
	if m.disagree != "" {
		c12ReportModes(w, r, src, kind, variant, m)
		return
	}
	if outcome != "accept" {
		return
	}
	if c12WantSample(w, "b") && kind == "rendered" && len(src) < 400 && len(m.strict.exprs) > 0 {
		c12Sampled["b"] = true
		w.Sample(map[string]any{"part": "b", "family": kind, "input": src, "observed": "accepted by strict, fault-tolerant and format-preserving readers with identical trees: " + c12ForestString(m.strict.exprs)})
	}
	c12CheckLayout(w, r, src, kind, m.strict.exprs)
}

func c12ReportModes(w *fw.W, r *fw.RNG, src, kind string, variant int, m c12ModesResult) {
	// per worker and per kind of disagreement the first 6 are minimised and
	// reported (the finding key is derived from the minimal text, so an
	// un-minimised report would carry an unstable key); the rest is counted
	c12Reported["modes:"+m.disagree]++
	if c12Reported["modes:"+m.disagree] > 6 {
		w.Count("violations_beyond_per_worker_cap_not_reported", 1)
		return
	}
	budget := 6000
	min := src
	if len(src) <= 64<<10 {
		min = c12Minimize(src, budget, func(s string) bool { return c12Modes(s, variant, r).disagree == m.disagree })
	}
	mm := c12Modes(min, variant, r)
	if mm.disagree != m.disagree {
		min, mm = src, m
	}
	w.Violation("modes-"+m.disagree+":tokens="+c12TokTypesSig(min, 8),
		fmt.Sprintf("reader modes disagree (%s) on %s (source family %s, scanner variant %d)", m.disagree, c12Clip(strconv.Quote(min)), kind, variant),
		"minimized source: "+c12Clip(strconv.Quote(min))+"\n"+mm.detail+"\n\noriginal source: "+c12Clip(strconv.Quote(src))+"\n"+m.detail)
}

func c12CheckLayout(w *fw.W, r *fw.RNG, src, kind string, base []*lisp.LVal) {
	l, why := c12PlanLayout(src)
	if why != "" {
		w.Count("layout_skipped_"+why, 1)
		return
	}
	if l.apply(nil) != src {
		w.Count("layout_skipped_plan_does_not_reproduce_source", 1)
		return
	}
	w.Max("max_tokens_in_relayout", int64(len(l.sig)))
	l.allowHuge = kind != "corpus-big" && len(src) < 64<<10
	for k := 0; k < 2; k++ {
		chs := l.relayout(r)
		if len(chs) == 0 {
			continue
		}
		src2 := l.apply(chs)
		variant := 0
		if kind == "corpus-big" || r.Chance(1, 10) {
			variant = 1 + r.Intn(2)
		}
		for _, c := range chs {
			if c.huge {
				// a comment longer than the documented 128 KiB window: source-sized scanner only
				variant = 0
				w.Count("relayouts_with_comment_beyond_scanner_window", 1)
				break
			}
		}
		m2 := c12Modes(src2, variant, r)
		w.Eval(3)
		classes := map[string]bool{}
		for _, c := range chs {
			classes[c.class] = true
			w.Count("gap_changes", 1)
		}
		var cl []string
		for c := range classes {
			cl = append(cl, c)
		}
		sort.Strings(cl)
		nb := len(chs)
		switch {
		case nb > 20:
			nb = 20
		case nb > 5:
			nb = 5
		}
		w.CoverKey(fmt.Sprintf("layout|%s|n%d|%s", kind, nb, strings.Join(cl, ",")))
		if m2.disagree != "" {
			c12ReportModes(w, r, src2, kind+"-relayout", variant, m2)
			continue
		}
		bad, detail := c12LayoutDiff(base, m2)
		if bad == "becomes-reject" && l.allowInvalid && !utf8.ValidString(src2) && utf8.ValidString(src) {
			// docs/lang.md: source text is UTF-8.  The modes agreed (above); whether a
			// comment may hold other bytes is not documented.
			w.Count("relayouts_rejected_with_invalid_utf8_in_comment_not_judged", 1)
			continue
		}
		if bad == "" {
			if c12WantSample(w, "c") && kind == "soup-balanced" && len(src) < 200 && len(chs) > 2 {
				c12Sampled["c"] = true
				w.Sample(map[string]any{"part": "c", "input": src, "relayout": src2, "observed": "same tree: " + c12ForestString(base)})
			}
			continue
		}
		// isolate a single responsible gap by bisecting the change set (strict reader only)
		culprit := c12GapChange{class: "multi", left: "?", right: "?"}
		csrc, cdetail := src2, detail
		want := bad // "": any failure counts (second pass)
		fails := func(sub []c12GapChange) (bool, string, string) {
			s1 := l.apply(sub)
			m1 := c12ModesResult{strict: c12ReadStrict(s1, variant, r)}
			b1, d1 := c12LayoutDiff(base, m1)
			if want == "" {
				return b1 != "", s1, d1
			}
			return b1 == want, s1, d1
		}
		isolate := func() bool {
			cur := chs
			for len(cur) > 1 {
				a, b := cur[:len(cur)/2], cur[len(cur)/2:]
				if ok, _, _ := fails(a); ok {
					cur = a
				} else if ok, _, _ := fails(b); ok {
					cur = b
				} else {
					return false
				}
			}
			if len(cur) == 1 {
				if ok, s1, d1 := fails(cur); ok {
					culprit, csrc, cdetail = cur[0], s1, d1
					return true
				}
			}
			return false
		}
		if !isolate() {
			// No single gap fails in the same way: several changes interact (one
			// opens a bracket, a later one closes it).  Look for a gap that fails
			// alone in any way and name the finding after that failure.
			want = ""
			if isolate() {
				m1 := c12ModesResult{strict: c12ReadStrict(csrc, variant, r)}
				bad, _ = c12LayoutDiff(base, m1)
				want = bad
			} else {
				want = bad
			}
		}
		// shrink the source around the culprit for the report
		ctx := ""
		if culprit.class != "multi" {
			lo, hi := culprit.index-3, culprit.index+2
			if lo < 0 {
				lo = 0
			}
			if hi >= len(l.sig) {
				hi = len(l.sig) - 1
			}
			if lo <= hi {
				ctx = fmt.Sprintf("\ncontext (original): %s", strconv.Quote(l.src[l.sig[lo].pos:l.sig[hi].end]))
			}
		}
		where := "not-isolated:" + kind // no single gap reproduces it (e.g. it depends on byte positions)
		if culprit.class != "multi" {
			where = l.leftClass(culprit.index) + "|" + l.glueClass(culprit)
			// Is it the text of the comment (the hash-bang line) rather than its place?
			// Then the finding is named after the class of text that has to be there.
			head := culprit.index == -1
			bclass := c12AttributeBody(culprit.text, head, func(text string) bool {
				c := culprit
				c.text = text
				ok, _, _ := fails([]c12GapChange{c})
				return ok
			})
			if bclass != "" {
				where = "comment-body:" + bclass
				if head {
					where = "hashbang-body:" + bclass
				}
			}
		}
		w.Violation(fmt.Sprintf("layout-dependent:%s:%s", bad, where),
			fmt.Sprintf("re-layout between %s and %s (%s, new gap %q) %s (source family %s)", culprit.left, culprit.right, culprit.class, culprit.text, bad, kind),
			fmt.Sprintf("gap change: between %s and %s: %q -> %q%s\n%s\n\noriginal : %s\nre-laid  : %s", culprit.left, culprit.right,
				c12GapOld(l, culprit), culprit.text, ctx, cdetail, c12Clip(strconv.Quote(src)), c12Clip(strconv.Quote(csrc))))
	}
}

func c12GapOld(l *c12Layout, c c12GapChange) string {
	if c.class == "multi" {
		return ""
	}
	if c.index == -1 {
		return l.head
	}
	if c.index >= 0 && c.index < len(l.gaps) {
		return l.gaps[c.index]
	}
	return ""
}

// c12LayoutDiff compares the re-laid-out parse with the base tree.
func c12LayoutDiff(base []*lisp.LVal, m2 c12ModesResult) (string, string) {
	if o := m2.strict.outcome(); o != "accept" {
		return "becomes-" + o, fmt.Sprintf("strict reader on the re-laid-out text: %v %s", m2.strict.err, m2.strict.panicked)
	}
	if ok, d := c12ForestEq(base, m2.strict.exprs); !ok {
		return "tree-changed", d + "\nbefore: " + c12ForestString(base) + "\nafter : " + c12ForestString(m2.strict.exprs)
	}
	return "", ""
}
