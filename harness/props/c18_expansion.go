package props

import (
	"fmt"

	"github.com/luthersystems/elps/lisp"

	"verifharness/fw"
	"verifharness/refint"
	"verifharness/sx"
)

// C18, family "where in an expansion the position-less node sits".
//
// The property: "a form written inside a macro template keeps the position it was
// written at and a form a macro built without any position takes the macro call
// site", and every active call is listed "with its call-site position".  The other
// macro programs of this check put their position-less nodes in plain call
// positions of paren-spelled templates.  But the special operators evaluate forms
// that sit INSIDE list arguments - the binding lists of let / let* / flet / labels /
// macrolet, handler-bind clauses, the dotimes control list, cond clauses - and
// docs/lang.md spells those lists with brackets as often as with parens; a bracket
// list is a quoted list, and so is every list `list` / `cons` / `append` / `concat`
// return and every lisp.QExpr a host macro builds (the kernel's own deftype builds
// its binding pair that way).  So this family varies
//
//   - the SLOT: which operator evaluates the position-less failing node, and from
//     where (c18XSlots: binding initialisers, local function and macro bodies,
//     handler expression and handler body, dotimes count and result, cond test and
//     clause body, a let nested in an initialiser; plain argument, lambda body and
//     the expansion's root as controls);
//   - the SPELLING of the lists between the expansion's root and the slot: parens,
//     brackets for the entries, for the list, for both; "list-built" where the
//     macro made them with list / cons / append / concat;
//   - the BUILDER: a defmacro / macrolet template with the node spliced in by
//     unquote (the classic slip: a second (gensym) where the bound one was meant);
//     a template whose binding entry is computed by (list ...) at expansion time;
//     an expansion made entirely by list / cons / append / concat calls; a macro
//     implemented by the HOST in Go, registered through the public AddMacros and
//     building its forms with lisp.SExpr / lisp.QExpr / lisp.Symbol (every node
//     position-less; failure kinds unbound symbol, argument type, arity, `error`);
//     each optionally reached through an outer macro (template or list-built);
//   - the CALL SITES: the same macro is used at one to four places of one program
//     (top level, argument, under let, in a function called later, in a callback,
//     inside a bracket binding list); the earlier uses succeed (flag 0: the slot
//     holds a benign node) or fail and are swallowed by ignore-errors / a handler,
//     the last one fails - so "the macro call site" is distinguishable from an
//     enclosing form and from an earlier call site of the same macro.
//
// Every expansion builds its nodes afresh; no position-less value outlives an
// expansion.  The oracle is the one of the whole check: the model (which gives
// position-less nodes of an expansion the call site, whatever list they sit in)
// names the failing form and the active calls; location and call sites must equal
// the model's.  Finding keys get the suffix ":expansion=<slot>/<spelling>/<builder>".

type c18XK int

const (
	xSym     c18XK = iota // a fixed symbol
	xQSym                 // a quoted symbol 'name (datum)
	xInt                  // an integer
	xList                 // a list without the quoted flag
	xQList                // a list carrying the quoted flag: [..], lisp.QExpr, what `list` returns
	xArg                  // the macro's argument form EXPR (parsed at the call site: keeps its position)
	xGen                  // generated symbol number i: one symbol per expansion, bound by the expansion
	xFresh                // a generated symbol nothing binds
	xSlot                 // the slot: the failing node when the macro's FLAG argument is 1, the slot's benign node when it is 0
	xShared               // a generated symbol nothing binds, made ONCE and held in a global: every expansion splices the same value in
	xLitTail              // a failing call that is the tail / a slice of a quoted literal written in the macro's body (s: car | cons | error)
)

type c18XN struct {
	k     c18XK
	s     string
	i     int64
	l     []*c18XN
	entry bool // a binding entry / clause / control list: what "template-entry-built" computes with (list ...)
}

func xs(s string) *c18XN        { return &c18XN{k: xSym, s: s} }
func xq(s string) *c18XN        { return &c18XN{k: xQSym, s: s} }
func xi(i int64) *c18XN         { return &c18XN{k: xInt, i: i} }
func xl(kids ...*c18XN) *c18XN  { return &c18XN{k: xList, l: kids} }
func xql(kids ...*c18XN) *c18XN { return &c18XN{k: xQList, l: kids} }
func xg(i int64) *c18XN         { return &c18XN{k: xGen, i: i} }

var (
	xTheArg  = &c18XN{k: xArg}
	xTheSlot = &c18XN{k: xSlot}
)

func (n *c18XN) has(k c18XK) bool {
	if n.k == k {
		return true
	}
	for _, c := range n.l {
		if c.has(k) {
			return true
		}
	}
	return false
}

// c18XSpell: which of the two list levels between an operator and the forms it
// evaluates carry the quoted flag.
type c18XSpell struct {
	name         string
	outer, entry bool
}

var c18XSpells = []c18XSpell{
	{"paren", false, false},
	{"bracket-entries", false, true}, // (let ([x 1]) ..): the spelling of docs/lang.md
	{"bracket-list", true, false},
	{"bracket", true, true},
}

func (sp c18XSpell) P(kids ...*c18XN) *c18XN {
	if sp.outer {
		return xql(kids...)
	}
	return xl(kids...)
}

func (sp c18XSpell) E(kids ...*c18XN) *c18XN {
	n := xl(kids...)
	if sp.entry {
		n = xql(kids...)
	}
	n.entry = true
	return n
}

type c18XSlot struct {
	name     string
	build    func(sp c18XSpell, built bool) *c18XN // the expansion; contains xTheSlot once
	benign   *c18XN
	built    bool // expressible when every list below the root is quoted (whole expansion made by list / cons / append)
	entryB   bool // the entry holding the slot can be computed by (list ...) inside a template
	tolerant bool // any value may come out of the slot without another error
	control  bool // no list between root and slot can be quoted: the class the check had before
	levels   string
}

// the body of a binding form: an application in templates and host macros, the
// bound symbol alone where every nested list would be data
func c18XBody(built bool, sym string) *c18XN {
	if built {
		return xs(sym)
	}
	return xl(xs("wrap"), xs(sym))
}

var c18XSlots = []c18XSlot{
	{name: "let-init", benign: xTheArg, built: true, entryB: true, tolerant: true, levels: "oe",
		build: func(sp c18XSpell, built bool) *c18XN {
			return xl(xs("let"), sp.P(sp.E(xg(0), xTheArg), sp.E(xs("y"), xTheSlot)), c18XBody(built, "y"))
		}},
	{name: "let-init-single", benign: xTheArg, built: true, entryB: true, tolerant: true, levels: "oe",
		build: func(sp c18XSpell, built bool) *c18XN {
			return xl(xs("let"), sp.P(sp.E(xs("y"), xTheSlot)), c18XBody(built, "y"))
		}},
	{name: "let*-init", benign: xg(0), built: true, entryB: true, tolerant: true, levels: "oe",
		build: func(sp c18XSpell, built bool) *c18XN {
			return xl(xs("let*"), sp.P(sp.E(xg(0), xTheArg), sp.E(xs("y"), xTheSlot)), c18XBody(built, "y"))
		}},
	{name: "flet-body", benign: xs("z"), entryB: true, tolerant: true, levels: "oe",
		build: func(sp c18XSpell, built bool) *c18XN {
			return xl(xs("flet"), sp.P(sp.E(xs("xf"), xl(xs("z")), xTheSlot)), xl(xs("xf"), xi(1)))
		}},
	{name: "labels-body", benign: xs("z"), entryB: true, tolerant: true, levels: "oe",
		build: func(sp c18XSpell, built bool) *c18XN {
			return xl(xs("labels"), sp.P(sp.E(xs("xf"), xl(xs("z")), xi(0), xTheSlot)), xl(xs("wrap"), xl(xs("xf"), xi(1))))
		}},
	{name: "macrolet-body", benign: xi(1), entryB: true, levels: "oe",
		build: func(sp c18XSpell, built bool) *c18XN {
			return xl(xs("macrolet"), sp.P(sp.E(xs("xmm"), xl(xs("z")), xTheSlot)), xl(xs("xmm"), xi(1)))
		}},
	{name: "handler-expr", benign: xs("xp-handler"), built: true, entryB: true, levels: "oe",
		build: func(sp c18XSpell, built bool) *c18XN {
			var body *c18XN = xl(xs("error"), xq("xp-trigger"), xi(1))
			if built {
				body = xs("xp-unbound-trigger")
			}
			return xl(xs("handler-bind"), sp.P(sp.E(xs("condition"), xTheSlot)), body)
		}},
	{name: "handler-body", benign: xi(0), tolerant: true, levels: "oe",
		build: func(sp c18XSpell, built bool) *c18XN {
			h := xl(xs("lambda"), xl(xs("c"), xs("&rest"), xs("r")), xTheSlot)
			return xl(xs("handler-bind"), sp.P(sp.E(xs("condition"), h)), xl(xs("error"), xq("xp-trigger"), xi(1)))
		}},
	{name: "dotimes-count", benign: xi(2), built: true, entryB: true, levels: "o",
		build: func(sp c18XSpell, built bool) *c18XN {
			cl := sp.P(xs("i"), xTheSlot)
			cl.entry = true
			return xl(xs("dotimes"), cl, xi(0))
		}},
	{name: "dotimes-result", benign: xs("i"), built: true, entryB: true, tolerant: true, levels: "o",
		build: func(sp c18XSpell, built bool) *c18XN {
			cl := sp.P(xs("i"), xi(2), xTheSlot)
			cl.entry = true
			return xl(xs("dotimes"), cl, xi(0))
		}},
	{name: "cond-test", benign: xs("true"), built: true, entryB: true, tolerant: true, levels: "e",
		build: func(sp c18XSpell, built bool) *c18XN {
			return xl(xs("cond"), sp.E(xs("false"), xi(0)), sp.E(xTheSlot, xi(1)), sp.E(xs("else"), xi(2)))
		}},
	{name: "cond-body", benign: xTheArg, built: true, entryB: true, tolerant: true, levels: "e",
		build: func(sp c18XSpell, built bool) *c18XN {
			return xl(xs("cond"), sp.E(xs("false"), xi(0)), sp.E(xs("true"), xi(1), xTheSlot))
		}},
	{name: "let-in-let-init", benign: xTheArg, tolerant: true, levels: "oe",
		build: func(sp c18XSpell, built bool) *c18XN {
			inner := xl(xs("let"), sp.P(sp.E(xs("z"), xTheSlot)), xs("z"))
			return xl(xs("let*"), sp.P(sp.E(xg(0), xi(1)), sp.E(xs("y"), inner)), xl(xs("wrap"), xs("y")))
		}},
	// controls: what the check already covered (no quoted list on the way to the slot)
	{name: "plain-argument", benign: xTheArg, tolerant: true, control: true,
		build: func(sp c18XSpell, built bool) *c18XN { return xl(xs("wrap"), xTheSlot) }},
	{name: "lambda-body", benign: xs("z"), tolerant: true, control: true,
		build: func(sp c18XSpell, built bool) *c18XN {
			return xl(xs("funcall"), xl(xs("lambda"), xl(xs("z")), xi(0), xTheSlot), xi(1))
		}},
	{name: "root", benign: xTheArg, built: true, tolerant: true, control: true,
		build: func(sp c18XSpell, built bool) *c18XN { return xTheSlot }},
}

var c18XBuilders = []string{"template", "template-entry-built", "built", "host"}

var c18XCore = map[string]bool{"let": true, "let*": true, "flet": true, "labels": true, "macrolet": true, "handler-bind": true, "dotimes": true,
	"cond": true, "funcall": true, "lambda": true, "error": true, "car": true, "cons": true}

// c18EX describes one program of the family.
type c18EX struct {
	// special names one of two sub-classes whose programs make a position-less value
	// reach an expansion by a route of its own (see c18ExpansionProgram); their
	// findings are keyed by the sub-class alone
	special                                   string
	slot, spell, builder, nest, definer, fail string
	uses                                      int
	tree, benign, failing                     *c18XN
	host                                      bool
}

func (x *c18EX) class() string {
	b := x.builder
	if x.definer == "macrolet" {
		b += "-macrolet"
	}
	if x.nest != "" {
		b += "+" + x.nest
	}
	return x.slot + "/" + x.spell + "/" + b
}

func (x *c18EX) suffix() string { return ":expansion=" + x.class() }

// key names the finding of comparison k for a program of the family.
func (x *c18EX) key(k string) string {
	if x.special != "" {
		return "macro-built-form-not-at-call-site:" + x.special
	}
	return k + x.suffix()
}

// ---- the failing node ------------------------------------------------------------

func c18XFailing(kind string) *c18XN {
	switch kind {
	case "type":
		return xl(xs("car"), xTheArg)
	case "arity":
		return xl(xs("cons"), xTheArg)
	case "user":
		return xl(xs("error"), xq("xp-boom"), xTheArg)
	}
	return &c18XN{k: xFresh}
}

// ---- renderer: quasiquote template ---------------------------------------------------

type c18XLisp struct {
	r            *fw.RNG
	x            *c18EX
	entryBuilt   bool
	flag, expr   string
	builtEntries int
}

// expr renders a node as an expression that BUILDS it at expansion time with list /
// cons / append / concat: every list it makes is position-less and quoted.
func (g *c18XLisp) built(n *c18XN) *sx.N {
	switch n.k {
	case xSym:
		// 'name evaluates to a QUOTED symbol, which is a datum wherever it is evaluated
		// again; the elements of a quoted literal are the symbols themselves (and have
		// the position they were written at, here in the macro's body)
		if n.s == "true" || n.s == "false" {
			return sx.Y(n.s)
		}
		if g.r.Chance(1, 3) {
			return sx.Call("second", sx.Q(sx.L(sx.Y("pad"), sx.Y(n.s))))
		}
		return sx.Call("car", sx.Q(sx.L(sx.Y(n.s))))
	case xInt:
		return sx.I(n.i)
	case xArg:
		return sx.Y(g.expr)
	case xGen:
		return sx.Y(fmt.Sprintf("g%d", n.i))
	case xFresh:
		return sx.Call("gensym")
	case xShared:
		if n.s == "through-function" {
			return sx.Call("xp-shared-symbol")
		}
		return sx.Y("xp-shared")
	case xLitTail:
		// the header cdr / rest / slice return is new and has no position; the elements
		// are the literal's (written in the macro's body, they keep that position)
		var call []*sx.N
		switch n.s {
		case "cons":
			call = []*sx.N{sx.Y("cons"), sx.I(1)}
		case "error":
			call = []*sx.N{sx.Y("error"), sx.QY("xp-boom"), sx.I(1)}
		default:
			call = []*sx.N{sx.Y("car"), sx.I(5)}
		}
		switch g.r.Intn(3) {
		case 0:
			return sx.Call("cdr", sx.Q(sx.L(append([]*sx.N{sx.Y("pad")}, call...)...)))
		case 1:
			return sx.Call("rest", sx.Q(sx.L(append([]*sx.N{sx.I(0)}, call...)...)))
		}
		return sx.Call("slice", sx.QY("list"), sx.Q(sx.L(append([]*sx.N{sx.Y("pad"), sx.Y("pad")}, call...)...)), sx.I(2), sx.I(int64(2+len(call))))
	case xSlot:
		return sx.Call("if", sx.Call("=", sx.Y(g.flag), sx.I(0)), g.built(g.x.benign), g.built(g.x.failing))
	case xList, xQList:
		var kids []*sx.N
		for _, c := range n.l {
			kids = append(kids, g.built(c))
		}
		if len(kids) == 0 {
			return sx.Call("list")
		}
		switch g.r.Intn(5) {
		case 0:
			return sx.Call("cons", kids[0], sx.Call("list", kids[1:]...))
		case 1:
			if len(kids) > 1 {
				return sx.Call("append", append([]*sx.N{sx.QY("list"), sx.Call("list", kids[0])}, kids[1:]...)...)
			}
		case 2:
			k := g.r.Intn(len(kids) + 1)
			return sx.Call("concat", sx.QY("list"), sx.Call("list", kids[:k:k]...), sx.Call("list", kids[k:]...))
		}
		return sx.Call("list", kids...)
	}
	panic("c18X: a quoted-symbol datum cannot be built by list calls")
}

// tmpl renders a node as part of a quasiquote template.
func (g *c18XLisp) tmpl(n *c18XN) *sx.N {
	unq := func(e *sx.N) *sx.N { return sx.Call("unquote", e) }
	switch n.k {
	case xSym:
		return sx.Y(n.s)
	case xQSym:
		return sx.QY(n.s)
	case xInt:
		return sx.I(n.i)
	case xArg, xGen, xFresh, xSlot, xShared, xLitTail:
		return unq(g.built(n))
	}
	if g.entryBuilt && n.entry && n.has(xSlot) {
		g.builtEntries++
		return unq(g.built(n))
	}
	var kids []*sx.N
	for _, c := range n.l {
		kids = append(kids, g.tmpl(c))
	}
	if n.k == xQList {
		return sx.B(kids...)
	}
	return sx.L(kids...)
}

// macroBody is the macro's body: (let ([g0 (gensym)] ..) EXPANSION-EXPRESSION).
func (g *c18XLisp) macroBody() *sx.N {
	var e *sx.N
	switch g.x.builder {
	case "built":
		e = g.built(g.x.tree)
	default:
		e = sx.Call("quasiquote", g.tmpl(g.x.tree))
	}
	if !g.x.tree.has(xGen) && !g.x.benign.has(xGen) {
		return e
	}
	if g.r.Bool() {
		return sx.Call("let", sx.L(sx.B(sx.Y("g0"), sx.Call("gensym"))), e)
	}
	return sx.Call("let", sx.L(sx.L(sx.Y("g0"), sx.Call("gensym"))), e)
}

// ---- renderer: host macro (real and model twin) --------------------------------------------

type c18XHostMacro struct {
	name string
	x    *c18EX
}

func (m c18XHostMacro) Name() string        { return m.name }
func (m c18XHostMacro) Formals() *lisp.LVal { return lisp.Formals("flag", "expr") }
func (m c18XHostMacro) Eval(env *lisp.LEnv, args *lisp.LVal) *lisp.LVal {
	flag := args.Cells[0]
	if flag.Type != lisp.LInt {
		return env.Errorf("%s: the first argument is not a literal flag", m.name)
	}
	gens := map[int64]*lisp.LVal{}
	var mk func(n *c18XN) *lisp.LVal
	mk = func(n *c18XN) *lisp.LVal {
		switch n.k {
		case xSym:
			if c18XCore[n.s] {
				return lisp.Symbol("lisp:" + n.s)
			}
			return lisp.Symbol(n.s)
		case xQSym:
			return lisp.Quote(lisp.Symbol(n.s))
		case xInt:
			return lisp.Int(int(n.i))
		case xArg:
			return args.Cells[1]
		case xGen:
			if gens[n.i] == nil {
				gens[n.i] = env.GenSym()
			}
			return gens[n.i]
		case xFresh:
			return lisp.Symbol("xp-host-unbound")
		case xSlot:
			if flag.Int == 0 {
				return mk(m.x.benign)
			}
			return mk(m.x.failing)
		}
		cells := make([]*lisp.LVal, 0, len(n.l))
		for _, c := range n.l {
			cells = append(cells, mk(c))
		}
		if n.k == xQList {
			return lisp.QExpr(cells)
		}
		return lisp.SExpr(cells)
	}
	return mk(m.x.tree)
}

func (m c18XHostMacro) model(in *refint.Interp) {
	n := 0
	in.Pkgs["user"].Syms[m.name] = &refint.V{K: refint.KFun, Fn: &refint.Fun{Name: m.name, Kind: refint.FnMacro, Pkg: "user", MinArgs: 2, MaxArgs: 2,
		Special: func(in *refint.Interp, env *refint.Env, args []*refint.V, form *refint.V) (*refint.V, *refint.Err) {
			if len(args) != 2 || args[0].K != refint.KInt {
				return nil, &refint.Err{Cond: "<model-unsure: host macro misuse>", Unsure: true}
			}
			gens := map[int64]*refint.V{}
			var mk func(x *c18XN) *refint.V
			mk = func(x *c18XN) *refint.V {
				switch x.k {
				case xSym:
					if c18XCore[x.s] {
						return refint.Sym("lisp:" + x.s)
					}
					return refint.Sym(x.s)
				case xQSym:
					return refint.QSym(x.s)
				case xInt:
					return refint.Int(x.i)
				case xArg:
					return args[1]
				case xGen:
					if gens[x.i] == nil {
						n++
						gens[x.i] = refint.Sym(fmt.Sprintf("<host gensym %d>", n))
					}
					return gens[x.i]
				case xFresh:
					return refint.Sym("xp-host-unbound")
				case xSlot:
					if args[0].I == 0 {
						return mk(m.x.benign)
					}
					return mk(m.x.failing)
				}
				v := &refint.V{K: refint.KList, Q: x.k == xQList, L: []*refint.V{}}
				for _, c := range x.l {
					v.L = append(v.L, mk(c))
				}
				return v
			}
			return mk(m.x.tree), nil
		}}}
}

func (x *c18EX) setupReal(env *lisp.LEnv) {
	if x != nil && x.host {
		env.AddMacros(true, c18XHostMacro{"xm", x})
	}
}

func (x *c18EX) setupModel(in *refint.Interp) {
	if x != nil && x.host {
		c18XHostMacro{"xm", x}.model(in)
	}
}

// ---- the program -----------------------------------------------------------------

var c18XContexts = []string{"top", "wrap", "let-wrap", "list-arg", "defun", "callback", "bracket-let-init", "progn-last", "if-branch"}

func c18ExpansionCases(tier string) int { return pick(tier, 1800, 60000) }

// c18ExpansionProgram builds program number k of the family (k counts from 0).
func c18ExpansionProgram(w *fw.W, idx, k int) ([]*sx.N, string, map[string]bool, *c18EX) {
	r := w.RNG(idx, "expansion")
	x := &c18EX{}
	// every twelfth program belongs to one of the two special sub-classes
	if k%12 == 11 {
		x.special = []string{"root-is-tail-of-quoted-literal", "value-shared-with-earlier-expansion"}[(k/12)%2]
	}
	k -= (k + 1) / 12
	// slot x spelling x builder are enumerated, the rest is sampled
	slot := c18XSlots[k%len(c18XSlots)]
	sp := c18XSpells[(k/len(c18XSlots))%len(c18XSpells)]
	x.builder = c18XBuilders[(k/(len(c18XSlots)*len(c18XSpells)))%len(c18XBuilders)]
	if x.builder == "built" && !slot.built {
		x.builder = "host"
	}
	if x.builder == "template-entry-built" && !slot.entryB {
		x.builder = "template"
	}
	switch x.special {
	case "root-is-tail-of-quoted-literal":
		// (defmacro m (..) (cdr '(pad car 5))): the expansion's root is a list header
		// minted at expansion time over the elements of a literal
		slot = c18XSlots[len(c18XSlots)-1]
		if x.builder == "host" || x.builder == "template-entry-built" {
			x.builder = "template"
		}
	case "value-shared-with-earlier-expansion":
		// the generated symbol is made once, before the macro is defined, and every
		// expansion splices that one value into the slot
		if x.builder == "host" {
			x.builder = "template"
		}
		if x.builder == "built" && !slot.built {
			x.builder = "template"
		}
	}
	x.host = x.builder == "host"
	x.slot = slot.name
	x.benign = slot.benign
	x.tree = slot.build(sp, x.builder == "built")
	// the spelling as it ends up between root and slot
	switch {
	case slot.control:
		x.spell = "no-list"
	case x.builder == "built":
		x.spell = "list-built"
	default:
		x.spell = sp.name
		switch slot.levels {
		case "o":
			x.spell = map[bool]string{false: "paren", true: "bracket"}[sp.outer]
		case "e":
			x.spell = map[bool]string{false: "paren", true: "bracket"}[sp.entry]
		}
		if x.builder == "template-entry-built" {
			x.spell = "list-built-entry"
			if slot.levels == "oe" {
				x.spell = map[bool]string{false: "paren", true: "bracket"}[sp.outer] + "+list-built-entry"
			}
		}
	}
	// the failure: a host macro can put any failing call there; a lisp macro only has
	// generated symbols to offer below the root (a list built at expansion time is
	// data wherever it is evaluated), and calls at the root
	x.fail = "unbound"
	if x.host || slot.name == "root" {
		x.fail = fw.Pick(r, []string{"unbound", "type", "arity", "user"})
		if !x.host && x.fail == "user" {
			x.fail = "type" // a quoted condition name cannot be built by list calls
		}
	}
	x.failing = c18XFailing(x.fail)
	switch x.special {
	case "root-is-tail-of-quoted-literal":
		x.fail = fw.Pick(r, []string{"type", "arity", "user"})
		x.failing = &c18XN{k: xLitTail, s: map[string]string{"type": "car", "arity": "cons", "user": "error"}[x.fail]}
	case "value-shared-with-earlier-expansion":
		x.fail = "unbound"
		x.failing = &c18XN{k: xShared, s: fw.Pick(r, []string{"global", "through-function"})}
	}
	if !x.host {
		if r.Chance(1, 4) {
			x.definer = "macrolet"
		} else {
			x.definer = "defmacro"
		}
	}
	if x.definer != "macrolet" && r.Chance(1, 4) {
		x.nest = fw.Pick(r, []string{"outer-template", "outer-built"})
	}

	var forms []*sx.N
	forms = append(forms, sx.Call("defun", sx.Y("wrap"), sx.L(sx.Y("x")), sx.Call("list", sx.Y("x"))))
	forms = append(forms, sx.Call("defun", sx.Y("xp-handler"), sx.L(sx.Y("c"), sx.Y("&rest"), sx.Y("r")), sx.I(0)))
	if x.special == "value-shared-with-earlier-expansion" {
		forms = append(forms, sx.Call("set", sx.QY("xp-shared"), sx.Call("gensym")))
		forms = append(forms, sx.Call("defun", sx.Y("xp-shared-symbol"), sx.L(), sx.Y("xp-shared")))
	}
	var macroDef *sx.N // for macrolet: the binding entry
	if !x.host {
		g := &c18XLisp{r: r, x: x, entryBuilt: x.builder == "template-entry-built", flag: "flag", expr: "expr"}
		body := g.macroBody()
		formals := sx.L(sx.Y("flag"), sx.Y("expr"))
		if x.definer == "macrolet" {
			if r.Bool() {
				macroDef = sx.B(sx.Y("xm"), formals, body)
			} else {
				macroDef = sx.L(sx.Y("xm"), formals, body)
			}
		} else {
			forms = append(forms, sx.Call("defmacro", sx.Y("xm"), formals, body))
		}
	}
	use := "xm"
	switch x.nest {
	case "outer-template":
		use = "xo"
		inner := sx.Call("xm", sx.Call("unquote", sx.Y("flag")), sx.Call("unquote", sx.Y("expr")))
		if r.Bool() {
			inner = sx.Call("wrap", inner)
		}
		forms = append(forms, sx.Call("defmacro", sx.Y("xo"), sx.L(sx.Y("flag"), sx.Y("expr")), sx.Call("quasiquote", inner)))
	case "outer-built":
		use = "xo"
		forms = append(forms, sx.Call("defmacro", sx.Y("xo"), sx.L(sx.Y("flag"), sx.Y("expr")), sx.Call("list", sx.Call("car", sx.Q(sx.L(sx.Y("xm")))), sx.Y("flag"), sx.Y("expr"))))
	}
	forms = append(forms, sx.Call("verif:probe", sx.QY("pre"), sx.I(1)))

	// the uses: earlier ones succeed or are swallowed, the last one fails
	x.uses = r.Range(1, 4)
	if x.special == "value-shared-with-earlier-expansion" {
		x.uses = r.Range(2, 4)
	}
	ctxs := append([]string(nil), c18XContexts...)
	fw.Shuffle(r, ctxs)
	var useForms []*sx.N
	nfun := 0
	for u := 0; u < x.uses; u++ {
		last := u == x.uses-1
		ctx := ctxs[u]
		if x.definer == "macrolet" && ctx == "defun" {
			ctx = "wrap"
		}
		flag := int64(1)
		if !last && r.Bool() && !(u == 0 && x.special == "value-shared-with-earlier-expansion") {
			flag = 0
		}
		arg := sx.I(int64(3 + r.Intn(6)))
		var pre []*sx.N
		var f *sx.N
		call := func(a *sx.N) *sx.N { return sx.Call(use, sx.I(flag), a) }
		switch ctx {
		case "top":
			f = call(arg)
		case "wrap":
			f = sx.Call("wrap", call(arg))
		case "let-wrap":
			f = sx.Call("let", sx.L(sx.L(sx.Y("k"), sx.I(1))), sx.Call("wrap", call(fw.Pick(r, []*sx.N{arg, sx.Y("k"), sx.Call("+", sx.Y("k"), sx.I(1))}))))
		case "list-arg":
			f = sx.Call("list", sx.I(1), call(arg), sx.I(3))
		case "defun":
			nfun++
			name := fmt.Sprintf("xrun%d", nfun)
			pre = append(pre, sx.Call("defun", sx.Y(name), sx.L(sx.Y("n")), sx.Call("list", sx.Y("n"), call(fw.Pick(r, []*sx.N{sx.Y("n"), sx.Call("+", sx.Y("n"), sx.I(1)), arg})))))
			f = sx.Call(name, sx.I(20))
			if last && x.host && x.fail == "type" && slot.tolerant && r.Bool() {
				// the same call site expanded twice: what the argument is at run time decides
				pre[0] = sx.Call("defun", sx.Y(name), sx.L(sx.Y("n")), sx.Call("list", sx.I(0), call(sx.Y("n"))))
				pre = append(pre, sx.Call(name, sx.Q(sx.L(sx.I(7), sx.I(8)))))
				f = sx.Call(name, sx.I(7))
			}
		case "callback":
			f = sx.Call("map", sx.QY("list"), sx.Call("lambda", sx.L(sx.Y("e")), call(fw.Pick(r, []*sx.N{sx.Y("e"), arg}))), sx.Q(sx.L(sx.I(1), sx.I(2))))
		case "bracket-let-init":
			f = sx.Call("let", sx.L(sx.B(sx.Y("k"), call(arg))), sx.Y("k"))
		case "progn-last":
			f = sx.Call("progn", sx.I(0), call(arg))
		default:
			f = sx.Call("if", sx.Y("true"), call(arg), sx.I(0))
		}
		if !last && flag == 1 {
			if r.Bool() {
				f = sx.Call("ignore-errors", f)
			} else {
				f = sx.Call("handler-bind", sx.L(sx.L(sx.Y("condition"), sx.Y("xp-handler"))), f)
			}
		}
		useForms = append(useForms, pre...)
		useForms = append(useForms, f)
	}
	if macroDef != nil {
		bl := sx.L(macroDef)
		if r.Bool() {
			bl = sx.B(macroDef)
		}
		forms = append(forms, sx.Call("macrolet", append([]*sx.N{bl}, useForms...)...))
	} else {
		forms = append(forms, useForms...)
	}
	return forms, "expansion-position", map[string]bool{"expansion-position": true}, x
}
