package props

// C16 — formatting preserves the program and its comments and is idempotent.
//
// Shape 2 (twin execution): the REAL formatter.Format / FormatFile is run on
// generated, repository and mutated source texts under random Configs; an
// oracle that never looks at the format-preserving parser's metadata compares
// input and output (strict reader trees, lexer-level spellings and bracket
// kinds, comment tokens with their tree-path anchors) and checks
// Format(Format(x)) == Format(x).

import (
	"fmt"
	"os"
	"path/filepath"
	"runtime/debug"
	"sort"
	"strings"

	"verifharness/fw"

	"github.com/luthersystems/elps/formatter"
	"github.com/luthersystems/elps/parser/token"
)

type c16File struct {
	Rel  string
	Data []byte
	Doc  *c16Doc
	Segs [][2]int // token index ranges [first,last] of top-level expressions
}

type c16State struct {
	Files  []c16File
	Shrunk map[string]int // per pre-shrink finding key: how many were minimised and reported by this worker
}

func init() {
	fw.Register(&fw.Prop{
		ID: "C16", Level: "exploration",
		Rule: "one case = one source text (a: rendered random token tree with comments/blank lines/odd whitespace drawn for EVERY gap; " +
			"b: each .lisp file of the repository, 4 times; c: a window of 1-3 top-level forms of a repository file, or a generated text, with 1-5 token-level mutations), " +
			"formatted under 4 configurations (CLI default via FormatFile; random indent 0-8/blank cap/rule table; compact+strip; strip or compact keeping comments). " +
			"Coverage classes are derived from the oracle's own reading of the INPUT: C|mode|comment position|same-line/own-line|kind of next token|blank line before|blank line after; " +
			"K|mode|node kind present (each literal spelling class, bracket kind, prefix, longhand prefix form with arity)|outcome changed/unchanged; L|mode|layout feature|outcome; " +
			"G|indent|blank cap|rules|mode|source kind; R|source kind|reader error class for rejected texts. Empty texts and oracle-inconclusive cases add no class. " +
			"Appended behind these (128 / 3 000 cases, c16_window.go): an accepted text that receives ONE lexeme sized relative to the 128 KiB scanner window every reader scans through " +
			"(string, raw string, symbol, keyword, qualified symbol, float, comment, end-of-input comment, hash-bang line, whitespace run; W-1/W/W+1 enumerated per kind and placement, then W-9..W+5, 2W, 129-300 KB, W-4000..W-10), " +
			"judged with the sliding-window reader as THE reader for input and output; classes W|kind|length class|placement|mode|accepted/rejected.",
		Assumptions: []string{
			"the strict reader (rdparser.New(...).ParseProgram) defines which texts are accepted and what tree a text reads to",
			"the public lexer's token stream is the ground truth for literal spellings, bracket characters and comment tokens (byte offsets are recomputed by the oracle, Source.Pos is not trusted)",
			"re-sugaring between (lisp:function f)/(lisp:expr x) written with parentheses and #'f / #^x is a documented normalisation (formatter tests TestLonghandPrefixFormKeepsComments) and is not a spelling or bracket change",
			"a comment written in the gap between a ' or #^ prefix and its operand may move above the prefix form (formatter test TestCommentBetweenPrefixAndOperand); its anchor is the outermost prefix form of the chain",
			"comment text must survive byte for byte (the formatter documents no trimming); blank lines are only judged through idempotence",
			"with StripComments set only trees, spellings and idempotence are judged; Compact without StripComments is judged like default mode but reported under keys containing 'compact-keep'",
			"IndentSize in 0..8 and MaxBlankLines in 0..10 are the configurations meant by 'any indentation rules'; negative values are not exercised",
			"'the reader' of the accept/reject clause is the reader the runtime loads source with (rdparser.NewReader: rdparser.New over token.NewScanner's documented 128 KiB sliding window); the main workload reads through a scanner sized to the text because its lexemes are far below the window, the window family reads input and output through the sliding window and assumes nothing about which lengths it accepts",
		},
		Cases: func(tier string) int {
			return c16MainCases(tier) + c16WindowCases(tier)
		},
		Init:        c16Init,
		Run:         c16Run,
		Driver:      c16Driver,
		MinDistinct: func(tier string) int { return 2300 },
	})
}

// c16MainCases: the case indices below it are the main workload; the window
// family (c16_window.go) is appended behind them so that no existing case moves.
func c16MainCases(tier string) int {
	if tier == "thorough" {
		return 2_400_000
	}
	return 60_000
}

func c16Init(w *fw.W) {
	// Format allocates a 128 KiB scanner window per call; with the default pacer the
	// collector runs every ~30 calls and dominates the run (370µs vs 70µs per call).
	debug.SetGCPercent(-1)
	debug.SetMemoryLimit(384 << 20)
	repo := os.Getenv("VERIF_REPO")
	if repo == "" {
		repo = "/repo"
	}
	st := &c16State{Shrunk: map[string]int{}}
	var paths []string
	filepath.Walk(repo, func(p string, info os.FileInfo, err error) error {
		if err != nil {
			return nil
		}
		if info.IsDir() {
			if info.Name() == ".git" || info.Name() == "node_modules" {
				return filepath.SkipDir
			}
			return nil
		}
		if strings.HasSuffix(p, ".lisp") {
			paths = append(paths, p)
		}
		return nil
	})
	sort.Strings(paths)
	for _, p := range paths {
		b, err := os.ReadFile(p)
		if err != nil || len(b) > 200_000 {
			continue
		}
		rel, _ := filepath.Rel(repo, p)
		f := c16File{Rel: rel, Data: b}
		if d, ok := c16DocFromText(b); ok {
			f.Doc = d
			depth := 0
			start := -1
			for i, t := range d.Toks {
				if t.Type == token.HASH_BANG {
					continue
				}
				if start < 0 {
					start = i
				}
				switch t.Type {
				case token.PAREN_L, token.BRACE_L:
					depth++
				case token.PAREN_R, token.BRACE_R:
					depth--
				}
				if depth == 0 && !t.Glue && t.Type != token.QUOTE && t.Type != token.UNBOUND {
					f.Segs = append(f.Segs, [2]int{start, i})
					start = -1
				}
			}
		}
		st.Files = append(st.Files, f)
	}
	w.State = st
}

// c16Window cuts 1-3 consecutive top-level forms (with the comments before them) out of a file.
func c16Window(r *fw.RNG, f *c16File) *c16Doc {
	if f.Doc == nil || len(f.Segs) == 0 {
		return nil
	}
	for try := 0; try < 6; try++ {
		s := r.Intn(len(f.Segs))
		k := r.Range(1, 3)
		e := s + k - 1
		if e >= len(f.Segs) {
			e = len(f.Segs) - 1
		}
		first, last := f.Segs[s][0], f.Segs[e][1]
		d := &c16Doc{Toks: append([]c16DTok{}, f.Doc.Toks[first:last+1]...), Gaps: append([]string{}, f.Doc.Gaps[first:last+2]...)}
		if len(d.Render()) > 6000 {
			if k > 1 {
				continue
			}
			if len(d.Render()) > 20000 {
				continue
			}
		}
		// the trailing gap reaches into the next form's leading comments: keep
		// only up to the end of its first line so trailing same-line comments stay
		tail := d.Gaps[len(d.Gaps)-1]
		if i := strings.Index(tail, "\n"); i >= 0 && r.Chance(2, 3) {
			tail = tail[:i+1]
		}
		d.Gaps[len(d.Gaps)-1] = tail
		return d
	}
	return nil
}

// c16Features summarises the INPUT for coverage keys (derived from the
// oracle's own analysis of the text, not from the generator's intent).
func c16Features(src []byte, a *c16Analysis) (commentCtx, kinds, layout string) {
	if a == nil || a.Rejected || a.Tree == nil || a.Tree.Err != "" {
		return "", "", ""
	}
	cs := map[string]bool{}
	for _, c := range a.Tree.Comments {
		cs[c.Ctx] = true
	}
	ks := map[string]bool{}
	var walk func(n *c16Node, quoted bool)
	walk = func(n *c16Node, quoted bool) {
		switch n.Kind {
		case c16KAtom:
			if !n.Synth {
				k := c16AtomClass(n.TT)
				if n.TT == token.STRING_RAW && strings.Contains(n.Spell, "\n") {
					k = "raw-multiline"
				}
				if (n.TT == token.INT || n.TT == token.FLOAT) && strings.HasPrefix(n.Spell, "-") {
					k += "-neg"
				}
				if n.TT == token.FLOAT && !strings.Contains(n.Spell, ".") {
					k = "float-exp-only"
				}
				ks[k] = true
			}
		case c16KQuote:
			ks["quote"] = true
		case c16KList:
			switch {
			case n.Sugar != "":
				ks[n.Sugar] = true
			case len(n.Kids) > 0 && n.Kids[0].Kind == c16KAtom && (n.Kids[0].Spell == "lisp:function" || n.Kids[0].Spell == "lisp:expr"):
				ks[fmt.Sprintf("longhand%c%d", n.Open, len(n.Kids))] = true
			case len(n.Kids) == 0:
				ks[fmt.Sprintf("empty%c", n.Open)] = true
			default:
				ks[string(n.Open)] = true
			}
		}
		for _, k := range n.Kids {
			walk(k, quoted || n.Kind == c16KQuote)
		}
	}
	for _, n := range a.Tree.Top {
		walk(n, false)
	}
	join := func(m map[string]bool) string {
		var xs []string
		for k := range m {
			xs = append(xs, k)
		}
		sort.Strings(xs)
		return strings.Join(xs, ",")
	}
	var lay []string
	s := string(src)
	if strings.Contains(s, "\n\n\n") {
		lay = append(lay, "blank2+")
	} else if strings.Contains(s, "\n\n") {
		lay = append(lay, "blank1")
	}
	if strings.ContainsAny(s, "\t\r\f\v") {
		lay = append(lay, "oddws")
	}
	if !strings.HasSuffix(s, "\n") {
		lay = append(lay, "no-final-nl")
	}
	if len(a.Tree.Top) == 0 {
		lay = append(lay, "no-exprs")
	} else if len(a.Tree.Top) > 1 {
		lay = append(lay, "multi")
	}
	return join(cs), join(ks), strings.Join(lay, ",")
}

// c16Cover records the measured coverage of one run.  A coverage class is one of
//
//	C|mode|comment position|same-line/own-line|kind of next token|blank line before|blank line after
//	K|mode|node kind present|outcome      L|mode|layout feature|outcome
//	G|indent size|blank cap|rule-table kind|mode      R|source kind|reader error class
func c16Cover(w *fw.W, kind, mode string, cfg *formatter.Config, src []byte, an *c16Analysis, v c16Verdict, first bool) {
	if an == nil {
		return
	}
	if an.Rejected {
		if first {
			ec := c16ErrClass(fmt.Errorf("%s", an.RejectErr))
			w.CoverKey("R|" + kind + "|" + ec)
			w.SetAdd("reject_classes", ec)
			w.Count("inputs_rejected", 1)
		}
		return
	}
	if v.Outcome == "inconclusive" || an.Tree == nil || an.Tree.Err != "" {
		return
	}
	if len(an.Tree.Top) == 0 && len(an.Tree.Comments) == 0 {
		if first {
			w.Count("inputs_empty", 1)
		}
		return
	}
	toks := an.Lex.Toks
	for _, c := range an.Tree.Comments {
		next := "eof"
		blankAfter := false
		for j := c.TokIdx + 1; j < len(toks); j++ {
			if j == c.TokIdx+1 && toks[j].NL >= 2 {
				blankAfter = true
			}
			if toks[j].Type != token.COMMENT {
				next = toks[j].Type.String()
				break
			}
		}
		w.CoverKey(fmt.Sprintf("C|%s|%s|next=%s|bb=%v|ba=%v", mode, c.Ctx, next, toks[c.TokIdx].NL >= 2, blankAfter))
	}
	_, kinds, lay := c16Features(src, an)
	for _, k := range strings.Split(kinds, ",") {
		if k != "" {
			w.CoverKey("K|" + mode + "|" + k + "|" + v.Outcome)
		}
	}
	for _, l := range strings.Split(lay, ",") {
		if l != "" {
			w.CoverKey("L|" + mode + "|" + l + "|" + v.Outcome)
		}
	}
	rk := "nil"
	if cfg.Rules != nil {
		rk = "table"
	}
	w.CoverKey(fmt.Sprintf("G|i%d|b%d|%s|%s|%s", cfg.IndentSize, cfg.MaxBlankLines, rk, mode, kind))
	if first {
		w.Count("inputs_accepted", 1)
		for _, c := range an.Tree.Comments {
			w.SetAdd("comment_positions", c.Ctx)
		}
		for _, k := range strings.Split(kinds, ",") {
			if k != "" {
				w.SetAdd("node_kinds", k)
			}
		}
		w.Count("comments_checked", int64(len(an.Tree.Comments)))
		w.Max("max_comments_in_one_source", int64(len(an.Tree.Comments)))
		w.Max("max_source_bytes", int64(len(src)))
	}
}

func c16Run(w *fw.W, idx int) {
	if base := c16MainCases(w.Tier); idx >= base {
		c16RunWindow(w, idx-base)
		return
	}
	st, _ := w.State.(*c16State)
	r := w.RNG(idx, "main")
	var src []byte
	var doc *c16Doc
	kind := ""
	muts := []string{}
	g := &c16gen{r: r, st: c16PickStyle(r)}
	nf := 0
	if st != nil {
		nf = len(st.Files)
	}
	switch {
	case nf > 0 && idx < 4*nf:
		kind = "repo-file"
		src = st.Files[idx%nf].Data
		muts = append(muts, st.Files[idx%nf].Rel)
	default:
		x := r.Intn(100)
		if nf == 0 && x >= 55 {
			x = r.Intn(55)
		}
		switch {
		case x < 45:
			kind = "generated"
			doc = c16Generate(r)
		case x < 55:
			kind = "generated+mutated"
			doc = c16Generate(r)
		default:
			kind = "repo-window+mutated"
			f := &st.Files[r.Intn(nf)]
			doc = c16Window(r, f)
			if doc == nil {
				kind = "generated+mutated"
				doc = c16Generate(r)
			} else {
				muts = append(muts, f.Rel)
			}
		}
		if kind != "generated" {
			g.nc = 1000
			for k := r.Range(1, 5); k > 0; k-- {
				name := fw.Pick(r, c16MutNames)
				if c16Mutate(r, doc, g, name) {
					muts = append(muts, name)
					w.SetAdd("mutations_applied", name)
				}
			}
		}
		src = doc.Render()
	}

	// configurations
	type run struct {
		cfg     *formatter.Config
		viaFile bool
	}
	runs := []run{
		{formatter.DefaultConfig(), true}, // exactly what `elps fmt` does
		{c16RandomConfig(r, c16ModeDefault), r.Bool()},
		{c16RandomConfig(r, c16ModeCompactStrip), r.Bool()},
	}
	if r.Bool() {
		runs = append(runs, run{c16RandomConfig(r, c16ModeStrip), r.Bool()})
	} else {
		runs = append(runs, run{c16RandomConfig(r, c16ModeCompactKeep), r.Bool()})
	}
	if kind == "repo-file" {
		// whole files: the minifier's exact configuration as well
		m := formatter.DefaultConfig()
		m.Compact, m.StripComments = true, true
		runs = append(runs, run{m, false})
	}

	var an *c16Analysis
	reported := map[string]bool{}
	for ri, rn := range runs {
		v := c16Judge(src, rn.cfg, rn.viaFile, &an)
		w.Eval(1)
		mode := c16ModeOf(rn.cfg)
		if ri == 1 {
			mode = "custom"
		}
		c16Cover(w, kind, mode, rn.cfg, src, an, v, ri == 0)
		w.Count("span_leaves_compared", int64(v.SpanLeaves))
		w.Count("span_leaves_differing_while_lexer_spelling_equal", int64(v.SpanDisagree))
		if v.SpanExample != "" {
			w.SetAdd("span_disagreement_examples", v.SpanExample)
		}
		if v.Outcome == "changed" {
			w.Count("outputs_differing_from_input", 1)
		}
		if v.Inconcl != "" {
			w.Count("oracle_model_inconclusive", 1)
			w.Inconclusive("case " + fmt.Sprint(idx) + ": " + v.Inconcl)
			continue
		}
		var finds []c16Verdict
		if v.Family != "" {
			finds = append(finds, v)
		}
		if v.Sec != nil {
			finds = append(finds, *v.Sec)
		}
		for _, fv := range finds {
			c16Report(w, st, src, rn.cfg, rn.viaFile, ri == 0, fv, kind, muts, reported)
		}
	}
	if w.WantSample() && an != nil && !an.Rejected && len(an.Tree.Comments) > 2 && len(src) < 400 {
		out, _ := formatter.Format(src, nil)
		w.Sample(map[string]any{"kind": kind, "input": string(src), "formatted_default": string(out), "comments": len(an.Tree.Comments)})
	}
	if w.Verbose {
		w.Logf("kind=%s muts=%v\n--- input ---\n%s", kind, muts, c16Vis(src))
	}
}

// c16Report minimises one finding and reports it under the key of the
// minimised input (first: the run was the CLI default configuration).
func c16Report(w *fw.W, st *c16State, src []byte, cfg *formatter.Config, viaFile, first bool, fv c16Verdict, kind string, muts []string, reported map[string]bool) {
	// shrink (at most twice per pre-shrink key and worker: shrinking costs
	// hundreds of formatter runs), then re-key from the shrunk input
	if st != nil {
		pk := c16CollapseKey(fv.Key)
		if st.Shrunk[pk] >= 2 {
			w.Count("violations_not_minimised_again", 1)
			return
		}
		st.Shrunk[pk]++
	}
	ssrc, sv := c16Shrink(src, cfg, viaFile, fv)
	key := c16CollapseKey(sv.Key)
	if !first {
		// Is the finding specific to this configuration?  If the minimised
		// input fails the same way under the CLI's DefaultConfig, report it
		// under the default-mode key (one defect, one key).
		var an2 *c16Analysis
		dv := c16Judge(ssrc, formatter.DefaultConfig(), viaFile, &an2)
		dmode := c16ModeOf(cfg)
		switch {
		case dv.Family == sv.Family && strings.TrimPrefix(dv.Key, dv.Family+":"+c16ModeDefault) == strings.TrimPrefix(sv.Key, sv.Family+":"+dmode):
			key = c16CollapseKey(dv.Key)
		case dmode == c16ModeDefault:
			key = strings.Replace(key, ":"+c16ModeDefault, ":custom-config", 1)
		}
	}
	if reported[key] {
		return
	}
	reported[key] = true
	detail := fmt.Sprintf("config: %s (via %s)\nsource kind: %s %v\n--- minimised input (%d bytes) ---\n%s\n--- formatted ---\n%s\n%s\n--- original input (%d bytes) ---\n%s",
		c16CfgString(cfg), map[bool]string{true: "FormatFile", false: "Format"}[viaFile], kind, muts,
		len(ssrc), c16Vis(ssrc), c16Vis(sv.Out), sv.Detail, len(src), c16Vis(src))
	w.Violation(key, sv.Summary+fmt.Sprintf("  [input %q]", c16Short(string(ssrc))), detail)
}

// c16CollapseKey: the compact printer has no code at all for comments below
// the top level, so in compact-keep mode every nested comment position is the
// same finding; only top-level positions keep their own key.
func c16CollapseKey(key string) string {
	pre := "comment-lost:" + c16ModeCompactKeep + ":"
	if strings.HasPrefix(key, pre) {
		ctx := key[len(pre):]
		if !strings.HasPrefix(ctx, "top/") && ctx != "hashbang" {
			return pre + "nested"
		}
	}
	return key
}

// c16Shrink greedily minimises src while the same violation FAMILY persists.
func c16Shrink(src []byte, cfg *formatter.Config, viaFile bool, v c16Verdict) ([]byte, c16Verdict) {
	best, bestV := src, v
	budget := 1500
	try := func(cand []byte) bool {
		if budget <= 0 || len(cand) >= len(best) {
			return false
		}
		budget--
		var an *c16Analysis
		nv := c16Judge(cand, cfg, viaFile, &an)
		if nv.Family == v.Family {
			best, bestV = cand, nv
			return true
		}
		if nv.Sec != nil && nv.Sec.Family == v.Family {
			best, bestV = cand, *nv.Sec
			return true
		}
		return false
	}
	for round := 0; round < 400 && budget > 0; round++ {
		before := len(best)
		d, ok := c16DocFromText(best)
		if !ok {
			break
		}
		// 1. drop balanced token ranges (whole subtrees), largest first
		type rng struct{ a, b int }
		var ranges []rng
		var stack []int
		for i, t := range d.Toks {
			switch t.Type {
			case token.PAREN_L, token.BRACE_L:
				stack = append(stack, i)
			case token.PAREN_R, token.BRACE_R:
				if len(stack) > 0 {
					ranges = append(ranges, rng{stack[len(stack)-1], i})
					stack = stack[:len(stack)-1]
				}
			default:
				if !t.Glue && (i == 0 || !d.Toks[i-1].Glue) {
					ranges = append(ranges, rng{i, i})
				} else if t.Glue && i+1 < len(d.Toks) && d.Toks[i+1].Type != token.PAREN_L && d.Toks[i+1].Type != token.BRACE_L {
					ranges = append(ranges, rng{i, i + 1}) // #'f, #xFF, -1 go as a pair
				}
			}
		}
		sort.Slice(ranges, func(i, j int) bool { return ranges[i].b-ranges[i].a > ranges[j].b-ranges[j].a })
		for _, rg := range ranges {
			if budget <= 0 {
				break
			}
			cur, ok := c16DocFromText(best)
			if !ok || len(cur.Toks) != len(d.Toks) {
				break // token indices are stale after a successful removal; next round
			}
			nd := &c16Doc{}
			nd.Toks = append(append([]c16DTok{}, cur.Toks[:rg.a]...), cur.Toks[rg.b+1:]...)
			nd.Gaps = append(append([]string{}, cur.Gaps[:rg.a+1]...), cur.Gaps[rg.b+2:]...)
			if try(nd.Render()) {
				d = nil
				break
			}
			// variant: also drop the gap (comments) in front
			nd.Gaps[rg.a] = " "
			if try(nd.Render()) {
				d = nil
				break
			}
		}
		if d == nil {
			continue
		}
		// 2. simplify gaps one at a time
		for i := range d.Gaps {
			cur, ok := c16DocFromText(best)
			if !ok || len(cur.Gaps) != len(d.Gaps) {
				break
			}
			if i > 0 && cur.Toks[i-1].Glue {
				continue
			}
			gap := cur.Gaps[i]
			for _, alt := range []string{"", " ", "\n"} {
				if len(alt) >= len(gap) {
					continue
				}
				nd := cur.Clone()
				nd.Gaps[i] = alt
				if try(nd.Render()) {
					break
				}
			}
			// drop individual comment lines of the gap
			if strings.Count(gap, ";") > 0 && strings.Count(gap, "\n") > 1 {
				lines := strings.SplitAfter(gap, "\n")
				for li := range lines {
					nd := cur.Clone()
					nd.Gaps[i] = strings.Join(append(append([]string{}, lines[:li]...), lines[li+1:]...), "")
					if try(nd.Render()) {
						break
					}
				}
			}
		}
		// 3. unwrap a list: replace "( ... )" by its contents
		cur, ok := c16DocFromText(best)
		if ok {
			var st2 []int
			for i, t := range cur.Toks {
				if t.Type == token.PAREN_L || t.Type == token.BRACE_L {
					st2 = append(st2, i)
				} else if (t.Type == token.PAREN_R || t.Type == token.BRACE_R) && len(st2) > 0 {
					o := st2[len(st2)-1]
					st2 = st2[:len(st2)-1]
					nd := &c16Doc{}
					for k, tk := range cur.Toks {
						if k == o || k == i {
							continue
						}
						nd.Toks = append(nd.Toks, tk)
					}
					for k, gp := range cur.Gaps {
						if k == o+1 || k == i+1 {
							continue
						}
						nd.Gaps = append(nd.Gaps, gp)
					}
					if len(nd.Gaps) == len(nd.Toks)+1 && try(nd.Render()) {
						break
					}
				}
			}
		}
		// 4. replace every atom by the symbol a (keeps only what matters to the finding)
		if cur, ok := c16DocFromText(best); ok {
			for i, t := range cur.Toks {
				switch t.Type {
				case token.SYMBOL, token.INT, token.FLOAT, token.STRING, token.STRING_RAW:
					if t.Text == "a" || (i > 0 && cur.Toks[i-1].Glue) || len(t.Text) < 2 {
						continue
					}
					nd := cur.Clone()
					nd.Toks[i].Text = "a"
					if try(nd.Render()) {
						cur = nd
					}
				}
			}
		}
		if len(best) == before {
			break
		}
	}
	return best, bestV
}
