package props

// C17 — shrinking of a failing session to a small program and derivation of a
// stable finding key from the shrunk program.
//
// Every reduction keeps the property's preconditions: reductions only delete
// forms, replace an expression by the literal 0 or by one of its own
// sub-expressions (moving code towards the top level, never into a function
// body), and never cross a quote / quasiquote / unquote boundary, so they can
// neither create a computed symbol, nor move a global definition into a
// function body, nor turn data into code.

import (
	"sort"
	"strings"
)

type c17Case struct {
	Files [][]*c17N
	Paths []string
	Cfg   c17Cfg
}

func (c *c17Case) render() []string {
	out := make([]string, len(c.Files))
	for i, f := range c.Files {
		out[i] = c17RenderFile(f, nil)
	}
	return out
}

func (c *c17Case) clone() *c17Case {
	return &c17Case{Files: c17CloneFiles(c.Files), Paths: c.Paths, Cfg: c17Cfg{RenameExports: c.Cfg.RenameExports, PreserveParams: c.Cfg.PreserveParams, Excl: append([]string(nil), c.Cfg.Excl...), Order: c.Cfg.Order}}
}

type c17Shrinker struct {
	group  string
	cat    string
	probes int
	max    int
	evals  *int
	// origOK: the unshrunk original ran to completion; then every accepted
	// candidate's original must do so too (keeps shrunk programs meaningful)
	origOK bool
	// keepOutOfD8: the case being shrunk defines no name in the way the unfixed
	// defect D8 covers (c17HasD8Shape); then no candidate may either.  A session
	// of the family "defined more than once, referenced from elsewhere" could
	// otherwise be reduced to a program that fails for D8's reason (an expression
	// hoisted to the top level between two definitions of a name), and the finding
	// would be filed under the known defect.
	keepOutOfD8 bool
	// startMulti: the (package, name) pairs the case being shrunk defines more
	// than once (in one file or in several).  No candidate may define any other
	// pair more than once: deleting an in-package form merges two packages, and
	// two unrelated definitions of one spelling would become a redefinition - the
	// shape of D8 again, reached by the shrinker and not by the generator.
	startMulti map[string]bool
}

// c17InDomain rejects sessions in which a name changes what it RESOLVES to
// while the session loads: a package-level definition (or import) of a name
// that the same package has already used as the builtin of that name, or an
// (export ...) in a package after some use-package already copied that
// package's export list.  Such a reference is resolved by time of execution,
// not statically.  The generator never writes this; deleting forms while
// shrinking could.
func c17InDomain(c *c17Case) bool {
	used := map[string]map[string]bool{}    // pkg -> builtin names referenced so far
	exports := map[string]map[string]bool{} // pkg -> exported shadowable names
	isB := func(n string) bool {
		for _, b := range c17ShadowableBuiltins {
			if b == n {
				return true
			}
		}
		return false
	}
	note := func(pkg string, n *c17N, skip *c17N) {
		c17Walk(n, false, func(x *c17N, quoted bool) {
			if quoted || x == skip || !x.isAtom() || x.Q {
				return
			}
			if isB(x.A) {
				if used[pkg] == nil {
					used[pkg] = map[string]bool{}
				}
				used[pkg][x.A] = true
			}
		})
	}
	imported := map[string]bool{} // packages some use-package has already named
	for _, f := range c.Files {
		pkg := "user"
		for _, top := range f {
			switch top.head() {
			case "in-package":
				if len(top.L) > 1 {
					pkg = strings.Trim(top.L[1].A, "\"")
				}
				continue
			case "export":
				if imported[pkg] {
					// exported after an importer copied the export list: what the
					// name means in the importer depends on execution order
					return false
				}
				for _, a := range top.L[1:] {
					if a.isAtom() && isB(a.A) {
						if exports[pkg] == nil {
							exports[pkg] = map[string]bool{}
						}
						exports[pkg][a.A] = true
					}
				}
				continue
			case "use-package":
				if len(top.L) > 1 {
					q := strings.Trim(top.L[1].A, "\"")
					imported[q] = true
					for n := range exports[q] {
						if used[pkg][n] {
							return false
						}
					}
				}
				continue
			case "defun", "defmacro", "set":
				if len(top.L) > 1 && top.L[1].isAtom() && isB(top.L[1].A) {
					if used[pkg][top.L[1].A] {
						return false
					}
					note(pkg, top, top.L[1])
					continue
				}
			}
			note(pkg, top, nil)
		}
	}
	return true
}

// fails re-runs the oracle on a candidate and reports whether the same
// category of finding is still present.
func (s *c17Shrinker) fails(c *c17Case) (bool, *c17Finding) {
	if s.probes >= s.max {
		return false, nil
	}
	s.probes++
	if !c17InDomain(c) {
		return false, nil
	}
	if s.keepOutOfD8 && c17HasD8Shape(c) {
		return false, nil
	}
	if s.startMulti != nil {
		for k := range c17MultiDefs(c) {
			if !s.startMulti[k] {
				return false, nil
			}
		}
	}
	srcs := c.render()
	det := 0 // determinism is not re-checked while shrinking another kind of finding
	if s.group == "det" {
		det = 10
	}
	var orig c17Obs
	if s.origOK {
		orig = c17Eval(c.Paths, srcs)
		*s.evals++
		if len(orig.Files) == 0 || orig.Files[len(orig.Files)-1].IsErr {
			return false, nil
		}
	}
	var op *c17Obs
	if s.origOK {
		op = &orig
	}
	fs, _, _ := c17Judge(c.Paths, srcs, c.Cfg, op, s.evals, det)
	for i := range fs {
		if fs[i].Group == s.group && fs[i].Cat != "unaligned" && fs[i].Cat != "ambiguous-not-judged" {
			return true, &fs[i]
		}
	}
	return false, nil
}

// exprSlots returns pointers to the child slots of n that hold EXPRESSIONS
// (evaluated code, or template structure inside a quasiquote), and whether n's
// own children may be hoisted in place of n.
func c17ExprSlots(n *c17N, inTemplate bool) (slots []**c17N, hoist bool, childTemplate []bool) {
	if n == nil || !n.IsL || n.Q || len(n.L) == 0 {
		return nil, false, nil
	}
	add := func(p **c17N, tmpl bool) {
		slots = append(slots, p)
		childTemplate = append(childTemplate, tmpl)
	}
	if inTemplate {
		h := n.head()
		if h == "unquote" || h == "unquote-splicing" {
			for i := 1; i < len(n.L); i++ {
				add(&n.L[i], false)
			}
			return slots, false, childTemplate
		}
		// A bracket list inside a template is a binding list / binding / cond
		// clause, not an expression: hoisted in place of its form it would become
		// quoted DATA made of code.  Its parts are reached through it.
		var addT func(p **c17N)
		addT = func(p **c17N) {
			x := *p
			if !x.IsL {
				return
			}
			if x.Br {
				for i := range x.L {
					addT(&x.L[i])
				}
				return
			}
			add(p, true)
		}
		for i := 0; i < len(n.L); i++ {
			addT(&n.L[i])
		}
		return slots, true, childTemplate
	}
	if n.Br {
		return nil, false, nil
	}
	h := n.head()
	body := func(from int) {
		for i := from; i < len(n.L); i++ {
			add(&n.L[i], false)
		}
	}
	switch h {
	case "quote", "function", "in-package", "use-package", "export":
		return nil, false, nil
	case "quasiquote":
		if len(n.L) > 1 {
			add(&n.L[1], true)
		}
		return slots, false, childTemplate
	case "defun", "defmacro":
		from := 3
		if len(n.L) > 4 && n.L[3].isAtom() && strings.HasPrefix(n.L[3].A, "\"") {
			from = 4
		}
		body(from)
		return slots, true, childTemplate
	case "lambda":
		body(2)
		return slots, true, childTemplate
	case "let", "let*":
		if len(n.L) > 1 && n.L[1].IsL {
			for _, b := range n.L[1].L {
				if b.IsL && len(b.L) > 1 {
					add(&b.L[1], false)
				}
			}
		}
		body(2)
		return slots, true, childTemplate
	case "flet", "labels", "macrolet":
		if len(n.L) > 1 && n.L[1].IsL {
			for _, b := range n.L[1].L {
				if b.IsL {
					for i := 2; i < len(b.L); i++ {
						add(&b.L[i], false)
					}
				}
			}
		}
		body(2)
		return slots, true, childTemplate
	case "dotimes":
		if len(n.L) > 1 && n.L[1].IsL && len(n.L[1].L) > 1 {
			add(&n.L[1].L[1], false)
		}
		body(2)
		return slots, true, childTemplate
	case "set", "set!":
		body(2)
		return slots, true, childTemplate
	case "cond":
		for _, cl := range n.L[1:] {
			if cl.IsL {
				for i := range cl.L {
					if i == 0 && cl.L[0].isAtom() {
						continue
					}
					add(&cl.L[i], false)
				}
			}
		}
		return slots, true, childTemplate
	case "handler-bind":
		if len(n.L) > 1 && n.L[1].IsL {
			for _, b := range n.L[1].L {
				if b.IsL && len(b.L) > 1 {
					add(&b.L[1], false)
				}
			}
		}
		body(2)
		return slots, true, childTemplate
	case "thread-first", "thread-last":
		if len(n.L) > 1 {
			add(&n.L[1], false)
		}
		for _, st := range n.L[2:] {
			if st.IsL {
				for i := 1; i < len(st.L); i++ {
					add(&st.L[i], false)
				}
			}
		}
		return slots, true, childTemplate
	case "unquote", "unquote-splicing":
		return nil, false, nil
	}
	// ordinary call; a non-atomic head (lambda call) is an expression too
	if len(n.L) > 0 && n.L[0].IsL {
		add(&n.L[0], false)
	}
	body(1)
	// hoisting an argument out of error/debug-print etc. is fine; the operator
	// itself is never hoisted (a bare function value would be printed)
	return slots, true, childTemplate
}

// c17IsFunctionValued reports forms whose value is a function: they must not
// be hoisted into a position whose value gets printed.
func c17IsFunctionValued(n *c17N) bool {
	if n == nil {
		return false
	}
	if n.Fn || n.Px {
		return true
	}
	h := n.head()
	return h == "lambda" || h == "function" || h == "lisp:expr" || h == "expr"
}

func (s *c17Shrinker) shrink(c *c17Case) (*c17Case, *c17Finding) {
	s.keepOutOfD8 = !c17HasD8Shape(c)
	s.startMulti = c17MultiDefs(c)
	ok, last := s.fails(c)
	if !ok {
		return c, nil
	}
	cur := c.clone()
	try := func(cand *c17Case) bool {
		ok, f := s.fails(cand)
		if ok {
			cur = cand
			last = f
		}
		return ok
	}
	// Phase A: drop top-level forms, large chunks first
	type ref struct{ f, i int }
	for {
		var refs []ref
		for f := range cur.Files {
			for i := range cur.Files[f] {
				refs = append(refs, ref{f, i})
			}
		}
		progress := false
		for chunk := len(refs) / 2; chunk >= 1; chunk /= 2 {
			for start := 0; start < len(refs); {
				end := start + chunk
				if end > len(refs) {
					end = len(refs)
				}
				drop := map[ref]bool{}
				for _, r := range refs[start:end] {
					drop[r] = true
				}
				cand := cur.clone()
				for f := range cand.Files {
					var keep []*c17N
					for i, x := range cand.Files[f] {
						if !drop[ref{f, i}] {
							keep = append(keep, x)
						}
					}
					cand.Files[f] = keep
				}
				if try(cand) {
					progress = true
					refs = refs[:0]
					for f := range cur.Files {
						for i := range cur.Files[f] {
							refs = append(refs, ref{f, i})
						}
					}
					// restart this chunk size at the same offset
					continue
				}
				start = end
			}
		}
		if !progress || s.probes >= s.max {
			break
		}
	}
	// drop empty files (keeps load order of the rest)
	if len(cur.Files) > 1 {
		cand := cur.clone()
		var fs [][]*c17N
		var ps []string
		for i, f := range cand.Files {
			if len(f) > 0 {
				fs = append(fs, f)
				ps = append(ps, cand.Paths[i])
			}
		}
		if len(fs) > 0 && len(fs) < len(cand.Files) {
			cand.Files, cand.Paths = fs, ps
			try(cand)
		}
	}
	// merge files into one (is the multi-file session needed?)
	if len(cur.Files) > 1 {
		cand := cur.clone()
		var all []*c17N
		pkgNow := "user"
		for _, f := range cand.Files {
			if pkgNow != "user" {
				all = append(all, c17Call("in-package", c17QSym("user")))
			}
			for _, x := range f {
				all = append(all, x)
				if x.head() == "in-package" && len(x.L) > 1 {
					pkgNow = strings.Trim(x.L[1].A, "\"")
				}
			}
		}
		cand.Files, cand.Paths = [][]*c17N{all}, cand.Paths[:1]
		try(cand)
	}
	// Phase B: configuration towards the command defaults
	if len(cur.Cfg.Excl) > 0 {
		cand := cur.clone()
		cand.Cfg.Excl = nil
		if !try(cand) && len(cur.Cfg.Excl) > 1 {
			for i := range cur.Cfg.Excl {
				cand := cur.clone()
				cand.Cfg.Excl = []string{cur.Cfg.Excl[i]}
				if try(cand) {
					break
				}
			}
		}
	}
	if cur.Cfg.RenameExports {
		cand := cur.clone()
		cand.Cfg.RenameExports = false
		try(cand)
	}
	if !cur.Cfg.PreserveParams {
		cand := cur.clone()
		cand.Cfg.PreserveParams = true
		try(cand)
	}
	// the files handed over in load order, and named plainly: whatever of the
	// order / the naming is still there afterwards is needed by the failure
	if cur.Cfg.Order != "" {
		cand := cur.clone()
		cand.Cfg.Order = ""
		try(cand)
	}
	s.plainPaths(&cur, try)
	// Phase C: expression-level reductions until a fixed point
	for pass := 0; pass < 6 && s.probes < s.max; pass++ {
		progress := false
		for f := 0; f < len(cur.Files); f++ {
			for i := 0; i < len(cur.Files[f]); i++ {
				if s.reduceForm(&cur, f, i, try) {
					progress = true
				}
			}
		}
		// top-level forms again (expression reductions may have freed some)
		for f := 0; f < len(cur.Files); f++ {
			for i := 0; i < len(cur.Files[f]); {
				cand := cur.clone()
				cand.Files[f] = append(cand.Files[f][:i:i], cand.Files[f][i+1:]...)
				if try(cand) {
					progress = true
					continue
				}
				i++
			}
		}
		if !progress {
			break
		}
	}
	// Phase D: normalisations that remove incidental features from the key
	s.normalise(&cur, try)
	s.plainPaths(&cur, try)
	return cur, last
}

// c17AllNodes lists every node of the case in a fixed (pre-order) order.
func c17AllNodes(c *c17Case) []*c17N {
	var out []*c17N
	var rec func(n *c17N)
	rec = func(n *c17N) {
		out = append(out, n)
		for _, x := range n.L {
			rec(x)
		}
	}
	for _, f := range c.Files {
		for _, t := range f {
			rec(t)
		}
	}
	return out
}

// plainPaths renames the files towards f1.lisp, f2.lisp, ...: all at once if
// the failure allows it, else one feature of the naming at a time.
func (s *c17Shrinker) plainPaths(curp **c17Case, try func(*c17Case) bool) {
	for round := 0; round < 4; round++ {
		if strings.Join((*curp).Paths, "\x00") == strings.Join(c17FlatPaths(len((*curp).Paths)), "\x00") {
			return
		}
		progress := false
		for _, ps := range c17PathNormalisations((*curp).Paths) {
			cand := (*curp).clone()
			cand.Paths = ps
			if try(cand) {
				progress = true
				break
			}
		}
		if !progress {
			return
		}
	}
}

func (s *c17Shrinker) normalise(curp **c17Case, try func(*c17Case) bool) {
	// D1: cut parameter lists at an & marker; D2: write bracket lists with parens
	for pass := 0; pass < 2; pass++ {
		n := len(c17AllNodes(*curp))
		for k := 0; k < n && s.probes < s.max; k++ {
			nodes := c17AllNodes(*curp)
			if k >= len(nodes) {
				break
			}
			x := nodes[k]
			if !x.IsL || x.Q {
				continue
			}
			if x.Br {
				cand := (*curp).clone()
				c17AllNodes(cand)[k].Br = false
				try(cand)
				continue
			}
			cut := -1
			for i, e := range x.L {
				if !e.isAtom() {
					cut = -1
					break
				}
				if strings.HasPrefix(e.A, "&") && cut < 0 {
					cut = i
				}
			}
			if cut >= 0 {
				cand := (*curp).clone()
				y := c17AllNodes(cand)[k]
				y.L = y.L[:cut]
				try(cand)
			}
		}
	}
	// D0: names spelled like minifier output: respell each unless the spelling matters
	{
		seen := map[string]bool{}
		var minis []string
		for _, x := range c17AllNodes(*curp) {
			if x.isAtom() && len(x.A) > 1 && x.A[0] != '"' && x.A[0] != ':' {
				_, b := c17SplitQual(x.A)
				if c17IsMiniLike(b) && !seen[b] {
					seen[b] = true
					minis = append(minis, b)
				}
			}
		}
		sort.Strings(minis)
		for _, b := range minis {
			if s.probes < s.max {
				try(c17RenameToken(*curp, b, "zq-"+b))
			}
		}
	}
	// D0b: qualified references: drop the qualifier unless it matters
	for k := 0; k < len(c17AllNodes(*curp)) && s.probes < s.max; k++ {
		x := c17AllNodes(*curp)[k]
		if !x.isAtom() || len(x.A) == 0 || x.A[0] == '"' || x.A[0] == ':' {
			continue
		}
		if p, b := c17SplitQual(x.A); p != "" {
			cand := (*curp).clone()
			c17AllNodes(cand)[k].A = b
			try(cand)
		}
	}
	// D3: a user binding spelled like a builtin: respell it unless the spelling matters
	for _, b := range c17ShadowableBuiltins {
		if s.probes >= s.max {
			break
		}
		if c17Signature(*curp).flags["builtin-name-rebound"] {
			try(c17RenameToken(*curp, b, "bn-"+b))
		}
	}
	// D4: the same name defined in two packages: respell it in one of them unless that matters
	sig := c17Signature(*curp)
	var names []string
	for name, pk := range sig.defsByPkg {
		if len(pk) > 1 {
			names = append(names, name)
		}
	}
	sort.Strings(names)
	for _, name := range names {
		var pkgs []string
		for p := range sig.defsByPkg[name] {
			pkgs = append(pkgs, p)
		}
		sort.Strings(pkgs)
		for _, p := range pkgs[1:] {
			if s.probes < s.max {
				try(c17RenameInPackage(*curp, p, name, name+"-"+p))
			}
		}
	}
}

func c17IsMiniLike(s string) bool {
	if len(s) < 2 || s[0] != 'x' {
		return false
	}
	for i := 1; i < len(s); i++ {
		if s[i] < '0' || s[i] > '9' {
			return false
		}
	}
	return true
}

// c17RenameInPackage respells `from` inside the forms that belong to package
// pkg (unqualified tokens) and in every reference qualified with pkg.
func c17RenameInPackage(c *c17Case, pkg, from, to string) *c17Case {
	out := c.clone()
	var walk func(n *c17N, inPkg bool)
	walk = func(n *c17N, inPkg bool) {
		if n.isAtom() {
			if len(n.A) == 0 || n.A[0] == '"' || n.A[0] == ':' {
				return
			}
			p, b := c17SplitQual(n.A)
			if b != from {
				return
			}
			if p == pkg {
				n.A = p + ":" + to
			} else if p == "" && inPkg {
				n.A = to
			}
			return
		}
		for _, x := range n.L {
			walk(x, inPkg)
		}
	}
	for _, f := range out.Files {
		cur := "user"
		for _, t := range f {
			if t.head() == "in-package" && len(t.L) > 1 {
				cur = strings.Trim(t.L[1].A, "\"")
				continue
			}
			walk(t, cur == pkg)
		}
	}
	return out
}

// path addresses a node below a top-level form by slot indices.
func c17NodeAt(root **c17N, path []int, tmpl bool) (**c17N, bool) {
	p := root
	t := tmpl
	for _, k := range path {
		slots, _, ct := c17ExprSlots(*p, t)
		if k >= len(slots) {
			return nil, false
		}
		p = slots[k]
		t = ct[k]
	}
	return p, t
}

func (s *c17Shrinker) reduceForm(curp **c17Case, f, i int, try func(*c17Case) bool) bool {
	progress := false
	// breadth-first over expression slots, re-deriving paths after each success
	queue := [][]int{{}}
	for len(queue) > 0 && s.probes < s.max {
		path := queue[0]
		queue = queue[1:]
		cur := *curp
		if f >= len(cur.Files) || i >= len(cur.Files[f]) {
			return progress
		}
		np, tmpl := c17NodeAt(&cur.Files[f][i], path, false)
		if np == nil {
			continue
		}
		n := *np
		slots, hoist, _ := c17ExprSlots(n, tmpl)
		reduced := false
		if len(path) > 0 && !tmpl && (n.Q || (n.isAtom() && n.A != "0" && !c17IsInt(n.A))) {
			// quoted data, symbols, strings: replace by the literal 0
			cand := cur.clone()
			cp, _ := c17NodeAt(&cand.Files[f][i], path, false)
			*cp = c17Int(0)
			if try(cand) {
				progress = true
				continue
			}
		}
		if n.head() == "thread-first" && len(n.L) > 2 && n.L[2].IsL && len(n.L[2].L) > 0 {
			// (thread-first x (f a) ...) -> (f x a)
			cand := cur.clone()
			cp, _ := c17NodeAt(&cand.Files[f][i], path, false)
			step := n.L[2].clone()
			step.L = append([]*c17N{step.L[0], n.L[1].clone()}, step.L[1:]...)
			*cp = step
			if try(cand) {
				progress = true
				queue = append([][]int{path}, queue...)
				continue
			}
		}
		if len(path) > 0 && n.IsL && !n.Q {
			// 1. hoist a sub-expression in place of this node
			if hoist {
				var cands []*c17N
				for k := range slots {
					child := *slots[k]
					if c17IsFunctionValued(child) {
						// hoist THROUGH a lambda: its body forms instead of the function value
						if child.head() == "lambda" && !tmpl {
							for _, b := range child.L[2:] {
								if !c17IsFunctionValued(b) {
									cands = append(cands, b)
								}
							}
						}
						continue
					}
					cands = append(cands, child)
				}
				for _, child := range cands {
					cand := cur.clone()
					cp, _ := c17NodeAt(&cand.Files[f][i], path, false)
					*cp = child.clone()
					if try(cand) {
						reduced, progress = true, true
						break
					}
				}
			}
			// 2. replace by the literal 0
			if !reduced && !tmpl {
				cand := cur.clone()
				cp, _ := c17NodeAt(&cand.Files[f][i], path, false)
				*cp = c17Int(0)
				if try(cand) {
					reduced, progress = true, true
				}
			}
		}
		if reduced {
			queue = append([][]int{path}, queue...)
			continue
		}
		// 3. delete one element of variadic parts
		if n.IsL && !n.Q {
			if s.deleteElems(curp, f, i, path, try) {
				progress = true
				queue = append([][]int{path}, queue...)
				continue
			}
		}
		for k := range slots {
			queue = append(queue, append(append([]int(nil), path...), k))
		}
	}
	return progress
}

// deleteElems tries to delete single body forms, bindings, clauses, arguments.
func (s *c17Shrinker) deleteElems(curp **c17Case, f, i int, path []int, try func(*c17Case) bool) bool {
	cur := *curp
	np, tmpl := c17NodeAt(&cur.Files[f][i], path, false)
	if np == nil {
		return false
	}
	n := *np
	h := n.head()
	type target struct {
		list func(*c17N) *[]*c17N
		from int
		min  int
	}
	var ts []target
	self := func(x *c17N) *[]*c17N { return &x.L }
	second := func(x *c17N) *[]*c17N {
		if len(x.L) > 1 && x.L[1].IsL {
			return &x.L[1].L
		}
		return nil
	}
	switch {
	case tmpl:
		return false
	case h == "defun" || h == "defmacro":
		ts = append(ts, target{self, 3, 5})
	case h == "lambda" || h == "dotimes":
		ts = append(ts, target{self, 2, 4})
	case h == "let" || h == "let*" || h == "flet" || h == "labels" || h == "macrolet" || h == "handler-bind":
		ts = append(ts, target{self, 2, 4}, target{second, 0, 1})
	case h == "cond":
		ts = append(ts, target{self, 1, 3})
	case h == "export":
		ts = append(ts, target{self, 1, 3})
	case h == "progn" || h == "+" || h == "list" || h == "debug-print":
		ts = append(ts, target{self, 1, 3})
	case h == "quasiquote" || h == "unquote" || h == "unquote-splicing" || h == "quote" || h == "function" ||
		h == "in-package" || h == "use-package" || h == "set" || h == "set!" || h == "if" || h == "thread-first":
		return false
	default:
		// ordinary call: drop an argument (only survives when the callee takes optional/rest arguments)
		if n.Br {
			return false
		}
		ts = append(ts, target{self, 1, 2})
	}
	for _, t := range ts {
		l := t.list(n)
		if l == nil {
			continue
		}
		for k := t.from; k < len(*l) && len(*l) >= t.min; k++ {
			if s.probes >= s.max {
				return false
			}
			cand := cur.clone()
			cp, _ := c17NodeAt(&cand.Files[f][i], path, false)
			cl := t.list(*cp)
			*cl = append((*cl)[:k:k], (*cl)[k+1:]...)
			if try(cand) {
				return true
			}
		}
	}
	return false
}

// ---- key derivation ---------------------------------------------------------------

var c17GenericHeads = map[string]bool{
	"defun": true, "let": true, "let*": true, "lambda": true, "flet": true, "labels": true,
	"dotimes": true, "set": true, "set!": true, "funcall": true, "apply": true, "map": true,
	"function": true, "cond": true,
}

var c17SpecificHeads = map[string]bool{
	"defmacro": true, "macrolet": true, "quasiquote": true,
	"in-package": true, "use-package": true, "export": true, "handler-bind": true, "error": true,
	"thread-first": true, "lisp:expr": true,
}

type c17Sig struct {
	heads     map[string]bool
	flags     map[string]bool
	defsByPkg map[string]map[string]bool
	// tmpl: what the quasiquote templates of the top-level defmacros name
	// (c17TemplateShape); kept apart from flags so that keyPart is unchanged
	tmpl map[string]bool
	// redef: the class of a session in which a name is defined more than once in
	// one file and none of these names has the shape of defect D8 (c17RedefFamily)
	redef string
}

// c17TemplateShape describes the symbols that the quasiquote templates of the
// session's top-level defmacros mention outside unquote:
//
//	spells-macro-local        a template symbol is spelled like a parameter of the macro or a
//	                          local bound by the macro's body (the shape of defect D5)
//	names-global              a template symbol is spelled like a package-level definition of the session
//	names-global-of-another-package   ... that the macro's own package does not define
//	names-global-in-bracket-list      ... and the occurrence lies inside a [...] list
func c17TemplateShape(c *c17Case, defsByPkg map[string]map[string]bool) map[string]bool {
	out := map[string]bool{}
	type occ struct {
		name, pkg string
		br        bool
	}
	var occs []occ
	var tmplWalk func(n *c17N, pkg string, br bool, locals map[string]bool)
	tmplWalk = func(n *c17N, pkg string, br bool, locals map[string]bool) {
		if n == nil {
			return
		}
		if n.isAtom() {
			if len(n.A) == 0 || n.A[0] == '"' || n.A[0] == ':' || n.A[0] == '&' || c17IsInt(n.A) || n.Q {
				return
			}
			if p, _ := c17SplitQual(n.A); p != "" {
				return
			}
			if locals[n.A] {
				out["spells-macro-local"] = true
				return
			}
			occs = append(occs, occ{n.A, pkg, br})
			return
		}
		if n.Q {
			return
		}
		if h := n.head(); !n.Br && (h == "unquote" || h == "unquote-splicing" || h == "quote") {
			return
		}
		for _, x := range n.L {
			tmplWalk(x, pkg, br || n.Br, locals)
		}
	}
	var bodyWalk func(n *c17N, pkg string, locals map[string]bool)
	bodyWalk = func(n *c17N, pkg string, locals map[string]bool) {
		if n == nil || !n.IsL || n.Q {
			return
		}
		switch n.head() {
		case "quasiquote":
			if len(n.L) > 1 {
				tmplWalk(n.L[1], pkg, false, locals)
			}
			return
		case "let", "let*":
			if len(n.L) > 1 && n.L[1].IsL {
				for _, b := range n.L[1].L {
					if b.IsL && len(b.L) > 0 && b.L[0].isAtom() {
						locals[b.L[0].A] = true
					}
				}
			}
		}
		for _, x := range n.L {
			bodyWalk(x, pkg, locals)
		}
	}
	for _, f := range c.Files {
		pkg := "user"
		for _, top := range f {
			switch top.head() {
			case "in-package":
				if len(top.L) > 1 {
					pkg = strings.Trim(top.L[1].A, "\"")
				}
			case "defmacro":
				if len(top.L) > 3 && top.L[2].IsL {
					locals := map[string]bool{}
					for _, p := range top.L[2].L {
						if p.isAtom() && !strings.HasPrefix(p.A, "&") {
							locals[p.A] = true
						}
					}
					// locals of the macro body are collected before the templates are read
					for _, x := range top.L[3:] {
						bodyWalk(x, pkg, locals)
					}
				}
			}
		}
	}
	for _, o := range occs {
		pk := defsByPkg[o.name]
		if len(pk) == 0 {
			continue
		}
		out["names-global"] = true
		if !pk[o.pkg] {
			out["names-global-of-another-package"] = true
		}
		if o.br {
			out["names-global-in-bracket-list"] = true
		}
	}
	return out
}

func c17Signature(c *c17Case) *c17Sig {
	s := &c17Sig{heads: map[string]bool{}, flags: map[string]bool{}, defsByPkg: map[string]map[string]bool{}}
	nonEmpty := 0
	bound := map[string]bool{}
	defFile := map[string]int{}
	curFile := 0
	noteDef := func(name, pkg string) {
		if s.defsByPkg[name] == nil {
			s.defsByPkg[name] = map[string]bool{}
		}
		if s.defsByPkg[name][pkg] {
			if defFile[pkg+":"+name] != curFile {
				s.flags["name-defined-in-two-files-of-one-package"] = true
			} else {
				s.flags["name-defined-twice-in-one-file"] = true
			}
		}
		defFile[pkg+":"+name] = curFile
		s.defsByPkg[name][pkg] = true
	}
	var visit func(n *c17N, quoted bool)
	params := func(l *c17N) {
		if l == nil || !l.IsL {
			return
		}
		for _, p := range l.L {
			if p.isAtom() {
				if strings.HasPrefix(p.A, "&") {
					s.flags[p.A] = true
				} else {
					bound[p.A] = true
				}
			}
		}
	}
	visit = func(n *c17N, quoted bool) {
		if n == nil {
			return
		}
		if n.isAtom() {
			if len(n.A) == 0 || n.A[0] == '"' || c17IsInt(n.A) {
				return
			}
			if n.A[0] == ':' {
				if !quoted && n.A != ":else" {
					s.flags["keyword"] = true
				}
				return
			}
			if n.Q && !quoted && n.A != "list" && n.A != "vector" {
				s.flags["quoted-data"] = true
			}
			if n.Fn {
				s.heads["function"] = true
			}
			if p, _ := c17SplitQual(n.A); p != "" && !quoted && !n.Q {
				s.flags["qualified-name"] = true
			}
			return
		}
		if n.Q && !quoted {
			s.flags["quoted-data"] = true
		}
		if quoted || n.Q {
			for _, x := range n.L {
				visit(x, true)
			}
			return
		}
		if n.Br {
			s.flags["bracket-list"] = true
		}
		if n.Px {
			s.heads["lisp:expr"] = true
		}
		h := n.head()
		if c17GenericHeads[h] || c17SpecificHeads[h] {
			s.heads[h] = true
		}
		switch h {
		case "in-package", "use-package", "export":
			return
		case "quote":
			s.flags["quoted-data"] = true
			return
		case "set":
			if len(n.L) > 1 && n.L[1].isAtom() {
				bound[n.L[1].A] = true
			}
			for _, x := range n.L[2:] {
				visit(x, false)
			}
			return
		case "defun", "defmacro":
			if len(n.L) > 2 {
				bound[n.L[1].A] = true
				params(n.L[2])
				if len(n.L) > 4 && n.L[3].isAtom() && strings.HasPrefix(n.L[3].A, "\"") {
					s.flags["docstring"] = true
				}
				for _, x := range n.L[3:] {
					visit(x, false)
				}
			}
			return
		case "lambda":
			if len(n.L) > 1 {
				params(n.L[1])
				for _, x := range n.L[2:] {
					visit(x, false)
				}
			}
			return
		case "let", "let*":
			if len(n.L) > 1 && n.L[1].IsL {
				if n.L[1].Br {
					s.flags["bracket-list"] = true
				}
				for _, b := range n.L[1].L {
					if b.IsL && len(b.L) > 0 && b.L[0].isAtom() {
						if b.Br {
							s.flags["bracket-list"] = true
						}
						bound[b.L[0].A] = true
						for _, x := range b.L[1:] {
							visit(x, false)
						}
					}
				}
			}
			for _, x := range n.L[2:] {
				visit(x, false)
			}
			return
		case "flet", "labels", "macrolet":
			if len(n.L) > 1 && n.L[1].IsL {
				if n.L[1].Br {
					s.flags["bracket-list"] = true
				}
				for _, b := range n.L[1].L {
					if b.IsL && len(b.L) > 1 && b.L[0].isAtom() {
						if b.Br {
							s.flags["bracket-list"] = true
						}
						bound[b.L[0].A] = true
						params(b.L[1])
						for _, x := range b.L[2:] {
							visit(x, false)
						}
					}
				}
			}
			for _, x := range n.L[2:] {
				visit(x, false)
			}
			return
		case "dotimes":
			if len(n.L) > 1 && n.L[1].IsL && len(n.L[1].L) > 0 {
				bound[n.L[1].L[0].A] = true
				for _, x := range n.L[1].L[1:] {
					visit(x, false)
				}
			}
			for _, x := range n.L[2:] {
				visit(x, false)
			}
			return
		case "handler-bind":
			if len(n.L) > 1 && n.L[1].IsL {
				for _, b := range n.L[1].L {
					if b.IsL {
						for _, x := range b.L[1:] {
							visit(x, false)
						}
					}
				}
			}
			for _, x := range n.L[2:] {
				visit(x, false)
			}
			return
		case "error":
			for _, x := range n.L[1:] {
				if !(x.isAtom() && x.Q) {
					visit(x, false)
				}
			}
			return
		}
		for _, x := range n.L {
			visit(x, false)
		}
	}
	for fi, f := range c.Files {
		curFile = fi
		if len(f) > 0 {
			nonEmpty++
		}
		pkg := "user"
		for _, top := range f {
			switch top.head() {
			case "in-package":
				if len(top.L) > 1 {
					pkg = strings.Trim(top.L[1].A, "\"")
				}
			case "defun", "defmacro", "set":
				if len(top.L) > 1 && top.L[1].isAtom() {
					noteDef(top.L[1].A, pkg)
				}
			case "let", "let*", "progn":
				if c17ContainsHead(top, "defun") {
					s.flags["defun-inside-toplevel-let"] = true
				}
			}
			visit(top, false)
		}
	}
	if nonEmpty > 1 {
		s.flags["multi-file"] = true
	}
	for _, pk := range s.defsByPkg {
		if len(pk) > 1 {
			s.flags["same-name-in-two-packages"] = true
		}
	}
	for name := range bound {
		for _, b := range c17ShadowableBuiltins {
			if b == name {
				s.flags["builtin-name-rebound"] = true
			}
		}
	}
	s.tmpl = c17TemplateShape(c, s.defsByPkg)
	if s.flags["name-defined-twice-in-one-file"] {
		s.redef = c17RedefFamily(c)
	}
	return s
}

func c17IsInt(s string) bool {
	if s == "" {
		return false
	}
	i := 0
	if s[0] == '-' || s[0] == '+' {
		if len(s) == 1 {
			return false
		}
		i = 1
	}
	for ; i < len(s); i++ {
		if s[i] < '0' || s[i] > '9' {
			return false
		}
	}
	return true
}

func c17ContainsHead(n *c17N, h string) bool {
	found := false
	c17Walk(n, false, func(x *c17N, q bool) {
		if !q && x.head() == h {
			found = true
		}
	})
	return found
}

// c17Walk visits every node; quoted is true inside quoted data.
func c17Walk(n *c17N, quoted bool, f func(*c17N, bool)) {
	if n == nil {
		return
	}
	f(n, quoted)
	q := quoted || n.Q || n.head() == "quote"
	for _, x := range n.L {
		c17Walk(x, q, f)
	}
}

func (s *c17Sig) keyPart() string {
	var spec, gen []string
	for h := range s.heads {
		if c17SpecificHeads[h] {
			spec = append(spec, h)
		} else {
			gen = append(gen, h)
		}
	}
	for f := range s.flags {
		if strings.HasPrefix(f, "&") || f == "keyword" {
			continue // parameter-list shape: reported in the summary, not part of the key
		}
		spec = append(spec, f)
	}
	sort.Strings(spec)
	sort.Strings(gen)
	if len(spec) > 0 {
		return strings.Join(spec, "+")
	}
	if len(gen) > 0 {
		return strings.Join(gen, "+")
	}
	return "plain"
}

// family names the input class of a shrunk program when it shows one of the
// recognisable shapes; "" = not recognised (the raw signature is used).  The
// order is a priority: the first shape present wins, so that incidental
// leftovers of shrinking (an in-package form, a wrapping macro) do not split
// one input class over many keys.
func (s *c17Sig) family() string {
	fl, hd := s.flags, s.heads
	switch {
	case fl["defun-inside-toplevel-let"]:
		return "defun-inside-toplevel-let"
	case fl["name-defined-twice-in-one-file"]:
		// D8 covers a reference that may be evaluated between the definitions and a
		// mention in the defining file after a defun was replaced by a set; a name
		// defined more than once and referenced only where the last definition is
		// the live one is an input class of its own (one per sequence of kinds)
		if s.redef != "" {
			return s.redef
		}
		return "name-defined-twice-in-one-file"
	case fl["name-defined-in-two-files-of-one-package"]:
		return "name-defined-in-two-files-of-one-package"
	case hd["defmacro"] && hd["quasiquote"] && !hd["macrolet"] && s.tmpl["names-global"] && !s.tmpl["spells-macro-local"]:
		// A defmacro template that names package-level definitions and has NOT the
		// shape of D5 (no template symbol is spelled like a parameter or local of the
		// macro): the input class is where the named global lives and how the
		// template writes the occurrence.  Asked before the export / use-package
		// families: they are the incidental way the macro reaches its user.
		fam := "defmacro-template-names-global"
		if s.tmpl["names-global-of-another-package"] {
			fam += "-of-another-package"
		}
		if s.tmpl["names-global-in-bracket-list"] {
			fam += "-in-bracket-list"
		}
		return fam
	case hd["export"] && hd["use-package"] && fl["builtin-name-rebound"]:
		return "export+use-package+builtin-name"
	case hd["export"] && hd["use-package"] && fl["multi-file"]:
		return "export+use-package-across-files"
	case hd["export"] && hd["use-package"]:
		return "export+use-package-in-one-file"
	case fl["bracket-list"] && fl["qualified-name"]:
		return "qualified-name-inside-bracket-list"
	case hd["macrolet"]:
		return "macrolet-template"
	case hd["defmacro"] && hd["quasiquote"]:
		return "defmacro-template"
	case hd["quasiquote"]:
		return "quasiquote-data"
	case fl["same-name-in-two-packages"]:
		return "same-name-in-two-packages"
	}
	return ""
}

// c17SplitAtImporter rewrites a one-file case so that the package that calls
// use-package starts a second file (nil if the shape does not allow it).
func c17SplitAtImporter(c *c17Case) *c17Case {
	if len(c.Files) != 1 {
		return nil
	}
	f := c.Files[0]
	up := -1
	for i, t := range f {
		if t.head() == "use-package" {
			up = i
			break
		}
	}
	if up < 0 {
		return nil
	}
	if up == 0 {
		return nil
	}
	cur := "user"
	for _, t := range f[:up] {
		if t.head() == "in-package" && len(t.L) > 1 {
			cur = strings.Trim(t.L[1].A, "\"")
		}
	}
	out := c.clone()
	g := out.Files[0]
	cut := up
	var second []*c17N
	if g[up-1].head() == "in-package" {
		cut = up - 1
		if cut == 0 {
			return nil
		}
	} else if cur != "user" {
		second = append(second, c17Call("in-package", c17QSym(cur)))
	}
	second = append(second, g[cut:]...)
	out.Files = [][]*c17N{g[:cut:cut], second}
	out.Paths = []string{"f1.lisp", "f2.lisp"}
	return out
}

// c17CollisionRole inspects the shrunk ORIGINAL program for symbol tokens that
// are spelled like a name the minifier assigned to something else, and says in
// which syntactic role such a token occurs.  "" = no collision in the program.
func c17CollisionRole(c *c17Case, assigned map[string]string) (role string, name string) {
	roles := map[string]string{}
	setRole := func(n, r string) {
		if back, ok := assigned[n]; !ok || back == n {
			return
		}
		prio := map[string]int{"global-set-name": 9, "macro-name": 8, "exported-name": 7, "excluded-name": 6, "qualified-reference": 5,
			"preserved-parameter": 4, "template-symbol": 3, "macrolet-body-symbol": 3, "quoted-data": 1, "plain-reference-or-binder": 0}
		if old, ok := roles[n]; !ok || prio[r] > prio[old] {
			roles[n] = r
		}
	}
	excl := map[string]bool{}
	for _, e := range c.Cfg.Excl {
		excl[e] = true
	}
	var visit func(n *c17N, ctx string)
	visit = func(n *c17N, ctx string) {
		if n == nil {
			return
		}
		if n.isAtom() {
			if len(n.A) == 0 || n.A[0] == '"' || n.A[0] == ':' {
				return
			}
			p, b := c17SplitQual(n.A)
			r := ctx
			switch {
			case n.Q && ctx != "set-name" && ctx != "export-name":
				r = "quoted-data"
			case excl[b]:
				r = "excluded-name"
			case p != "":
				r = "qualified-reference"
			}
			switch r {
			case "set-name":
				r = "global-set-name"
			case "export-name":
				if !c.Cfg.RenameExports {
					r = "exported-name"
				} else {
					r = "plain-reference-or-binder"
				}
			case "param":
				if c.Cfg.PreserveParams {
					r = "preserved-parameter"
				} else {
					r = "plain-reference-or-binder"
				}
			case "", "other":
				r = "plain-reference-or-binder"
			}
			setRole(b, r)
			return
		}
		if n.Q {
			for _, x := range n.L {
				visit(x, "quoted-data")
			}
			return
		}
		if ctx == "quoted-data" || ctx == "template-symbol" || ctx == "macrolet-body-symbol" {
			h := n.head()
			if ctx != "quoted-data" && (h == "unquote" || h == "unquote-splicing") {
				for _, x := range n.L[1:] {
					visit(x, "")
				}
				return
			}
			for _, x := range n.L {
				visit(x, ctx)
			}
			return
		}
		h := n.head()
		switch h {
		case "set":
			if len(n.L) > 1 {
				visit(n.L[1], "set-name")
			}
			for _, x := range n.L[2:] {
				visit(x, "")
			}
		case "export":
			for _, x := range n.L[1:] {
				visit(x, "export-name")
			}
		case "defmacro":
			if len(n.L) > 1 {
				setRole(n.L[1].A, "macro-name")
			}
			if len(n.L) > 2 && n.L[2].IsL {
				for _, x := range n.L[2].L {
					visit(x, "param")
				}
			}
			for _, x := range n.L[3:] {
				visit(x, "")
			}
		case "defun", "lambda":
			k := 1
			if h == "defun" {
				if len(n.L) > 1 {
					visit(n.L[1], "other")
				}
				k = 2
			}
			if len(n.L) > k && n.L[k].IsL {
				for _, x := range n.L[k].L {
					visit(x, "param")
				}
			}
			for _, x := range n.L[k+1:] {
				visit(x, "")
			}
		case "flet", "labels", "macrolet":
			if len(n.L) > 1 && n.L[1].IsL {
				for _, b := range n.L[1].L {
					if !b.IsL {
						continue
					}
					if len(b.L) > 0 {
						visit(b.L[0], "other")
					}
					if len(b.L) > 1 && b.L[1].IsL {
						for _, x := range b.L[1].L {
							if h == "macrolet" {
								visit(x, "macrolet-body-symbol")
							} else {
								visit(x, "param")
							}
						}
					}
					for _, x := range b.L[2:] {
						if h == "macrolet" {
							visit(x, "macrolet-body-symbol")
						} else {
							visit(x, "")
						}
					}
				}
			}
			for _, x := range n.L[2:] {
				visit(x, "")
			}
		case "quasiquote":
			for _, x := range n.L[1:] {
				visit(x, "template-symbol")
			}
		case "quote":
			for _, x := range n.L[1:] {
				visit(x, "quoted-data")
			}
		case "handler-bind":
			if len(n.L) > 1 && n.L[1].IsL {
				for _, b := range n.L[1].L {
					if b.IsL && len(b.L) > 0 {
						visit(b.L[0], "quoted-data")
						for _, x := range b.L[1:] {
							visit(x, "")
						}
					}
				}
			}
			for _, x := range n.L[2:] {
				visit(x, "")
			}
		default:
			for _, x := range n.L {
				visit(x, "")
			}
		}
	}
	for _, f := range c.Files {
		for _, top := range f {
			visit(top, "")
		}
	}
	if len(roles) == 0 {
		return "", ""
	}
	var names []string
	for n := range roles {
		names = append(names, n)
	}
	sort.Strings(names)
	best := names[0]
	return roles[best], best
}

// c17RenameToken returns a copy of the case with every symbol token spelled
// `from` (also as the name part of a qualified symbol, in quoted data and in
// the exclusion list) respelled `to`: an alpha-renaming of the ORIGINAL.
func c17RenameToken(c *c17Case, from, to string) *c17Case {
	out := c.clone()
	var walk func(n *c17N)
	walk = func(n *c17N) {
		if n.isAtom() {
			if len(n.A) > 0 && n.A[0] != '"' && n.A[0] != ':' {
				p, b := c17SplitQual(n.A)
				if b == from {
					if p != "" {
						n.A = p + ":" + to
					} else {
						n.A = to
					}
				}
			}
			return
		}
		for _, x := range n.L {
			walk(x)
		}
	}
	for _, f := range out.Files {
		for _, t := range f {
			walk(t)
		}
	}
	for i, e := range out.Cfg.Excl {
		if e == from {
			out.Cfg.Excl[i] = to
		}
	}
	return out
}
