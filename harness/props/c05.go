package props

import (
	"context"
	"fmt"
	"strings"
	"time"

	"github.com/luthersystems/elps/lisp"

	"verifharness/fw"
	"verifharness/rt"
)

// C05 — a runtime is left clean after every top-level evaluation.
//
// One long-lived runtime per history.  Every step enters through one of the
// exported entry points; a random subset fails (error, type/arity error, limit
// errors, step budget exhausted at a chosen step index, scripted cancellation,
// host panics in several positions, errors inside handlers, in-package followed
// by a failure in a nested load).  After EVERY return the invariants are
// asserted on the live runtime, and a fixed probe program is compared with a
// twin runtime that only received the effects whose completion probes fired.
// The contexts the evaluations run under, when those end, and the definitions
// that outlive them are the second dimension of a history: see c05_ctx.go.
// The cases after the histories sweep every limit over a window of values for
// generated recursion shapes (which push trips the limit): see c05_sweep.go.

func init() {
	fw.Register(&fw.Prop{
		ID:    "C05",
		Level: "fault_enumeration",
		Rule: "histories of 12-40 top-level evaluations in one runtime through every exported entry point (Load*, Load*Context, LoadProgram, Eval, EvalContext, EvalSExpr, FunCall, FunCallContext, MacroCall, SpecialOpCall, lisp load-string/load-bytes), " +
			"a random subset failing by 29 fault kinds incl. a step budget exhausted at an enumerated step index, cancellation at an enumerated step index and a real context cancelled by the host at an enumerated effect; " +
			"evaluations define functions, closures and macros (bodies through special operators and re-entrant builtins) under scripted and real contexts (WithCancel, WithDeadline, children of a parent) that end mid-evaluation, right after the return or later in the history, and later steps call them through every entry point without a context or under a fresh one; " +
			"invariants asserted after every return, no context-cancelled condition out of an evaluation whose own context is absent or live, no question put to the context of a finished evaluation, and a context-free probe program (prints and calls every definition) compared with a twin runtime that replays only completed effects. " +
			"After the histories, limit sweeps: generated recursion shapes (cycles of 1-3 functions, the recursive call wrapped in up to four forms drawn from functions, special operators, user macros, builtin macros and callbacks) fail in one runtime under EVERY value of a 13-wide window of one limit (physical height, logical height, evaluator nesting, tail iterations, macro expansion depth; several window positions incl. very small limits), through every entry point, bare / in argument position / swallowed / under a macro or a callback, so that the refused push is a function frame, an operator frame and a macro frame in turn; same assertions and twin probe after every return; a scout runtime labels which frame the physical limit refuses. " +
			"distinct_nontrivial counts distinct (entry point, fault kind, fault position class, outcome condition) combinations observed, plus (limit, entry point, surrounding form, refused frame kind, outcome) of the sweeps",
		Assumptions: []string{
			"effects in the workload are atomic statements each followed by a completion probe, so 'completed' is read off the effect trace",
			"the twin runtime is driven through plain LoadString without faults",
		},
		Cases:       func(tier string) int { return c05HistCases(tier) + c05SweepCases(tier) },
		Run:         c05Run,
		Driver:      c05Driver,
		MinDistinct: func(tier string) int { return pick(tier, 150, 250) },
	})
}

// scriptedCtx is a context whose Err() starts failing at its k-th call: since
// the evaluator asks once per step this is "cancel at step index k" with no
// wall clock.  Done() is closed at the same moment.
//
// Once the evaluation it was given to has returned the host marks it finished:
// like a real context it then changes state no more, and every further question
// put to it is counted in late - nobody has any business with the context of a
// finished evaluation.
type scriptedCtx struct {
	context.Context
	calls, at int
	done      chan struct{}
	closed    bool
	finished  bool
	late      int
}

func newScriptedCtx(at int) *scriptedCtx {
	return &scriptedCtx{Context: context.Background(), at: at, done: make(chan struct{})}
}

func (c *scriptedCtx) Err() error {
	if c.finished {
		c.late++
		if c.closed {
			return context.Canceled
		}
		return nil
	}
	c.calls++
	if c.at > 0 && c.calls >= c.at {
		if !c.closed {
			c.closed = true
			close(c.done)
		}
		return context.Canceled
	}
	return nil
}
func (c *scriptedCtx) Done() <-chan struct{}       { return c.done }
func (c *scriptedCtx) Deadline() (time.Time, bool) { return time.Time{}, false }
func (c *scriptedCtx) Value(key any) any           { return nil }

var c05Entries = []string{"LoadString", "LoadStringContext", "Load", "LoadContext", "LoadProgram", "LoadProgramContext", "Eval", "EvalContext", "EvalSExpr",
	"FunCall", "FunCallContext", "MacroCall", "SpecialOpCall", "lisp-load-string", "lisp-load-bytes"}

var c05Faults = []string{"none", "none", "error", "type-error", "arity-error", "unbound", "stack-limit", "nesting-limit", "macro-limit", "step-budget", "cancel",
	"panic-arg", "panic-in-handler", "panic-under-ignore-errors", "panic-in-map", "panic-in-macro", "error-in-handler", "in-package-then-fail", "rethrow-outside", "tail-iter-limit",
	"empty-source", "cancel-host", "cross-package-fail-mid", "cross-package-fail-mid-swallowed", "cross-package-macro-fail-mid", "bad-handler", "bad-handler-swallowed", "fail-in-binding-form", "panic-direct-callback", "cross-package-empty-body"}

// c05Effect returns the k-th effect statement of a step (atomic, followed by a
// completion probe) and the same statement without probe for the twin.
func c05Effect(r *fw.RNG, tag string) (main, twin string) {
	g := r.Intn(6) + 1
	var st string
	switch r.Intn(12) {
	case 0:
		st = fmt.Sprintf("(set 'g%d %d)", g, r.Intn(1000))
	case 1:
		st = fmt.Sprintf("(set 'g%d (list %d (quote %s)))", g, r.Intn(100), fw.Pick(r, []string{"a", "b", "c"}))
	case 2:
		st = fmt.Sprintf("(assoc! gm \"k%d\" %d)", r.Intn(4), r.Intn(100))
	case 3:
		st = fmt.Sprintf("(append! gv %d)", r.Intn(100))
	case 4:
		st = fmt.Sprintf("(defun f%d (x) (+ x %d))", r.Intn(3)+1, r.Intn(50))
	case 5:
		st = fmt.Sprintf("(set 'g%d (sorted-map \"n\" %d))", g, r.Intn(100))
	case 6, 7, 8:
		// a function, closure or macro whose body re-enters the evaluator (c05_ctx.go)
		st = c05Definition(r)
	default:
		// a call of what earlier evaluations defined
		st = c05Use(r)
	}
	return fmt.Sprintf("(verif:probe '%s %s)", tag, st), st
}

// c05FaultForm returns a form that fails in the requested way.
func c05FaultForm(kind string, r *fw.RNG) string {
	switch kind {
	case "error":
		return "(error 'my-failure 1 2)"
	case "type-error":
		return fw.Pick(r, []string{"(car 5)", "(+ 1 \"x\")", "(nth '(1) -1)", "(length 3)"})
	case "arity-error":
		return fw.Pick(r, []string{"(car)", "(cons 1)", "(f1)", "(if 1 2)"})
	case "unbound":
		return "(no-such-function 1)"
	case "stack-limit":
		return "(labels ((deep (n) (+ 1 (deep (+ n 1))))) (deep 0))"
	case "tail-iter-limit":
		return "(labels ((spin (n) (spin (+ n 1)))) (spin 0))"
	case "nesting-limit":
		return "(nest-m 700)"
	case "macro-limit":
		return "(forever-m)"
	case "panic-arg":
		return "(list 1 (verif:panic) 3)"
	case "panic-in-handler":
		return "(handler-bind ((condition (lambda (c &rest a) (verif:panic)))) (error 'x))"
	case "panic-under-ignore-errors":
		return "(ignore-errors (progn (verif:nilmap) 1))"
	case "panic-in-map":
		return "(map 'list (lambda (x) (if (= x 2) (verif:panic) x)) '(1 2 3))"
	case "panic-in-macro":
		return "(panic-m 1)"
	case "error-in-handler":
		return "(handler-bind ((condition (lambda (c &rest a) (handler-bind ((condition (lambda (c2 &rest b) (error 'third)))) (error 'second))))) (error 'first))"
	case "in-package-then-fail":
		return "(load-string \"(in-package 'other-pkg) (set 'leak 1) (error 'inner-failure)\")"
	case "rethrow-outside":
		return "(rethrow)"
	case "cross-package-fail-mid":
		// a function of ANOTHER package fails in a non-final body form
		return fw.Pick(r, []string{"(other-pkg:fail-mid 1)", "(other-pkg:fail-mid-deep 2)", "(list 1 (other-pkg:fail-mid 3))"})
	case "cross-package-macro-fail-mid":
		return "(other-pkg:mac-fail-mid 1)"
	case "panic-direct-callback":
		// the panicking host function is itself the callee a builtin invokes (no lisp
		// frame in between whose evaluation would recover the panic first)
		// (always inside a progn: EvalSExpr, FunCall, SpecialOpCall and MacroCall are the
		// low-level call steps and recover nothing themselves - a host function that
		// panics when the HOST calls it through them directly panics in the host; the
		// recovery the documentation promises is that of evaluation, which begins at
		// the first form evaluated inside)
		return "(progn " + fw.Pick(r, []string{"(map 'list verif:panic '(1 2))", "(funcall verif:panic 1)", "(apply verif:panic '(1))", "(foldl verif:panic 0 '(1 2))", "(select 'list verif:panic '(1 2))",
			"(funcall verif:nilmap)", "(stable-sort verif:panic (list 2 1))", "(f1 (map 'vector verif:panic (vector 1)))", "(unpack verif:panic '(1 2))", "(handler-bind ((my-err (lambda (c &rest a) 0))) (funcall verif:panic))",
			"(all? verif:panic '(1))", "(reject 'list verif:panic '(1))", "(run-thunk verif:nilmap)"}) + ")"
	case "bad-handler":
		// the clause that matches has a handler expression that fails or is not a function
		return fw.Pick(r, []string{"(handler-bind ((condition no-such-handler)) (error 'x \"boom\"))", "(handler-bind ((x 42)) (error 'x 1))",
			"(handler-bind ((a (lambda (&rest e) 1)) (b (car 5))) (error 'b 1))", "(f1 (handler-bind ((condition (run-thunk (lambda () 'not-a-function)))) (car 5)))",
			"(handler-bind ((condition (lambda (c &rest a) (handler-bind ((condition 7)) (error 'second))))) (error 'first))"})
	case "fail-in-binding-form":
		// failures inside the parts of binding and control forms that are not plain bodies
		return fw.Pick(r, []string{"(let ([a 1] [b (car 5)]) a)", "(let* ([a 1] [b (car a)]) b)", "(flet ((h (x) (car x))) (h 5))", "(labels ((h (x) (if (= x 0) (car 5) (h (- x 1))))) (list (h 3)))",
			"(dotimes (i (car 5)) i)", "(dotimes (i 3) (if (= i 1) (car 5) i))", "(cond ((car 5) 1) (else 2))", "(macrolet ((m (x) (car 5))) (m 1))", "(funcall (lambda (&optional (a (car 5))) a))",
			"(thread-first 5 (car))", "(foldl (lambda (a x) (car x)) 0 '(1 2))", "(stable-sort (lambda (a b) (car a)) (list 2 1))", "(apply car '(5))", "((lambda (x) (car x)) 5)"})
	}
	return "()"
}

const c05Prelude = `
(set 'g1 0) (set 'g2 0) (set 'g3 0) (set 'g4 0) (set 'g5 0) (set 'g6 0)
(set 'gm (sorted-map)) (set 'gv (vector))
(defun f1 (x) x) (defun f2 (x) x) (defun f3 (x) x)
(set 'h1 (lambda (x) x)) (set 'h2 (lambda (x) x))
(defmacro m1 (x) x) (defmacro m2 (x) x)
(defmacro nest-m (n) (if (<= n 0) 1 (quasiquote (identity (nest-m (unquote (- n 1)))))))
(defmacro forever-m () (quasiquote (forever-m)))
(defmacro panic-m (x) (verif:panic))
(defmacro eff-m (&rest body) (quasiquote (progn (unquote-splicing body))))
(defun run-thunk (f) (funcall f))
(in-package 'other-pkg)
(set 'own 1)
(defun fail-mid (x) (identity own) (car 5) (set 'own -1) x)
(defun fail-mid-deep (x) (let ([y x]) (fail-mid y) y) x)
(defmacro mac-fail-mid (x) (car 5) x)
(defun empty-fn (&rest xs))
(defmacro empty-mac (&rest xs))
(defun doc-only-fn () "only a docstring")
(in-package 'user)
`

// The probe program runs WITHOUT a context.  It prints every definition (a
// function value prints as its source, so the probe tells any two definitions
// apart) and calls each one directly, as a callback and from a handler.
const c05ProbeProgram = `(list other-pkg:own (handler-bind ((condition (lambda (c &rest a) 'none))) other-pkg:g1) g1 g2 g3 g4 g5 g6 gm gv (f1 1) (f2 1) (f3 1) (+ 1 2) (let ([x 5]) (labels ((up (n) (if (<= n 0) x (up (- n 1))))) (up 20)))
 f1 f2 f3 h1 h2 m1 m2 (h1 0) (h1 2) (h2 0) (h2 3) (m1 1) (m2 (f3 2)) (map 'list f2 '(1 7)) (funcall h2 5) (handler-bind ((condition (lambda (c &rest a) (f3 4)))) (error 'boom)))`

// c05NewRuntime builds a runtime under one of several legitimate host configurations
// (a limit switched off is as legitimate as a limit set).
func c05NewRuntime(variant int) *rt.R {
	r := rt.New(c05Opts(variant))
	if v := r.Env.LoadString("prelude", c05Prelude); v.Type == lisp.LError {
		panic("c05 prelude: " + v.String())
	}
	return r
}

// c05Opts is the host configuration of variant.
func c05Opts(variant int) rt.Opts {
	o := rt.Opts{MaxPhys: 300, MaxNest: 600, MaxMacro: 50, MaxTail: 5000}
	switch variant % 4 {
	case 1:
		o.MaxNest = -1 // evaluation-nesting guard disabled
	case 2:
		o.MaxTail = -1 // tail-iteration bound disabled
		o.MaxAlloc = 50_000
	case 3:
		o.MaxNest, o.MaxMacro = 5000, 200
	}
	return o
}

type c05State struct {
	stack, cond, nest, depth int
	pkg                      string
	ctx                      context.Context
}

func c05Snapshot(r *rt.R) c05State {
	rtm := r.Env.Runtime
	return c05State{stack: len(rtm.Stack.Frames), cond: lisp.VerifConditionDepth(rtm), nest: rtm.EvalNesting(), depth: lisp.VerifEvalDepth(rtm),
		pkg: rtm.Package.Name, ctx: lisp.VerifEnvContext(r.Env)}
}

func c05Run(w *fw.W, idx int) {
	if nh := c05HistCases(w.Tier); idx >= nh {
		// the cases after the histories: limit sweeps (c05_sweep.go)
		c05SweepRun(w, idx-nh)
		return
	}
	r := w.RNG(idx, "hist")
	variant := idx / 3
	main := c05NewRuntime(variant)
	twin := c05NewRuntime(variant)
	w.SetAdd("host_configurations", []string{"limits-set", "nesting-guard-off", "tail-bound-off+alloc-cap", "wide-limits"}[variant%4])
	nsteps := r.Range(12, 40)
	var history []string
	before0 := c05Snapshot(main)
	if before0.stack != 0 || before0.nest != 0 || before0.depth != 0 || before0.cond != 0 {
		w.Violation("dirty-after-prelude", fmt.Sprintf("%+v", before0), "")
		return
	}
	// real contexts of this history that are still live, and how the most recent
	// context of the history ended (since the last probe)
	var pending []*c05Life
	lastEnd := "none"
	var scripted []*scriptedCtx // of finished evaluations
	consulted := func() bool {
		for _, sc := range scripted {
			if sc.late > 0 {
				return true
			}
		}
		return false
	}
	defer func() {
		main.OnProbe = nil
		for _, l := range pending {
			l.cleanup()
		}
	}()
	for step := 0; step < nsteps; step++ {
		// the host releases contexts of earlier, finished evaluations at any later time
		keep := pending[:0]
		for _, l := range pending {
			if r.Chance(1, 3) {
				l.finish()
				l.cleanup()
				lastEnd = "released-later"
				w.SetAdd("context_lives", l.kind+"/released-later")
			} else {
				keep = append(keep, l)
			}
		}
		pending = keep
		entry := fw.Pick(r, c05Entries)
		fault := fw.Pick(r, c05Faults)
		if (variant%4 == 1 || variant%4 == 3) && fault == "nesting-limit" {
			fault = "none" // the planted nesting depth only exceeds the limit of the other configurations
		}
		if variant%4 == 2 && fault == "tail-iter-limit" {
			fault = "none"
		}
		if variant%4 == 3 && fault == "macro-limit" {
			fault = "none"
		}
		// build the step's program: effects e0..ek with a fault after position pos
		neff := r.Range(1, 4)
		pos := r.Intn(neff + 1)
		var mainParts, twinParts []string
		tags := make([]string, neff)
		for k := 0; k < neff; k++ {
			tags[k] = fmt.Sprintf("s%d-e%d", step, k)
			m, t := c05Effect(r, tags[k])
			mainParts = append(mainParts, m)
			twinParts = append(twinParts, t)
		}
		faultForm := ""
		swallowed := false
		switch fault {
		case "none", "step-budget", "cancel", "cancel-host", "empty-source":
		case "cross-package-fail-mid-swallowed":
			// the failure is swallowed in the middle of the evaluation: what follows must
			// still run in the caller's package
			swallowed = true
			faultForm = fw.Pick(r, []string{"(ignore-errors (other-pkg:fail-mid 1))", "(handler-bind ((condition (lambda (c &rest a) 'h))) (other-pkg:fail-mid-deep 1))", "(ignore-errors (other-pkg:mac-fail-mid 1))"})
		case "cross-package-empty-body":
			// a function / macro of another package WITHOUT body forms: calling it does
			// nothing, and what follows still runs in the caller's package
			swallowed = true
			faultForm = fw.Pick(r, []string{"(other-pkg:empty-fn 1 2)", "(other-pkg:empty-mac (f1 1) 2)", "(list (other-pkg:empty-fn) (other-pkg:empty-mac))", "(macroexpand '(other-pkg:empty-mac 1))", "(progn (other-pkg:empty-mac) (other-pkg:doc-only-fn))"})
		case "bad-handler-swallowed":
			swallowed = true
			faultForm = "(ignore-errors " + c05FaultForm("bad-handler", r) + ")"
		default:
			faultForm = c05FaultForm(fault, r)
		}
		var seq []string
		for k := 0; k <= neff; k++ {
			if k == pos && faultForm != "" {
				seq = append(seq, faultForm)
			}
			if k < neff {
				seq = append(seq, mainParts[k])
			}
		}
		body := strings.Join(seq, "\n")
		if fault == "empty-source" {
			// a source with no forms at all (empty, blank or comment only)
			body = fw.Pick(r, []string{"", "  \n", "; only a comment\n", "\n\n; c\n"})
			neff, pos, tags, twinParts = 0, 0, nil, nil
		}
		posClass := "middle"
		if pos == 0 {
			posClass = "first"
		} else if pos == neff {
			posClass = "last"
		}

		// limits for this step
		budget := int64(0)
		if fault == "step-budget" {
			budget = int64(r.Range(1, 60))
		}
		lisp.WithMaxSteps(budget)(main.Env)
		var ctx context.Context
		var life *c05Life
		lifeEnd := ""
		switch {
		case fault == "cancel":
			ctx = newScriptedCtx(r.Range(1, 60))
		case fault == "cancel-host":
			// a real context that the HOST ends while the evaluation runs: when the
			// completion probe of the effect before the fault position fires (before
			// the evaluation starts for position 0)
			life, lifeEnd = c05NewLife(r), "cancelled-mid-by-host"
			ctx = life.ctx
			if pos == 0 {
				life.finish()
			} else {
				at, l := tags[pos-1], life
				main.OnProbe = func(tag string) {
					if tag == at {
						l.finish()
					}
				}
			}
		case strings.HasSuffix(entry, "Context"):
			if r.Chance(1, 3) {
				ctx = newScriptedCtx(0) // never cancelled, but counts steps
			} else {
				// a real context that ends after the evaluation returned: at once (the
				// host's `defer cancel()`), at a later point of the history, or never
				life = c05NewLife(r)
				lifeEnd = fw.Pick(r, []string{"released-after-return", "released-after-return", "released-later", "released-later", "kept"})
				ctx = life.ctx
			}
		}

		before := c05Snapshot(main)
		tf, ef := main.Marks()
		v := c05Enter(main, entry, body, ctx, r)
		after := c05Snapshot(main)
		main.OnProbe = nil
		w.Eval(1)
		own := c05OwnState(ctx) // of the context this evaluation was given, at its return
		stale := consulted()
		if sc, ok := ctx.(*scriptedCtx); ok {
			sc.finished = true
			scripted = append(scripted, sc)
			if sc.closed {
				lastEnd = "cancelled-mid-scripted"
			}
		}
		if life != nil {
			switch lifeEnd {
			case "released-after-return":
				life.finish()
				life.cleanup()
				lastEnd = lifeEnd
			case "cancelled-mid-by-host":
				if life.ended {
					lastEnd = lifeEnd
				}
				life.cleanup()
			default:
				pending = append(pending, life)
			}
			if lifeEnd != "released-later" {
				w.SetAdd("context_lives", life.kind+"/"+lifeEnd)
			}
		}
		tr := main.TranscriptOf(v, tf, ef)
		desc := fmt.Sprintf("step %d entry=%s fault=%s@%s budget=%d\n%s\n=> %s", step, entry, fault, posClass, budget, body, tr.Outcome())
		history = append(history, desc)
		w.Logf("%s", desc)

		key := fmt.Sprintf("%s/%s", entry, fault)
		bad := c05Dirty(before, after)
		if bad != "" {
			w.Violation("dirty-runtime:"+c05DirtyClass(bad)+":"+key, bad+" (entry "+entry+", fault "+fault+")", strings.Join(history, "\n---\n"))
			return
		}
		// Cancellation belongs to ONE evaluation: the condition may only come out of
		// an evaluation whose own context has ended - never out of one that was given
		// no context or whose context is live, whatever contexts earlier evaluations
		// of the history ran under and however those ended.
		if tr.IsErr && tr.Cond == lisp.CondContextCancelled && own != "ended" {
			w.Violation("stale-context:step-context-"+own, fmt.Sprintf("entry %s (fault %s) failed with %s although its own context is %s; the last context of the history to end was %s: %s",
				entry, fault, tr.Cond, own, lastEnd, tr.Msg), strings.Join(history, "\n---\n"))
			return
		}
		if stale {
			w.Violation("stale-context:consulted-after-return", fmt.Sprintf("entry %s (fault %s, own context %s) asked the context of an evaluation that had returned before it began", entry, fault, own), strings.Join(history, "\n---\n"))
			return
		}
		// no fault was planted: the step's effects run in the twin, so nothing may fail
		// here that does not fail there
		if tr.IsErr && fault == "none" {
			nf := 0
			for _, p := range tr.Trace {
				for _, tg := range tags {
					if p.Tag == tg {
						nf++
					}
				}
			}
			if nf < neff {
				ok := true
				for k := 0; k <= nf && ok; k++ {
					ok = twin.Env.LoadString("twin", twinParts[k]).Type != lisp.LError
				}
				if ok {
					w.Violation("unplanted-failure:"+entry, fmt.Sprintf("no fault was planted, yet entry %s (own context %s) failed with %s in effect %d, which the fault-free twin completes: %s", entry, own, tr.Cond, nf, tr.Msg),
						strings.Join(history, "\n---\n"))
					return
				}
				w.Violation("twin-replay-failed", "an effect fails by itself (workload error): "+twinParts[nf], strings.Join(history, "\n---\n"))
				return
			}
		}
		// every error must be an ordinary error unless a host panic was injected
		if tr.Panic && !strings.HasPrefix(fault, "panic") {
			w.Violation("unexpected-internal-panic:"+key, "internal-panic without an injected host panic: "+tr.Msg, strings.Join(history, "\n---\n"))
			return
		}

		// The state left behind must be that of a clean stop: SOME prefix of the
		// step's effects was executed, at least those whose completion probe
		// fired, and (for faults planted at a position) exactly the effects
		// before the fault.
		fired := 0
		seen := map[string]bool{}
		for _, p := range tr.Trace {
			seen[p.Tag] = true
		}
		for k, tg := range tags {
			if seen[tg] {
				if k != fired {
					w.Violation("effect-order:"+key, "a later effect completed although an earlier one did not", strings.Join(history, "\n---\n"))
					return
				}
				fired++
			}
		}
		lo, hi := fired, neff
		if swallowed {
			if tr.IsErr {
				w.Violation("swallowed-fault-surfaced:"+key, "an error swallowed by ignore-errors / a handler still failed the evaluation: "+tr.Cond+" "+tr.Msg, strings.Join(history, "\n---\n"))
				return
			}
			lo, hi = neff, neff
		} else if faultForm != "" {
			if tr.IsErr {
				lo, hi = pos, pos
			} else if fault != "panic-under-ignore-errors" && fault != "in-package-then-fail" {
				// the planted fault did not fail the evaluation
				w.Violation("fault-swallowed:"+key, "a planted fault did not surface: "+faultForm, strings.Join(history, "\n---\n"))
				return
			}
		} else if !tr.IsErr {
			lo = neff
		}
		if fired > hi || fired < 0 {
			w.Violation("effects-after-failure:"+key, fmt.Sprintf("%d effects completed but the failure was planted after %d", fired, hi), strings.Join(history, "\n---\n"))
			return
		}
		lisp.WithMaxSteps(0)(main.Env)
		pm := main.Run("probe", c05ProbeProgram)
		w.Eval(1)
		if pm.IsErr && pm.Cond == lisp.CondContextCancelled {
			w.Violation("stale-context:probe:"+lastEnd, fmt.Sprintf("a context-free evaluation that calls the definitions of earlier evaluations failed with %s; the last context of the history to end: %s (after entry %s, fault %s): %s",
				pm.Cond, lastEnd, entry, fault, pm.Msg), strings.Join(history, "\n---\n"))
			return
		}
		if consulted() {
			w.Violation("stale-context:consulted-after-return", fmt.Sprintf("the context-free probe evaluation after entry %s (fault %s) asked the context of an evaluation that had returned before it began", entry, fault), strings.Join(history, "\n---\n"))
			return
		}
		lastEnd = "none"
		applied := 0
		matched := false
		var pt rt.Transcript
		for k := 0; k <= hi; k++ {
			if k > 0 {
				if tv := twin.Env.LoadString("twin", twinParts[k-1]); tv.Type == lisp.LError {
					w.Violation("twin-replay-failed", "replaying an effect failed in the twin: "+tv.String(), strings.Join(history, "\n---\n"))
					return
				}
				applied = k
			}
			if k < lo {
				continue
			}
			pt = twin.Run("probe", c05ProbeProgram)
			w.Eval(1)
			if pm.Outcome() == pt.Outcome() {
				matched = true
				break
			}
		}
		_ = applied
		if !matched {
			w.Violation("later-evaluation-differs:"+key,
				fmt.Sprintf("after entry %s with fault %s the runtime is not in the state of a clean stop (no prefix of the step's effects in [%d,%d] explains it): %s vs twin %s", entry, fault, lo, hi, pm.Outcome()+" "+pm.Msg, pt.Outcome()),
				strings.Join(history, "\n---\n"))
			return
		}
		if s := c05Snapshot(main); s.stack != 0 || s.nest != 0 || s.depth != 0 || s.cond != 0 {
			w.Violation("dirty-runtime:after-probe:"+key, fmt.Sprintf("%+v", s), strings.Join(history, "\n---\n"))
			return
		}
		out := "value"
		if tr.IsErr {
			out = tr.Cond
		}
		w.CoverKey(fmt.Sprintf("%s|%s|%s|%s", entry, fault, posClass, out))
		w.SetAdd("conditions_seen", out)
		w.Count("invariant_checks", 2)
	}
	if w.WantSample() {
		n := len(history)
		if n > 3 {
			n = 3
		}
		w.Sample(map[string]any{"history_first_steps": history[:n], "steps": nsteps})
	}
}

// c05Dirty says what is not clean in the state after a return ("" = clean).
func c05Dirty(before, after c05State) string {
	switch {
	case after.stack != 0:
		return fmt.Sprintf("call stack holds %d frames after return", after.stack)
	case after.cond != 0:
		return fmt.Sprintf("%d condition(s) still pending for rethrow after return", after.cond)
	case after.nest != 0:
		return fmt.Sprintf("evaluator nesting is %d after return", after.nest)
	case after.depth != 0:
		return fmt.Sprintf("entry depth is %d after return", after.depth)
	case after.pkg != before.pkg:
		return fmt.Sprintf("current package changed from %q to %q", before.pkg, after.pkg)
	case after.ctx != before.ctx:
		return fmt.Sprintf("evaluation context of the root environment not restored (was %v, now %v)", before.ctx, after.ctx)
	}
	return ""
}

func c05DirtyClass(bad string) string {
	switch {
	case strings.HasPrefix(bad, "call stack"):
		return "stack"
	case strings.Contains(bad, "pending"):
		return "condition"
	case strings.HasPrefix(bad, "evaluator nesting"):
		return "nesting"
	case strings.HasPrefix(bad, "entry depth"):
		return "entry-depth"
	case strings.HasPrefix(bad, "current package"):
		return "package"
	}
	return "context"
}

// c05Enter runs body through the chosen entry point.
func c05Enter(m *rt.R, entry, body string, ctx context.Context, r *fw.RNG) *lisp.LVal {
	env := m.Env
	bg := ctx
	if bg == nil {
		bg = context.Background()
	}
	parse := func() ([]*lisp.LVal, *lisp.LVal) {
		exprs, err := env.Runtime.Reader.Read("c05", strings.NewReader(body))
		if err != nil {
			return nil, env.Error(err)
		}
		return exprs, nil
	}
	switch entry {
	case "LoadString":
		if ctx != nil {
			return env.LoadStringContext(ctx, "c05", body)
		}
		return env.LoadString("c05", body)
	case "LoadStringContext":
		return env.LoadStringContext(bg, "c05", body)
	case "Load":
		if ctx != nil {
			return env.LoadContext(ctx, "c05", strings.NewReader(body))
		}
		return env.Load("c05", strings.NewReader(body))
	case "LoadContext":
		return env.LoadContext(bg, "c05", strings.NewReader(body))
	case "LoadProgram", "LoadProgramContext":
		p, err := env.ParseProgram("c05", "c05.lisp", strings.NewReader(body))
		if err != nil {
			return env.Error(err)
		}
		if entry == "LoadProgramContext" || ctx != nil {
			return env.LoadProgramContext(bg, p)
		}
		return env.LoadProgram(p)
	case "Eval", "EvalContext", "EvalSExpr":
		exprs, e := parse()
		if e != nil {
			return e
		}
		var v *lisp.LVal = lisp.Nil()
		for _, x := range exprs {
			switch {
			case entry == "EvalContext" || ctx != nil:
				v = env.EvalContext(bg, x)
			case entry == "EvalSExpr" && x.Type == lisp.LSExpr && !x.IsQuoted():
				v = env.EvalSExpr(x)
				for n := 0; v.Type == lisp.LMarkMacExpand && n < 100; n++ {
					// EvalSExpr is the low-level call step: a macro call hands
					// back its expansion for the caller to evaluate
					v = env.Eval(v.Cells[0])
				}
			default:
				v = env.Eval(x)
			}
			if v.Type == lisp.LError {
				return v
			}
		}
		return v
	case "FunCall", "FunCallContext":
		wrapped := "(lambda () " + body + ")"
		f := env.LoadString("c05-thunk", wrapped)
		if f.Type != lisp.LFun {
			return f
		}
		runner := env.GetFunGlobal(lisp.Symbol("run-thunk"))
		if runner.Type == lisp.LError {
			return runner
		}
		if entry == "FunCallContext" || ctx != nil {
			return env.FunCallContext(bg, runner, lisp.SExpr([]*lisp.LVal{f}))
		}
		return env.FunCall(runner, lisp.SExpr([]*lisp.LVal{f}))
	case "MacroCall":
		exprs, e := parse()
		if e != nil {
			return e
		}
		mac := env.GetGlobal(lisp.Symbol("eff-m"))
		if mac.Type != lisp.LFun {
			return mac
		}
		mark := env.MacroCall(mac, lisp.SExpr(exprs))
		if mark.Type == lisp.LError {
			return mark
		}
		if mark.Type != lisp.LMarkMacExpand {
			return env.Errorf("no expansion marker")
		}
		if ctx != nil {
			return env.EvalContext(ctx, mark.Cells[0])
		}
		return env.Eval(mark.Cells[0])
	case "SpecialOpCall":
		exprs, e := parse()
		if e != nil {
			return e
		}
		op := env.GetGlobal(lisp.Symbol("progn"))
		if op.Type != lisp.LFun {
			return op
		}
		v := env.SpecialOpCall(op, lisp.SExpr(exprs))
		return v
	case "lisp-load-string":
		src := "(load-string " + fmt.Sprintf("%q", body) + ")"
		if ctx != nil {
			return env.LoadStringContext(ctx, "c05", src)
		}
		return env.LoadString("c05", src)
	case "lisp-load-bytes":
		src := "(load-bytes (to-bytes " + fmt.Sprintf("%q", body) + "))"
		if ctx != nil {
			return env.LoadStringContext(ctx, "c05", src)
		}
		return env.LoadString("c05", src)
	}
	return env.Errorf("unknown entry")
}
