package props

import (
	"fmt"
	"strings"

	"github.com/luthersystems/elps/lisp"

	"verifharness/fw"
	"verifharness/refint"
	"verifharness/rt"
	"verifharness/sx"
	"verifharness/tree"
)

// C06 — condition handling: handler-bind, ignore-errors, rethrow and the
// host-panic carve-out.  Reference-model monitor over generated nestings, plus
// host-side observation of error identity after rethrow.

func init() {
	fw.Register(&fw.Prop{
		ID:    "C06",
		Level: "exploration",
		Rule: "trees (depth <= 6) of handler-bind (1-4 bindings over the alphabet {a b c2 error condition internal-panic}, any order, duplicates), ignore-errors, progn, let and function calls; the raise site is error, a host-raised error (verif:fail), a type error, a lisp-forged 'internal-panic or a host panic (verif:panic / nil-map write), placed in a body, in a handler expression, inside a handler body, or as rethrow from an inner handler or outside any handler; " +
			"the handler FUNCTION is a lambda, a named function fetched by its symbol or by #'name, a host Go function bound directly (verif:hh-value / hh-fail / hh-panic / hh-call: returns a value, raises an ordinary error, panics, calls back into a lisp function) or the builtin list / identity; " +
			"a handler BODY is a sequence of statements -- handler-bind forms that run to completion inside the running handler (body succeeds; body fails and is handled; error matches no binding and is swallowed by ignore-errors; in line or in a helper function; a host panic contained by an explicit internal-panic binding), each followed by (verif:capture) -- before the final value / (rethrow) / failure; (verif:capture) and (rethrow) are also attempted after a form has finished and in a later top-level form, outside any handler; " +
			"every raise site is a callee on arguments (error, verif:fail, car/+/cons/an unbound name, rethrow, a panicking host function: string panic, nil-map write, nil dereference, error-valued panic) and about half of the sites reach their callee otherwise than as the head of an evaluated form (route drawn per site from its own generator, the skeleton of a case does not depend on it): funcall / apply (list, leading arguments) / unpack with the callee given as value, quoted symbol or #'name; callback of map / select / reject / all? / any? / foldl / foldr and, for callees that fail whatever they are called with, stable-sort / insert-sorted / search-sorted; through compose (inner, outer) / flip / curry-function; as a thread-first / thread-last step; after being bound by let, passed to a lambda or a named function, stored in a list or a sorted-map; through a host builtin that calls back through FunCall / FunCallContext / EvalSExpr of the environment it was given; inside a host special operator / host macro that evaluates (expands to) the call; and a host special operator / host macro that itself panics in Go, used directly, through SpecialOpCall / MacroCall / EvalSExpr invoked by a host builtin, and through macroexpand / macroexpand-1; " +
			"value, condition, ordered effect trace and the identity pattern of errors seen by (verif:capture) versus the error finally returned are compared with the reference interpreter; a disagreement that disappears when every callee is called directly is re-run with one routed site at a time and reported under that route's key. distinct_nontrivial counts distinct (nesting skeleton incl. routes, raise kind, raise position, outcome) signatures; the run is inconclusive unless every route carried a host panic in a judged case",
		Assumptions: []string{
			"error data is restricted to self-evaluating values (the handler call re-evaluates data cells; that re-evaluation is not part of the statement)",
			"message text of evaluator-raised errors is not predicted (opaque); identity of the rethrown error is judged by pointer equality with what the handler saw",
		},
		Cases:       func(tier string) int { return c06MainCases(tier) + c06LibCases(tier) },
		Run:         c06Run,
		Driver:      c06Driver,
		MinDistinct: func(tier string) int { return pick(tier, 400, 1200) },
	})
}

type c06Gen struct {
	r         *fw.RNG
	nprobe    int
	skel      []string
	raise     map[string]bool
	inHandler int
	// prelude holds the top-level definitions the program relies on: handlers that are
	// named functions (fetched by symbol or #'name) and helper functions that themselves
	// use handler-bind.
	prelude []*sx.N
	nfun    int
	// the reach dimension (c06_reach.go): rrOf gives raise site n its own generator, mask
	// (when set) says which sites may be routed at all, sites records the routed ones.
	rrOf         func(n int) *fw.RNG
	mask         func(n int) bool
	nsite        int
	sites        []c06Site
	needCallWith bool
}

var c06Conds = []string{"a", "b", "c2", "error", "condition", "internal-panic"}
var c06RaiseConds = []string{"a", "b", "c2", "zz", "internal-panic", "error"}

func (g *c06Gen) probe(tag string, e *sx.N) *sx.N {
	g.nprobe++
	return sx.Call("verif:probe", sx.QY(fmt.Sprintf("%s%d", tag, g.nprobe)), e)
}

func (g *c06Gen) datum() *sx.N {
	switch g.r.Intn(7) {
	case 5:
		// data that is NOT self-evaluating: an unquoted symbol or an unquoted call form,
		// obtained as an element of a quoted list.  The handler receives the datum, it is
		// not evaluated a second time.
		return sx.Call("car", sx.Q(sx.L(fw.Pick(g.r, []*sx.N{sx.Y("unbound-datum"), sx.Call("+", sx.I(1), sx.I(2)), sx.Call("no-such-fn", sx.I(1)), sx.Y("true")}), sx.I(0))))
	case 6:
		return sx.Call("nth", sx.Q(sx.L(sx.I(0), sx.L(sx.Y("verif:probe"), sx.QY("evaluated-twice"), sx.I(1)))), sx.I(1))
	case 0:
		return sx.I(int64(g.r.Intn(100)))
	case 1:
		return sx.S(fw.Pick(g.r, []string{"x", "msg", ""}))
	case 2:
		return sx.QY(fw.Pick(g.r, []string{"k", "tag"}))
	case 3:
		return sx.Call("list", sx.I(1), sx.I(int64(g.r.Intn(9))))
	}
	return sx.Y("true")
}

// raiseForm produces a form that signals.
func (g *c06Gen) raiseForm() *sx.N {
	k := g.r.Intn(12)
	switch {
	case k < 5:
		c := fw.Pick(g.r, c06RaiseConds)
		g.raise["error:"+c] = true
		args := []*sx.N{sx.QY(c)}
		for i := g.r.Intn(3); i > 0; i-- {
			args = append(args, g.datum())
		}
		return g.site("error", "error", args)
	case k < 7:
		c := fw.Pick(g.r, c06RaiseConds)
		g.raise["host-fail:"+c] = true
		return g.site("host-fail", "verif:fail", []*sx.N{sx.QY(c), g.datum()})
	case k < 9:
		g.raise["type-error"] = true
		f := fw.Pick(g.r, []*sx.N{sx.Call("car", sx.I(5)), sx.Call("+", sx.I(1), sx.S("x")), sx.Call("undefined-fn", sx.I(1)), sx.Call("cons", sx.I(1))})
		return g.site("type-error", f.L[0].S, f.L[1:])
	case k < 11:
		g.raise["host-panic"] = true
		if g.r.Bool() {
			return g.panicSite("verif:panic", []string{"verif:panic", "verif:panic-error"})
		}
		return sx.Call("list", sx.I(1), g.panicSite("verif:nilmap", []string{"verif:nilderef"}))
	default:
		g.raise["rethrow"] = true
		return g.site("rethrow", "rethrow", nil)
	}
}

// handlerBody is the body of a handler over the formals (c &rest args): what the handler
// sees, then a sequence of statements that each run handler-bind forms to completion
// while the handler is running (each followed by a look at the condition being handled),
// then the final form -- a value, (rethrow), another failure ...
func (g *c06Gen) handlerBody(d int) []*sx.N {
	g.inHandler++
	defer func() { g.inHandler-- }()
	var body []*sx.N
	body = append(body, sx.Call("verif:capture"))
	body = append(body, g.probe("h", sx.Y("c")))
	if d >= 1 && g.r.Chance(2, 5) {
		for i := g.r.Range(1, 2); i > 0; i-- {
			body = append(body, g.handlerStmt(d), sx.Call("verif:capture"))
		}
	}
	switch g.r.Intn(9) {
	case 0, 1:
		body = append(body, sx.Call("list", sx.QY("handled"), sx.Y("c"), sx.Y("args")))
	case 2, 3:
		g.skel = append(g.skel, "rethrow")
		body = append(body, g.site("rethrow", "rethrow", nil))
	case 4:
		body = append(body, g.raiseForm())
	case 5:
		body = append(body, g.form(d-1))
	case 6:
		body = append(body, sx.Call("ignore-errors", sx.Call("rethrow")), sx.I(int64(g.r.Intn(50))))
	case 7:
		// rethrow from a helper called by the handler
		body = append(body, sx.Call("funcall", sx.Call("lambda", sx.L(), sx.Call("rethrow"))))
	default:
		body = append(body, sx.I(int64(g.r.Intn(50))))
	}
	return body
}

func c06Formals() *sx.N { return sx.L(sx.Y("c"), sx.Y("&rest"), sx.Y("args")) }

func (g *c06Gen) handlerLambda(d int) *sx.N {
	return sx.Call("lambda", append([]*sx.N{c06Formals()}, g.handlerBody(d)...)...)
}

// define adds (defun name formals body...) to the prelude and returns the name.
func (g *c06Gen) define(prefix string, formals *sx.N, body []*sx.N) string {
	g.nfun++
	name := fmt.Sprintf("c06-%s%d", prefix, g.nfun)
	g.prelude = append(g.prelude, sx.Call("defun", append([]*sx.N{sx.Y(name), formals}, body...)...))
	return name
}

// handlerFn produces an expression whose value is the handler FUNCTION: a lambda, a
// named function fetched by its symbol or by #'name, a host Go function bound directly
// (returning a value, raising an ordinary error, panicking, calling back into lisp), or
// a builtin of the language.
func (g *c06Gen) handlerFn(d int) *sx.N {
	k := g.r.Intn(24)
	switch {
	case k < 12:
		return g.handlerLambda(d)
	case k < 14:
		g.skel = append(g.skel, "hfn-defun-symbol")
		return sx.Y(g.define("h", c06Formals(), g.handlerBody(d)))
	case k < 16:
		g.skel = append(g.skel, "hfn-defun-funref")
		return sx.FR(g.define("h", c06Formals(), g.handlerBody(d)))
	case k < 17:
		g.skel = append(g.skel, "hfn-host-value")
		return sx.Y("verif:hh-value")
	case k < 18:
		g.skel = append(g.skel, "hfn-host-fail")
		return sx.Y("verif:hh-fail")
	case k < 20:
		g.skel = append(g.skel, "hfn-host-panic")
		return sx.Y("verif:hh-panic")
	case k < 22:
		g.skel = append(g.skel, "hfn-host-callback")
		return sx.Call("progn", sx.Call("verif:set-callback", g.handlerLambda(d)), sx.Y("verif:hh-call"))
	case k < 23:
		g.skel = append(g.skel, "hfn-builtin-list")
		if g.r.Bool() {
			return sx.FR("list")
		}
		return sx.Y("list")
	default:
		g.skel = append(g.skel, "hfn-builtin-identity")
		return sx.Y("identity")
	}
}

// handlerStmt is one statement of a handler body: a handler-bind form that runs to
// completion inside the running handler -- its body succeeds, its body fails and one of
// its own handlers handles that, or its error matches none of its bindings and is
// swallowed by an ignore-errors inside the handler -- written in line or as a call of a
// helper function; or any other form under ignore-errors.
func (g *c06Gen) handlerStmt(d int) *sx.N {
	var st *sx.N
	switch g.r.Intn(7) {
	case 0, 1:
		g.skel = append(g.skel, "hs-hb-succeeds")
		st = sx.Call("handler-bind", sx.L(sx.L(sx.Y(fw.Pick(g.r, c06Conds)), g.handlerFn(d-1))), g.probe("s", sx.I(int64(g.r.Intn(100)))))
	case 2, 3:
		g.skel = append(g.skel, "hs-hb-handles")
		c := fw.Pick(g.r, []string{"a", "b", "c2", "zz"})
		spec := c
		if g.r.Chance(1, 4) {
			spec = "condition"
		}
		st = sx.Call("handler-bind", sx.L(sx.L(sx.Y(spec), g.handlerFn(d-1))), g.site("error", "error", []*sx.N{sx.QY(c), g.datum()}))
	case 4, 5:
		g.skel = append(g.skel, "hs-hb-unmatched")
		st = sx.Call("handler-bind", sx.L(sx.L(sx.Y(fw.Pick(g.r, []string{"a", "b"})), g.handlerFn(d-1))), g.site("error", "error", []*sx.N{sx.QY(fw.Pick(g.r, []string{"c2", "zz"})), g.datum()}))
	default:
		g.skel = append(g.skel, "hs-form")
		st = g.form(d - 1)
	}
	if g.r.Chance(1, 3) {
		g.skel = append(g.skel, "hs-in-helper")
		st = sx.Call(g.define("helper", sx.L(sx.Y("x")), []*sx.N{st}), sx.I(int64(g.r.Intn(9))))
	}
	switch g.r.Intn(4) {
	case 0:
		// the statement's failure, if any, leaves the handler
		return st
	case 1:
		// a host panic on the way (a panicking handler) is contained by an explicit binding
		g.skel = append(g.skel, "hs-contained")
		return sx.Call("ignore-errors", sx.Call("handler-bind", sx.L(sx.L(sx.Y("internal-panic"), g.handlerFn(d-1))), st))
	}
	return sx.Call("ignore-errors", st)
}

func (g *c06Gen) handlerExpr(d int) *sx.N {
	switch g.r.Intn(10) {
	case 0:
		g.skel = append(g.skel, "hexpr-probe")
		return g.probe("hx", g.handlerFn(d))
	case 1:
		g.skel = append(g.skel, "hexpr-raises")
		return sx.Call("progn", g.raiseForm(), g.handlerFn(d))
	case 2:
		g.skel = append(g.skel, "hexpr-not-a-function")
		return sx.I(7)
	}
	return g.handlerFn(d)
}

// form generates a body form of depth <= d.
func (g *c06Gen) form(d int) *sx.N {
	if d <= 0 {
		if g.r.Chance(1, 2) {
			return g.raiseForm()
		}
		return g.probe("v", sx.I(int64(g.r.Intn(100))))
	}
	switch g.r.Intn(13) {
	case 9, 10, 11:
		// the failure travels across a boundary on its way to the handler: a nested load,
		// a callback invoked by a builtin, a binding form
		inner := g.form(d - 1)
		switch g.r.Intn(7) {
		case 0, 1:
			g.skel = append(g.skel, "via-load-string")
			return sx.Call("load-string", &sx.N{K: sx.Str, Prog: []*sx.N{inner}})
		case 2:
			g.skel = append(g.skel, "via-map")
			return sx.Call("map", sx.QY("list"), sx.Call("lambda", sx.L(sx.Y("x")), inner), sx.Q(sx.L(sx.I(1))))
		case 3:
			g.skel = append(g.skel, "via-funcall")
			return sx.Call("funcall", sx.Call("lambda", sx.L(), inner))
		case 4:
			g.skel = append(g.skel, "via-apply")
			return sx.Call("apply", sx.Call("lambda", sx.L(sx.Y("&rest"), sx.Y("a")), inner), sx.Q(sx.L(sx.I(1), sx.I(2))))
		case 5:
			g.skel = append(g.skel, "via-let")
			return sx.Call("let", sx.L(sx.L(sx.Y("x"), inner)), sx.Y("x"))
		default:
			g.skel = append(g.skel, "via-foldl")
			return sx.Call("foldl", sx.Call("lambda", sx.L(sx.Y("acc"), sx.Y("x")), inner), sx.I(0), sx.Q(sx.L(sx.I(1))))
		}
	case 0, 1, 2:
		g.skel = append(g.skel, "hb")
		n := g.r.Range(1, 4)
		var binds []*sx.N
		for i := 0; i < n; i++ {
			binds = append(binds, sx.L(sx.Y(fw.Pick(g.r, c06Conds)), g.handlerExpr(d)))
		}
		nb := g.r.Range(1, 3) // a handler-bind without body forms is not specified
		var body []*sx.N
		for i := 0; i < nb; i++ {
			body = append(body, g.form(d-1))
		}
		return sx.Call("handler-bind", append([]*sx.N{sx.L(binds...)}, body...)...)
	case 3, 4:
		g.skel = append(g.skel, "ie")
		nb := g.r.Range(0, 3)
		var body []*sx.N
		for i := 0; i < nb; i++ {
			body = append(body, g.form(d-1))
		}
		return sx.Call("ignore-errors", body...)
	case 5:
		if g.r.Chance(1, 3) {
			// what is the condition being handled AFTER the form has finished, and what does
			// (rethrow) do there: outside any handler it is an ordinary error
			g.skel = append(g.skel, "then-rethrow")
			return sx.Call("progn", g.form(d-1), sx.Call("verif:capture"), g.site("rethrow", "rethrow", nil))
		}
		g.skel = append(g.skel, "progn")
		return sx.Call("progn", g.probe("before", sx.I(1)), g.form(d-1), g.probe("after", sx.I(2)))
	case 6:
		g.skel = append(g.skel, "call")
		return sx.L(sx.Call("lambda", sx.L(sx.Y("x")), g.form(d-1), sx.Y("x")), g.form(d-1))
	case 7:
		g.skel = append(g.skel, "list")
		return sx.Call("list", g.form(d-1), g.probe("sib", sx.I(3)), g.form(d-1))
	case 8:
		return g.raiseForm()
	case 12:
		if g.r.Bool() {
			// a host panic is contained by naming it explicitly
			g.skel = append(g.skel, "contain")
			return sx.Call("handler-bind", sx.L(sx.L(sx.Y("internal-panic"), g.handlerFn(d-1))), g.form(d-1))
		}
	}
	return g.probe("v", sx.I(int64(g.r.Intn(100))))
}

// c06Case is one generated program.
type c06Case struct {
	g     *c06Gen
	depth int
	forms []*sx.N
	src   string
}

// c06Build generates case idx.  mask (nil: every site) says which raise sites may reach
// their callee by a route other than the direct call; the skeleton does not depend on it.
func c06Build(w *fw.W, idx int, mask func(n int) bool) *c06Case {
	r := w.RNG(idx, "prog")
	g := &c06Gen{r: r, raise: map[string]bool{}, mask: mask}
	g.rrOf = func(n int) *fw.RNG { return w.RNG(idx, fmt.Sprintf("reach/%d", n)) }
	depth := r.Range(1, 6)
	var forms []*sx.N
	for i := r.Range(1, 3); i > 0; i-- {
		forms = append(forms, g.form(depth))
	}
	if r.Chance(1, 3) {
		// a later top-level form, outside any handler: no condition is being handled, and
		// (rethrow) is an ordinary error
		g.skel = append(g.skel, "tail-rethrow")
		forms = append(forms, sx.Call("verif:capture"))
		switch r.Intn(3) {
		case 0:
			forms = append(forms, g.site("rethrow", "rethrow", nil))
		case 1:
			forms = append(forms, sx.Call("ignore-errors", g.site("rethrow", "rethrow", nil)))
		default:
			forms = append(forms, sx.Call("handler-bind", sx.L(sx.L(sx.Y("condition"), g.handlerLambda(0))), g.site("rethrow", "rethrow", nil)))
		}
	}
	forms = append(g.prelude, forms...)
	if g.needCallWith {
		forms = append([]*sx.N{c06CallWith()}, forms...)
	}
	return &c06Case{g: g, depth: depth, forms: forms, src: sx.Render(forms, nil)}
}

// c06Result is what running one program on the real interpreter and on the model gave.
type c06Result struct {
	declined bool
	key      string // "" = agreement
	summary  string
	detail   string
	v        *lisp.LVal
	rr       *rt.R
}

func c06MainCases(tier string) int { return pick(tier, 30000, 1000000) }

func c06Run(w *fw.W, idx int) {
	if nm := c06MainCases(w.Tier); idx >= nm {
		// the cases after the generated trees: errors raised by the library itself (c06_libraise.go)
		c06LibRaise(w, idx-nm)
		return
	}
	c := c06Build(w, idx, nil)
	res := c06Judge(w, c)
	w.Eval(1)
	if res.declined {
		w.Count("model_declined", 1)
		return
	}
	g, v, rr := c.g, res.v, res.rr
	if res.key != "" {
		key, summary, detail := res.key, res.summary, res.detail
		if len(g.sites) > 0 {
			// Does the disagreement come from HOW a callee is reached?  The same program
			// with every callee called directly, then with one routed site at a time.
			direct := c06Judge(w, c06Build(w, idx, func(int) bool { return false }))
			if !direct.declined && direct.key == "" {
				key = "raise-reached-via:several-routes-together:" + res.key
				for _, s := range g.sites {
					one := c06Judge(w, c06Build(w, idx, func(n int) bool { return n == s.n }))
					if !one.declined && one.key != "" {
						key = "raise-reached-via:" + s.route + ":" + s.kind
						summary = fmt.Sprintf("%s; with every callee called directly the program agrees with the model, with only this site routed: %s: %s", s, one.key, one.summary)
						detail = one.detail
						break
					}
				}
			}
		}
		w.Violation(key, summary, detail)
		return
	}
	realErr := v.Type == lisp.LError
	out := "value"
	if realErr {
		out = "err:" + v.Str
		if lisp.IsInternalPanic(v) {
			out += "[panic]"
		}
	}
	uniq := map[string]bool{}
	for _, k := range g.skel {
		uniq[k] = true
	}
	for _, s := range g.sites {
		uniq["reach:"+s.route] = true
	}
	sk := fmt.Sprintf("d%d:", c.depth) + strings.Join(tree.SortedKeys(uniq), ",")
	for rk := range g.raise {
		w.CoverKey(sk + "|" + rk + "|" + out)
	}
	if len(g.raise) == 0 {
		w.CoverKey(sk + "|none|" + out)
	}
	w.Count("captures_checked", int64(len(rr.Captured)))
	w.Count("probe_events", int64(len(rr.Trace)))
	// the reach dimension: what was generated in judged cases
	w.Count("raise_sites", int64(g.nsite))
	w.Count("raise_sites_routed", int64(len(g.sites)))
	panicRouted := false
	for _, s := range g.sites {
		w.SetAdd("raise_routes_judged", s.kind+" via "+s.route)
		w.SetAdd("callee_designators_judged", s.route+" "+s.desig)
		if s.kind == "host-panic" {
			w.SetAdd("panic_routes_judged", s.route)
			panicRouted = true
		}
	}
	if len(g.sites) > 0 {
		w.Count("cases_with_routed_site", 1)
		w.SetAdd("outcomes_of_cases_with_routed_site", out)
	}
	if panicRouted && realErr && lisp.IsInternalPanic(v) {
		w.Count("cases_with_routed_host_panic_ending_in_marked_panic", 1)
	}
	if w.WantSample() && len(rr.Captured) > 0 && len(c.src) < 700 {
		w.Sample(map[string]any{"source": c.src, "outcome": trunc(v.String(), 200), "handlers_run": len(rr.Captured)})
	}
}

// c06Judge runs one program on the real interpreter and on the reference model and
// compares value, condition, marker, data, effect trace and the identity pattern.
func c06Judge(w *fw.W, c *c06Case) (res c06Result) {
	forms, src := c.forms, c.src
	rr := rt.New(rt.Opts{MaxSteps: 400_000})
	rr.AddCallRouteProbes()
	v := rr.Env.LoadString("c06", src)
	res.v, res.rr = v, rr
	in := refint.New()
	in.InstallCallRoutes()
	mv, merr := func() (mv *refint.V, me *refint.Err) {
		defer func() {
			if rec := recover(); rec != nil {
				me = &refint.Err{Cond: fmt.Sprint("<model panic: ", rec, ">"), Unsure: true}
			}
		}()
		return in.LoadForms(forms)
	}()
	w.Logf("source:\n%s\nreal: %s\nmodel: %v %v", src, v, mv, merr)
	if merr != nil && (merr.Fuel || merr.Unsure) {
		w.Logf("model declined: %s", merr.Cond)
		res.declined = true
		return
	}
	detail := func() string {
		var sites strings.Builder
		for _, s := range c.g.sites {
			sites.WriteString("\n " + s.String())
		}
		return fmt.Sprintf("source:\n%s\nrouted raise sites:%s\nreal: %s\n real trace: %v\nmodel: val=%v err=%v\n model trace: %s", src, sites.String(), v, rr.Trace, c06Val(mv), merr, in.TraceString())
	}
	violation := func(key, summary string) c06Result {
		res.key, res.summary, res.detail = key, summary, detail()
		return res
	}
	// trace
	if len(rr.Trace) != len(in.Trace) {
		return violation("condition-model-disagreement:trace", fmt.Sprintf("effect trace length %d vs model %d", len(rr.Trace), len(in.Trace)))
	}
	for i := range rr.Trace {
		a, b := rr.Trace[i], in.Trace[i]
		ok := a.Tag == b.Tag && len(a.Trees) == len(b.Vals)
		for j := 0; ok && j < len(a.Trees); j++ {
			ok = tree.Equal(a.Trees[j], b.Vals[j], tree.Opts{IgnoreQuote: true})
		}
		if !ok {
			return violation("condition-model-disagreement:trace", fmt.Sprintf("effect %d differs: real %s vs model %s", i, a.String(), b.Tag))
		}
	}
	realErr := v.Type == lisp.LError
	switch {
	case realErr != (merr != nil):
		return violation("condition-model-disagreement:error-vs-value", fmt.Sprintf("real %s vs model val=%v err=%v", trunc(v.String(), 200), c06Val(mv), merr))
	case realErr:
		if v.Str != merr.Cond {
			return violation("condition-model-disagreement:condition", fmt.Sprintf("condition %s vs model %s", v.Str, merr.Cond))
		}
		if lisp.IsInternalPanic(v) != merr.Panic {
			return violation("host-panic-marker-wrong", fmt.Sprintf("IsInternalPanic=%v but the model says host panic=%v", lisp.IsInternalPanic(v), merr.Panic))
		}
		// data of lisp/host raised errors
		if merr.Class == "user" || merr.Class == "host-fail" {
			if len(v.Cells) != len(merr.Data) {
				return violation("error-data-changed", fmt.Sprintf("error data has %d cells, model %d", len(v.Cells), len(merr.Data)))
			}
			for i := range v.Cells {
				if !tree.Equal(tree.FromLVal(v.Cells[i]), merr.Data[i].ToTree(), tree.Opts{IgnoreQuote: true}) {
					return violation("error-data-changed", fmt.Sprintf("error data cell %d: %s vs model %s", i, v.Cells[i], merr.Data[i].ToTree()))
				}
			}
		}
	default:
		if !tree.Equal(tree.FromLVal(v), mv.ToTree(), tree.Opts{IgnoreQuote: true}) {
			return violation("condition-model-disagreement:value", fmt.Sprintf("value %s vs model %s", trunc(v.String(), 200), mv.ToTree()))
		}
	}
	// identity pattern: which captured errors are the one finally returned, and which are each other
	if len(rr.Captured) != len(in.Captured) {
		return violation("capture-count", fmt.Sprintf("%d vs model %d", len(rr.Captured), len(in.Captured)))
	}
	for i := range rr.Captured {
		if (rr.Captured[i] == nil) != (in.Captured[i] == nil) {
			return violation("current-condition-wrong", fmt.Sprintf("capture %d: a condition being handled is %v but the model says %v", i, rr.Captured[i] != nil, in.Captured[i] != nil))
		}
		if realErr && rr.Captured[i] != nil {
			same := rr.Captured[i] == v
			msame := in.Captured[i] == merr
			if same != msame {
				return violation("rethrow-identity", fmt.Sprintf("capture %d: the error returned to the host is%s the object the handler saw, the model says it is%s", i, c06Not(same), c06Not(msame)))
			}
			if same {
				// same object: condition, data and stack trace are trivially those of the handled error;
				// additionally the stack must still be the one recorded at the raise site
				if st := v.CallStack(); st == nil {
					return violation("rethrow-lost-stack", "the rethrown error carries no call stack")
				}
			}
		}
		for j := 0; j < i; j++ {
			if rr.Captured[i] != nil && rr.Captured[j] != nil && (rr.Captured[i] == rr.Captured[j]) != (in.Captured[i] == in.Captured[j]) {
				return violation("rethrow-identity", fmt.Sprintf("captures %d and %d identity differs from the model", j, i))
			}
		}
	}
	return res
}

func c06Val(v *refint.V) string {
	if v == nil {
		return "<none>"
	}
	return v.ToTree().String()
}

func c06Not(b bool) string {
	if b {
		return ""
	}
	return " not"
}
