package props

// C15 (continued): time:sleep — caps, deadline refusal, cancellation.
//
// Every generated configuration is either one the documentation says must be
// refused, or one whose legitimate blocking time is at most 20 ms.  The cap
// boundary at large values (d == 1h with no :max, d == :max) is probed without
// sleeping by pairing it with a short context deadline: a duration that is NOT
// above the cap but outlasts the deadline must be refused with
// context-cancelled, never with sleep-limit-exceeded.
//
// Wall-clock robustness.  The check may share the machine with many other
// processes.  Each worker therefore runs a lateness probe (a goroutine that
// sleeps 2 ms in a loop and records by how much it overslept); a timing
// observation made while the probe itself was more than 250 ms late says
// nothing about the sleep builtin and is discarded.  A time-dependent finding
// is counted only when it reproduces in three attempts that were all quiet,
// and any attempt without a finding exonerates the configuration.

import (
	"context"
	"fmt"
	"math"
	"sync/atomic"
	"testing/fstest"
	"time"

	"github.com/luthersystems/elps/lisp"

	"verifharness/fw"
	"verifharness/rt"
)

const (
	c15Ms   = int64(time.Millisecond)
	c15Sec  = int64(time.Second)
	c15Hour = int64(time.Hour)

	c15MaxLegitBlock = 20 * c15Ms
	c15Margin        = time.Second            // scheduling allowance on every wall-clock assertion
	c15Watchdog      = 5 * time.Second        // beyond bound+margin: the call is declared blocked
	c15Quiet         = 250 * time.Millisecond // probe lateness above this voids a timing observation
	c15Needed3       = 4                      // consistent findings required (2 when the call never returned)
	c15MaxAttempts   = 10
	c15MaxBlocked    = 8 // per worker: after this many abandoned goroutines stop running sleep cases
)

type c15Probe struct{ max atomic.Int64 }

func (p *c15Probe) loop() {
	const nap = 2 * time.Millisecond
	for {
		t0 := time.Now()
		time.Sleep(nap)
		late := int64(time.Since(t0) - nap)
		for {
			cur := p.max.Load()
			if late <= cur || p.max.CompareAndSwap(cur, late) {
				break
			}
		}
	}
}
func (p *c15Probe) reset()              { p.max.Store(0) }
func (p *c15Probe) late() time.Duration { return time.Duration(p.max.Load()) }

type c15SleepCfg struct {
	Ceiling int64 // Runtime.MaxSleep via lisp.WithMaxSleep; 0 = option not applied; <0 = applied, means none
	HasMax  bool
	Max     int64
	D       int64
	Ctx     string // none | deadline | deadline-nodone | cancel-after | precancelled | expired
	Route   string // how the host supplies the context: "load" = LoadStringContext, "config" = lisp.WithContext on the root env
	R       int64  // deadline distance at context creation
	Tau     int64  // cancel-after delay
}

func (c c15SleepCfg) String() string {
	m := "absent"
	if c.HasMax {
		m = time.Duration(c.Max).String()
	}
	return fmt.Sprintf("d=%v :max=%s ceiling=%v ctx=%s/%s R=%v tau=%v", time.Duration(c.D), m, time.Duration(c.Ceiling), c.Ctx, c.Route, time.Duration(c.R), time.Duration(c.Tau))
}

const (
	c15OutNil = "nil"
	c15OutSLE = "sleep-limit-exceeded"
	c15OutCC  = "context-cancelled"
)

type c15Expect struct {
	allowed    map[string]bool
	anyOutcome bool // :max <= 0 — outcome not judged
	mustRefuse bool
	why        string // which bound refuses: default-1h | max | ceiling | ceiling-below-default | deadline | dead-context
	capKind    string
	bound      time.Duration // legitimate blocking time
	admissible bool
}

// c15SleepOracle is the table of caps, written from docs/lang.md "Sleep
// length" and the sleep docstring.
func c15SleepOracle(c c15SleepCfg) c15Expect {
	e := c15Expect{allowed: map[string]bool{}}
	ceil := c.Ceiling
	if ceil < 0 {
		ceil = 0
	}
	var limit int64
	maxAboveCeiling := false
	switch {
	case c.HasMax && c.Max <= 0:
		e.anyOutcome = true
		e.capKind = "max-nonpositive"
		limit = math.MaxInt64
	case c.HasMax && ceil > 0 && c.Max > ceil:
		maxAboveCeiling = true
		limit, e.capKind = ceil, "ceiling"
	case c.HasMax:
		limit, e.capKind = c.Max, "max"
	case ceil > 0 && ceil < c15Hour:
		limit, e.capKind = ceil, "ceiling-below-default"
	default:
		limit, e.capKind = c15Hour, "default-1h"
	}
	overCap := c.D > limit
	dead := c.Ctx == "precancelled" || c.Ctx == "expired"
	hasDeadline := c.Ctx == "deadline" || c.Ctx == "deadline-nodone" || c.Ctx == "cancel-after-deadline"
	cancelAfter := c.Ctx == "cancel-after" || c.Ctx == "cancel-after-deadline"
	beyond := hasDeadline && c.D > c.R
	// A sleep that fits the deadline is only generated with a wide berth: the
	// deadline is at least 60 s away and at least 100x the duration, so that a
	// scheduling stall between creating the context and reaching the builtin
	// cannot turn it into a legitimate refusal.
	nearDeadline := hasDeadline && !beyond && (c.R < 60*c15Sec || c.D > c.R/100)
	if c.Ctx == "cancel-after-deadline" {
		// the deadline is three hours away and the cancellation arrives within
		// milliseconds: a stall cannot make the deadline matter
		nearDeadline = !beyond && c.D > c.R/2
	}

	if overCap {
		e.allowed[c15OutSLE] = true
		e.why = e.capKind
	}
	if maxAboveCeiling {
		e.allowed[c15OutSLE] = true // refusing the over-large :max itself is fine whatever d is
	}
	if dead || beyond {
		e.allowed[c15OutCC] = true
		if e.why == "" {
			e.why = "deadline"
			if dead {
				e.why = "dead-context"
			}
		}
	}
	if cancelAfter {
		// the cancellation may land before the evaluator even reaches the builtin
		e.allowed[c15OutCC] = true
	}
	e.mustRefuse = overCap || beyond || (dead && c.D > 0)
	e.admissible = !nearDeadline
	if !e.mustRefuse {
		switch {
		case cancelAfter && c.D >= c15Sec:
			// the cancellation arrives long before the timer: must wake with context-cancelled
			e.allowed[c15OutCC] = true
			e.bound = time.Duration(c.Tau)
		case cancelAfter:
			e.allowed[c15OutCC] = true
			e.allowed[c15OutNil] = true
			e.bound = time.Duration(max(c.D, 0))
		default:
			e.allowed[c15OutNil] = true
			e.bound = time.Duration(max(c.D, 0))
		}
		if e.bound > time.Duration(c15MaxLegitBlock) {
			e.admissible = false
		}
	}
	return e
}

func c15PickDur(r *fw.RNG, around int64) int64 {
	switch r.Intn(12) {
	case 0:
		return around
	case 1:
		return around - 1
	case 2:
		if around < math.MaxInt64 {
			return around + 1
		}
		return around
	case 3:
		if around < math.MaxInt64-c15Ms {
			return around + c15Ms
		}
		return around
	case 4:
		if around < math.MaxInt64/2 {
			return around * 2
		}
		return math.MaxInt64
	case 5:
		return math.MaxInt64
	case 6:
		return fw.Pick(r, []int64{0, 1, 1000, c15Ms, 2 * c15Ms, 5 * c15Ms, 10 * c15Ms, 20 * c15Ms})
	case 7:
		return fw.Pick(r, []int64{-1, -c15Ms, -c15Hour, math.MinInt64, 0})
	case 8:
		return fw.Pick(r, []int64{c15Hour, c15Hour + 1, c15Hour - 1, 2 * c15Hour, 30 * 60 * c15Sec, c15Sec, 100 * c15Hour})
	}
	return fw.Pick(r, []int64{1, c15Ms, 3 * c15Ms, 7 * c15Ms, 20 * c15Ms, 20*c15Ms + 1, c15Hour + 1, 3 * c15Hour})
}

var (
	c15CeilPool = []int64{0, 0, 0, -1, 1, c15Ms, 5 * c15Ms, 10 * c15Ms, 20 * c15Ms, c15Sec, 30 * 60 * c15Sec, c15Hour - 1, c15Hour, c15Hour + 1, 2 * c15Hour, 100 * c15Hour, math.MaxInt64}
	c15MaxPool  = []int64{1, c15Ms, 5 * c15Ms, 10 * c15Ms, 20 * c15Ms, c15Sec, 30 * 60 * c15Sec, c15Hour - 1, c15Hour, c15Hour + 1, 2 * c15Hour, 100 * c15Hour, math.MaxInt64, 0, -1, -c15Hour}
	c15DeadPool = []int64{c15Ms, 20 * c15Ms, 300 * c15Ms, 3 * c15Sec, 60 * c15Sec, 2 * c15Hour, 200 * c15Hour}
	c15TauPool  = []int64{c15Ms, 2 * c15Ms, 5 * c15Ms, 10 * c15Ms}
	c15CtxKinds = []string{"none", "none", "none", "deadline", "deadline", "deadline", "deadline-nodone", "cancel-after", "cancel-after", "cancel-after-deadline", "cancel-after-deadline", "precancelled", "expired"}
)

func c15GenSleepCfg(r *fw.RNG) (c15SleepCfg, c15Expect) {
	for {
		var c c15SleepCfg
		c.Ceiling = fw.Pick(r, c15CeilPool)
		if r.Chance(1, 2) {
			c.HasMax = true
			c.Max = fw.Pick(r, c15MaxPool)
			if c.Ceiling > 0 && r.Chance(1, 3) {
				// :max right around the ceiling
				c.Max = c.Ceiling + int64(r.Range(-1, 1))
				if c.Max < 0 { // overflowed
					c.Max = c.Ceiling
				}
			}
		}
		c.Ctx = fw.Pick(r, c15CtxKinds)
		c.Route = "-"
		if c.Ctx != "none" {
			// how the context reaches the sleep: the *Context entry point of a string load,
			// the documented embedder option, a FILE loaded through the source library by
			// the host, or a file loaded by (load-file) from inside a let
			c.Route = fw.Pick(r, []string{"load", "load", "config", "file", "nested-file"})
		}
		switch c.Ctx {
		case "deadline", "deadline-nodone":
			c.R = fw.Pick(r, c15DeadPool)
		case "cancel-after":
			c.Tau = fw.Pick(r, c15TauPool)
		case "cancel-after-deadline":
			// cancelled explicitly while a DISTANT deadline is also set
			c.Tau = fw.Pick(r, c15TauPool)
			c.R = 3 * c15Hour
		case "expired":
			c.R = -fw.Pick(r, []int64{1, c15Ms, c15Hour})
		}
		// the duration sits at a boundary of one of the bounds in play
		anchors := []int64{c15Hour}
		if c.Ceiling > 0 {
			anchors = append(anchors, c.Ceiling, c.Ceiling)
		}
		if c.HasMax && c.Max > 0 {
			anchors = append(anchors, c.Max, c.Max)
		}
		if c.R > 0 {
			anchors = append(anchors, c.R, c.R)
		}
		c.D = c15PickDur(r, fw.Pick(r, anchors))
		e := c15SleepOracle(c)
		if e.admissible {
			return c, e
		}
	}
}

// c15NoDoneCtx reports a deadline but has no Done channel (the Context
// interface allows it; the sleep builtin documents that it copes).
type c15NoDoneCtx struct{ dl time.Time }

func (c c15NoDoneCtx) Deadline() (time.Time, bool) { return c.dl, true }
func (c c15NoDoneCtx) Done() <-chan struct{}       { return nil }
func (c c15NoDoneCtx) Err() error {
	if !time.Now().Before(c.dl) {
		return context.DeadlineExceeded
	}
	return nil
}
func (c c15NoDoneCtx) Value(any) any { return nil }

type c15SleepRun struct {
	outcome string // nil | <condition> | value:<...>
	msg     string
	elapsed time.Duration
	blocked bool
	noisy   bool // the lateness probe was itself late during the call
	late    time.Duration
}

// c15RunSleep performs one attempt of a configuration against a fresh runtime.
func c15RunSleep(st *c15State, c c15SleepCfg, bound time.Duration) c15SleepRun {
	src := fmt.Sprintf("(time:sleep (time:parse-duration \"%dns\")", c.D)
	if c.HasMax {
		src += fmt.Sprintf(" :max (time:parse-duration \"%dns\")", c.Max)
	}
	src += ")"

	// Build the runtime first (loading the stdlib takes a few ms), then start
	// the clock of the context.  On the "config" route the context is installed
	// with the documented embedder option lisp.WithContext, applied to the root
	// env exactly as InitializeUserEnv would apply it.
	r := rt.New(rt.Opts{NoProbes: true})
	if c.Ceiling != 0 {
		// the documented embedder route for the host ceiling
		if rc := lisp.WithMaxSleep(time.Duration(c.Ceiling))(r.Env); rc != nil && rc.Type == lisp.LError {
			return c15SleepRun{outcome: "config-error", msg: rc.String()}
		}
	}
	var ctx context.Context
	cleanup := func() {}
	switch c.Ctx {
	case "deadline", "expired":
		var cancel context.CancelFunc
		ctx, cancel = context.WithDeadline(context.Background(), time.Now().Add(time.Duration(c.R)))
		cleanup = cancel
	case "deadline-nodone":
		ctx = c15NoDoneCtx{dl: time.Now().Add(time.Duration(c.R))}
	case "cancel-after":
		var cancel context.CancelFunc
		ctx, cancel = context.WithCancel(context.Background())
		t := time.AfterFunc(time.Duration(c.Tau), cancel)
		cleanup = func() { t.Stop(); cancel() }
	case "cancel-after-deadline":
		var cancel context.CancelFunc
		ctx, cancel = context.WithDeadline(context.Background(), time.Now().Add(time.Duration(c.R)))
		t := time.AfterFunc(time.Duration(c.Tau), cancel)
		cleanup = func() { t.Stop(); cancel() }
	case "precancelled":
		var cancel context.CancelFunc
		ctx, cancel = context.WithCancel(context.Background())
		cancel()
		cleanup = cancel
	}
	defer cleanup()
	if ctx != nil && c.Route == "config" {
		if rc := lisp.WithContext(ctx)(r.Env); rc != nil && rc.Type == lisp.LError {
			return c15SleepRun{outcome: "config-error", msg: rc.String()}
		}
	}
	type res struct {
		v  *lisp.LVal
		el time.Duration
	}
	done := make(chan res, 1)
	st.probe.reset()
	go func() {
		t0 := time.Now()
		var v *lisp.LVal
		if ctx != nil && c.Route == "load" {
			v = r.Env.LoadStringContext(ctx, "c15-sleep", src)
		} else if ctx != nil && c.Route == "file" {
			r.Env.Runtime.Library = &lisp.FSLibrary{FS: fstest.MapFS{"c15/sleep.lisp": {Data: []byte(src)}}}
			v = r.Env.LoadFileContext(ctx, "c15/sleep.lisp")
		} else if ctx != nil && c.Route == "nested-file" {
			r.Env.Runtime.Library = &lisp.FSLibrary{FS: fstest.MapFS{"c15/sleep.lisp": {Data: []byte(src)}}}
			v = r.Env.LoadStringContext(ctx, "c15-outer", "(let ((x 1)) (load-file \"c15/sleep.lisp\"))")
		} else {
			v = r.Env.LoadString("c15-sleep", src)
		}
		done <- res{v, time.Since(t0)}
	}()
	finish := func(x res, late time.Duration) c15SleepRun {
		out := c15SleepRun{elapsed: x.el, late: late}
		out.noisy = out.late > c15Quiet
		switch {
		case x.v == nil:
			out.outcome = "nil-pointer"
		case x.v.Type == lisp.LError:
			out.outcome, out.msg = x.v.Str, rt.ErrMsg(x.v)
		case x.v.IsNil():
			out.outcome = c15OutNil
		default:
			out.outcome = "value:" + x.v.String()
		}
		return out
	}
	period := bound + c15Margin + c15Watchdog
	t0 := time.Now()
	worst := time.Duration(0)
	for k := 0; k < 3; k++ {
		select {
		case x := <-done:
			return finish(x, max(worst, st.probe.late()))
		case <-time.After(period):
		}
		select { // the call may have finished while this goroutine was starved
		case x := <-done:
			return finish(x, max(worst, st.probe.late()))
		default:
		}
		late := st.probe.late()
		worst = max(worst, late)
		if late <= c15Quiet {
			break // the machine was responsive for the whole period and the call still has not returned
		}
		st.probe.reset()
	}
	st.blocked++
	return c15SleepRun{blocked: true, elapsed: time.Since(t0), late: worst}
}

func c15DurClass(c c15SleepCfg) string {
	switch {
	case c.D <= 0:
		return "nonpositive"
	case c.D <= c15MaxLegitBlock:
		return "<=20ms"
	case c.D == math.MaxInt64:
		return "maxint64"
	case c.D >= c15Hour:
		return ">=1h"
	}
	return "20ms..1h"
}

func c15SleepCase(w *fw.W, st *c15State, idx int) {
	r := w.RNG(idx, "sleep")
	for i := 0; i < c15SleepBatch; i++ {
		c, e := c15GenSleepCfg(r)
		if st.blocked >= c15MaxBlocked {
			w.Count("sleep_cases_skipped_after_blocked_calls", 1)
			continue
		}
		var keys []string
		var first, last c15SleepRun
		var lastSummary string
		verdict := "unjudged-noise"
		for attempt := 0; attempt < c15MaxAttempts; attempt++ {
			run := c15RunSleep(st, c, e.bound)
			w.Eval(1)
			key, summary, timeDependent := c15JudgeSleep(c, e, run)
			w.Logf("  attempt %d: %s -> outcome=%s (%s) elapsed=%v blocked=%v probe-late=%v => %q", attempt, c, run.outcome, run.msg, run.elapsed, run.blocked, run.late, key)
			if attempt == 0 {
				first = run
			}
			if run.elapsed > e.bound+c15Margin/2 {
				w.SetAdd("sleep_slow_detail", fmt.Sprintf("%v (probe late %v) %s: %s", run.elapsed, run.late, run.outcome, c))
			}
			if key == "" {
				verdict = "fine"
				if attempt > 0 {
					w.Count("sleep_transient_anomalies", 1)
				}
				break
			}
			if timeDependent && run.noisy {
				w.Count("sleep_attempts_discarded_noisy_machine", 1)
				continue
			}
			last, lastSummary = run, summary
			keys = append(keys, key)
			if keys[len(keys)-1] != keys[0] {
				verdict = "fine" // inconsistent: not a reproducible finding
				w.Count("sleep_transient_anomalies", 1)
				break
			}
			if (run.blocked && len(keys) >= 2) || len(keys) == c15Needed3 {
				verdict = "finding"
				break
			}
		}
		switch verdict {
		case "finding":
			c15Violate(w, keys[0], lastSummary,
				fmt.Sprintf("configuration: %s\napplicable cap: %s; must be refused: %v (%s); acceptable outcomes: %v; legitimate blocking <= %v\nobserved (last of %d consistent attempts): outcome=%s %q elapsed=%v blocked=%v probe-lateness=%v",
					c, e.capKind, e.mustRefuse, e.why, c15Keys(e.allowed), e.bound, len(keys), last.outcome, last.msg, last.elapsed, last.blocked, last.late))
		case "unjudged-noise":
			w.Count("sleep_configs_unjudged_noisy_machine", 1)
		}
		w.Max("sleep_max_elapsed_ms", first.elapsed.Milliseconds())
		w.Max("sleep_max_probe_lateness_ms", first.late.Milliseconds())
		ceilClass := "none"
		switch {
		case c.Ceiling < 0:
			ceilClass = "negative"
		case c.Ceiling > 0 && c.Ceiling < c15Hour:
			ceilClass = "<1h"
		case c.Ceiling >= c15Hour:
			ceilClass = ">=1h"
		}
		maxClass := "absent"
		if c.HasMax {
			switch {
			case c.Max <= 0:
				maxClass = "nonpositive"
			case c.Ceiling > 0 && c.Max > c.Ceiling:
				maxClass = "above-ceiling"
			case c.Max > c15Hour:
				maxClass = "raises"
			default:
				maxClass = "lowers"
			}
		}
		w.CoverKey(fmt.Sprintf("sleep|cap=%s|ceil=%s|max=%s|d=%s|ctx=%s/%s|refuse=%v|%s", e.capKind, ceilClass, maxClass, c15DurClass(c), c.Ctx, c.Route, e.mustRefuse, first.outcome))
		w.SetAdd("sleep_outcomes", first.outcome)
		if i == 0 && c15WantSample(w, "sleep") {
			w.Sample(map[string]any{"kind": "sleep", "config": c.String(), "cap": e.capKind, "must_refuse": e.mustRefuse, "outcome": first.outcome, "elapsed_us": first.elapsed.Microseconds()})
		}
	}
}

func c15Keys(m map[string]bool) []string {
	var out []string
	for _, k := range []string{c15OutNil, c15OutSLE, c15OutCC} {
		if m[k] {
			out = append(out, k)
		}
	}
	return out
}

// c15JudgeSleep returns a finding key ("" = fine), a one-line summary, and
// whether the judgement depends on the wall clock.
func c15JudgeSleep(c c15SleepCfg, e c15Expect, run c15SleepRun) (string, string, bool) {
	if run.blocked {
		if e.mustRefuse {
			return "sleep-not-refused:" + e.why, fmt.Sprintf("a sleep that must be refused (%s) was still blocking %v later: %s", e.why, run.elapsed, c), false
		}
		return "sleep-overslept:" + c.Ctx, fmt.Sprintf("sleep still blocking %v after it started, bound %v: %s", run.elapsed, e.bound, c), false
	}
	if !e.anyOutcome && !e.allowed[run.outcome] {
		// With the wide berth the generator keeps, the outcome of every
		// configuration is independent of scheduling, except a cancellation
		// that has to arrive during a short sleep (both answers are allowed there).
		switch {
		case e.mustRefuse && run.outcome == c15OutNil:
			return "sleep-not-refused:" + e.why, fmt.Sprintf("a sleep that must be refused (%s) returned nil: %s", e.why, c), false
		case e.mustRefuse:
			return "sleep-wrong-condition:" + e.why, fmt.Sprintf("refusal (%s) raised %q instead of %v: %s", e.why, run.outcome, c15Keys(e.allowed), c), false
		case run.outcome == c15OutSLE:
			return "sleep-refused-within-cap:" + e.capKind, fmt.Sprintf("sleep-limit-exceeded for a duration not above the applicable cap (%s): %s", e.capKind, c), false
		case run.outcome == c15OutCC:
			return "sleep-spurious-context-cancelled:" + c.Ctx, fmt.Sprintf("context-cancelled although the sleep fits the context: %s", c), true
		case run.outcome == c15OutNil:
			return "sleep-ignored-cancellation", fmt.Sprintf("sleep returned nil although the context was cancelled long before the timer: %s", c), false
		}
		return "sleep-unexpected-outcome:" + e.capKind, fmt.Sprintf("sleep gave %q (%s), acceptable: %v: %s", run.outcome, run.msg, c15Keys(e.allowed), c), false
	}
	if run.elapsed > e.bound+c15Margin {
		if e.mustRefuse {
			return "sleep-refusal-not-immediate:" + e.why, fmt.Sprintf("refusal (%s) took %v: %s", e.why, run.elapsed, c), true
		}
		return "sleep-overslept:" + c.Ctx, fmt.Sprintf("sleep blocked %v, bound %v: %s", run.elapsed, e.bound, c), true
	}
	return "", "", false
}
