package props

// C15 (continued): ordering laws, time-add / time-from inverse laws, durations.

import (
	"fmt"
	"math"
	"math/big"
	"strings"

	"github.com/luthersystems/elps/lisp"

	"verifharness/c15x"
	"verifharness/fw"
)

var (
	c15MinInst = c15x.MinInstant()
	c15MaxInst = c15x.MaxInstant()
)

// c15Deltas are the interesting distances between two instants (ns).
func c15GenDelta(r *fw.RNG) *big.Int {
	var d *big.Int
	switch r.Intn(16) {
	case 0:
		d = big.NewInt(1)
	case 1:
		d = big.NewInt(int64(r.Range(2, 999)))
	case 2:
		d = big.NewInt(999_999_999)
	case 3:
		d = big.NewInt(1_000_000_000)
	case 4:
		d = big.NewInt(1_000_000_001)
	case 5:
		d = big.NewInt(int64(r.Range(1, 86400)) * 1_000_000_000)
	case 6:
		d = big.NewInt(86400 * 1_000_000_000)
	case 7:
		d = new(big.Int).SetUint64(r.Uint64() >> uint(r.Range(1, 40)))
	case 8:
		d = big.NewInt(math.MaxInt64)
	case 9:
		d = new(big.Int).Add(big.NewInt(math.MaxInt64), big.NewInt(1)) // 2^63: fits only when negated
	case 10:
		d = new(big.Int).Add(big.NewInt(math.MaxInt64), big.NewInt(int64(r.Range(2, 1000))))
	case 11:
		d = new(big.Int).Sub(big.NewInt(math.MaxInt64), big.NewInt(int64(r.Range(1, 1000))))
	case 12:
		// centuries: beyond int64 ns
		d = new(big.Int).Mul(big.NewInt(int64(r.Range(293, 9000))), big.NewInt(365*86400*1_000_000_000))
	default:
		d = new(big.Int).SetUint64(r.Uint64() >> 1)
	}
	if r.Bool() {
		d.Neg(d)
	}
	return d
}

func c15DiffClass(diff *big.Int, sameOffset bool) string {
	a := new(big.Int).Abs(diff)
	switch {
	case a.Sign() == 0 && sameOffset:
		return "equal-same-offset"
	case a.Sign() == 0:
		return "equal-other-offset"
	case !c15x.FitsInt64(diff):
		return "beyond-int64"
	case a.Cmp(big.NewInt(1)) == 0:
		return "1ns"
	case a.Cmp(big.NewInt(1_000_000_000)) < 0:
		return "sub-second"
	case a.Cmp(big.NewInt(86400*1_000_000_000)) < 0:
		return "sub-day"
	case a.Cmp(big.NewInt(math.MaxInt64-2000)) >= 0:
		return "int64-edge"
	}
	return "days-to-centuries"
}

// c15Restamp writes inst in a random zone, trimming the fraction randomly.
func c15Restamp(r *fw.RNG, inst *big.Int) (c15x.Stamp, bool) {
	var z c15x.Stamp
	c15GenZone(r, &z, false)
	st, ok := c15x.StampAt(inst, z.Zulu, z.OffNeg, z.OffH, z.OffM)
	if !ok {
		st, ok = c15x.StampAt(inst, 'Z', false, 0, 0)
		if !ok {
			return st, false
		}
	}
	if st.Frac != "" && r.Bool() {
		st.Frac = strings.TrimRight(st.Frac, "0")
	} else if st.Frac == "" && r.Chance(1, 3) {
		st.Frac = strings.Repeat("0", r.Range(1, 9))
	}
	return st, true
}

type c15Inst struct {
	text string
	st   c15x.Stamp
	inst *big.Int
	rel  string
}

func c15Derive(r *fw.RNG, base c15Inst) c15Inst {
	for tries := 0; tries < 20; tries++ {
		switch r.Intn(8) {
		case 0:
			return c15Inst{text: base.text, st: base.st, inst: base.inst, rel: "same"}
		case 1, 2:
			st, ok := c15Restamp(r, base.inst)
			if !ok {
				continue
			}
			return c15Inst{text: st.Render(), st: st, inst: st.Instant(), rel: "equal-instant"}
		case 3, 4, 5, 6:
			t := new(big.Int).Add(base.inst, c15GenDelta(r))
			if t.Cmp(c15MinInst) < 0 || t.Cmp(c15MaxInst) > 0 {
				continue
			}
			st, ok := c15Restamp(r, t)
			if !ok {
				continue
			}
			return c15Inst{text: st.Render(), st: st, inst: st.Instant(), rel: "delta"}
		default:
			st, _ := c15GenStamp(r, false)
			return c15Inst{text: st.Render(), st: st, inst: st.Instant(), rel: "independent"}
		}
	}
	st, _ := c15GenStamp(r, false)
	return c15Inst{text: st.Render(), st: st, inst: st.Instant(), rel: "independent"}
}

func c15Sign64(x int64) int {
	switch {
	case x < 0:
		return -1
	case x > 0:
		return 1
	}
	return 0
}

func c15OrderCase(w *fw.W, st *c15State, idx int) {
	r := w.RNG(idx, "order")
	names := []string{"c15-a", "c15-b", "c15-c"}
	for i := 0; i < c15OrderBatch; i++ {
		bs, _ := c15GenStamp(r, false)
		var xs [3]c15Inst
		xs[0] = c15Inst{text: bs.Render(), st: bs, inst: bs.Instant(), rel: "base"}
		xs[1] = c15Derive(r, xs[0])
		if r.Bool() {
			xs[2] = c15Derive(r, xs[0])
		} else {
			xs[2] = c15Derive(r, xs[1])
		}
		okParse := true
		for k := 0; k < 3; k++ {
			parser := c15Parsers[r.Intn(2)]
			v := st.ev(w, fmt.Sprintf("(set '%s (time:%s %s))", names[k], parser, c15Q(xs[k].text)))
			if c15IsErr(v) {
				// rejected well-formed strings are reported by the stamp workload
				w.Count("order_operand_rejected", 1)
				okParse = false
			}
		}
		if !okParse {
			continue
		}
		w.Logf("triple: a=%s b=%s (%s) c=%s (%s)", xs[0].text, xs[1].text, xs[1].rel, xs[2].text, xs[2].rel)
		var lt [3][3]bool
		for x := 0; x < 3; x++ {
			for y := 0; y < 3; y++ {
				lt[x][y] = c15CheckPair(w, st, names[x], names[y], xs[x], xs[y])
			}
		}
		// transitivity straight from the observed answers
		for x := 0; x < 3; x++ {
			for y := 0; y < 3; y++ {
				for z := 0; z < 3; z++ {
					if lt[x][y] && lt[y][z] && !lt[x][z] {
						c15Violate(w, "time-order:transitivity",
							fmt.Sprintf("time< is not transitive on %s, %s, %s", xs[x].text, xs[y].text, xs[z].text),
							fmt.Sprintf("x=%s y=%s z=%s: x<y, y<z but not x<z", xs[x].text, xs[y].text, xs[z].text))
					}
				}
			}
		}
		// inverse laws
		for k := 0; k < 3; k++ {
			c15CheckFromAdd(w, st, names[k], names[(k+1)%3], xs[k], xs[(k+1)%3])
			c15CheckFromAdd(w, st, names[(k+1)%3], names[k], xs[(k+1)%3], xs[k])
			c15CheckAddFrom(w, st, r, names[k], xs[k])
		}
		if i == 0 && c15WantSample(w, "triple") {
			w.Sample(map[string]any{"kind": "triple", "a": xs[0].text, "b": xs[1].text, "c": xs[2].text,
				"relations": xs[1].rel + "," + xs[2].rel, "b-a_ns": new(big.Int).Sub(xs[1].inst, xs[0].inst).String()})
		}
	}
}

// c15CheckPair evaluates all three comparisons and time-from on (x, y) and
// judges them against the oracle's instants.  It returns the observed time<.
func c15CheckPair(w *fw.W, st *c15State, nx, ny string, x, y c15Inst) bool {
	v := st.ev(w, fmt.Sprintf("(list (time:time= %[1]s %[2]s) (time:time< %[1]s %[2]s) (time:time> %[1]s %[2]s) (time:duration-ns (time:time-from %[1]s %[2]s)))", nx, ny))
	diff := new(big.Int).Sub(y.inst, x.inst) // time-from x y = y - x
	class := c15DiffClass(diff, x.st.OffsetSeconds() == y.st.OffsetSeconds())
	where := fmt.Sprintf("x=%s (%s ns)\ny=%s (%s ns)\ny-x=%s ns", x.text, x.inst, y.text, y.inst, diff)
	if c15IsErr(v) || v.Len() != 4 {
		c15Violate(w, "time-order:error:"+class, fmt.Sprintf("comparing %s with %s fails: %s", x.text, y.text, c15Show(v)), where)
		return false
	}
	eq, ok1 := c15True(v.Cells[0])
	lt, ok2 := c15True(v.Cells[1])
	gt, ok3 := c15True(v.Cells[2])
	if !ok1 || !ok2 || !ok3 || v.Cells[3].Type != lisp.LInt {
		c15Violate(w, "time-order:result-type:"+class, fmt.Sprintf("comparison results are not booleans / duration-ns is not an int: %s", v), where)
		return false
	}
	ns := int64(v.Cells[3].Int)
	cmp := x.inst.Cmp(y.inst) // -1: x before y
	obs := fmt.Sprintf("observed: time=:%v time<:%v time>:%v time-from:%d ns", eq, lt, gt, ns)
	n := 0
	for _, b := range []bool{eq, lt, gt} {
		if b {
			n++
		}
	}
	if n != 1 {
		c15Violate(w, "time-order:trichotomy:"+class, fmt.Sprintf("exactly one of time=, time<, time> must hold for %s and %s", x.text, y.text), where+"\n"+obs)
	}
	if eq != (cmp == 0) {
		c15Violate(w, "time-order:time=:"+class, fmt.Sprintf("(time= %s %s) is %v", x.text, y.text, eq), where+"\n"+obs)
	}
	if lt != (cmp < 0) {
		c15Violate(w, "time-order:time<:"+class, fmt.Sprintf("(time< %s %s) is %v", x.text, y.text, lt), where+"\n"+obs)
	}
	if gt != (cmp > 0) {
		c15Violate(w, "time-order:time>:"+class, fmt.Sprintf("(time> %s %s) is %v", x.text, y.text, gt), where+"\n"+obs)
	}
	// agreement with the sign of time-from (as observed, independent of the oracle)
	if (lt && c15Sign64(ns) != 1) || (gt && c15Sign64(ns) != -1) || (eq && ns != 0) {
		c15Violate(w, "time-order:sign-of-time-from:"+class, fmt.Sprintf("ordering of %s and %s disagrees with the sign of time-from", x.text, y.text), where+"\n"+obs)
	}
	if c15x.FitsInt64(diff) && ns != diff.Int64() {
		c15Violate(w, "time-from-value:"+class, fmt.Sprintf("(time-from %s %s) is %d ns, exact difference is %s ns", x.text, y.text, ns, diff), where+"\n"+obs)
	}
	w.CoverKey(fmt.Sprintf("pair|%s|sign=%d|zx=%s|zy=%s", class, diff.Sign(), c15ZoneClass(x.st), c15ZoneClass(y.st)))
	return lt
}

// c15FormatsAs checks that the formatted text v denotes the instant want.
func c15FormatsAs(v *lisp.LVal, want *big.Int) (string, bool, bool) {
	if v.Type != lisp.LString {
		return v.String(), false, true
	}
	p := c15x.ParseStrict(v.Str)
	if p.Class != c15x.WellFormed {
		// local year outside 0000..9999 in the operand's zone: not an RFC 3339 text, nothing to compare
		return v.Str, true, false
	}
	return v.Str, p.Stamp.Instant().Cmp(want) == 0, true
}

// c15CheckFromAdd: (time-add t (time-from t u)) equals u when no overflow.
func c15CheckFromAdd(w *fw.W, st *c15State, nt, nu string, t, u c15Inst) {
	diff := new(big.Int).Sub(u.inst, t.inst)
	if !c15x.FitsInt64(diff) {
		w.Count("from_add_skipped_overflow", 1)
		return
	}
	class := c15DiffClass(diff, t.st.OffsetSeconds() == u.st.OffsetSeconds())
	v := st.ev(w, fmt.Sprintf("(let ((r (time:time-add %[1]s (time:time-from %[1]s %[2]s)))) (list (time:time= r %[2]s) (time:duration-ns (time:time-from %[2]s r)) (time:format-rfc3339-nano r)))", nt, nu))
	where := fmt.Sprintf("t=%s\nu=%s\nu-t=%s ns", t.text, u.text, diff)
	if c15IsErr(v) || v.Len() != 3 {
		c15Violate(w, "time-add-of-time-from:error:"+class, fmt.Sprintf("(time-add t (time-from t u)) fails for t=%s u=%s: %s", t.text, u.text, c15Show(v)), where)
		return
	}
	eq, _ := c15True(v.Cells[0])
	off := int64(0)
	if v.Cells[1].Type == lisp.LInt {
		off = int64(v.Cells[1].Int)
	}
	ftext, same, judged := c15FormatsAs(v.Cells[2], u.inst)
	if !eq || off != 0 || (judged && !same) {
		c15Violate(w, "time-add-of-time-from:"+class,
			fmt.Sprintf("(time-add t (time-from t u)) is not u for t=%s u=%s", t.text, u.text),
			fmt.Sprintf("%s\nobserved: time= result u: %v, result - u = %d ns, result formats as %s", where, eq, off, ftext))
	}
	w.CoverKey("from-add|" + class + "|" + c15ZoneClass(t.st))
}

func c15GenDur64(r *fw.RNG) int64 {
	switch r.Intn(14) {
	case 0:
		return 0
	case 1:
		return 1
	case 2:
		return -1
	case 3:
		return 999_999_999
	case 4:
		return -1_000_000_000
	case 5:
		return 86400 * 1_000_000_000
	case 6:
		return math.MaxInt64
	case 7:
		return math.MinInt64
	case 8:
		return math.MaxInt64 - int64(r.Intn(1000))
	case 9:
		return math.MinInt64 + int64(r.Intn(1000))
	case 10:
		return int64(r.Uint64() >> uint(r.Range(1, 50)))
	case 11:
		return -int64(r.Uint64() >> uint(r.Range(1, 50)))
	}
	return int64(r.Uint64())
}

// c15CheckAddFrom: (time-from t (time-add t d)) equals d, and the sum is the
// instant exact arithmetic says, when it stays inside the RFC 3339 range.
func c15CheckAddFrom(w *fw.W, st *c15State, r *fw.RNG, nt string, t c15Inst) {
	d := c15GenDur64(r)
	sum := new(big.Int).Add(t.inst, big.NewInt(d))
	if sum.Cmp(c15MinInst) < 0 || sum.Cmp(c15MaxInst) > 0 {
		w.Count("add_from_skipped_out_of_range", 1)
		return
	}
	class := c15DiffClass(big.NewInt(d), true)
	if d == 0 {
		class = "zero"
	}
	expected, haveExp := c15x.FormatUTC(sum)
	src := fmt.Sprintf("(let* ((d (time:parse-duration \"%dns\")) (r (time:time-add %s d))) (list (time:duration-ns (time:time-from %s r)) (time:format-rfc3339-nano r) ", d, nt, nt)
	if haveExp {
		src += fmt.Sprintf("(time:time= r (time:parse-rfc3339-nano %s))))", c15Q(expected))
	} else {
		src += "true))"
	}
	v := st.ev(w, src)
	where := fmt.Sprintf("t=%s (%s ns)\nd=%d ns\nt+d=%s ns = %s", t.text, t.inst, d, sum, expected)
	if c15IsErr(v) || v.Len() != 3 || v.Cells[0].Type != lisp.LInt {
		c15Violate(w, "time-from-of-time-add:error:"+class, fmt.Sprintf("(time-from t (time-add t d)) fails for t=%s d=%dns: %s", t.text, d, c15Show(v)), where)
		return
	}
	back := int64(v.Cells[0].Int)
	if back != d {
		c15Violate(w, "time-from-of-time-add:"+class,
			fmt.Sprintf("(time-from t (time-add t d)) is %d ns, not d=%d ns, for t=%s", back, d, t.text), where)
	}
	ftext, same, judged := c15FormatsAs(v.Cells[1], sum)
	eqExp, _ := c15True(v.Cells[2])
	if (judged && !same) || !eqExp {
		c15Violate(w, "time-add-instant:"+class,
			fmt.Sprintf("(time-add %s %dns) is not the instant exact arithmetic gives", t.text, d),
			fmt.Sprintf("%s\nobserved: formats as %s; time= with the expected instant: %v", where, ftext, eqExp))
	}
	w.CoverKey("add-from|" + class + "|" + fmt.Sprint(c15Sign64(d)) + "|" + c15ZoneClass(t.st))
}

// ---------------------------------------------------------------------------
// (d) durations

var c15Units = []string{"ns", "us", "µs", "ms", "s", "m", "h"}
var c15UnitNs = map[string]int64{"ns": 1, "us": 1e3, "µs": 1e3, "μs": 1e3, "ms": 1e6, "s": 1e9, "m": 60e9, "h": 3600e9}

func c15Digits(r *fw.RNG, n int) string {
	b := make([]byte, n)
	for i := range b {
		b[i] = byte('0' + r.Intn(10))
	}
	return string(b)
}

// c15GenDurString returns a duration string and a shape label.
func c15GenDurString(r *fw.RNG) (string, string) {
	switch r.Intn(12) {
	case 0: // int64 edges written in ns
		return fw.Pick(r, []string{
			"9223372036854775807ns", "9223372036854775808ns", "-9223372036854775808ns", "-9223372036854775809ns",
			"9223372036854775806ns", "-9223372036854775807ns", "18446744073709551615ns", "18446744073709551616ns",
			"2562047h47m16.854775807s", "2562047h47m16.854775808s", "-2562047h47m16.854775808s", "-2562047h47m16.854775809s",
			"2562047h", "2562048h", "153722867m", "153722868m", "9223372036s", "9223372037s", "9223372036854ms", "9223372036855ms",
			"9223372036854775us", "9223372036854776us", "9223372036.854775807s", "9223372036.854775808s",
			"2562047.788015215h", "2562047.788015216h", "99999999999999999999h", "0.000000000000000000000000000001h",
		}), "edge"
	case 1: // a raw ns count over the whole int64 range
		v := int64(r.Uint64())
		return fmt.Sprintf("%dns", v), "raw-ns"
	case 2: // exotic but Go-accepted
		return fw.Pick(r, []string{"0", "+0", "-0", ".5s", "5.s", "-.5h", "+1.h", "1μs", "1.5μs", ".000000001s", "1.m", "0.s"}), "exotic"
	case 4: // a fraction written with more digits than needed that denotes a whole number of ns
		sp := fw.Pick(r, []struct {
			unit     string
			digits   int
			mul, lim int64
		}{{"h", 13, 25, 400_000_000_000}, {"m", 11, 5, 20_000_000_000}, {"s", 9, 1, 1_000_000_000}, {"ms", 6, 1, 1_000_000}, {"us", 3, 1, 1_000}, {"µs", 3, 1, 1_000}})
		j := int64(r.Uint64()>>1) % sp.lim
		pad := r.Intn(26 - sp.digits)
		sign := fw.Pick(r, []string{"", "", "-"})
		return fmt.Sprintf("%s%d.%0*d%s%s", sign, r.Intn(4), sp.digits, sp.mul*j, strings.Repeat("0", pad), sp.unit), "whole-ns-long-fraction"
	case 3: // junk
		return fw.Pick(r, []string{"", " ", "1", "-", "+", ".", ".s", "s", "1x", "1d", "1w", "1y", "1S", "1H", "1 s", " 1s", "1s ", "1e3s",
			"1h-2m", "--1s", "+-1s", "1,5s", "0x10s", "1_000ms", "1sec", "1min", "PT1H", "1:30", "1h 30m", "١s", "NaNs", "infs"}), "junk"
	}
	// grammar: sign, 1..4 components
	var sb strings.Builder
	switch r.Intn(10) {
	case 0, 1, 2:
		sb.WriteByte('-')
	case 3:
		sb.WriteByte('+')
	}
	n := r.Range(1, 4)
	shape := "int"
	nfrac := 0
	for i := 0; i < n; i++ {
		u := c15Units[r.Intn(len(c15Units))]
		// keep most totals inside int64: the integer part is at most ~2^61 / unit
		maxInt := int64(1<<61) / c15UnitNs[u]
		var ip int64
		switch r.Intn(5) {
		case 0:
			ip = 0
		case 1:
			ip = int64(r.Intn(100))
		case 2:
			ip = int64(r.Uint64()>>1) % (maxInt + 1)
		default:
			ip = int64(r.Uint64()>>uint(r.Range(20, 62))) % (maxInt + 1)
		}
		is := fmt.Sprint(ip)
		if r.Chance(1, 8) {
			is = strings.Repeat("0", r.Range(1, 3)) + is
		}
		sb.WriteString(is)
		if r.Chance(2, 5) {
			nd := r.Range(1, 12)
			if r.Chance(1, 6) {
				nd = r.Range(13, 25)
			}
			sb.WriteByte('.')
			sb.WriteString(c15Digits(r, nd))
			nfrac++
			if nfrac == 1 {
				shape = "frac-" + u
			} else {
				shape = "multi-frac"
			}
		}
		sb.WriteString(u)
	}
	return sb.String(), shape
}

// c15BlameDuration re-tests every component of a mis-valued duration string on
// its own and names the finding after the component class that reproduces it.
func c15BlameDuration(w *fw.W, st *c15State, text string) (key, isolated string) {
	for _, comp := range c15x.DurComponents(text) {
		cp := c15x.ParseDurationExact(comp)
		if cp.Form == c15x.DurInvalid {
			continue
		}
		v := st.ev(w, fmt.Sprintf("(time:duration-ns (time:parse-duration %s))", c15Q(comp)))
		if v.Type != lisp.LInt {
			continue
		}
		got := big.NewInt(int64(v.Int))
		if got.Cmp(cp.Lo) >= 0 && got.Cmp(cp.Hi) <= 0 {
			continue
		}
		isolated = fmt.Sprintf("; isolated: (duration-ns (parse-duration %q)) is %s, exact %s ns", comp, got, cp.Nanos.RatString())
		num := strings.TrimRight(comp, "nuµμmsh")
		unit := comp[len(num):]
		fracDigits := 0
		if dot := strings.IndexByte(num, '.'); dot >= 0 {
			fracDigits = len(num) - dot - 1
		}
		switch {
		case fracDigits >= 10:
			// more fractional digits than any unit has nanoseconds per 1e-9: one cause, one key
			return "parse-duration-value:long-fraction", isolated
		case fracDigits > 0:
			return "parse-duration-value:fraction-" + unit, isolated
		}
		return "parse-duration-value:integer-" + unit, isolated
	}
	return "parse-duration-value:combination", ""
}

var (
	c15BigMinI64 = big.NewInt(math.MinInt64)
	c15BigMaxI64 = big.NewInt(math.MaxInt64)
)

func c15DurCase(w *fw.W, st *c15State, idx int) {
	r := w.RNG(idx, "dur")
	for i := 0; i < c15DurBatch; i++ {
		text, shape := c15GenDurString(r)
		p := c15x.ParseDurationExact(text)
		v := st.ev(w, fmt.Sprintf("(set 'c15-d (time:parse-duration %s))", c15Q(text)))
		accepted := !c15IsErr(v)
		w.Logf("  parse-duration %q -> %s (oracle form %d, exact %v)", text, c15Show(v), p.Form, p.Nanos)
		outcome := "rejected"
		if accepted {
			outcome = "accepted"
		}
		if p.Form == c15x.DurInvalid {
			// not a duration under the documented syntax: outcome recorded, not judged
			w.SetAdd("duration_junk_outcomes", fmt.Sprintf("%q => %s", text, outcome))
			w.CoverKey("dur|junk|" + outcome)
			continue
		}
		exact := p.Nanos
		// in range when some admissible rounding fits int64
		inRange := p.Hi.Cmp(c15BigMinI64) >= 0 && p.Lo.Cmp(c15BigMaxI64) <= 0
		strictlyInRange := p.Lo.Cmp(c15BigMinI64) >= 0 && p.Hi.Cmp(c15BigMaxI64) <= 0
		rangeClass := "in-range"
		if !inRange {
			rangeClass = "out-of-range"
		} else if !strictlyInRange {
			rangeClass = "range-edge"
		}
		if !accepted {
			if p.Form == c15x.DurPlain && strictlyInRange {
				c15Violate(w, "parse-duration-rejects:"+shape,
					fmt.Sprintf("time:parse-duration rejects %q (exactly %s ns)", text, exact.FloatString(3)),
					fmt.Sprintf("input: %q\noracle: documented syntax, value %s ns fits int64\nobserved: %s", text, exact.RatString(), c15Show(v)))
			}
			w.CoverKey("dur|" + shape + "|" + rangeClass + "|rejected")
			continue
		}
		got := st.ev(w, "(list (time:duration-ns c15-d) (time:duration-ms c15-d) (time:duration-s c15-d))")
		if c15IsErr(got) || got.Len() != 3 || got.Cells[0].Type != lisp.LInt || got.Cells[1].Type != lisp.LFloat || got.Cells[2].Type != lisp.LFloat {
			c15Violate(w, "duration-accessor-error:"+shape, fmt.Sprintf("duration accessors fail or have the wrong type on %q: %s", text, c15Show(got)), text)
			continue
		}
		ns := int64(got.Cells[0].Int)
		bns := big.NewInt(ns)
		// Lo <= ns <= Hi (Lo == Hi == exact when every component is a whole number of ns)
		if bns.Cmp(p.Lo) < 0 || bns.Cmp(p.Hi) > 0 {
			key, isolated := c15BlameDuration(w, st, text)
			if !inRange {
				key = "parse-duration-accepts-overflow:" + shape
			}
			c15Violate(w, key,
				fmt.Sprintf("(duration-ns (parse-duration %q)) is %d, exact value is %s ns%s", text, ns, exact.FloatString(6), isolated),
				fmt.Sprintf("input: %q\nexact: %s ns; admissible results (each component rounded down or up): [%s, %s]\nobserved: %d ns%s", text, exact.RatString(), p.Lo, p.Hi, ns, isolated))
		}
		wantMs := c15x.RoundedQuotient(bns, 1_000_000)
		wantS := c15x.RoundedQuotient(bns, 1_000_000_000)
		gotMs, gotS := got.Cells[1].Float, got.Cells[2].Float
		mag := "small"
		if ns > 1<<53 || ns < -(1<<53) {
			mag = "above-2^53"
		}
		if !c15x.WithinOneULP(gotMs, wantMs) {
			c15Violate(w, "duration-ms-inexact:"+mag, fmt.Sprintf("duration-ms of %d ns is %v, correctly rounded quotient is %v", ns, gotMs, wantMs),
				fmt.Sprintf("input: %q = %d ns\nobserved: %b\nexpected (nearest float64 of ns/1e6, +-1 ulp): %b", text, ns, gotMs, wantMs))
		}
		if !c15x.WithinOneULP(gotS, wantS) {
			c15Violate(w, "duration-s-inexact:"+mag, fmt.Sprintf("duration-s of %d ns is %v, correctly rounded quotient is %v", ns, gotS, wantS),
				fmt.Sprintf("input: %q = %d ns\nobserved: %b\nexpected (nearest float64 of ns/1e9, +-1 ulp): %b", text, ns, gotS, wantS))
		}
		exactness := "integral"
		if !exact.IsInt() {
			exactness = "fractional-ns"
		}
		ulp := "exact"
		if gotMs != wantMs || gotS != wantS {
			ulp = "1ulp"
		}
		w.CoverKey(fmt.Sprintf("dur|%s|%s|%s|%s|sign=%d|%s|%s", shape, rangeClass, exactness, mag, exact.Sign(), ulp, outcome))
		if i == 0 && c15WantSample(w, "duration") {
			w.Sample(map[string]any{"kind": "duration", "input": text, "exact_ns": exact.RatString(), "observed_ns": ns, "duration_s": gotS, "duration_ms": gotMs})
		}
	}
}
