package props

// C19 — static arity diagnostics agree with the evaluator's argument binding.
//
// Shared machinery: the three `elps lint` configurations, the run-time
// classification of one call, source building with a tracked target call, and
// the registration / case layout.

import (
	"fmt"
	"os"
	"path/filepath"
	"sort"
	"strings"
	"sync"

	"github.com/luthersystems/elps/analysis"
	"github.com/luthersystems/elps/lint"
	"github.com/luthersystems/elps/lisp"

	"verifharness/fw"
	"verifharness/rt"
)

// ---------------------------------------------------------------------------
// lint side

// c19ArityAnalyzers are the analyzers the property calls "the arity checks".
var c19ArityAnalyzers = map[string]bool{"builtin-arity": true, "if-arity": true, "user-arity": true}

// c19Modes are the three ways `elps lint` can be configured (cmd/lint.go):
//
//	syn   : elps lint FILE                      -> Linter.LintFiles(nil, files)      (syntactic analyzers only)
//	ws    : elps lint --workspace=DIR DIR/FILE  -> Linter.LintFiles(cfg, files)      (semantic; file is part of the workspace)
//	stdin : elps lint --workspace=DIR < FILE    -> BuildAnalysisConfig + LintFileWithAnalysis(src, "<stdin>")
//	        (semantic; the text is not part of the scanned workspace)
var c19Modes = []string{"syn", "ws", "stdin"}

type c19Diag struct {
	Analyzer string
	Line     int
	Col      int
	Msg      string
	IsError  bool
}

func (d c19Diag) String() string {
	return fmt.Sprintf("%d:%d %s: %s", d.Line, d.Col, d.Analyzer, d.Msg)
}

type c19LintResult struct {
	Mode  string
	Diags []c19Diag
	Err   error
}

// Per-process scratch: one workspace directory that holds the case file (modes
// syn and ws) and one empty workspace directory (mode stdin).  The analysis
// config of the empty workspace does not depend on the case, so it is built
// once per process (cmd/lint.go builds it once per invocation).
var (
	c19TmpRoot    string
	c19StdinCfg   *analysis.Config
	c19StdinCfgEr error
)

func c19Scratch() (wsDir, emptyDir string, err error) {
	if c19TmpRoot == "" {
		c19TmpRoot, err = os.MkdirTemp("", "c19ws-")
		if err != nil {
			return "", "", err
		}
		os.Mkdir(filepath.Join(c19TmpRoot, "ws"), 0o755)
		os.Mkdir(filepath.Join(c19TmpRoot, "empty"), 0o755)
	}
	return filepath.Join(c19TmpRoot, "ws"), filepath.Join(c19TmpRoot, "empty"), nil
}

// c19Cleanup removes the per-process scratch (called after the worker's last case).
func c19Cleanup() {
	if c19TmpRoot != "" {
		os.RemoveAll(c19TmpRoot)
		c19TmpRoot, c19StdinCfg, c19StdinCfgEr = "", nil, nil
	}
}

// c19Lint runs the linter exactly as cmd/lint.go does for the given mode.
func c19Lint(mode, src string) c19LintResult {
	res := c19LintResult{Mode: mode}
	l := &lint.Linter{Analyzers: lint.DefaultAnalyzers()}
	dir, empty, err := c19Scratch()
	if err != nil {
		res.Err = err
		return res
	}
	var diags []lint.Diagnostic
	switch mode {
	case "syn":
		path := filepath.Join(dir, "case.lisp")
		if err := os.WriteFile(path, []byte(src), 0o644); err != nil {
			res.Err = err
			return res
		}
		diags, err = l.LintFiles(nil, []string{path})
	case "ws":
		path := filepath.Join(dir, "case.lisp")
		if err := os.WriteFile(path, []byte(src), 0o644); err != nil {
			res.Err = err
			return res
		}
		diags, err = l.LintFiles(&lint.LintConfig{Workspace: dir}, []string{path})
	case "stdin":
		if c19StdinCfg == nil && c19StdinCfgEr == nil {
			c19StdinCfg, c19StdinCfgEr = lint.BuildAnalysisConfig(&lint.LintConfig{Workspace: empty})
		}
		if c19StdinCfgEr != nil {
			res.Err = c19StdinCfgEr
			return res
		}
		diags, err = l.LintFileWithAnalysis([]byte(src), "<stdin>", c19StdinCfg)
	default:
		panic("c19: bad lint mode " + mode)
	}
	res.Err = err
	for _, d := range diags {
		res.Diags = append(res.Diags, c19Diag{Analyzer: d.Analyzer, Line: d.Pos.Line, Col: d.Pos.Col, Msg: d.Message,
			IsError: d.Severity == lint.SeverityError})
	}
	return res
}

// c19Pos is the 1-based line/column of the target call's opening parenthesis.
type c19Pos struct{ Line, Col int }

// arityAt returns the arity-analyzer diagnostics located at the target call
// (the analyzers report either at the form or at its head symbol), and the
// other error-severity diagnostics located there.
func (r c19LintResult) arityAt(p c19Pos) (arity []c19Diag, otherErr []c19Diag) {
	for _, d := range r.Diags {
		if d.Line != p.Line || (d.Col != p.Col && d.Col != p.Col+1) {
			continue
		}
		if c19ArityAnalyzers[d.Analyzer] {
			arity = append(arity, d)
		} else if d.IsError {
			otherErr = append(otherErr, d)
		}
	}
	return
}

func c19DiagList(ds []c19Diag) string {
	if len(ds) == 0 {
		return "(none)"
	}
	var ss []string
	for _, d := range ds {
		ss = append(ss, d.String())
	}
	return strings.Join(ss, " ; ")
}

func c19Analyzers(ds []c19Diag) string {
	m := map[string]bool{}
	for _, d := range ds {
		m[d.Analyzer] = true
	}
	var ss []string
	for k := range m {
		ss = append(ss, k)
	}
	sort.Strings(ss)
	return strings.Join(ss, "+")
}

// ---------------------------------------------------------------------------
// source building

const c19Mark = "\x00"

// c19Place substitutes call for the single marker in tmpl and returns the
// source and the position of the call's opening parenthesis.
func c19Place(tmpl, call string) (string, c19Pos) {
	i := strings.Index(tmpl, c19Mark)
	if i < 0 || strings.Count(tmpl, c19Mark) != 1 {
		panic("c19: template must contain exactly one target marker: " + tmpl)
	}
	pre := tmpl[:i]
	line := 1 + strings.Count(pre, "\n")
	col := i - strings.LastIndex(pre, "\n") // works for -1 too
	return pre + call + tmpl[i+1:], c19Pos{line, col}
}

func c19Call(head string, args []string) string {
	if len(args) == 0 {
		return "(" + head + ")"
	}
	return "(" + head + " " + strings.Join(args, " ") + ")"
}

func c19Ints(k, base int) []string {
	a := make([]string, k)
	for i := range a {
		a[i] = fmt.Sprint(base + i)
	}
	return a
}

// ---------------------------------------------------------------------------
// run-time side

const c19MaxSteps = 200_000

// c19BinderMsg reports whether msg is one of the messages raised by
// (*LEnv).bind / bindFormalNext, and whether it is the argument-count kind.
func c19BinderMsg(msg string) (binder, count bool) {
	switch {
	case strings.HasPrefix(msg, "invalid number of arguments"):
		return true, true
	case strings.HasPrefix(msg, "function called with an odd number of keyword arguments"):
		return true, true
	case strings.HasPrefix(msg, "argument is not a keyword"),
		strings.HasPrefix(msg, "unrecognized keyword argument"),
		strings.HasPrefix(msg, "function formal argument list contains"):
		return true, false
	}
	return false, false
}

// c19Obs is what one evaluation showed about the target call.
type c19Obs struct {
	T        rt.Transcript
	AtTarget bool   // the error's own location is the target call
	Binder   bool   // the message is the binder's
	Count    bool   // ... of the argument-count kind
	TopFID   string // function on top of the stack when the error was made
	TopName  string
	TopPkg   string
	Height   int
}

// BindFailed: the evaluation ended in an error raised by the argument binder.
// Which call it belongs to is decided by the caller from the function on top
// of the error's call stack: every source has exactly one call that is not
// known to bind (the target), which the control run establishes.  The error's
// own location is recorded (AtTarget) but not required: under tail-call
// elimination, handler-bind and macro expansion the evaluator reports the
// enclosing form's location.
func (o c19Obs) BindFailed() bool { return o.T.IsErr && o.Binder }

func (o c19Obs) String() string {
	if !o.T.IsErr {
		return "value " + o.T.Value + " trace[" + o.T.TraceString() + "]"
	}
	return fmt.Sprintf("error %q (cond %s) atTarget=%v top=%s:%s fid=%s height=%d trace[%s]",
		o.T.Msg, o.T.Cond, o.AtTarget, o.TopPkg, o.TopName, o.TopFID, o.Height, o.T.TraceString())
}

// c19Eval evaluates src in a fresh runtime and observes the target call.
func c19Eval(src string, p c19Pos) c19Obs { return c19EvalWith(src, p, nil) }

// c19EvalWith is c19Eval with a hook that may extend the fresh runtime (extra
// observation builtins) before the source is evaluated.
func c19EvalWith(src string, p c19Pos, setup func(*rt.R)) c19Obs {
	r := rt.New(rt.Opts{MaxSteps: c19MaxSteps})
	if setup != nil {
		setup(r)
	}
	t, v := r.RunV("case.lisp", src)
	o := c19Obs{T: t}
	if v != nil && v.Type == lisp.LError {
		if loc, ok := v.Source(); ok && loc.Line == p.Line && loc.Col == p.Col {
			o.AtTarget = true
		}
		o.Binder, o.Count = c19BinderMsg(t.Msg)
		if st := v.CallStack(); st != nil {
			o.Height = len(st.Frames)
			if top := st.Top(); top != nil {
				o.TopFID, o.TopName, o.TopPkg = top.FID, top.Name, top.Package
			}
		}
	}
	return o
}

// ---------------------------------------------------------------------------
// registry enumeration (run time, from the real default environment)

type c19Fun struct {
	Pkg, Name string
	Kind      string // function | operator | macro
	FID       string
	Formals   []string
	Core      bool // member of the lisp package (the core language)
}

func (f c19Fun) sig() c19Sig { return c19ParseFormals(f.Formals) }

// c19Sig is the harness's own reading of a formals list.
type c19Sig struct {
	Req, Opt int
	Rest     bool
	Keys     []string
	Named    int // all named parameters
}

func (s c19Sig) HasKey() bool { return len(s.Keys) > 0 }

func (s c19Sig) Class() string {
	c := fmt.Sprintf("req%d", s.Req)
	if s.Opt > 0 {
		c += fmt.Sprintf("+opt%d", s.Opt)
	}
	if s.Rest {
		c += "+rest"
	}
	if len(s.Keys) > 0 {
		c += fmt.Sprintf("+key%d", len(s.Keys))
	}
	return c
}

func c19ParseFormals(fs []string) c19Sig {
	var s c19Sig
	mode := 0
	for _, f := range fs {
		switch f {
		case lisp.OptArgSymbol:
			mode = 1
		case lisp.VarArgSymbol:
			mode = 2
		case lisp.KeyArgSymbol:
			mode = 3
		default:
			s.Named++
			switch mode {
			case 0:
				s.Req++
			case 1:
				s.Opt++
			case 2:
				s.Rest = true
			case 3:
				s.Keys = append(s.Keys, f)
			}
		}
	}
	return s
}

var (
	c19RegOnce sync.Once
	c19Reg     []c19Fun
)

// c19Registry lists every function value bound in the default environment's
// packages (lisp = core language; the rest = standard library), sorted.
func c19Registry() []c19Fun {
	c19RegOnce.Do(func() {
		r := rt.New(rt.Opts{NoProbes: true})
		reg := r.Env.Runtime.Registry
		pkgs := reg.PackageNames()
		sort.Strings(pkgs)
		seen := map[string]bool{}
		for _, pn := range pkgs {
			if pn == lisp.DefaultUserPackage {
				continue // re-exports of the lisp package
			}
			pkg := reg.Package(pn)
			names := pkg.SymbolNames()
			sort.Strings(names)
			for _, n := range names {
				v, ok := pkg.Symbol(n)
				if !ok || v.Type != lisp.LFun || len(v.Cells) == 0 {
					continue
				}
				if seen[pn+":"+n] {
					continue
				}
				seen[pn+":"+n] = true
				f := c19Fun{Pkg: pn, Name: n, FID: v.FID(), Core: pn == lisp.DefaultLangPackage}
				switch {
				case v.IsMacro():
					f.Kind = "macro"
				case v.IsSpecialOp():
					f.Kind = "operator"
				default:
					f.Kind = "function"
				}
				for _, c := range v.Cells[0].Cells {
					f.Formals = append(f.Formals, c.Str)
				}
				c19Reg = append(c19Reg, f)
			}
		}
		// core first, so the case layout starts with the property's own domain
		sort.SliceStable(c19Reg, func(i, j int) bool { return c19Reg[i].Core && !c19Reg[j].Core })
	})
	return c19Reg
}

func c19CoreFun(name string) c19Fun {
	for _, f := range c19Registry() {
		if f.Core && f.Name == name {
			return f
		}
	}
	panic("c19: no core function " + name)
}

// ---------------------------------------------------------------------------
// registration and case layout

type c19Layout struct {
	nReg, nUser, nShadow, nRedef, nPos, nMove, nPlace int
}

func c19GetLayout() c19Layout {
	return c19Layout{nReg: len(c19Registry()), nUser: len(c19UserSigs()), nShadow: len(c19ShadowCases()), nRedef: len(c19RedefCases()), nPos: c19PositionCaseCount(), nMove: len(c19MoveCases()), nPlace: len(c19PlaceCases())}
}

func (l c19Layout) enumerated() int {
	return l.nReg + l.nUser + l.nShadow + l.nRedef + l.nPos + l.nMove + l.nPlace
}

func c19RandomCases(tier string) int {
	if tier == "thorough" {
		return 150_000
	}
	return 6_000
}

func init() {
	fw.Register(&fw.Prop{
		ID: "C19", Level: "exploration",
		Rule: "EXHAUSTIVE part (same in both tiers): (1) every function value bound in the default environment (lisp package = core language: builtins, special operators, macros; other packages = stdlib, one direction only) x k = 0..named-params+2 integer-literal arguments (plus keyword-pair / odd-keyword / unknown-keyword argument lists for &key signatures, and the package-qualified spelling of every core name), one call per source; " +
			"(2) defun signatures: required 0..3 x optional 0..2 x rest x key 0..2 x k = 0..6; " +
			fmt.Sprintf("(3) shadowing contexts: %d context shapes x %d builtin names x up to %d shadow values x k = 0..%d", len(c19Shapes), len(c19Targets), len(c19Shadows), c19ShadowMaxK) + ", the binding reached decided by evaluating (probe in the shadow body, function id on the error's call stack) and a control run that replaces the target call by a probe; " +
			fmt.Sprintf("(4) one name defined more than once: %d placements of the call (after / between the definitions, in a function defined before / between / after them and invoked between / after them, the definitions in one package or in two) x %d definer pairs (defun/defmacro) x every ordered pair of %d different formals lists x k = 0..%d, the definition in force at the call decided by evaluating (a control run records what the name is bound to at the call's position; each definition body has its own probe). ", len(c19RedefPlaces), len(c19RedefDefiners), len(c19RedefFormals), c19RedefMaxK) +
			fmt.Sprintf("(5) syntactic positions: %d places a call can be written in (body / initialisers / local function bodies of let, let*, flet, labels, macrolet in the paren and the bracket spelling of the binding entries, bracket-spelled formals, cond clauses, dotimes count/result/body, handler-bind handler expressions and bodies, lambda/defun/defmacro bodies, threading-macro operands, assignment values, unquoted parts and expansions of templates) x %d callees (core functions of arity 0/1/2, special operators, a macro, a defun) x k = 0..named+1, a control run deciding how often the place is evaluated; %d data positions (observed only) and %d call-shaped places that are not calls (binding entries, formals lists, threading steps: judged where docs/lint-checks.md documents the exclusion). ", len(c19Positions()), len(c19PosCalleeNames)+1, len(c19DataPositions), len(c19NonCalls)) +
			fmt.Sprintf("(6) package movement between a global shadowing definition and the call: %d global rebinding kinds (defun, defmacro, set) x the %d builtin names x %d shadow values x %d movements (the defining package declared again, an excursion to another package and back, (in-package 'user) while in user, a nested load-string that enters and leaves packages, export of the name, use-package of a package exporting the same name / other names, the name used from another package, the call in a function of the defining package invoked after the movement or from another package) x k = 0..%d, judged like (3); a finding the plain definition-then-call program shows too keeps the plain shape's key. ", len(c19GlobalKinds), len(c19Targets), len(c19MoveShadowsFor(c19GlobalKinds[len(c19GlobalKinds)-1])), len(c19Moves), c19ShadowMaxK) +
			fmt.Sprintf("(7) where the global shadowing definition sits: %d global rebinding kinds x %d builtin names x the shadow values of (6) x %d placements = %d sites (the definition at top level, in the same top-level form as the call, in an installer function called before the call / from another function / through funcall / through map / applied anonymously, and - written in the file but not evaluated before the call - in an installer nobody calls, one called after the call, a branch not taken; as text handed to load-string: observed only) x %d forms around the definition (progn, a let keeping the original in a closure, let*, bracket-spelled let, if, cond, and, flet, handler-bind body and handler, ignore-errors, dotimes, three forms deep) x k = 0..%d, judged like (3); a site only declares whether the definition runs before the call, which the observed reach must confirm; a finding the plain program (bare definition right before / right after the call) shows too keeps the plain shape's key. ", len(c19GlobalKinds), len(c19PlaceTargets), len(c19Placements()), len(c19Sites), len(c19DefWraps), c19ShadowMaxK) +
			"Each source is linted in the three configurations `elps lint` has (no workspace; --workspace with the file inside; --workspace reading stdin) and evaluated in a fresh runtime. " +
			"SAMPLED part: the same seven families under random neutral wrappers (incl. bracket-spelled ones), the bracket spelling of the shadowing shapes' binding entries, argument expressions, names, line/column placement (and a third definition; for (7) every site x stacks of up to three forms around the definition x all names and shadow values). " +
			"A cover key is (family, kind|signature class|shape, lint mode outcome, run-time outcome class, relation of k to the accepted range).",
		Assumptions: []string{
			"run-time binding failure of a call = the evaluation returns an error whose own source location is the call, whose message is one of the messages produced by (*LEnv).bind/bindFormalNext, and whose call-stack top is the callee (function id compared with the registry's); errors raised later by a builtin body or by a macro's expansion do not count",
			"'reported' = a diagnostic of builtin-arity, if-arity or user-arity positioned at the call form or its head symbol; for the completeness direction an error-severity diagnostic of another analyzer at the same position is also accepted (counted separately)",
			"completeness for defun signatures and user-arity is only demanded in the two --workspace configurations (user-arity is documented as requiring semantic analysis)",
			"standard-library packages are outside 'core language': only 'reported => fails binding' is demanded for them",
			"the control run (target replaced by (verif:probe 'c19-target)) establishes that the target is evaluated exactly once; templates violating that are reported as harness errors",
			"syntactic positions: a place is an evaluated position iff the control run (target replaced by a probe) evaluates it exactly once; a call-shaped list at a place that is never evaluated (quoted data) is not a direct call and is not judged",
			"a name defined more than once: the evaluator loads the file top to bottom and each defun/defmacro replaces the package's binding of the name, so a call is judged against the definition in force when the call is evaluated (observed, not derived from the text); a failing call of a user macro owes no report, a reported call that binds is a violation whatever it reaches",
		},
		Cases: func(tier string) int {
			l := c19GetLayout()
			return l.enumerated() + c19RandomCases(tier)
		},
		Run:         c19Run,
		MinDistinct: func(tier string) int { return 2200 },
		// the three enumerated families are complete in both tiers (the driver
		// phase checks the counts); the sampled family is extra variation on top
		Exhaustive: func(tier string) bool { return true },
		Driver:     c19Driver,
	})
}

func c19Run(w *fw.W, idx int) {
	l := c19GetLayout()
	switch {
	case idx < l.nReg:
		c19RunRegistry(w, c19Registry()[idx])
	case idx < l.nReg+l.nUser:
		c19RunUserSig(w, c19UserSigs()[idx-l.nReg])
	case idx < l.nReg+l.nUser+l.nShadow:
		sc := c19ShadowCases()[idx-l.nReg-l.nUser]
		c19RunShadowCase(w, sc, nil)
		if c19BracketSubset(sc) {
			// the same case with the binding entries spelled [x init]; a finding the
			// paren spelling does not show is keyed ...:only-when-wrapped
			c19RunShadowCase(w, sc, &c19Wrap{Brackets: true, Names: []string{"bracket-entries"}})
			w.Count("shadow_cases_enumerated_in_bracket_spelling", 1)
		}
	case idx < l.nReg+l.nUser+l.nShadow+l.nRedef:
		c19RunRedefCase(w, c19RedefCases()[idx-l.nReg-l.nUser-l.nShadow])
	case idx < l.nReg+l.nUser+l.nShadow+l.nRedef+l.nPos:
		c19RunPositionCase(w, idx-l.nReg-l.nUser-l.nShadow-l.nRedef)
	case idx < l.enumerated()-l.nPlace:
		c19RunMoveCase(w, c19MoveCases()[idx-l.nReg-l.nUser-l.nShadow-l.nRedef-l.nPos])
	case idx < l.enumerated():
		c19RunPlaceCase(w, c19PlaceCases()[idx-(l.enumerated()-l.nPlace)])
	default:
		// the sampled cases keep the PRNG streams they had before family 8 was
		// appended to the enumerated part
		c19RunRandom(w, idx-l.nPlace)
	}
	if w.Verbose || idx+w.NShards >= l.enumerated()+c19RandomCases(w.Tier) {
		c19Cleanup() // last case of this worker
	}
}

// c19Sample records a written-out case.
func c19Sample(w *fw.W, family, src string, p c19Pos, lints []c19LintResult, o c19Obs) {
	if !w.WantSample() {
		return
	}
	m := map[string]any{"family": family, "source": src, "target": fmt.Sprintf("%d:%d", p.Line, p.Col), "run": o.String()}
	for _, lr := range lints {
		a, _ := lr.arityAt(p)
		m["lint_"+lr.Mode] = c19DiagList(a)
	}
	w.Sample(m)
}

// c19Driver checks that the enumerated families were really enumerated: the
// number of core names handled by the workers must equal the size of the
// default builtin / operator / macro lists, and likewise for the two other
// grids.  Otherwise the run is inconclusive.
func c19Driver(d *fw.D) {
	wantCore := len(lisp.DefaultBuiltins()) + len(lisp.DefaultSpecialOps()) + len(lisp.DefaultMacros())
	nCore := 0
	for _, f := range c19Registry() {
		if f.Core {
			nCore++
		}
	}
	if nCore != wantCore {
		d.Inconclusive(fmt.Sprintf("registry enumeration found %d core names, the default lists hold %d", nCore, wantCore))
	}
	check := func(counter string, want int) {
		if got := d.Counters[counter]; got != int64(want) {
			d.Inconclusive(fmt.Sprintf("%s = %d, expected %d: an enumerated family is incomplete", counter, got, want))
		}
	}
	check("core_names_enumerated", wantCore)
	check("stdlib_names_enumerated", len(c19Registry())-nCore)
	check("defun_signatures_enumerated", len(c19UserSigs()))
	check("shadow_cases_enumerated", len(c19ShadowCases()))
	check("redefined_cases_enumerated", len(c19RedefCases()))
	check("position_cases_enumerated", c19PositionCaseCount())
	check("pkgmove_cases_enumerated", len(c19MoveCases()))
	check("placement_cases_enumerated", len(c19PlaceCases()))
	if got := len(d.Sets["definition_placements"]); got != len(c19Placements()) {
		d.Inconclusive(fmt.Sprintf("%d of %d placements of the shadowing definition were run", got, len(c19Placements())))
	}
	if got := len(d.Sets["definition_placement_kinds"]); got != len(c19GlobalKinds) {
		d.Inconclusive(fmt.Sprintf("%d of %d global rebinding kinds were placed", got, len(c19GlobalKinds)))
	}
	// every placement must have been classified by the evaluator for every kind
	// (a placement whose program the judge could not classify says nothing)
	for _, kd := range c19GlobalKinds {
		seen := map[string]bool{}
		for m := range d.Sets["definition_placement_reach:"+kd.Name] {
			seen[strings.SplitN(m, " -> ", 2)[0]] = true
		}
		for _, pl := range c19Placements() {
			if !seen[pl.name()] {
				d.Inconclusive(fmt.Sprintf("placement %s of a %s was never classified by an evaluation", pl.name(), kd.Name))
			}
		}
	}
	if d.Counters["sampled_placement_cases"] == 0 {
		d.Inconclusive("the sampled part drew no placement of a shadowing definition")
	}
	if got := len(d.Sets["package_movements"]); got != len(c19Moves) {
		d.Inconclusive(fmt.Sprintf("%d of %d package movements were run", got, len(c19Moves)))
	}
	// every position template must have been found evaluated exactly once by its
	// control run (otherwise a harness-template:* violation was recorded as well)
	if got := len(d.Sets["positions_evaluated_once"]); got != len(c19Positions()) {
		d.Inconclusive(fmt.Sprintf("%d of %d position templates were found evaluated exactly once", got, len(c19Positions())))
	}
}
