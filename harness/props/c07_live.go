package props

import (
	"fmt"
	"sort"
	"strings"

	"verifharness/fw"
	"verifharness/rt"
	"verifharness/sx"
)

// C07, expansions that embed LIVE OBJECTS (idx%8 == 5).
//
// "unquote inserts the value of its expression": when that value is a mutable
// object of the program (a sorted-map, a vector, a runtime list, a deftype
// instance, a closure over mutable state, or a component of a nested structure
// of those) the expansion holds the object itself, and a form of the expansion
// that mutates it (assoc!, dissoc!, append!, stable-sort in place, a call of the
// closure) changes the program's own object.  The first sentence of the property
// then says that this effect is the same whichever way the expansion is reached.
//
// One case = one program: 1-3 global objects, 2-4 macros whose templates unquote
// an object (or a path into one, computed at expansion time) into a mutating
// form, 0-2 macros expanding to calls of those, 2-5 call statements, each
// followed by a probe of the state of EVERY object as reached through its global
// (and identity-sensitive readings: (equal? global embedded) after the mutation,
// inside the expansion).  The program is run through four routes, each in a
// fresh runtime:
//
//	direct   (m args)
//	expand   (eval (macroexpand '(m args)))
//	fix      (eval F) with F the fixpoint of macroexpand-1 from '(m args)
//	nested   (c07-id (m args)) or (eval (macroexpand '(c07-id (m args)))),
//	         c07-id a macro whose expansion is its argument form
//
// and all four transcripts (outcome, effect trace, stderr) must be equal.  The
// reference interpreter judges the direct route where it models every construct
// of the program (not deftype; not a runtime list sorted in place from inside an
// expansion: the model marks lists inside an expansion as program text).

type c07LiveObj struct {
	name  string
	class string // what the constructor builds (coverage)
	def   []*sx.N
	obs   *sx.N // form that reads the object's state through its global
}

// c07Embed is one way of reaching a mutable object at expansion time.
type c07Embed struct {
	expr    *sx.N  // evaluated inside the macro body (under unquote)
	kind    string // map, vec, list, objlist, tagged-map, tagged-vec, counter, mapclosure
	how     string // global, path, user-data, private
	obj     int    // index of the object it belongs to
	modelOK bool
	private string // non-empty: the macro must be defined inside (let ([<private> ...]) ...)
	reader  string // private: the function that returns the object
}

type c07LiveMacro struct {
	name    string
	roles   []string // key, val, int - one per parameter
	def     *sx.N    // (defmacro name formals body), possibly wrapped in a let
	local   *sx.N    // macrolet binding (name formals body) when defined locally
	feat    string
	modelOK bool
}

type c07LiveGen struct {
	c07Gen
	objs     []c07LiveObj
	embeds   []c07Embed
	needPut  bool
	needType bool
	modelOK  bool
}

func (g *c07LiveGen) ints(n int) []*sx.N {
	var xs []*sx.N
	for i := 0; i < n; i++ {
		xs = append(xs, sx.I(int64(g.r.Intn(30))))
	}
	return xs
}

func (g *c07LiveGen) mapCtor() *sx.N {
	var kv []*sx.N
	for _, k := range []string{":a", ":b", ":m"}[:g.r.Intn(4)] {
		kv = append(kv, sx.Y(k), sx.I(int64(g.r.Intn(9))))
	}
	return sx.Call("sorted-map", kv...)
}

func (g *c07LiveGen) vecCtor() *sx.N { return sx.Call("vector", g.ints(g.r.Range(0, 4))...) }

func (g *c07LiveGen) object(k int) {
	name := fmt.Sprintf("g%d", k)
	y := sx.Y(name)
	o := c07LiveObj{name: name, obs: y}
	set := func(ctor *sx.N) { o.def = append(o.def, sx.Call("set", sx.QY(name), ctor)) }
	emb := func(e *sx.N, kind, how string, ok bool) {
		g.embeds = append(g.embeds, c07Embed{expr: e, kind: kind, how: how, obj: k - 1, modelOK: ok})
	}
	switch g.r.Intn(10) {
	case 0, 1:
		o.class = "sorted-map"
		set(g.mapCtor())
		emb(y, "map", "global", true)
	case 2:
		o.class = "vector"
		set(g.vecCtor())
		emb(y, "vec", "global", true)
	case 3:
		o.class = "runtime-list"
		set(sx.Call("list", g.ints(g.r.Range(2, 5))...))
		emb(y, "list", "global", false)
	case 4:
		g.needType = true
		if g.r.Bool() {
			o.class = "deftype-over-map"
			set(sx.Call("new", sx.Y("c07box"), g.mapCtor()))
			emb(y, "tagged-map", "global", false)
			emb(sx.Call("user-data", y), "map", "user-data", false)
		} else {
			o.class = "deftype-over-vector"
			set(sx.Call("new", sx.Y("c07box"), g.vecCtor()))
			emb(y, "tagged-vec", "global", false)
			emb(sx.Call("user-data", y), "vec", "user-data", false)
		}
	case 5:
		o.class = "counter-closure"
		set(sx.Call("let", sx.L(sx.L(sx.Y("c"), sx.I(int64(g.r.Intn(5))))),
			sx.Call("lambda", sx.L(sx.Y("x")), sx.Call("set!", sx.Y("c"), sx.Call("+", sx.Y("c"), sx.Y("x"))), sx.Y("c"))))
		o.obs = sx.Call("funcall", y, sx.I(0))
		emb(y, "counter", "global", true)
	case 6:
		o.class = "closure-over-map"
		set(sx.Call("let", sx.L(sx.L(sx.Y("m"), g.mapCtor())),
			sx.Call("lambda", sx.L(sx.Y("k"), sx.Y("v")), sx.Call("assoc!", sx.Y("m"), sx.Y("k"), sx.Y("v")))))
		o.obs = sx.Call("funcall", y, sx.S("seen"), sx.I(0))
		emb(y, "mapclosure", "global", true)
	case 7:
		o.class = "map-of-objects"
		set(sx.Call("sorted-map", sx.Y(":inner"), g.mapCtor(), sx.Y(":v"), g.vecCtor()))
		emb(y, "map", "global", true)
		emb(sx.Call("get", y, sx.Y(":inner")), "map", "path", true)
		emb(sx.Call("get", y, sx.Y(":v")), "vec", "path", true)
	case 8:
		o.class = "vector-of-objects"
		set(sx.Call("vector", g.mapCtor(), g.vecCtor()))
		emb(sx.Call("nth", y, sx.I(0)), "map", "path", true)
		emb(sx.Call("nth", y, sx.I(1)), "vec", "path", true)
	default:
		o.class = "list-of-objects"
		set(sx.Call("list", g.mapCtor(), g.vecCtor(), sx.I(int64(g.r.Intn(9)))))
		emb(y, "objlist", "global", true)
		emb(sx.Call("first", y), "map", "path", true)
		emb(sx.Call("second", y), "vec", "path", true)
	}
	g.feat["obj:"+o.class] = true
	g.objs = append(g.objs, o)
}

// liveMacro builds macro number k around one embedding.
func (g *c07LiveGen) liveMacro(k int) (m c07LiveMacro) {
	e := g.embeds[g.r.Intn(len(g.embeds))]
	m = c07LiveMacro{name: fmt.Sprintf("lm%d", k), modelOK: e.modelOK}
	// a macro that keeps the object to itself: it is created in a let around the
	// definition and only a reader function gives access to it
	if (e.kind == "map" || e.kind == "vec") && e.how == "global" && g.r.Chance(1, 6) {
		priv := fmt.Sprintf("priv%d", k)
		ctor := g.mapCtor()
		if e.kind == "vec" {
			ctor = g.vecCtor()
		}
		reader := fmt.Sprintf("peek%d", k)
		g.objs = append(g.objs, c07LiveObj{name: priv, class: "private-to-macro", obs: sx.Call(reader)})
		g.feat["obj:private-to-macro"] = true
		e = c07Embed{expr: sx.Y(priv), kind: e.kind, how: "private", obj: len(g.objs) - 1, modelOK: true, private: priv, reader: reader}
		m.modelOK = true
		defer func() {
			m.def = sx.Call("let", sx.L(sx.L(sx.Y(priv), ctor)), m.def, sx.Call("defun", sx.Y(reader), sx.L(), sx.Y(priv)))
		}()
	}
	E := uq(e.expr.Clone())
	G := e.expr.Clone() // the same object reached at run time, through the global
	if e.private != "" {
		G = sx.Call(e.reader)
	}
	p1, p2 := uq(sx.Y("p1")), uq(sx.Y("p2"))
	var t *sx.N
	body := func(t *sx.N) *sx.N { return sx.Call("quasiquote", t) }
	feat := ""
	switch e.kind {
	case "map":
		m.roles = []string{"key", "val"}
		switch g.r.Intn(9) {
		case 0:
			feat, t = "assoc!", sx.Call("assoc!", E, p1, p2)
		case 1:
			feat, t = "dissoc!", sx.Call("dissoc!", E, p1)
			m.roles = []string{"key"}
		case 2:
			feat, t = "assoc!-then-get-second-occurrence", sx.Call("progn", sx.Call("assoc!", E, p1, p2), sx.Call("get", E.Clone(), p1.Clone()))
		case 3:
			feat, t = "assoc!-then-equal?-global", sx.Call("progn", sx.Call("assoc!", E, p1, p2), sx.Call("equal?", G, E.Clone()))
		case 4:
			feat, t = "let-bound-then-assoc!", sx.Call("let", sx.L(sx.L(sx.Y("o"), E)), sx.Call("assoc!", sx.Y("o"), p1, p2), sx.Call("keys", sx.Y("o")))
		case 5:
			feat, t = "spliced-object-list", sx.Call("assoc!", sx.Call("first", sx.Call("list", uqs(sx.Call("list", e.expr.Clone())))), p1, p2)
		case 6:
			// the object is handed on as an ARGUMENT of another macro
			feat, t = "object-as-macro-argument", sx.Call("c07-put", E, p1, p2)
			g.needPut = true
		case 7:
			feat, t = "assoc!-twice-two-occurrences", sx.Call("list", sx.Call("assoc!", E, p1, p2), sx.Call("assoc!", E.Clone(), sx.S("again"), sx.I(1)))
		default:
			// bound at expansion time, outside the template
			feat = "bound-at-expansion-then-assoc!"
			m.roles = []string{"key", "val"}
			g.feat["live:"+e.kind+"/"+e.how+"/"+feat] = true
			m.feat = e.kind + "/" + feat
			m.def = g.define(&m, e, sx.Call("let", sx.L(sx.L(sx.Y("o"), e.expr.Clone())), body(sx.Call("assoc!", uq(sx.Y("o")), p1, p2))))
			return m
		}
	case "vec":
		m.roles = []string{"val"}
		switch g.r.Intn(5) {
		case 0:
			feat, t = "append!", sx.Call("append!", E, p1)
		case 1:
			feat, t = "append!-then-length-second-occurrence", sx.Call("progn", sx.Call("append!", E, p1), sx.Call("length", E.Clone()))
		case 2:
			feat, t = "stable-sort-vector", sx.Call("stable-sort", sx.Y("<"), E)
			m.roles = nil
		case 3:
			feat, t = "append!-then-equal?-global", sx.Call("progn", sx.Call("append!", E, p1), sx.Call("equal?", G, E.Clone()))
		default:
			feat, t = "append!-two-occurrences", sx.Call("list", sx.Call("append!", E, p1), sx.Call("append!", E.Clone(), sx.I(0)))
		}
	case "list":
		m.roles = nil
		switch g.r.Intn(4) {
		case 0:
			feat, t = "stable-sort-in-place", sx.Call("stable-sort", sx.Y("<"), E)
		case 1:
			feat, t = "stable-sort-in-place-then-first", sx.Call("progn", sx.Call("stable-sort", sx.Y(">"), E), sx.Call("first", E.Clone()))
		case 2:
			feat, t = "stable-sort-in-place-then-equal?-global", sx.Call("progn", sx.Call("stable-sort", sx.Y("<"), E), sx.Call("equal?", G, E.Clone()))
		default:
			feat, t = "stable-sort-with-key-in-place", sx.Call("stable-sort", sx.Y("<"), E, sx.Call("lambda", sx.L(sx.Y("x")), sx.Call("-", sx.Y("x"))))
		}
	case "objlist":
		if g.r.Bool() {
			m.roles = []string{"key", "val"}
			feat, t = "assoc!-element-of-embedded-list", sx.Call("assoc!", sx.Call("first", E), p1, p2)
		} else {
			m.roles = []string{"val"}
			feat, t = "append!-element-of-embedded-list", sx.Call("append!", sx.Call("second", E), p1)
		}
	case "tagged-map":
		m.roles = []string{"key", "val"}
		if g.r.Bool() {
			feat, t = "assoc!-user-data", sx.Call("assoc!", sx.Call("user-data", E), p1, p2)
		} else {
			feat, t = "assoc!-user-data-then-equal?-global", sx.Call("progn", sx.Call("assoc!", sx.Call("user-data", E), p1, p2), sx.Call("equal?", G, E.Clone()))
		}
	case "tagged-vec":
		m.roles = []string{"val"}
		feat, t = "append!-user-data", sx.Call("append!", sx.Call("user-data", E), p1)
	case "counter":
		m.roles = []string{"int"}
		if g.r.Bool() {
			feat, t = "funcall-closure", sx.Call("funcall", E, p1)
		} else {
			feat, t = "closure-in-head-position", sx.L(E, p1)
		}
	case "mapclosure":
		m.roles = []string{"key", "val"}
		feat, t = "set-via-closure", sx.Call("funcall", E, p1, p2)
	}
	g.feat["live:"+e.kind+"/"+e.how+"/"+feat] = true
	m.feat = e.kind + "/" + feat
	// now and then the whole expansion sits under a wrapper form that reads the argument
	// probes in its own order
	if g.r.Chance(1, 5) {
		g.feat["live:wrapped-in-list"] = true
		t = sx.Call("list", sx.Y("lex"), t)
	}
	m.def = g.define(&m, e, body(t))
	return m
}

func (g *c07LiveGen) formals(m *c07LiveMacro) *sx.N {
	var fs []*sx.N
	for i := range m.roles {
		fs = append(fs, sx.Y(fmt.Sprintf("p%d", i+1)))
	}
	return sx.L(fs...)
}

func (g *c07LiveGen) define(m *c07LiveMacro, e c07Embed, body *sx.N) *sx.N {
	return sx.Call("defmacro", sx.Y(m.name), g.formals(m), body)
}

// wrapper builds a macro whose expansion calls live macro t (a chain of two
// expansion steps, or a macro call nested inside the expansion).
func (g *c07LiveGen) wrapper(k int, t c07LiveMacro) c07LiveMacro {
	m := c07LiveMacro{name: fmt.Sprintf("lw%d", k), roles: t.roles, modelOK: t.modelOK}
	inner := func() *sx.N {
		var args []*sx.N
		for i := range t.roles {
			args = append(args, uq(sx.Y(fmt.Sprintf("p%d", i+1))))
		}
		return sx.Call(t.name, args...)
	}
	var tm *sx.N
	switch g.r.Intn(3) {
	case 0:
		m.feat = "chain"
		tm = inner()
	case 1:
		m.feat = "call-nested-in-expansion"
		tm = sx.Call("list", inner(), sx.I(int64(g.r.Intn(9))))
	default:
		m.feat = "two-calls-in-expansion"
		tm = sx.Call("progn", inner(), inner())
	}
	g.feat["wrap:"+m.feat] = true
	m.feat = "wrap:" + m.feat + ">" + t.feat
	m.def = sx.Call("defmacro", sx.Y(m.name), g.formals(&m), sx.Call("quasiquote", tm))
	return m
}

func (g *c07LiveGen) liveArg(role string) *sx.N {
	switch role {
	case "key":
		k := fw.Pick(g.r, []*sx.N{sx.Y(":a"), sx.Y(":b"), sx.Y(":c"), sx.Y(":d"), sx.S("s"), sx.S("t")})
		switch g.r.Intn(4) {
		case 0:
			return g.probe("key", k)
		case 1:
			return sx.Call("progn", g.probe("side", sx.I(0)), k)
		}
		return k
	case "int":
		switch g.r.Intn(4) {
		case 0:
			return g.probe("arg", sx.I(int64(g.r.Intn(20))))
		case 1:
			return sx.Y("lex")
		case 2:
			return sx.Call("+", sx.I(1), g.probe("arg", sx.I(int64(g.r.Intn(5)))))
		}
		return sx.I(int64(g.r.Intn(20)))
	}
	return g.argForm()
}

func c07Live(w *fw.W, idx int) {
	r := w.RNG(idx, "live")
	g := &c07LiveGen{c07Gen: c07Gen{r: r, feat: map[string]bool{}}, modelOK: true}
	for k := 1; k <= r.Range(1, 3); k++ {
		g.object(k)
	}
	var macros []c07LiveMacro
	nlive := r.Range(2, 4)
	for k := 1; k <= nlive; k++ {
		macros = append(macros, g.liveMacro(k))
	}
	for k := 1; k <= r.Intn(3); k++ {
		macros = append(macros, g.wrapper(k, macros[r.Intn(len(macros))]))
	}
	// one of the plain live macros may be local (macrolet) instead of global
	localIdx := -1
	if r.Chance(1, 4) {
		for try := 0; try < 4 && localIdx < 0; try++ {
			i := r.Intn(nlive)
			if macros[i].def.Head() == "defmacro" {
				localIdx = i
				d := macros[i].def
				macros[i].local = sx.L(d.L[1].Clone(), d.L[2].Clone(), d.L[3].Clone())
				g.feat["macrolet-live-macro"] = true
			}
		}
	}
	var calls []*sx.N
	var called []string
	for i := r.Range(2, 5); i > 0; i-- {
		m := macros[r.Intn(len(macros))]
		var args []*sx.N
		for _, role := range m.roles {
			args = append(args, g.liveArg(role))
		}
		calls = append(calls, sx.Call(m.name, args...))
		called = append(called, m.feat)
		if !m.modelOK {
			g.modelOK = false
		}
	}
	if g.needType {
		g.modelOK = false
	}
	observe := func(tag string) *sx.N {
		args := []*sx.N{sx.QY(tag)}
		for _, o := range g.objs {
			args = append(args, o.obs.Clone())
		}
		return sx.Call("verif:probe", args...)
	}
	const (
		direct = iota
		expand
		fix
		nested
		nestedExpand
	)
	build := func(route int) []*sx.N {
		var out []*sx.N
		if g.needType {
			out = append(out, sx.Call("deftype", sx.Y("c07box"), sx.L(sx.Y("m")), sx.Y("m")))
		}
		if g.needPut {
			out = append(out, sx.Call("defmacro", sx.Y("c07-put"), sx.L(sx.Y("o"), sx.Y("k"), sx.Y("v")),
				sx.Call("quasiquote", sx.Call("assoc!", uq(sx.Y("o")), uq(sx.Y("k")), uq(sx.Y("v"))))))
		}
		out = append(out, sx.Call("defmacro", sx.Y("c07-id"), sx.L(sx.Y("f")), sx.Y("f")))
		for _, o := range g.objs {
			for _, d := range o.def {
				out = append(out, d.Clone())
			}
		}
		for i, m := range macros {
			if i != localIdx {
				out = append(out, m.def.Clone())
			}
		}
		var body []*sx.N
		for i, c := range calls {
			cc := c.Clone()
			switch route {
			case expand:
				cc = sx.Call("eval", sx.Call("macroexpand", sx.Q(cc)))
			case fix:
				cc = sx.Call("eval", sx.Call("c07-fix", sx.Q(cc), sx.I(60)))
			case nested:
				cc = sx.Call("c07-id", cc)
			case nestedExpand:
				cc = sx.Call("eval", sx.Call("macroexpand", sx.Q(sx.Call("c07-id", cc))))
			}
			body = append(body, sx.Call("verif:probe", sx.QY(fmt.Sprintf("r%d", i)), cc), observe(fmt.Sprintf("s%d", i)))
		}
		if route == fix {
			body = []*sx.N{sx.RawText(`(labels ((c07-fix (f n) (let ([g (macroexpand-1 f)]) (if (or (<= n 0) (not (list? g)) (nil? g) (string= (format-string "{}" g) (format-string "{}" f))) g (c07-fix g (- n 1))))))`), sx.L(append([]*sx.N{sx.Y("progn")}, body...)...), sx.RawText(")")}
		}
		scope := sx.Call("let", append([]*sx.N{sx.L(sx.L(sx.Y("lex"), sx.I(7)))}, body...)...)
		if localIdx >= 0 {
			scope = sx.Call("macrolet", sx.L(macros[localIdx].local.Clone()), scope)
		}
		return append(out, scope, observe("end"))
	}
	forms := build(direct)
	src := sx.Render(forms, nil)
	rr := rt.New(rt.Opts{MaxSteps: 300_000})
	t1 := rr.Run("c07", src)
	w.Eval(1)
	w.Logf("source:\n%s\n=> %s trace %s", src, t1.Outcome(), t1.TraceString())

	// (a) reference interpreter, where it models every construct of the program
	if !g.modelOK {
		w.Count("live_model_not_applicable", 1)
	} else if bad, declined, in := c07AgainstModel(forms, rr, t1); declined {
		w.Count("model_declined", 1)
	} else if bad != "" {
		w.Violation("live-object-expansion:model-disagreement", bad, fmt.Sprintf("source:\n%s\nreal: %s\n trace %s\nmodel trace %s", src, t1.Outcome(), t1.TraceString(), in.TraceString()))
		return
	}

	// (b) the routes
	nestedRoute, differs := nested, false
	if r.Bool() {
		nestedRoute = nestedExpand
	}
	for _, rtx := range []struct {
		route int
		key   string
		what  string
	}{
		{expand, "live-object-expansion:call-differs-from-eval-of-macroexpand", "(eval (macroexpand '(m args)))"},
		{fix, "live-object-expansion:call-differs-from-eval-of-macroexpand-1-fixpoint", "(eval <macroexpand-1 fixpoint of '(m args)>)"},
		{nestedRoute, "live-object-expansion:call-differs-from-nested-expansion", "the call nested in the expansion of another macro"},
	} {
		src2 := sx.Render(build(rtx.route), nil)
		r2 := rt.New(rt.Opts{MaxSteps: 300_000})
		t2 := r2.Run("c07", src2)
		w.Eval(1)
		if t1.Outcome() != t2.Outcome() || t1.TraceString() != t2.TraceString() || t1.Stderr != t2.Stderr {
			w.Violation(rtx.key,
				fmt.Sprintf("objects embedded in the expansion (%s): (m args) gave %s, %s gave %s; object states after each call: %s vs %s", strings.Join(called, ", "), t1.Outcome(), rtx.what, t2.Outcome(), c07StateTrace(t1), c07StateTrace(t2)),
				fmt.Sprintf("call program:\n%s\ntrace %s\nother route:\n%s\ntrace %s", src, t1.TraceString(), src2, t2.TraceString()))
			differs = true // the other routes are still compared: each has its own key
		}
	}
	if differs {
		return
	}
	out := "value"
	if t1.IsErr {
		out = "err:" + t1.Cond
	}
	var fs []string
	for f := range g.feat {
		fs = append(fs, f)
	}
	sort.Strings(fs)
	for _, f := range fs {
		w.CoverKey("live|" + f + "|" + out)
	}
	for _, c := range called {
		w.CoverKey("live-call|" + c + "|" + out)
	}
	w.Count("live_cases", 1)
	w.Count("probe_events", int64(len(t1.Trace)))
	if w.WantSample() && len(src) < 1200 {
		w.Sample(map[string]any{"source": src, "outcome": t1.Outcome(), "trace": t1.TraceString()})
	}
}

// c07StateTrace renders only the state probes (s<i>, end) of a transcript.
func c07StateTrace(t rt.Transcript) string {
	var parts []string
	for _, p := range t.Trace {
		if p.Tag == "end" || (strings.HasPrefix(p.Tag, "s") && len(p.Tag) > 1 && p.Tag[1] >= '0' && p.Tag[1] <= '9') {
			parts = append(parts, p.String())
		}
	}
	return trunc(strings.Join(parts, "|"), 300)
}
