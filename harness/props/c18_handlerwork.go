package props

import (
	"fmt"

	"github.com/luthersystems/elps/lisp"

	"verifharness/fw"
	"verifharness/refint"
	"verifharness/rt"
	"verifharness/sx"
	"verifharness/tree"
)

// C18, family "handler work before rethrow".
//
// docs/lang.md, "Rethrowing Errors": rethrow "re-raises the current error being
// handled, preserving the original stack trace and condition data"; "Rethrown
// errors can be caught by outer handler-bind forms, allowing layered error
// handling".  The error being handled by a handler is the one that handler was
// called with, whatever the handler did before it calls (rethrow) - in particular
// whatever other handler-bind / ignore-errors forms began and ended while it ran.
//
// The family takes ANY failing program of the other families (so the failing form
// sits at every position class those reach) and puts handlers between the failing
// form and the host: every top-level form that is not a definition, and some
// function bodies, are wrapped in (handler-bind ((condition H)) ...), where H does
// some work and then either rethrows or (handler inside handler) runs a further
// guarded form that fails anew and whose handler does work and rethrows.  One
// class of work and one class of terminal per program: they name the finding key.
//
// The oracle is unchanged: the model runs the same program; the error the host
// receives must have the location of the form the model identifies and the
// model's chain of active calls; for this family additionally its condition name
// (decided with a control, see c18HWConditionChanged) and, for errors signalled
// by `error`, its data.

var c18HWKinds = []string{
	"none",                       // handlers rethrow at once (layered handlers only)
	"nested-body-succeeds",       // a handler-bind whose body succeeds
	"nested-own-binding-handles", // a handler-bind whose error its own binding handles
	"nested-unmatched-ignored",   // a handler-bind whose error matches no binding, swallowed by ignore-errors
	"helper-with-handler-bind",   // a call of a function that uses handler-bind internally
	"tail-loop",                  // a loop by tail calls
	"guarded-tail-loop",          // a loop by tail calls whose every turn runs a handler-bind
	"nested-rethrow-caught",      // a nested handler rethrows (after work of its own), an intermediate handler catches that
	"nested-rethrow-ignored",     // a nested handler rethrows (after work of its own) into ignore-errors
	"ignore-errors-plain",        // an error swallowed by ignore-errors, no handler-bind
	"mixed",                      // two or three of the above
}

var c18HWTerms = []string{
	"rethrow",                // (rethrow) as the handler's last form
	"rethrow-under-wrapper",  // (progn .. (rethrow)), (let (..) (rethrow)), (if c (rethrow) 0)
	"fails-anew-in-handler",  // the handler ends in a guarded form that fails anew; ITS handler does the work and rethrows
	"rethrow-through-layers", // several handler-bind layers around one form, each rethrowing
}

type c18HW struct {
	r      *fw.RNG
	kind   string
	term   string
	depth  int  // handlers nested inside running handlers (fails-anew) / layers
	noWork bool // control variant: the same handlers with the work left out
	used   map[string]bool
}

func (h *c18HW) suffix() string { return ":handler-work=" + h.kind + "/" + h.term }

func c18HWLambda(body ...*sx.N) *sx.N {
	return sx.Call("lambda", append([]*sx.N{sx.L(sx.Y("hw-c"), sx.Y("&rest"), sx.Y("hw-a"))}, body...)...)
}

func c18HWBind(cond string, handler *sx.N, body ...*sx.N) *sx.N {
	return sx.Call("handler-bind", append([]*sx.N{sx.L(sx.L(sx.Y(cond), handler))}, body...)...)
}

// failing builds a fresh failing form for a handler that fails anew.  None of the
// heads is a name the generator uses for locals (gen.shadowNames).
func (h *c18HW) failing() *sx.N {
	switch h.r.Intn(6) {
	case 0:
		return sx.Call("cdr", sx.I(5))
	case 1:
		return sx.Call("error", sx.QY("hw-inner-failure"), sx.S("while recovering"), sx.I(int64(h.r.Intn(9))))
	case 2:
		return sx.Y("hw-no-such-symbol")
	case 3:
		return sx.Call("cons", sx.I(1))
	case 4:
		h.used["hw-fail"] = true
		return sx.Call("identity", sx.Call("hw-fail", sx.I(5)))
	}
	return sx.Call("nth", sx.Q(sx.L(sx.I(1))), sx.S("x"))
}

// simple is one piece of work that does not itself contain a rethrow.
func (h *c18HW) simple(kind string) *sx.N {
	switch kind {
	case "nested-body-succeeds":
		return c18HWBind("condition", c18HWLambda(sx.QY("hw-unused")), sx.Call("identity", sx.QY("hw-ok")))
	case "nested-own-binding-handles":
		return c18HWBind("hw-err", c18HWLambda(sx.Call("identity", sx.Y("hw-c"))), sx.Call("error", sx.QY("hw-err"), sx.I(1)))
	case "nested-unmatched-ignored":
		return sx.Call("ignore-errors", c18HWBind("hw-other", c18HWLambda(sx.I(0)), sx.Call("error", sx.QY("hw-cleanup-failed"), sx.S("ignored"))))
	case "helper-with-handler-bind":
		h.used["hw-release"] = true
		return sx.Call("hw-release", sx.QY("lock"))
	case "tail-loop":
		h.used["hw-loop"] = true
		return sx.Call("hw-loop", sx.I(int64(h.r.Range(1, 4))), sx.I(0))
	case "guarded-tail-loop":
		h.used["hw-guarded-loop"] = true
		return sx.Call("hw-guarded-loop", sx.I(int64(h.r.Range(1, 3))), sx.I(0))
	case "ignore-errors-plain":
		return sx.Call("ignore-errors", sx.Call("cdr", sx.I(5)))
	}
	panic("c18HW: unknown simple kind " + kind)
}

var c18HWSimpleKinds = []string{"nested-body-succeeds", "nested-own-binding-handles", "nested-unmatched-ignored", "helper-with-handler-bind", "tail-loop", "guarded-tail-loop", "ignore-errors-plain"}

func (h *c18HW) one(kind string) *sx.N {
	switch kind {
	case "nested-rethrow-caught":
		// the nested handler does simple work of its own, then rethrows ITS error
		inner := c18HWBind("hw-err", c18HWLambda(h.simple(fw.Pick(h.r, c18HWSimpleKinds)), sx.Call("rethrow")), sx.Call("error", sx.QY("hw-err"), sx.I(2)))
		return c18HWBind("condition", c18HWLambda(sx.QY("hw-caught")), inner)
	case "nested-rethrow-ignored":
		inner := c18HWBind("condition", c18HWLambda(h.simple(fw.Pick(h.r, c18HWSimpleKinds)), sx.Call("rethrow")), h.failing())
		return sx.Call("ignore-errors", inner)
	}
	return h.simple(kind)
}

// work returns the forms a handler evaluates before its terminal.  It consumes
// the same random numbers in the control variant, which drops the result.
func (h *c18HW) work() []*sx.N {
	var out []*sx.N
	switch h.kind {
	case "none":
	case "mixed":
		for i, n := 0, h.r.Range(2, 3); i < n; i++ {
			out = append(out, h.one(fw.Pick(h.r, c18HWKinds[1:len(c18HWKinds)-1])))
		}
	default:
		out = append(out, h.one(h.kind))
		if h.r.Chance(1, 4) {
			out = append(out, h.one(h.kind))
		}
	}
	if h.noWork {
		return nil
	}
	return out
}

func (h *c18HW) rethrow() *sx.N {
	if h.term != "rethrow-under-wrapper" {
		return sx.Call("rethrow")
	}
	switch h.r.Intn(3) {
	case 0:
		return sx.Call("progn", sx.I(0), sx.Call("rethrow"))
	case 1:
		return sx.Call("let", sx.L(sx.L(sx.Y("hw-k"), sx.I(1))), sx.Call("rethrow"))
	}
	return sx.Call("if", sx.Y("hw-c"), sx.Call("rethrow"), sx.I(0))
}

// handler builds a handler function; d counts the handlers still to be nested
// inside this one while it runs.
func (h *c18HW) handler(d int) *sx.N {
	body := h.work()
	if h.term == "fails-anew-in-handler" && d > 0 {
		return c18HWLambda(append(body, c18HWBind("condition", h.handler(d-1), h.failing()))...)
	}
	return c18HWLambda(append(body, h.rethrow())...)
}

func (h *c18HW) wrap(body ...*sx.N) *sx.N {
	switch h.term {
	case "fails-anew-in-handler":
		return c18HWBind("condition", h.handler(h.depth), body...)
	case "rethrow-through-layers":
		f := c18HWBind("condition", h.handler(0), body...)
		for i := 0; i < h.depth; i++ {
			f = c18HWBind("condition", h.handler(0), f)
		}
		return f
	}
	return c18HWBind("condition", h.handler(0), body...)
}

var c18HWDefiners = map[string]bool{"defun": true, "defmacro": true, "deftype": true, "in-package": true, "use-package": true, "export": true}

func (h *c18HW) helpers() []*sx.N {
	var out []*sx.N
	if h.used["hw-release"] {
		out = append(out, sx.Call("defun", sx.Y("hw-release"), sx.L(sx.Y("hw-r")),
			c18HWBind("condition", c18HWLambda(sx.QY("hw-release-failed")), sx.Call("cons", sx.QY("hw-released"), sx.Y("hw-r")))))
	}
	if h.used["hw-loop"] {
		out = append(out, sx.Call("defun", sx.Y("hw-loop"), sx.L(sx.Y("hw-n"), sx.Y("hw-acc")),
			sx.Call("if", sx.Call("<=", sx.Y("hw-n"), sx.I(0)), sx.Y("hw-acc"), sx.Call("hw-loop", sx.Call("-", sx.Y("hw-n"), sx.I(1)), sx.Call("+", sx.Y("hw-acc"), sx.I(1))))))
	}
	if h.used["hw-guarded-loop"] {
		out = append(out, sx.Call("defun", sx.Y("hw-guarded-loop"), sx.L(sx.Y("hw-n"), sx.Y("hw-acc")),
			sx.Call("if", sx.Call("<=", sx.Y("hw-n"), sx.I(0)), sx.Y("hw-acc"),
				sx.Call("progn",
					c18HWBind("condition", c18HWLambda(sx.I(0)), sx.Call("identity", sx.Y("hw-n"))),
					sx.Call("hw-guarded-loop", sx.Call("-", sx.Y("hw-n"), sx.I(1)), sx.Call("+", sx.Y("hw-acc"), sx.I(1)))))))
	}
	if h.used["hw-fail"] {
		out = append(out, sx.Call("defun", sx.Y("hw-fail"), sx.L(sx.Y("hw-x")), sx.Call("cdr", sx.Y("hw-x"))))
	}
	return out
}

// c18HandlerWorkProgram derives a program of the family from the base program
// of the same index.
func c18HandlerWorkProgram(w *fw.W, idx int, noWork bool) ([]*sx.N, string, map[string]bool, *c18HW) {
	forms, label, feats := c18BaseProgram(w, idx)
	r := w.RNG(idx, "handler-work")
	h := &c18HW{r: r, noWork: noWork, used: map[string]bool{}}
	h.kind = c18HWKinds[(idx/7)%len(c18HWKinds)]
	h.term = c18HWTerms[(idx/3)%len(c18HWTerms)]
	h.depth = r.Range(1, 3)
	var out []*sx.N
	for _, f := range forms {
		head := f.Head()
		switch {
		case head == "defun" && len(f.L) >= 4 && r.Chance(1, 4):
			// (defun name formals [docstring] body...): guard the body
			body := f.L[3:]
			keep := f.L[:3:3]
			if len(body) > 1 && body[0].K == sx.Str {
				keep, body = f.L[:4:4], body[1:]
			}
			out = append(out, sx.L(append(keep, h.wrap(body...))...))
		case c18HWDefiners[head]:
			out = append(out, f)
		case r.Chance(5, 6):
			out = append(out, h.wrap(f))
		default:
			out = append(out, f)
		}
	}
	out = append(h.helpers(), out...)
	nf := map[string]bool{"handler-work": true}
	for k := range feats {
		nf[k] = true
	}
	return out, "handler-work/" + label, nf, h
}

func c18ModelRun(forms []*sx.N) *refint.Err {
	in := refint.New()
	_, merr := func() (mv *refint.V, me *refint.Err) {
		defer func() {
			if rec := recover(); rec != nil {
				me = &refint.Err{Cond: fmt.Sprint("<model panic: ", rec, ">"), Unsure: true}
			}
		}()
		return in.LoadForms(forms)
	}()
	return merr
}

// c18HWConditionChanged decides a disagreement between the condition the host
// received and the model's for a program of this family whose final error the
// model says was rethrown.  Disagreements about what a program computes are C01's
// business, so the blame is put on the handlers' work only with a control: the
// same program with the same handlers but the work left out.  If the model says
// the work makes no difference (same condition, same failing form, same number
// of active calls) and the real interpreter agrees with the model on the control,
// then the work a handler completed changed what its (rethrow) re-raised.
func c18HWConditionChanged(w *fw.W, idx int, merr *refint.Err, opts rt.Opts) (bool, string) {
	ctl, _, _, _ := c18HandlerWorkProgram(w, idx, true)
	src := sx.Render(ctl, c01Layout(w.RNG(idx, "layout")))
	cerr := c18ModelRun(ctl)
	if cerr == nil || cerr.Fuel || cerr.Unsure || cerr.Cond != merr.Cond || cerr.Class != merr.Class || len(cerr.Stack) != len(merr.Stack) ||
		(cerr.Site == nil) != (merr.Site == nil) || (cerr.Site != nil && cerr.Site.String() != merr.Site.String()) {
		return false, ""
	}
	v := rt.New(opts).Env.LoadString("c18", src)
	w.Eval(1)
	if v.Type != lisp.LError || v.Str != cerr.Cond {
		return false, ""
	}
	return true, fmt.Sprintf("control (the same handlers without the work before rethrow):\n%s\nreal: %s\n  stack %s", src, v, c18ChainString(c18RealChain(v)))
}

// c18DataDiff compares the data of an error signalled by `error` with the model's.
func c18DataDiff(v *lisp.LVal, merr *refint.Err) string {
	if len(v.Cells) != len(merr.Data) {
		return fmt.Sprintf("the error carries %d data values, it was signalled with %d", len(v.Cells), len(merr.Data))
	}
	for i, c := range v.Cells {
		if !tree.Equal(tree.FromLVal(c), merr.Data[i].ToTree(), tree.Opts{IgnoreQuote: true}) {
			return fmt.Sprintf("data value %d is %s, the error was signalled with %s", i, tree.FromLVal(c), merr.Data[i].ToTree())
		}
	}
	return ""
}
