package props

// C14, a validator as the base type of another one (round 9).
//
// s:deftype / s:make-validator take "a base type name and then, optionally, any
// constraints"; the library also accepts a validator built earlier in the type
// position (every composite constraint documents that), so
// (s:deftype "adult" age (s:gte 18)) builds - and then "s:validate succeeds
// exactly when the value has the declared type and satisfies every constraint"
// must hold for it: the value passes the base validator AND the constraints
// declared on top of it.  Until round 9 the workload only put validators into
// the type slots of composite constraints; a top-level base validator with
// constraints of its own was never built (the library dropped those
// constraints silently, fix in /repo).

import (
	"fmt"

	"verifharness/c14x"
	"verifharness/fw"
)

func (c *c14Ctx) derivedCase(top *c14x.Schema) {
	if top.Via == c14x.ViaTypedef || top.Type == "tagged-value" || top.Type == "error" || top.Type == "fun" {
		// constraints on top of a validator for tagged values: whether they see the
		// tagged value or its user data is not documented
		c.w.Count("derived_validator_skipped:base-"+top.Type, 1)
		return
	}
	g := c.g
	d := &c14x.Schema{Via: c14x.ViaDeftype, Base: top, BaseQ: g.R.Chance(1, 4)}
	if g.R.Chance(2, 5) {
		d.Via = c14x.ViaMake
	}
	before := len(g.Defs)
	for i, n := 0, g.R.Range(1, 2); i < n; i++ {
		d.Cons = append(d.Cons, g.Cons(top.Type, 1))
	}
	d.Name = c.g.Prefix + fmt.Sprintf("d%d", len(g.Defs)+1)
	if !c.define(g.Defs[before:]) {
		return
	}
	if t := c.run(d.Def()); t.IsErr {
		c.violate("wellformed-schema-rejected:validator-as-base-type:"+c14Outcome(t),
			fmt.Sprintf("a validator built earlier, with constraints declared on top of it, is refused at construction (%s: %s)", t.Cond, t.Msg),
			fmt.Sprintf("form: %s\nprogram:\n%s", d.Def(), c.program()))
		return
	}
	ops := ""
	for _, k := range d.Cons {
		ops += "+" + k.OpKey()
	}
	c.w.Count("derived_validators", 1)
	// values aimed at the base validator, at the added constraints, and at both
	both := &c14x.Schema{Via: top.Via, Type: top.Type, AsString: top.AsString, Cons: append(append([]*c14x.Cons{}, top.Cons...), d.Cons...)}
	added := &c14x.Schema{Via: top.Via, Type: top.Type, Cons: d.Cons}
	for i := 0; i < 8; i++ {
		v := g.ForSchema(fw.Pick(g.R, []*c14x.Schema{top, both, both, added}), 0)
		t := c.run("(set 'c14v " + v.Render() + ")")
		if t.IsErr {
			continue
		}
		vt := c.run("(s:validate " + d.Name + " c14v)")
		c.w.Eval(1)
		real := c14Outcome(vt)
		model := c14x.EvalSchema(d, v)
		baseOut, consOut := c14x.EvalSchema(top, v), c14x.EvalSchema(added, v)
		c.w.CoverKey(fmt.Sprintf("derived|base=%s|ops=%s|v=%s|base-out=%s|cons-out=%s|out=%s", top.Type, ops, v.Class(), baseOut, consOut, real))
		if !model.Judged() {
			c.w.Count("not_judged_by_documentation", 1)
		}
		dir := c14Compare(model, real)
		if dir == "" {
			continue
		}
		// which half disagrees: the base validator alone, or the constraints on top?
		key := "validator-as-base-type:" + dir
		baseReal := c14Outcome(c.probe("(s:validate " + top.Name + " c14v)"))
		switch {
		case c14Compare(baseOut, baseReal) != "":
			// the base validator itself is wrong on this value: the ordinary workload's business
			if cu := c.attrSchema(top, v, "c14v"); cu != nil {
				key = cu.key()
			}
		case baseOut&c14x.Accept != 0 && baseReal == "accept":
			// the base passes: the verdict is the added constraints'
			for _, k := range d.Cons {
				if c14x.EvalCons(k, v)&c14x.Accept == 0 || dir != "accepts-invalid" {
					key = "validator-as-base-type:added-constraint:" + k.OpKey() + ":" + dir
					break
				}
			}
		}
		c.violate(key, fmt.Sprintf("validator %s as base type with constraints %s on a %s value: documented {%s}, observed %s (base alone: documented {%s}, observed %s)", top.Name, ops, v.Class(), model, real, baseOut, baseReal),
			fmt.Sprintf("derived: %s\nvalue: %s\nresult: %s %s\nprogram:\n%s", d.Def(), v.Canon(true), vt.Cond, vt.Msg, c.program()))
	}
}
