package props

import (
	"context"
	"fmt"
	"os"
	"sort"
	"strings"
	"time"

	"github.com/luthersystems/elps/lisp"

	"verifharness/fw"
	"verifharness/rt"
)

// C03 (6) — operator forms: degenerate but legal shapes of every special operator and macro.
//
// The registry sweep calls every special operator and every macro through
// SpecialOpCall / MacroCall with a tuple of VALUES out of a pool; what such an
// operator is really handed is unevaluated source: FORMS.  A pool value that is a
// list is a quoted datum — it never is a call form sitting in the body of the
// operator, and it is never evaluated in a position (tail of a function, argument
// of a call, top level) that decides how the operator's own frame is treated.  So
// the dimension "which forms, in which argument position, evaluated where" was held
// constant (empty) by the sweep, and the source mutations only hit it by luck.
//
// This family enumerates it.  The operators are discovered from the registry (every
// LFun whose FunType is not LFunNone); nothing about any of them is listed here:
//
//   - every argument position of the operator is, in turn, the LIST-SHAPED one: the
//     empty list, lists of one, two and three entries of one kind (symbols, numbers,
//     name/value pairs with a literal or a call as value, condition/handler pairs,
//     function definitions with and without a body, test/body clauses, test-only
//     clauses, empty lists) and name/count pairs with the count 0, 1, 3 or a call —
//     what a binding list, a clause list, a formals list or a loop control is when it
//     is degenerate (no binding, no clause, no formal, zero turns) or ordinary;
//   - the other positions hold BODY forms: a literal, calls (of a builtin, of a user
//     function, of a lambda, through funcall, of a user macro, one that raises, the
//     recursive call of the enclosing function under `if`) and calls in tail position
//     of another operator (if / progn / let / cond); the last position walks all of
//     them, the first one a short list (number, call, symbol, string);
//   - arities 0 .. one past the formals (for a variadic operator: none, one and two
//     forms in its rest): no body at all, one body form, several;
//   - each form is evaluated as source at top level, in tail position of a named
//     function (where the recursive call is a self tail call), and in one (quick) or
//     all (thorough) of: as argument of a call inside a function, as non-final body
//     form of a function, in tail position of a lambda called through funcall, inside
//     the body of a handler-bind that has a clause.
//
// Past the enumeration of an operator (and in the thorough tier's surplus) forms are
// composed at random: operator forms nested in the argument positions of operator
// forms, longer and mixed lists.
//
// Oracle: the one of the rest of C03 — every evaluation returns, the result is not
// lisp.IsInternalPanic, no Go panic escapes, the worker survives.  WHAT an operator
// answers to a degenerate shape (a value, which error) is not judged.

type c03OfArg struct {
	class, text string
}

// entries of list-shaped arguments, three variants of every kind
var c03OfEntryKinds = []struct {
	name string
	v    [3]string
}{
	{"symbol", [3]string{"c03-a", "c03-b", "c03-c"}},
	{"number", [3]string{"0", "3", "1"}},
	{"name-literal-pair", [3]string{"(c03-a 1)", "(c03-b 2)", "(c03-c 3)"}},
	{"name-call-pair", [3]string{"(c03-a (c03-id 1))", "(c03-b (+ 1 2))", "(c03-c (c03-h 0))"}},
	{"condition-handler-pair", [3]string{"(condition c03-h)", "(c03-err c03-h)", "(error (lambda (c &rest a) (c03-id c)))"}},
	{"function-definition", [3]string{"(c03-f (x) (c03-id x))", "(c03-g () 1)", "(c03-k (&rest xs) (c03-id xs))"}},
	{"function-definition-without-body", [3]string{"(c03-f ())", "(c03-g (x))", "(c03-k (&rest xs))"}},
	{"test-and-call-clause", [3]string{"(true (c03-id 1))", "(false 2)", "(else (+ 1 2))"}},
	{"test-only-clause", [3]string{"(true)", "(false)", "(else)"}},
	{"empty-list", [3]string{"()", "()", "()"}},
}

// c03OfLists: the list-shaped arguments, in a fixed order.
func c03OfLists() []c03OfArg {
	out := []c03OfArg{{"empty-list", "()"}}
	for _, k := range c03OfEntryKinds {
		out = append(out, c03OfArg{"list-of-1-" + k.name, "(" + k.v[0] + ")"})
	}
	for _, k := range c03OfEntryKinds {
		out = append(out, c03OfArg{"list-of-2-" + k.name, "(" + k.v[0] + " " + k.v[1] + ")"})
	}
	for _, k := range c03OfEntryKinds {
		switch k.name {
		case "symbol", "name-literal-pair", "condition-handler-pair", "test-and-call-clause":
			out = append(out, c03OfArg{"list-of-3-" + k.name, "(" + k.v[0] + " " + k.v[1] + " " + k.v[2] + ")"})
		}
	}
	out = append(out,
		c03OfArg{"name-and-count-0", "(c03-i 0)"},
		c03OfArg{"name-and-count-1", "(c03-i 1)"},
		c03OfArg{"name-and-count-3", "(c03-i 3)"},
		c03OfArg{"name-and-count-from-a-call", "(c03-i (c03-id 2))"})
	return out
}

// body forms; the last argument position walks all of them
var c03OfBodies = []c03OfArg{
	{"literal", "1"},
	{"call-of-a-builtin", "(+ 1 2)"},
	{"call-of-a-user-function", "(c03-id 1)"},
	{"recursive-call-under-if", "(if (<= c03-n 0) 'done (c03-fn (- c03-n 1)))"},
	{"call-in-tail-position-of-if", "(if true (c03-id 1) 2)"},
	{"call-in-tail-position-of-progn", "(progn 1 (c03-id 1))"},
	{"call-in-tail-position-of-let", "(let ((c03-w 1)) (c03-id c03-w))"},
	{"call-in-tail-position-of-cond", "(cond (false 0) (else (c03-id 1)))"},
	{"call-of-a-user-macro", "(c03-m 1)"},
	{"call-through-funcall", "(funcall c03-id 1)"},
	{"call-of-a-lambda", "((lambda (x) (c03-id x)) 1)"},
	{"call-that-raises", "(error 'c03-err 1)"},
}

// what the first position holds when it is neither the list nor the last (a name, a
// test, a value): the full product; positions in between rotate through the same
var c03OfHeads = []c03OfArg{
	{"symbol", "c03-v"},
	{"call-of-a-user-function", "(c03-id 1)"},
	{"string", "\"s\""},
	{"literal", "1"},
}

// where a form is evaluated: top-level forms, %X stands for the form
var c03OfContexts = []struct {
	name  string
	forms []string
}{
	{"at-top-level", []string{"%X"}},
	{"in-tail-position-of-a-function", []string{"(defun c03-fn (c03-n) %X)", "(c03-fn 2)"}},
	{"as-argument-of-a-call-inside-a-function", []string{"(defun c03-fn (c03-n) (c03-id %X))", "(c03-fn 2)"}},
	{"as-non-final-body-form-of-a-function", []string{"(defun c03-fn (c03-n) %X 'after)", "(c03-fn 2)"}},
	{"in-tail-position-of-a-lambda-called-through-funcall", []string{"(funcall (lambda (c03-n) %X) 2)"}},
	{"in-the-body-of-a-handler-bind-that-has-a-clause", []string{"(handler-bind ((condition c03-h)) %X)"}},
}

// definitions a runtime gets once; c03-fn is defined again before every form (the
// contexts redefine it)
const c03OfPrelude = `(defun c03-id (x) x)
(defun c03-h (c &rest a) 'c03-handled)
(defmacro c03-m (x) (quasiquote (c03-id (unquote x))))
(set 'c03-v 1) (set 'c03-n 2)`

const c03OfResetFn = "(defun c03-fn (c03-n) (if (<= c03-n 0) 'done (c03-fn (- c03-n 1))))"

type c03OfForm struct {
	text  string
	shape string // classes of the arguments, by construction
	// emptyListAndCall: some argument is the empty list and the last one is a call
	emptyListAndCall bool
}

func c03OfMake(name string, args []c03OfArg) c03OfForm {
	texts := make([]string, len(args))
	classes := make([]string, len(args))
	f := c03OfForm{}
	for i, a := range args {
		texts[i], classes[i] = a.text, a.class
		if a.class == "empty-list" {
			f.emptyListAndCall = true
		}
	}
	if n := len(args); n == 0 || !strings.Contains(args[n-1].class, "call") {
		f.emptyListAndCall = false
	}
	f.text = strings.TrimSpace("("+name+" "+strings.Join(texts, " ")) + ")"
	f.shape = "no-argument"
	if len(args) > 0 {
		f.shape = strings.Join(classes, ",")
	}
	return f
}

// c03OfEnumerate: the fixed list of forms of one operator (name as written in the
// source, number of formals).
func c03OfEnumerate(name string, nformals int) []c03OfForm {
	lists := c03OfLists()
	// nformals counts the name after &rest too: a variadic operator gets up to two
	// forms in its rest, any other one argument too many
	maxAr := nformals + 1
	var out []c03OfForm
	for arity := 0; arity <= maxAr; arity++ {
		if arity == 0 {
			out = append(out, c03OfMake(name, nil))
			continue
		}
		// lp: the list-shaped position, -1 for none
		for lp := -1; lp < arity; lp++ {
			nl := len(lists)
			if lp < 0 {
				nl = 1
			}
			// the first position, when it is neither the list nor the last one
			nh := 1
			if arity >= 2 && lp != 0 {
				nh = len(c03OfHeads)
				if arity >= 3 {
					nh = 2 // a symbol (a name), a call
				}
				if lp < 0 && arity == 2 {
					nh = len(c03OfBodies) // two body forms: the full product
				}
			}
			// the last position, when it is not the list
			nb := len(c03OfBodies)
			if lp == arity-1 {
				nb = 1
			}
			for h := 0; h < nh; h++ {
				for l := 0; l < nl; l++ {
					for b := 0; b < nb; b++ {
						args := make([]c03OfArg, arity)
						for i := range args {
							switch {
							case i == lp:
								args[i] = lists[l]
							case i == arity-1:
								args[i] = c03OfBodies[b]
							case i == 0 && lp < 0 && arity == 2:
								args[i] = c03OfBodies[h]
							case i == 0:
								args[i] = c03OfHeads[h]
							default:
								// positions in between: rotate, decoupled from the walk of the last position
								args[i] = c03OfHeads[(l+b/4+h+i)%len(c03OfHeads)]
							}
						}
						out = append(out, c03OfMake(name, args))
					}
				}
			}
		}
	}
	return out
}

// c03OfCompose: a random composition — a form of op with operator forms (of any
// operator) in its argument positions, longer and mixed lists.
func c03OfCompose(r *fw.RNG, op c03Fun, ops []c03Fun, depth int) (text, class string) {
	name := op.name
	if op.pkg != "lisp" {
		name = op.pkg + ":" + op.name
	}
	maxAr := op.nformals + 1
	if op.variadic {
		maxAr = op.nformals + 2
	}
	arity := r.Intn(maxAr + 1)
	var parts, classes []string
	for i := 0; i < arity; i++ {
		switch k := r.Intn(10); {
		case k < 3:
			// a list of 0..4 entries of any kinds
			n := r.Intn(5)
			es := make([]string, n)
			for j := range es {
				kind := fw.Pick(r, c03OfEntryKinds)
				es[j] = kind.v[r.Intn(3)]
				if r.Intn(6) == 0 && depth > 0 {
					es[j], _ = c03OfCompose(r, fw.Pick(r, ops), ops, depth-1)
				}
			}
			parts = append(parts, "("+strings.Join(es, " ")+")")
			classes = append(classes, fmt.Sprintf("list-of-%d", n))
		case k < 4:
			l := fw.Pick(r, c03OfLists())
			parts = append(parts, l.text)
			classes = append(classes, l.class)
		case k < 6 && depth > 0:
			inner := fw.Pick(r, ops)
			t, _ := c03OfCompose(r, inner, ops, depth-1)
			parts = append(parts, t)
			classes = append(classes, "form-of-"+inner.pkg+":"+inner.name)
		case k < 7:
			h := fw.Pick(r, c03OfHeads)
			parts = append(parts, h.text)
			classes = append(classes, h.class)
		default:
			b := fw.Pick(r, c03OfBodies)
			parts = append(parts, b.text)
			classes = append(classes, b.class)
		}
	}
	return strings.TrimSpace("("+name+" "+strings.Join(parts, " ")) + ")", op.pkg + ":" + op.name + "(" + strings.Join(classes, ",") + ")"
}

var c03OfOpts = rt.Opts{MaxSteps: 100_000, MaxAlloc: 200_000, MaxPhys: 2000}

func c03OfRuntime() *rt.R {
	rr := rt.New(c03OfOpts)
	rr.Env.LoadString("c03-opforms-prelude", c03OfPrelude+"\n"+c03OfResetFn)
	return rr
}

// c03OfProgram: the source text of one form in one context (what a violation shows,
// and what is loaded to confirm one).
func c03OfProgram(form string, ctx int) string {
	var sb strings.Builder
	sb.WriteString(c03OfPrelude + "\n" + c03OfResetFn + "\n")
	for _, t := range c03OfContexts[ctx].forms {
		sb.WriteString(strings.Replace(t, "%X", form, 1) + "\n")
	}
	return sb.String()
}

// c03OfConfirm loads the program as one source text in a fresh runtime.
func c03OfConfirm(form string, ctx int) string {
	rr := rt.New(c03OfOpts)
	c, cancel := context.WithTimeout(context.Background(), 30*time.Second)
	defer cancel()
	var v *lisp.LVal
	var escaped any
	func() {
		defer func() { escaped = recover() }()
		v = rr.Env.LoadStringContext(c, "c03-opforms", c03OfProgram(form, ctx))
	}()
	if failure, summary := c03ReJudge(v, escaped); failure != "" {
		return "loaded as one source text in a fresh runtime it " + summary
	}
	return "loaded as one source text in a fresh runtime it answers " + trunc(v.String(), 120)
}

const (
	c03OfChunk      = 120 // enumerated forms per case
	c03OfComposed   = 30  // composed forms per case past the enumeration
	c03OfQuickCases = 1395
	c03OfThorough   = 40000
)

// c03OfOps: the special operators and macros among the registered functions.
func c03OfOps(st *c03State) []c03Fun {
	var ops []c03Fun
	for _, f := range st.funs {
		if f.kind != lisp.LFunNone {
			ops = append(ops, f)
		}
	}
	return ops
}

// c03OpForms: case z works on one operator: chunk z/len(ops) of its enumeration, or,
// past its end, composed forms.
func c03OpForms(w *fw.W, idx, z int) {
	st := w.State.(*c03State)
	ops := c03OfOps(st)
	if len(ops) == 0 {
		w.Inconclusive("operator forms: the registry enumeration found no special operator or macro")
		return
	}
	op, rep := ops[z%len(ops)], z/len(ops)
	name := op.name
	if op.pkg != "lisp" {
		name = op.pkg + ":" + op.name
	}
	qname := op.pkg + ":" + op.name
	stop := c03Watch(w, idx, "operator forms of "+qname)
	defer func() { stop() }()

	type item struct {
		form  c03OfForm
		class string // the class part of the finding key
		ctxs  []int  // the contexts it is evaluated in
	}
	// every form is evaluated at top level and in tail position of a function; the quick
	// tier adds ONE of the other contexts, walking them at a pace that shares no period
	// with the walks of the enumeration; the thorough tier adds all of them
	contexts := func(n int) []int {
		if w.Tier == "thorough" {
			all := make([]int, len(c03OfContexts))
			for i := range all {
				all[i] = i
			}
			return all
		}
		extra := len(c03OfContexts) - 2
		return []int{0, 1, 2 + (n+n/len(c03OfBodies)+n/(len(c03OfBodies)*len(c03OfLists())))%extra}
	}
	var items []item
	all := c03OfEnumerate(name, op.nformals)
	nchunks := (len(all) + c03OfChunk - 1) / c03OfChunk
	w.Max("opforms_forms_in_the_largest_enumeration", int64(len(all)))
	if rep < nchunks {
		for i := rep * c03OfChunk; i < min(len(all), (rep+1)*c03OfChunk); i++ {
			items = append(items, item{all[i], qname + ":" + all[i].shape, contexts(i)})
		}
		if rep == nchunks-1 {
			w.SetAdd("opforms_operators_enumerated_to_the_end", qname)
		}
		w.Count("opforms_enumerated_forms", int64(len(items)))
	} else {
		r := w.RNG(idx, "opforms")
		for i := 0; i < c03OfComposed; i++ {
			text, class := c03OfCompose(r, op, ops, 2) // the outermost operator is this case's
			items = append(items, item{c03OfForm{text: text, shape: class}, "composed:" + class, contexts(r.Intn(1 << 20))})
		}
		w.Count("opforms_composed_forms", int64(len(items)))
	}
	w.SetAdd("opforms_operators", qname)

	// all forms of the case in their contexts are read as one source text (reading is
	// most of what a small evaluation costs) and evaluated one top-level form at a
	// time, like a load does, but going on after an error
	var sb strings.Builder
	nforms := 0
	for _, it := range items {
		sb.WriteString(c03OfResetFn + "\n")
		nforms++
		for _, ci := range it.ctxs {
			for _, t := range c03OfContexts[ci].forms {
				sb.WriteString(strings.Replace(t, "%X", it.form.text, 1) + "\n")
				nforms++
			}
		}
	}
	rr := c03OfRuntime()
	forms, err := rr.Env.Runtime.Reader.Read("c03-opforms", strings.NewReader(sb.String()))
	if err != nil || len(forms) != nforms {
		panic(fmt.Sprintf("c03 operator forms: harness text does not read as %d forms: %v\n%s", nforms, err, trunc(sb.String(), 2000)))
	}
	ctx, cancel := context.WithTimeout(context.Background(), 100*time.Second)
	defer cancel()
	reported := map[string]bool{}
	pos := 0
	for n, it := range items {
		if n%20 == 0 {
			stop()
			stop = c03Watch(w, idx, "operator forms of "+qname+", from "+it.form.text)
		}
		w.Logf("form %s", it.form.text)
		valued := false
		rr.Env.EvalContext(ctx, forms[pos]) // the definition of c03-fn
		pos++
		for _, ci := range it.ctxs {
			c := c03OfContexts[ci]
			for fi := range c.forms {
				var v *lisp.LVal
				var escaped any
				func() {
					defer func() { escaped = recover() }()
					v = rr.Env.EvalContext(ctx, forms[pos])
				}()
				pos++
				w.Eval(1)
				failure, summary := c03ReJudge(v, escaped)
				if failure == "" {
					if fi < len(c.forms)-1 {
						continue // the definition of the function the form sits in
					}
					out := "value"
					if v.Type == lisp.LError {
						out = v.Str
					} else if ci < 2 { // (the catch-all of the handler-bind context turns every error into a value)
						valued = true
					}
					w.SetAdd("opforms_outcomes", out)
					w.CoverKey("opforms|" + qname + "|" + c.name + "|" + out)
					if w.Verbose {
						w.Logf("  %s => %s", c.name, trunc(v.String(), 160))
					}
					continue
				}
				if failure == "go-panic" { // the runtime may be left in any state
					rr = c03OfRuntime()
				}
				key := failure + "-from-operator-form:" + it.class
				if !reported[key] {
					reported[key] = true
					w.Violation(key, fmt.Sprintf("%s evaluated %s %s; %s", it.form.text, c.name, summary, c03OfConfirm(it.form.text, ci)), c03OfProgram(it.form.text, ci))
				}
			}
		}
		for _, ci := range it.ctxs {
			w.SetAdd("opforms_contexts", c03OfContexts[ci].name)
		}
		if valued {
			w.Count("opforms_forms_with_a_value_at_top_level_or_in_tail_position_of_a_function", 1)
			if it.form.emptyListAndCall {
				w.Count("opforms_forms_with_an_empty_list_and_a_call_in_last_position_that_returned_a_value", 1)
				w.SetAdd("opforms_operators_returning_a_value_for_an_empty_list_and_a_call_in_last_position", qname)
			}
			if w.WantSample() && it.form.emptyListAndCall && n%7 == 3 {
				w.Sample(map[string]any{"family": "operator form", "form": it.form.text, "argument_classes": it.form.shape})
			}
		}
	}
	w.Count("opforms_forms", int64(len(items)))
}

// c03OfFloor: the floor of the operator forms (called from c03Driver).  docs/lang.md
// alone names more than 20 special operators and macros.
func c03OfFloor(d *fw.D) {
	if os.Getenv("VERIF_CASES") != "" && d.Counters["opforms_forms"] == 0 {
		return // a truncated development run that reached no case of the family
	}
	if d.Counters["opforms_forms"] == 0 || d.Counters["opforms_enumerated_forms"] == 0 {
		d.Inconclusive("operator forms: no form was generated")
		return
	}
	if d.Counters["opforms_forms_with_an_empty_list_and_a_call_in_last_position_that_returned_a_value"] == 0 {
		d.Inconclusive("operator forms: no form with an empty list argument and a call in last position returned a value")
	}
	if n := len(d.Sets["opforms_operators"]); n < 20 {
		d.Inconclusive(fmt.Sprintf("operator forms: only %d special operators and macros were found in the registry", n))
	}
	if os.Getenv("VERIF_CASES") != "" {
		return
	}
	// the enumeration of every operator must fit into the tier (a new operator with more
	// formals than any today needs more cases: c03OfQuickCases)
	var short []string
	for op := range d.Sets["opforms_operators"] {
		if !d.Sets["opforms_operators_enumerated_to_the_end"][op] {
			short = append(short, op)
		}
	}
	sort.Strings(short)
	if len(short) > 0 {
		d.Inconclusive("operator forms: the enumeration was not completed for " + strings.Join(short, " "))
	}
}
