package props

import (
	"fmt"
	"strings"

	"github.com/luthersystems/elps/lisp"

	"verifharness/fw"
	"verifharness/rt"
)

// C05, third dimension of the histories: WHICH push (evaluator entry, tail-call
// resume, expansion) trips a limit.
//
// "After any entry point returns ... with any error (limit errors, ...) the call
// stack is empty" quantifies over every place a limit error can be raised.  A
// limit is enforced where a frame is pushed (physical and logical height, by
// three different callers: function call, special-operator call, macro call),
// where a tail call is resumed (logical height, tail iterations: function frame
// or operator frame), where the evaluator is entered (nesting) and where an
// expansion is evaluated (macro expansion depth).  Which of these sites refuses
// depends on the value of the limit modulo the frames one recursion level holds
// and on what the levels are made of - a history that raises each limit error
// with ONE limit value and ONE program shape always has the same kind of frame
// refused.  So this family
//   - generates recursion shapes whose levels hold different mixes of frames:
//     cycles of 1-3 mutually recursive functions, the recursive call wrapped in
//     up to four forms drawn from builtin and user functions, special operators
//     (let, let*, progn, cond, if, and, or, handler-bind, flet, labels, dotimes,
//     thread-first/-last, macrolet), user macros (also macros whose body calls
//     functions and macros that expand into macro calls), builtin macros
//     (get-default, trace, defun inside a body, curry-function) and callbacks
//     (map, foldl, funcall, apply, a user function calling its argument, a
//     lambda called directly), with the base test itself an operator, a user
//     macro or a builtin macro;
//   - sweeps the limit over EVERY value of a window L..L+12 (at least one full
//     period) in ONE runtime, for several L including very small ones, for each
//     limit the runtime enforces (physical height, logical height, evaluator
//     nesting, tail iterations, macro expansion depth), the failing call entered
//     through every entry point, bare / in argument position / swallowed by
//     ignore-errors or a handler / under a macro or a callback;
//   - applies the after-return assertions and the twin probe of the histories
//     unchanged after every one of these evaluations.
// A scout runtime (same definitions, never compared) tells which frame the
// physical limit refuses: the first frame pushed at height L+1 under limit L+1.
// For the other limits the form at whose location the error was raised is read
// off the error.  Both only label the evidence.

func c05HistCases(tier string) int  { return pick(tier, 1200, 40000) }
func c05SweepCases(tier string) int { return pick(tier, 256, 8000) }

const c05SweepWidth = 13

// the limit a sweep case varies, by case index (16 consecutive cases hold all of them)
var c05SweepKinds = []string{"physical-height", "logical-height", "physical-height", "eval-nesting", "physical-height", "logical-height", "physical-height", "tail-iterations",
	"physical-height", "eval-nesting", "physical-height", "logical-height", "physical-height", "eval-nesting", "physical-height", "macro-depth"}

type c05Wrapper struct {
	name string // evidence label
	kind string // what the form is: function | operator | user-macro | builtin-macro | callback
	tail bool   // @E is believed to stay in tail position (only shapes the workload: tail loops for the tail-iteration sweep)
	hold bool   // @E is certainly NOT in tail position (argument or binding position): the level's frames stay while it runs
	tmpl string // @E is the wrapped expression (evaluates to an integer, may mention n and m)
}

var c05Wrappers = []c05Wrapper{
	{"builtin-function", "function", false, true, "(+ 1 @E)"},
	{"user-function", "function", false, true, "(sw-id @E)"},
	{"user-function-2", "function", false, true, "(sw-add 0 @E)"},
	{"let-binding", "operator", false, true, "(let ([a @E]) a)"},
	{"let-body", "operator", true, false, "(let ([a 1]) @E)"},
	{"let*-binding", "operator", false, true, "(let* ([a n] [b @E]) b)"},
	{"progn", "operator", true, false, "(progn 0 @E)"},
	{"cond", "operator", true, false, "(cond ((< n 0) 0) (else @E))"},
	{"if", "operator", true, false, "(if (< n 0) 0 @E)"},
	{"and", "operator", true, false, "(and true @E)"},
	{"or", "operator", true, false, "(or false @E)"},
	{"handler-bind", "operator", false, false, "(handler-bind ((sw-never (lambda (c &rest a) 0))) @E)"},
	{"flet", "operator", false, true, "(flet ((h (x) x)) (h @E))"},
	{"labels", "operator", false, true, "(labels ((h (x) (if (< x 0) 0 x))) (h @E))"},
	{"dotimes", "operator", false, true, "(let ([acc 0]) (dotimes (i 1) (set! acc @E)) acc)"},
	{"thread-first", "operator", false, true, "(thread-first @E (+ 0))"},
	{"thread-last", "operator", false, true, "(thread-last @E (+ 0))"},
	{"macrolet", "operator", true, false, "(macrolet ((lm (x) x)) (lm @E))"},
	{"user-macro-if", "user-macro", true, false, "(sw-either (< n 0) 0 @E)"},
	{"user-macro-progn", "user-macro", true, false, "(sw-wrap @E)"},
	{"user-macro-call", "user-macro", false, true, "(sw-plus @E)"},
	{"user-macro-built-by-function", "user-macro", true, false, "(sw-built @E)"},
	{"user-macro-expanding-to-macro", "user-macro", true, false, "(sw-nested @E)"},
	{"get-default", "builtin-macro", true, false, "(get-default sw-map \"absent\" @E)"},
	{"trace", "builtin-macro", false, true, "(trace @E)"},
	{"defun-in-body", "builtin-macro", true, false, "(progn (defun sw-local (k) k) @E)"},
	{"curry-function", "builtin-macro", false, true, "(funcall (curry-function sw-add 0) @E)"},
	{"map", "callback", false, true, "(car (map 'list (lambda (k) @E) (list n)))"},
	{"foldl", "callback", false, true, "(foldl (lambda (acc k) @E) 0 (list n))"},
	{"funcall", "callback", true, false, "(funcall (lambda () @E))"},
	{"apply", "callback", true, false, "(apply (lambda (k) @E) (list n))"},
	{"user-function-calling-argument", "callback", true, false, "(run-thunk (lambda () @E))"},
	{"lambda-called-directly", "callback", true, false, "((lambda (k) @E) n)"},
}

// fixed part of the definitions every sweep runtime receives (after the prelude
// of the histories)
const c05SweepPrelude = `(defun sw-id (x) x)
(defun sw-add (a b) (+ a b))
(defun sw-local (k) k)
(defun sw-mk (x) (quasiquote (progn (unquote x))))
(set 'sw-map (sorted-map "k" 1))
(defmacro sw-either (c a b) (quasiquote (if (unquote c) (unquote a) (unquote b))))
(defmacro sw-wrap (x) (quasiquote (progn (unquote x))))
(defmacro sw-plus (x) (quasiquote (+ 0 (unquote x))))
(defmacro sw-built (x) (sw-mk x))
(defmacro sw-nested (x) (quasiquote (sw-wrap (unquote x))))
(defmacro sw-chain (k) (if (<= k 0) 0 (quasiquote (sw-chain (unquote (- k 1))))))
`

var c05SweepUserMacros = map[string]bool{"sw-either": true, "sw-wrap": true, "sw-plus": true, "sw-built": true, "sw-nested": true, "sw-chain": true, "eff-m": true, "lm": true,
	"m1": true, "m2": true, "nest-m": true, "forever-m": true, "panic-m": true}

type c05Shape struct {
	defs     string   // source text loaded as "sweep-defs"
	nfun     int      // functions in the cycle
	wrappers []string // labels of the wrappers used
	kinds    []string // kinds of frame the levels hold (sorted, distinct)
	tailOnly bool     // the whole cycle is believed to be one tail loop
	probe    string   // forms for the probe program
}

// c05GenShape builds a cycle of mutually recursive functions sw-f0 … of two
// parameters: n counts down, m selects what the bottom does (m = 1: a chain of
// 60 successive macro expansions; else 0).
func c05GenShape(r *fw.RNG, limit string) c05Shape {
	var sh c05Shape
	sh.nfun = r.Range(1, 3)
	total := r.Range(0, 4)
	if limit == "tail-iterations" {
		total = r.Range(0, 3)
	}
	perFun := make([][]c05Wrapper, sh.nfun)
	nonTail := false
	sh.tailOnly = true
	seenKind := map[string]bool{}
	for k := 0; k < total; k++ {
		wr := fw.Pick(r, c05Wrappers)
		if limit == "tail-iterations" {
			for !wr.tail {
				wr = fw.Pick(r, c05Wrappers)
			}
		}
		f := r.Intn(sh.nfun)
		perFun[f] = append(perFun[f], wr)
		sh.wrappers = append(sh.wrappers, wr.name)
		seenKind[wr.kind] = true
		if wr.hold {
			nonTail = true
		}
		if !wr.tail {
			sh.tailOnly = false
		}
	}
	if !nonTail && (limit == "physical-height" || limit == "eval-nesting") {
		// these limits bound what the levels HOLD: at least one call of the cycle is certainly no tail call
		wr := fw.Pick(r, []c05Wrapper{c05Wrappers[0], c05Wrappers[1], c05Wrappers[3]})
		f := r.Intn(sh.nfun)
		if r.Bool() {
			perFun[f] = append(perFun[f], wr)
		} else {
			perFun[f] = append([]c05Wrapper{wr}, perFun[f]...)
		}
		sh.wrappers = append(sh.wrappers, wr.name)
		seenKind[wr.kind] = true
		sh.tailOnly = false
	}
	base := "0"
	if limit == "macro-depth" {
		base = "(if (= m 1) (sw-chain 60) 0)"
	}
	var sb strings.Builder
	sb.WriteString(c05SweepPrelude)
	for f := 0; f < sh.nfun; f++ {
		rec := fmt.Sprintf("(sw-f%d (- n 1) m)", (f+1)%sh.nfun)
		ws := perFun[f]
		for k := len(ws) - 1; k >= 0; k-- { // ws[0] is the outermost form
			rec = strings.Replace(ws[k].tmpl, "@E", rec, 1)
		}
		var body string
		switch r.Intn(6) {
		case 0, 1, 2:
			body = fmt.Sprintf("(if (<= n 0) %s %s)", base, rec)
			seenKind["operator"] = true
		case 3:
			body = fmt.Sprintf("(cond ((<= n 0) %s) (else %s))", base, rec)
			seenKind["operator"] = true
		case 4:
			body = fmt.Sprintf("(sw-either (<= n 0) %s %s)", base, rec)
			seenKind["user-macro"] = true
			sh.wrappers = append(sh.wrappers, "base-test-by-user-macro")
		default:
			if base == "0" {
				// the key is present exactly at the bottom: the default expression is the recursion
				body = fmt.Sprintf("(- (get-default sw-map (if (<= n 0) \"k\" \"absent\") %s) (if (<= n 0) 1 0))", rec)
				seenKind["builtin-macro"] = true
				sh.wrappers = append(sh.wrappers, "base-test-by-get-default")
			} else {
				body = fmt.Sprintf("(if (<= n 0) %s %s)", base, rec)
				seenKind["operator"] = true
			}
		}
		fmt.Fprintf(&sb, "(defun sw-f%d (n m) %s)\n", f, body)
		sh.probe += fmt.Sprintf(" (sw-f%d %d 0) sw-f%d", f, 1+r.Intn(4), f)
	}
	sh.probe += " sw-local sw-map"
	sh.defs = sb.String()
	seenKind["function"] = true
	for _, k := range []string{"function", "operator", "user-macro", "builtin-macro", "callback"} {
		if seenKind[k] {
			sh.kinds = append(sh.kinds, k)
		}
	}
	return sh
}

// c05SweepFault returns the failing call in one of several surroundings, and
// whether the surrounding form may swallow the error.
func c05SweepFault(r *fw.RNG, n int) (form, label string) {
	call := fmt.Sprintf("(sw-f0 %d 1)", n)
	switch r.Intn(12) {
	case 0, 1, 2, 3, 4:
		return call, "bare"
	case 5:
		return "(list 1 " + call + ")", "argument"
	case 6:
		return "(ignore-errors " + call + ")", "ignore-errors"
	case 7:
		return "(handler-bind ((condition (lambda (c &rest a) 'handled))) " + call + ")", "handler-bind"
	case 8:
		return "(sw-either false 0 " + call + ")", "user-macro"
	case 9:
		return "(let ([a " + call + "]) a)", "let-binding"
	case 10:
		return fmt.Sprintf("(map 'list (lambda (k) (sw-f0 k 1)) (list %d))", n), "callback"
	default:
		return "(get-default sw-map \"absent\" " + call + ")", "builtin-macro"
	}
}

var c05SweepBases = map[string][]int{
	"physical-height": {3, 4, 5, 6, 7, 9, 12, 16, 21, 27, 33, 40, 52, 70, 100, 150, 220, 280},
	"logical-height":  {1, 2, 3, 5, 8, 13, 20, 30, 45, 70, 120, 200},
	"eval-nesting":    {3, 5, 8, 12, 18, 26, 37, 50, 80, 130, 250},
	"tail-iterations": {1, 2, 5, 12, 40, 150},
	"macro-depth":     {1, 2, 6, 15, 30},
}

// c05SetLimit configures the swept limit of a live runtime the way a host does
// (the exported Config functions), with the other limits out of the way.
func c05SetLimit(env *lisp.LEnv, limit string, v int, o rt.Opts) {
	switch limit {
	case "physical-height":
		lisp.WithMaximumPhysicalStackHeight(v)(env)
		lisp.WithMaxEvalNesting(-1)(env)
	case "logical-height":
		lisp.WithMaximumLogicalStackHeight(v)(env)
		lisp.WithMaxEvalNesting(-1)(env)
	case "eval-nesting":
		lisp.WithMaxEvalNesting(v)(env)
		lisp.WithMaximumPhysicalStackHeight(100000)(env)
	case "tail-iterations":
		lisp.WithMaxTailIterations(v)(env)
	case "macro-depth":
		lisp.WithMaxMacroExpansionDepth(v)(env)
	}
}

// c05RestoreLimits puts the host configuration of the history back.
func c05RestoreLimits(env *lisp.LEnv, o rt.Opts) {
	lisp.WithMaximumPhysicalStackHeight(o.MaxPhys)(env)
	lisp.WithMaximumLogicalStackHeight(0)(env)
	lisp.WithMaxEvalNesting(o.MaxNest)(env)
	lisp.WithMaxTailIterations(o.MaxTail)(env)
	lisp.WithMaxMacroExpansionDepth(o.MaxMacro)(env)
}

var c05BuiltinKinds map[string]string

// c05FrameKind classifies a frame (or the head of a form) by what it names.
func c05FrameKind(pkg, name string) string {
	if c05BuiltinKinds == nil {
		m := map[string]string{}
		for _, d := range lisp.DefaultBuiltins() {
			m[d.Name()] = "builtin-function"
		}
		for _, d := range lisp.DefaultSpecialOps() {
			m[d.Name()] = "operator"
		}
		for _, d := range lisp.DefaultMacros() {
			m[d.Name()] = "builtin-macro"
		}
		c05BuiltinKinds = m
	}
	name = strings.TrimPrefix(name, "lisp:")
	if c05SweepUserMacros[name] && pkg != "lisp" {
		return "user-macro"
	}
	if pkg == "lisp" || pkg == "" {
		if k, ok := c05BuiltinKinds[name]; ok {
			return k
		}
	}
	if pkg == "verif" {
		return "host-function"
	}
	if name == "" || strings.HasPrefix(name, "(") || strings.HasPrefix(name, "_fun") || strings.HasPrefix(name, "<") {
		return "lambda"
	}
	if pkg == "" {
		if name == "h" || name == "k" || name == "a" || name == "acc" {
			return "local-function"
		}
	}
	return "user-function"
}

// c05HeadAt returns the head of the form that starts at byte offset pos of src.
func c05HeadAt(src string, pos int) string {
	if pos < 0 || pos >= len(src) {
		return ""
	}
	s := src[pos:]
	if !strings.HasPrefix(s, "(") {
		return "atom"
	}
	s = s[1:]
	if strings.HasPrefix(s, "(") {
		return "(" // a form called directly
	}
	end := strings.IndexAny(s, " \n\t()[]")
	if end < 0 {
		end = len(s)
	}
	return s[:end]
}

func c05SweepRun(w *fw.W, j int) {
	r := w.RNG(j, "sweep")
	limit := c05SweepKinds[j%len(c05SweepKinds)]
	variant := j / len(c05SweepKinds)
	opts := c05Opts(variant)
	sh := c05GenShape(r, limit)
	main, twin, scout := c05NewRuntime(variant), c05NewRuntime(variant), c05NewRuntime(variant)
	for _, x := range []*rt.R{main, twin, scout} {
		if v := x.Env.LoadString("sweep-defs", sh.defs); v.Type == lisp.LError {
			w.Violation("harness-template:limit-sweep-definitions", "the generated definitions do not load: "+v.String(), sh.defs)
			return
		}
	}
	// the shape must work when no limit is in the way (workload self-check, in the scout)
	for f := 0; f < sh.nfun; f++ {
		if v := scout.Env.LoadString("sweep-selfcheck", fmt.Sprintf("(sw-f%d 4 0)", f)); v.Type != lisp.LInt {
			w.Violation("harness-template:limit-sweep-shape", "a generated recursion shape does not evaluate to an integer without limits: "+v.String(), sh.defs)
			return
		}
	}
	w.SetAdd("host_configurations", []string{"limits-set", "nesting-guard-off", "tail-bound-off+alloc-cap", "wide-limits"}[variant%4])
	w.SetAdd("limit_sweep_limits", limit)
	for _, n := range sh.wrappers {
		w.SetAdd("limit_sweep_level_forms", n)
	}
	w.SetAdd("limit_sweep_level_mixes", strings.Join(sh.kinds, "+"))
	w.Count("limit_sweep_shapes", 1)
	if sh.tailOnly {
		w.Count("limit_sweep_tail_loop_shapes", 1)
	}

	bases := c05SweepBases[limit]
	base := fw.Pick(r, bases)
	if w.Tier == "thorough" && limit == "physical-height" && r.Chance(1, 40) {
		base = fw.Pick(r, []int{500, 1000, 3000})
	}
	limits := make([]int, c05SweepWidth)
	for k := range limits {
		limits[k] = base + k
	}
	if r.Chance(1, 3) {
		fw.Shuffle(r, limits)
	}
	probeProgram := "(list " + c05ProbeProgram + sh.probe + ")"
	var history []string
	history = append(history, "definitions (sweep-defs):\n"+sh.defs)
	w.Logf("%s", history[0])
	before0 := c05Snapshot(main)
	if before0.stack != 0 || before0.nest != 0 || before0.depth != 0 || before0.cond != 0 {
		w.Violation("dirty-after-prelude", fmt.Sprintf("%+v", before0), "")
		return
	}
	for step, lim := range limits {
		entry := fw.Pick(r, c05Entries)
		n := 400
		if lim+c05SweepWidth+100 > n {
			n = lim + c05SweepWidth + 100
		}
		if limit == "macro-depth" {
			n = r.Intn(9)
		}
		faultForm, surround := c05SweepFault(r, n)
		neff := r.Intn(3)
		pos := r.Intn(neff + 1)
		var mainParts, twinParts []string
		tags := make([]string, neff)
		for k := 0; k < neff; k++ {
			tags[k] = fmt.Sprintf("w%d-e%d", step, k)
			m, t := c05Effect(r, tags[k])
			mainParts = append(mainParts, m)
			twinParts = append(twinParts, t)
		}
		var seq []string
		for k := 0; k <= neff; k++ {
			if k == pos {
				seq = append(seq, faultForm)
			}
			if k < neff {
				seq = append(seq, mainParts[k])
			}
		}
		body := strings.Join(seq, "\n")
		key := entry + "/limit-sweep-" + limit

		// which frame does the physical limit refuse?  (scout: limit+1, the first frame
		// pushed at height limit+1, the failing form alone through the same entry point)
		refused := ""
		if limit == "physical-height" {
			c05SetLimit(scout.Env, limit, lim+1, opts)
			var got *lisp.CallFrame
			lisp.VerifSetHooks(&lisp.VerifHooks{Push: func(s *lisp.CallStack, height int) {
				if got == nil && height == lim+1 && len(s.Frames) == height {
					f := s.Frames[height-1]
					got = &f
				}
			}})
			c05Enter(scout, entry, faultForm, nil, r)
			lisp.VerifSetHooks(nil)
			c05RestoreLimits(scout.Env, opts)
			w.Eval(1)
			if got == nil {
				refused = "nothing"
			} else {
				refused = c05FrameKind(got.Package, got.Name)
				w.Logf("scout: limit %d refuses %s:%s (%s)", lim, got.Package, got.Name, refused)
			}
		}

		lisp.WithMaxSteps(0)(main.Env)
		c05SetLimit(main.Env, limit, lim, opts)
		before := c05Snapshot(main)
		tf, ef := main.Marks()
		v := c05Enter(main, entry, body, nil, r)
		after := c05Snapshot(main)
		c05RestoreLimits(main.Env, opts)
		w.Eval(1)
		tr := main.TranscriptOf(v, tf, ef)
		desc := fmt.Sprintf("sweep step %d entry=%s limit %s=%d failing call %s (%s) after effect %d of %d\n%s\n=> %s %s", step, entry, limit, lim, faultForm, surround, pos, neff, body, tr.Outcome(), tr.Msg)
		if refused != "" {
			desc += "\n(the frame this limit refuses first, by the scout: " + refused + ")"
		}
		history = append(history, desc)
		w.Logf("%s", desc)
		detail := func() string { return strings.Join(history, "\n---\n") }

		if bad := c05Dirty(before, after); bad != "" {
			w.Violation("dirty-runtime:"+c05DirtyClass(bad)+":"+key, fmt.Sprintf("%s (entry %s, limit %s=%d, levels hold %s, refused frame: %s)", bad, entry, limit, lim, strings.Join(sh.kinds, "+"), refused), detail())
			return
		}
		if tr.Panic {
			w.Violation("unexpected-internal-panic:"+key, "internal-panic without an injected host panic: "+tr.Msg, detail())
			return
		}
		// completed effects: a prefix; with an error, the effect whose probe did not fire
		// may have completed (the push of the probe call itself can be what is refused)
		fired := 0
		seen := map[string]bool{}
		for _, p := range tr.Trace {
			seen[p.Tag] = true
		}
		for k, tg := range tags {
			if seen[tg] {
				if k != fired {
					w.Violation("effect-order:"+key, "a later effect completed although an earlier one did not", detail())
					return
				}
				fired++
			}
		}
		lo, hi := neff, neff
		if tr.IsErr {
			lo, hi = fired, fired+1
			if hi > neff {
				hi = neff
			}
		} else if fired != neff {
			w.Violation("effects-lost:"+key, fmt.Sprintf("the evaluation returned a value but only %d of its %d effects completed", fired, neff), detail())
			return
		}

		// where was the error raised?  (labels the evidence only)
		if refused == "" {
			refused = "no-error"
			if tr.IsErr {
				refused = "unlocated"
				if loc, ok := v.Source(); ok {
					var src string
					switch loc.File {
					case "sweep-defs":
						src = sh.defs
					case "c05":
						src = body
					}
					if h := c05HeadAt(src, loc.Pos); h != "" {
						switch h {
						case "(":
							refused = "at-lambda-call"
						case "atom":
							refused = "at-atom"
						default:
							pkg := ""
							if strings.HasPrefix(h, "sw-f") || h == "sw-id" || h == "sw-add" || h == "run-thunk" {
								pkg = "user"
							}
							refused = "at-" + c05FrameKind(pkg, h)
						}
					}
				}
			}
		}
		out := "value"
		if tr.IsErr {
			out = tr.Cond
		}

		pm := main.Run("probe", probeProgram)
		w.Eval(1)
		matched := false
		var pt rt.Transcript
		for k := 0; k <= hi; k++ {
			if k > 0 {
				if tv := twin.Env.LoadString("twin", twinParts[k-1]); tv.Type == lisp.LError {
					w.Violation("twin-replay-failed", "replaying an effect failed in the twin: "+tv.String(), detail())
					return
				}
			}
			if k < lo {
				continue
			}
			pt = twin.Run("probe", probeProgram)
			w.Eval(1)
			if pm.Outcome() == pt.Outcome() {
				matched = true
				break
			}
		}
		if !matched {
			w.Violation("later-evaluation-differs:"+key,
				fmt.Sprintf("after entry %s failed by the %s limit %d the runtime is not in the state of a clean stop (no prefix of the step's effects in [%d,%d] explains it): %s vs twin %s", entry, limit, lim, lo, hi, pm.Outcome()+" "+pm.Msg, pt.Outcome()),
				detail())
			return
		}
		if s := c05Snapshot(main); s.stack != 0 || s.nest != 0 || s.depth != 0 || s.cond != 0 {
			w.Violation("dirty-runtime:after-probe:"+key, fmt.Sprintf("%+v", s), detail())
			return
		}
		w.CoverKey(fmt.Sprintf("sweep|%s|%s|%s|%s|%s", limit, entry, surround, refused, out))
		w.SetAdd("conditions_seen", out)
		w.SetAdd("limit_sweep_outcomes", limit+": "+out)
		w.SetAdd("limit_sweep_refused", limit+": "+refused)
		w.SetAdd("limit_sweep_surroundings", surround)
		w.Count("limit_sweep_evaluations", 1)
		w.Count("limit_sweep_evaluations:"+limit, 1)
		if tr.IsErr {
			w.Count("limit_sweep_failed_evaluations:"+limit, 1)
		}
		w.Count("limit_sweep_refused:"+limit+":"+refused, 1)
		w.Max("limit_sweep_max_limit:"+limit, int64(lim))
		w.Count("invariant_checks", 2)
	}
	if w.WantSample() {
		w.Sample(map[string]any{"limit_sweep": limit, "limits": limits, "definitions": sh.defs, "first_steps": history[1:3]})
	}
}

// c05Driver makes the run inconclusive when the limit-sweep family did not
// produce what it is there for: every limit swept, and the physical limit seen
// refusing a function frame, an operator frame and a macro frame.
func c05Driver(d *fw.D) {
	for _, limit := range []string{"physical-height", "logical-height", "eval-nesting", "tail-iterations", "macro-depth"} {
		if d.Counters["limit_sweep_failed_evaluations:"+limit] == 0 {
			d.Inconclusive("limit sweep: no evaluation failed under a swept " + limit + " limit")
		}
	}
	for _, k := range []string{"user-function", "builtin-function", "operator", "user-macro", "builtin-macro", "lambda"} {
		if d.Counters["limit_sweep_refused:physical-height:"+k] == 0 {
			d.Inconclusive("limit sweep: the physical height limit was never seen refusing a frame of kind " + k)
		}
	}
}
