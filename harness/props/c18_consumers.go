package props

import (
	"fmt"

	"github.com/luthersystems/elps/lisp"

	"verifharness/fw"
	"verifharness/refint"
	"verifharness/rt"
	"verifharness/sx"
)

// C18, family "one error, several consumers".
//
// The property: "a handler or the embedding host receives location and trace
// unchanged, also after rethrow"; docs/lang.md, "Rethrowing Errors": rethrow
// "re-raises the current error being handled, preserving the original stack trace
// and condition data".  (rethrow) hands on the error OBJECT the running handler was
// called with, so one error can reach several consumers one after the other while
// it is still being handled: an ignore-errors form that swallows it (a best-effort
// step of the handler that gives up by rethrowing), a nested handler-bind whose
// handler is called with it, a host function that keeps it (verif:capture, the
// embedder's logging hook), the handler's own final (rethrow), outer handlers,
// the host.  None of them owns the error: whatever one consumer does when it is
// done with it, the next one - and one that kept it and looks again later -
// finds the location and the trace the error was raised with.
//
// The family "handler work before rethrow" let handlers rethrow into ignore-errors
// and into catching handlers, but always a NEW error raised and handled inside the
// work; the error being handled itself only ever met the one final (rethrow).
//
// Dimensions, one class of each per program (they name the finding key):
//
//	consume   what the handler does with the error it is handling before the terminal
//	between   other errors raised and ended between that and the terminal (their
//	          traces are taken under more / fewer frames than the handled error's)
//	terminal  how the error goes on: rethrown to the host, through several layers
//	          of such handlers, to an outer handler that keeps it and recovers, or
//	          out into an ignore-errors form (kept by the handler before)
//
// Oracle: unchanged for the error the host receives (c18Judge: location, trace
// frame by frame, what elimination may remove).  New observation: every error a
// handler kept with (verif:capture) is read again AFTER the load returned and
// judged in the same way against the model's error object captured at the same
// point (keys prefixed captured-).

var c18CNConsume = []string{
	"none",                         // control
	"ignored-rethrow",              // (ignore-errors (rethrow))
	"ignored-rethrow-in-callee",    // (ignore-errors (cn-giveup n)): a function, n calls deep, gives up by (rethrow)
	"ignored-rethrow-after-work",   // (ignore-errors (cn-note ..) (progn 0 (rethrow)) 'unreached)
	"ignored-rethrow-repeated",     // two to four times
	"caught-rethrow",               // (handler-bind ((condition (lambda .. 'caught))) (rethrow)): a nested handler is called with the same error
	"rethrown-twice-ignored",       // (ignore-errors (handler-bind ((condition (lambda .. (rethrow)))) (rethrow)))
	"captured",                     // (verif:capture)
	"captured-and-ignored-rethrow", // both, in either order
}

var c18CNBetween = []string{
	"nothing",
	"error-swallowed",              // (ignore-errors (cdr 5))
	"error-swallowed-deeper",       // (ignore-errors (cn-deep n k)): raised under n more frames
	"errors-swallowed-many",        // three to ten of those (more than any bounded pool would hold)
	"error-handled",                // (handler-bind ((condition (lambda .. 'handled))) (cn-deep n k))
	"error-captured-and-swallowed", // another error is kept by its handler, rethrown and swallowed
}

var c18CNTerms = []string{
	"rethrow",                // the handler ends in (rethrow)
	"rethrow-through-layers", // several handler-bind layers around one form, each consuming and rethrowing
	"outer-handler-captures", // an outer handler keeps the rethrown error and recovers: the program goes on
	"swallowed-outside",      // the handler keeps the error and rethrows it out into an ignore-errors form: the program goes on
}

type c18CN struct {
	r       *fw.RNG
	consume string
	between string
	term    string
	depth   int
	used    map[string]bool
}

// suffix names the class in finding keys: what the handler did with the error it was
// handling and how the error went on (the between class is named in the detail).
func (c *c18CN) suffix() string {
	return ":consumers=" + c.consume + "/" + c.term
}

func (c *c18CN) capture() *sx.N { return sx.Call("verif:capture") }

func (c *c18CN) ignoredRethrow() *sx.N {
	switch c.r.Intn(3) {
	case 0:
		return sx.Call("ignore-errors", sx.Call("progn", sx.I(0), sx.Call("rethrow")))
	case 1:
		return sx.Call("ignore-errors", sx.Call("let", sx.L(sx.L(sx.Y("cn-k"), sx.I(1))), sx.Call("rethrow")))
	}
	return sx.Call("ignore-errors", sx.Call("rethrow"))
}

func (c *c18CN) consumeForms() []*sx.N {
	switch c.consume {
	case "none":
		return nil
	case "ignored-rethrow":
		return []*sx.N{c.ignoredRethrow()}
	case "ignored-rethrow-in-callee":
		c.used["cn-giveup"] = true
		return []*sx.N{sx.Call("ignore-errors", sx.Call("cn-giveup", sx.I(int64(c.r.Range(0, 5)))))}
	case "ignored-rethrow-after-work":
		c.used["cn-note"] = true
		return []*sx.N{sx.Call("ignore-errors", sx.Call("cn-note", sx.Y("hw-c")), sx.Call("progn", sx.I(0), sx.Call("rethrow")), sx.QY("cn-unreached"))}
	case "ignored-rethrow-repeated":
		var out []*sx.N
		for i, n := 0, c.r.Range(2, 4); i < n; i++ {
			out = append(out, c.ignoredRethrow())
		}
		return out
	case "caught-rethrow":
		return []*sx.N{c18HWBind("condition", c18HWLambda(sx.QY("cn-caught")), sx.Call("rethrow"))}
	case "rethrown-twice-ignored":
		return []*sx.N{sx.Call("ignore-errors", c18HWBind("condition", c18HWLambda(sx.Call("rethrow")), sx.Call("rethrow")))}
	case "captured":
		return []*sx.N{c.capture()}
	case "captured-and-ignored-rethrow":
		if c.r.Bool() {
			return []*sx.N{c.capture(), c.ignoredRethrow()}
		}
		return []*sx.N{c.ignoredRethrow(), c.capture()}
	}
	panic("c18CN: unknown consume class " + c.consume)
}

func (c *c18CN) deep() *sx.N {
	c.used["cn-deep"] = true
	return sx.Call("cn-deep", sx.I(int64(c.r.Range(0, 7))), sx.I(int64(c.r.Intn(3))))
}

func (c *c18CN) swallowedOne() *sx.N {
	if c.r.Chance(1, 3) {
		return sx.Call("ignore-errors", sx.Call("cdr", sx.I(5)))
	}
	return sx.Call("ignore-errors", c.deep())
}

func (c *c18CN) betweenForms() []*sx.N {
	switch c.between {
	case "nothing":
		return nil
	case "error-swallowed":
		return []*sx.N{sx.Call("ignore-errors", sx.Call("cdr", sx.I(5)))}
	case "error-swallowed-deeper":
		return []*sx.N{sx.Call("ignore-errors", c.deep())}
	case "errors-swallowed-many":
		var out []*sx.N
		for i, n := 0, c.r.Range(3, 10); i < n; i++ {
			out = append(out, c.swallowedOne())
		}
		return out
	case "error-handled":
		return []*sx.N{c18HWBind("condition", c18HWLambda(sx.QY("cn-handled")), c.deep())}
	case "error-captured-and-swallowed":
		out := []*sx.N{sx.Call("ignore-errors", c18HWBind("condition", c18HWLambda(c.capture(), sx.Call("rethrow")), c.deep()))}
		for i, n := 0, c.r.Range(0, 3); i < n; i++ {
			out = append(out, c.swallowedOne())
		}
		return out
	}
	panic("c18CN: unknown between class " + c.between)
}

// steps returns what a handler does before its terminal.
func (c *c18CN) steps(mustCapture bool) []*sx.N {
	out := c.consumeForms()
	out = append(out, c.betweenForms()...)
	if c.consume != "none" && c.r.Chance(1, 3) {
		out = append(out, c.consumeForms()...)
	}
	if mustCapture {
		// the handler keeps the error: before or after everything else
		if c.r.Bool() {
			out = append([]*sx.N{c.capture()}, out...)
		} else {
			out = append(out, c.capture())
		}
	}
	return out
}

func (c *c18CN) rethrowing(mustCapture bool) *sx.N {
	return c18HWLambda(append(c.steps(mustCapture), sx.Call("rethrow"))...)
}

func (c *c18CN) wrap(body ...*sx.N) *sx.N {
	switch c.term {
	case "rethrow-through-layers":
		f := c18HWBind("condition", c.rethrowing(false), body...)
		for i := 0; i < c.depth; i++ {
			f = c18HWBind("condition", c.rethrowing(false), f)
		}
		return f
	case "outer-handler-captures":
		inner := c18HWBind("condition", c.rethrowing(false), body...)
		outer := []*sx.N{c.capture()}
		if c.r.Bool() {
			outer = append(outer, c.betweenForms()...)
		}
		return c18HWBind("condition", c18HWLambda(append(outer, sx.QY("cn-recovered"))...), inner)
	case "swallowed-outside":
		return sx.Call("ignore-errors", c18HWBind("condition", c.rethrowing(true), body...))
	}
	return c18HWBind("condition", c.rethrowing(false), body...)
}

func (c *c18CN) helpers() []*sx.N {
	var out []*sx.N
	if c.used["cn-giveup"] {
		// n calls deep, none of them a tail call, then gives up
		out = append(out, sx.Call("defun", sx.Y("cn-giveup"), sx.L(sx.Y("cn-n")),
			sx.Call("if", sx.Call("<=", sx.Y("cn-n"), sx.I(0)), sx.Call("rethrow"),
				sx.Call("identity", sx.Call("cn-giveup", sx.Call("-", sx.Y("cn-n"), sx.I(1)))))))
	}
	if c.used["cn-note"] {
		out = append(out, sx.Call("defun", sx.Y("cn-note"), sx.L(sx.Y("cn-x")), sx.Call("list", sx.QY("cn-noted"), sx.Y("cn-x"))))
	}
	if c.used["cn-deep"] {
		// fails under n more calls: type error, user error or unbound symbol
		out = append(out, sx.Call("defun", sx.Y("cn-deep"), sx.L(sx.Y("cn-n"), sx.Y("cn-k")),
			sx.Call("if", sx.Call("<=", sx.Y("cn-n"), sx.I(0)),
				sx.Call("cond",
					sx.L(sx.Call("=", sx.Y("cn-k"), sx.I(0)), sx.Call("cdr", sx.Y("cn-n"))),
					sx.L(sx.Call("=", sx.Y("cn-k"), sx.I(1)), sx.Call("error", sx.QY("cn-other"), sx.S("raised in between"), sx.Y("cn-k"))),
					sx.L(sx.Y("else"), sx.Y("cn-no-such-symbol"))),
				sx.Call("identity", sx.Call("cn-deep", sx.Call("-", sx.Y("cn-n"), sx.I(1)), sx.Y("cn-k"))))))
	}
	return out
}

func c18CNCases(tier string) int { return pick(tier, 1500, 50000) }

// c18ConsumersProgram builds program number k of the family (k counts from 0):
// derived, like the family handler-work, from a failing program of the base
// families, so the handled error is raised at every position class those reach.
func c18ConsumersProgram(w *fw.W, idx, k int) ([]*sx.N, string, map[string]bool, *c18CN) {
	forms, label, feats := c18BaseProgram(w, idx)
	r := w.RNG(idx, "consumers")
	c := &c18CN{r: r, used: map[string]bool{}}
	// the full product consume x between x terminal, enumerated (period 216)
	c.consume = c18CNConsume[k%len(c18CNConsume)]
	c.between = c18CNBetween[(k/len(c18CNConsume))%len(c18CNBetween)]
	c.term = c18CNTerms[(k/(len(c18CNConsume)*len(c18CNBetween)))%len(c18CNTerms)]
	c.depth = r.Range(1, 3)
	var out []*sx.N
	for _, f := range forms {
		head := f.Head()
		switch {
		case head == "defun" && len(f.L) >= 4 && r.Chance(1, 4):
			body := f.L[3:]
			keep := f.L[:3:3]
			if len(body) > 1 && body[0].K == sx.Str {
				keep, body = f.L[:4:4], body[1:]
			}
			out = append(out, sx.L(append(keep, c.wrap(body...))...))
		case c18HWDefiners[head]:
			out = append(out, f)
		case r.Chance(5, 6):
			out = append(out, c.wrap(f))
		default:
			out = append(out, f)
		}
	}
	if c.term == "outer-handler-captures" || c.term == "swallowed-outside" {
		// the program went on after its errors ended; very often it fails at last,
		// with an error raised after all of them
		if r.Chance(2, 3) {
			out = append(out, sx.Call("list", sx.I(1), c.deep()))
		}
	}
	out = append(c.helpers(), out...)
	nf := map[string]bool{"consumers": true}
	for f := range feats {
		nf[f] = true
	}
	return out, "consumers/" + label, nf, c
}

func c18CNModel(forms []*sx.N, q refint.Quirks) (in *refint.Interp, merr *refint.Err) {
	in = refint.New()
	in.Quirks = q
	defer func() {
		if rec := recover(); rec != nil {
			merr = &refint.Err{Cond: fmt.Sprint("<model panic: ", rec, ">"), Unsure: true}
		}
	}()
	_, merr = in.LoadForms(forms)
	return in, merr
}

func c18CNSameSite(a, b *refint.Err) bool {
	if (a == nil) != (b == nil) {
		return false
	}
	return a == nil || (a.Site == b.Site && len(a.Stack) == len(b.Stack) && a.Cond == b.Cond)
}

// c18ConsumersRun runs one program of the family.  Unlike the other families the
// program need not end in an error: the errors its handlers kept are judged too.
func c18ConsumersRun(w *fw.W, idx, k int) {
	forms, label, _, cn := c18ConsumersProgram(w, idx, k)
	src := sx.Render(forms, c01Layout(w.RNG(idx, "layout")))
	key := func(s string) string { return s + cn.suffix() }
	w.Count("consumers_programs", 1)

	in, merr := c18CNModel(forms, refint.Quirks{})
	if merr != nil && (merr.Fuel || merr.Unsure) {
		w.Count("not_failing_or_declined", 1)
		return
	}
	for _, e := range in.Captured {
		if e == nil || e.Fuel || e.Unsure {
			w.Count("not_failing_or_declined", 1)
			return
		}
	}
	if merr == nil && len(in.Captured) == 0 {
		w.Count("consumers_nothing_to_judge", 1)
		return
	}
	// the let* shared-scope deviation (C01's known finding) must not change what fails
	inq, qerr := c18CNModel(forms, refint.Quirks{LetStarSharedScope: true})
	same := c18CNSameSite(merr, qerr) && len(inq.Captured) == len(in.Captured)
	for i := 0; same && i < len(in.Captured); i++ {
		same = c18CNSameSite(in.Captured[i], inq.Captured[i])
	}
	if !same {
		w.Count("skipped_let*_shared_scope_changes_the_failure", 1)
		return
	}

	offOpts := rt.Opts{MaxSteps: 400_000, Debugger: true, MaxPhys: 4000}
	onOpts := rt.Opts{MaxSteps: 400_000, MaxPhys: 4000}
	off := rt.New(offOpts)
	voff := off.Env.LoadString("c18", src)
	c18ElideLog = map[c18Elided]bool{}
	on := rt.New(onOpts)
	von := on.Env.LoadString("c18", src)
	elided := c18ElideLog
	c18ElideLog = nil
	w.Eval(2)

	// outcome disagreements are C01's (and C06's) business: same end, same errors kept
	agree := len(off.Captured) == len(in.Captured) && len(on.Captured) == len(in.Captured)
	if merr == nil {
		agree = agree && voff.Type != lisp.LError && von.Type != lisp.LError
	} else {
		agree = agree && voff.Type == lisp.LError && von.Type == lisp.LError && voff.Str == merr.Cond && von.Str == merr.Cond
	}
	for i := 0; agree && i < len(in.Captured); i++ {
		a, b := off.Captured[i], on.Captured[i]
		agree = a != nil && b != nil && a.Type == lisp.LError && b.Type == lisp.LError && a.Str == in.Captured[i].Cond && b.Str == in.Captured[i].Cond
	}
	if !agree {
		w.Count("outcome_disagrees_with_model", 1)
		return
	}

	describe := func(what string, a, b *lisp.LVal, m *refint.Err) string {
		return fmt.Sprintf("%s\n  real (elimination off): %s\n    stack %s\n  real (elimination on): %s\n    stack %s\n  model: %v at %s\n    chain %s (rethrown %d times, swallowed by ignore-errors %d times)",
			what, a, c18ChainString(c18RealChain(a)), b, c18ChainString(c18RealChain(b)), m, c01Site(m), c18ModelChain(m), m.Rethrown, m.Swallowed)
	}
	all := func() string {
		s := fmt.Sprintf("handlers of this program: consume=%s, between=%s, terminal=%s\nsource:\n%s\n", cn.consume, cn.between, cn.term, src)
		if merr != nil {
			s += describe("the error the host receives", voff, von, merr) + "\n"
		} else {
			s += "the load succeeds\n"
		}
		for i, m := range in.Captured {
			s += describe(fmt.Sprintf("error kept by (verif:capture) number %d, read after the load returned", i+1), off.Captured[i], on.Captured[i], m) + "\n"
		}
		return s
	}
	w.Logf("%s", all())

	// ---- the error the host receives -----------------------------------------------------
	if merr != nil {
		if merr.Class == "user" {
			if d := c18DataDiff(voff, merr); d != "" && merr.Rethrown > 0 {
				w.Violation(key("rethrown-data-changed"), "after rethrow "+d, all())
				return
			}
		}
		real, _, _, ok := c18Judge(w, key, all, src, voff, von, merr, elided)
		if !ok {
			return
		}
		w.Count("consumers_host_errors_compared", 1)
		w.Count("frames_compared", int64(len(real)))
		if merr.Rethrown > 0 {
			w.Count("rethrown_errors_compared", 1)
			w.Count("consumers_host_errors_compared:rethrown", 1)
		}
		if merr.Swallowed > 0 {
			// the very error the host receives had been swallowed by an ignore-errors form
			w.Count("consumers_host_errors_compared:swallowed_on_the_way", 1)
		}
		w.CoverKey(fmt.Sprintf("consumers|host|%s|%s|%s|%s|rethrown=%d|swallowed=%d|depth=%d", cn.consume, cn.between, cn.term, merr.Class, min(merr.Rethrown, 4), min(merr.Swallowed, 3), len(real)/3))
	}

	// ---- the errors handlers kept, read again now ---------------------------------------------
	seen := map[*refint.Err]bool{}
	for i, m := range in.Captured {
		ckey := func(s string) string { return key("captured-" + s) }
		what := fmt.Sprintf("error kept by (verif:capture) number %d of %d, read after the load returned: ", i+1, len(in.Captured))
		cdetail := func() string { return what + "\n" + all() }
		real, _, _, ok := c18Judge(w, ckey, cdetail, src, off.Captured[i], on.Captured[i], m, elided)
		if !ok {
			return
		}
		w.Count("consumers_captured_errors_compared", 1)
		w.Count("frames_compared", int64(len(real)))
		if m.Swallowed > 0 {
			w.Count("consumers_captured_errors_compared:swallowed_later_or_before", 1)
		}
		if m == merr {
			w.Count("consumers_captured_errors_compared:same_as_host_error", 1)
		}
		if seen[m] {
			w.Count("consumers_captured_errors_compared:kept_more_than_once", 1)
		}
		seen[m] = true
		w.CoverKey(fmt.Sprintf("consumers|captured|%s|%s|%s|%s|rethrown=%d|swallowed=%d|depth=%d", cn.consume, cn.between, cn.term, m.Class, min(m.Rethrown, 4), min(m.Swallowed, 3), len(real)/3))
	}
	w.Count("consumers_programs_compared", 1)
	w.SetAdd("consumers_consume_classes_compared", cn.consume)
	w.SetAdd("consumers_between_classes_compared", cn.between)
	w.SetAdd("consumers_terminals_compared", cn.term)
	w.SetAdd("consumers_classes_compared", cn.consume+"/"+cn.between+"/"+cn.term)
	w.SetAdd("consumers_base_families", label)
	w.Max("consumers_max_errors_kept", int64(len(in.Captured)))
	if w.WantSample() && len(src) < 900 && len(in.Captured) > 0 {
		w.Sample(map[string]any{"source": src, "errors_kept": len(in.Captured), "host_error": fmt.Sprint(merr)})
	}
}

// c18ConsumersDriver: the family must have produced judged programs of every class
// of every dimension, errors kept by handlers that were read again, and host errors
// that an ignore-errors form had swallowed on their way; otherwise the run says
// nothing about them.
func c18ConsumersDriver(d *fw.D) {
	if got, want := d.Counters["consumers_programs_compared"], int64(c18CNCases(d.Tier)/3); got < want {
		d.Inconclusive(fmt.Sprintf("family consumers: %d programs were compared with the model, at least %d expected", got, want))
	}
	for _, dim := range []struct {
		set  string
		want []string
	}{{"consumers_consume_classes_compared", c18CNConsume}, {"consumers_between_classes_compared", c18CNBetween}, {"consumers_terminals_compared", c18CNTerms}} {
		for _, c := range dim.want {
			if !d.Sets[dim.set][c] {
				d.Inconclusive("family consumers: no judged program of class " + c + " (" + dim.set + ")")
			}
		}
	}
	if got, want := len(d.Sets["consumers_classes_compared"]), len(c18CNConsume)*len(c18CNBetween)*len(c18CNTerms)*3/4; got < want {
		d.Inconclusive(fmt.Sprintf("family consumers: %d distinct consume/between/terminal classes were judged, at least %d expected", got, want))
	}
	for _, c := range []string{"consumers_host_errors_compared:swallowed_on_the_way", "consumers_captured_errors_compared", "consumers_captured_errors_compared:swallowed_later_or_before", "consumers_captured_errors_compared:same_as_host_error"} {
		if d.Counters[c] < 20 {
			d.Inconclusive(fmt.Sprintf("family consumers: %s = %d, at least 20 expected", c, d.Counters[c]))
		}
	}
}
